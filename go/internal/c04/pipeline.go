package c04

// The statement itself, on the implementation: for every release, an image of
// that release (the repository's fixture os-release + a generated package
// database) is scanned by the REAL scanners and coalesced by the REAL
// coalescer; the advisories of every release, produced by the REAL updater
// factories / Fetch / Parse from the in-process world, are stored; the REAL
// internal/matcher.Match with the default matcher set runs over a store whose
// Get evaluates the REAL buildGetQuery text.  Expected: the vulnerable
// package gets exactly the advisory of its release, the fixed package none.

import (
	"context"
	"fmt"
	"os"
	"sort"
	"strconv"
	"strings"
	"time"

	"github.com/quay/claircore"
	"github.com/quay/claircore/apk"
	"github.com/quay/claircore/aws"
	"github.com/quay/claircore/dpkg"
	"github.com/quay/claircore/gobin"
	"github.com/quay/claircore/indexer"
	"github.com/quay/claircore/internal/matcher"
	"github.com/quay/claircore/libvuln/driver"
	"github.com/quay/claircore/linux"
	"github.com/quay/claircore/nodejs"
	"github.com/quay/claircore/python"
	"github.com/quay/claircore/ruby"
	"github.com/quay/claircore/verifharness/internal/hx"
)

// pkgPair: a vulnerable and a fixed package of one image.
type pkgPair struct {
	vulnBin, vulnSrc   string // binary name, source name of the vulnerable package
	fixedBin, fixedSrc string
	vulnVer, fixedVer  string // installed versions
	fixIn              string // the advisories' fixed-in version
}

func (h *harness) genPair(style string) pkgPair {
	rn := h.rnd
	word := func() string {
		return rn.Pick("lib", "py", "go", "open", "x") + rn.Pick("ssl", "zip", "curl", "xml", "yaml") + strconv.Itoa(rn.Intn(90)+10)
	}
	a, b := word(), word()+"f"
	p := pkgPair{vulnBin: a + "-bin", vulnSrc: a, fixedBin: b + "-bin", fixedSrc: b}
	maj := 1 + rn.Intn(5)
	switch style {
	case "apk":
		p.fixIn = fmt.Sprintf("%d.%d.0-r%d", maj+1, rn.Intn(9), rn.Intn(4))
		p.vulnVer = fmt.Sprintf("%d.%d.%d-r0", maj, rn.Intn(9), rn.Intn(9))
		p.fixedVer = rn.Pick(p.fixIn, fmt.Sprintf("%d.0.0-r0", maj+2))
	case "deb":
		p.fixIn = fmt.Sprintf("%d.%d-%d", maj+1, rn.Intn(9), 1+rn.Intn(4))
		p.vulnVer = fmt.Sprintf("%d.%d-%d", maj, rn.Intn(9), 1+rn.Intn(4))
		p.fixedVer = rn.Pick(p.fixIn, fmt.Sprintf("%d.0-1", maj+2))
	case "rpm":
		p.fixIn = fmt.Sprintf("%d.%d-%d.el", maj+1, rn.Intn(9), 1+rn.Intn(4))
		p.vulnVer = fmt.Sprintf("%d.%d-%d.el", maj, rn.Intn(9), 1+rn.Intn(4))
		p.fixedVer = rn.Pick(p.fixIn, fmt.Sprintf("%d.0-1.el", maj+2))
	default: // semantic-ish versions for the language ecosystems
		p.fixIn = fmt.Sprintf("%d.%d.0", maj+1, rn.Intn(9))
		p.vulnVer = fmt.Sprintf("%d.%d.%d", maj, rn.Intn(9), rn.Intn(9))
		p.fixedVer = rn.Pick(p.fixIn, fmt.Sprintf("%d.0.0", maj+2))
	}
	return p
}

func apkDB(p pkgPair) []byte {
	return []byte(fmt.Sprintf("C:Q1abc=\nP:%s\nV:%s\nA:x86_64\nS:1\nI:2\nT:t\nU:u\nL:MIT\no:%s\nm:m\nt:1\nc:abc\n\nP:%s\nV:%s\nA:x86_64\no:%s\n\n",
		p.vulnBin, p.vulnVer, p.vulnSrc, p.fixedBin, p.fixedVer, p.fixedSrc))
}

func dpkgStatus(p pkgPair, withSource bool) []byte {
	st := func(bin, src, ver string) string {
		s := "Package: " + bin + "\nStatus: install ok installed\nPriority: optional\nSection: libs\nInstalled-Size: 10\nMaintainer: x <x@example.org>\nArchitecture: amd64\n"
		if withSource {
			s += "Source: " + src + "\n"
		}
		return s + "Version: " + ver + "\nDescription: generated\n\n"
	}
	return []byte(st(p.vulnBin, p.vulnSrc, p.vulnVer) + st(p.fixedBin, p.fixedSrc, p.fixedVer))
}

// indexImage runs scanners on one layer and coalesces as the indexer does
// (ids assigned as the store would; a nil Source becomes the zero package as
// in datastore/postgres; package scanners with a default repository add it
// when they found packages, as indexer/layerscanner.go does).
func indexImage(ctx context.Context, files map[string][]byte, dss []indexer.DistributionScanner, pss []indexer.PackageScanner, co indexer.Coalescer) (*claircore.IndexReport, error) {
	l, err := mkLayer(ctx, files)
	if err != nil {
		return nil, err
	}
	defer l.Close()
	la := &indexer.LayerArtifacts{Hash: l.Hash}
	for _, ds := range dss {
		d, err := ds.Scan(ctx, l)
		if err != nil {
			return nil, fmt.Errorf("%s: %w", ds.Name(), err)
		}
		la.Dist = append(la.Dist, d...)
	}
	for _, ps := range pss {
		p, err := ps.Scan(ctx, l)
		if err != nil {
			return nil, fmt.Errorf("%s: %w", ps.Name(), err)
		}
		la.Pkgs = append(la.Pkgs, p...)
		if dr, ok := ps.(indexer.DefaultRepoScanner); ok && len(p) > 0 {
			la.Repos = append(la.Repos, dr.DefaultRepository(ctx))
		}
	}
	n := 0
	id := func() string { n++; return strconv.Itoa(n) }
	for _, d := range la.Dist {
		cp := *d // scanners may hand out shared values
		cp.ID = id()
		*d = cp
	}
	la.Dist = dedupeDists(la.Dist)
	for _, p := range la.Pkgs {
		p.ID = id()
		if p.Source == nil {
			p.Source = &claircore.Package{}
		} else if p.Source.ID == "" {
			p.Source.ID = id()
		}
	}
	for i, rp := range la.Repos {
		cp := *rp
		cp.ID = id()
		la.Repos[i] = &cp
	}
	return co.Coalesce(ctx, []*indexer.LayerArtifacts{la})
}

func dedupeDists(ds []*claircore.Distribution) []*claircore.Distribution {
	return ds
}

func defaultMatchers(ctx context.Context) []driver.Matcher {
	ms, _ := realMatchers(ctx)
	var out []driver.Matcher
	var names []string
	for n := range ms {
		if n == "nodejs" {
			continue // not in matchers/defaults
		}
		names = append(names, n)
	}
	sort.Strings(names)
	for _, n := range names {
		out = append(out, ms[n])
	}
	return out
}

// reportedFor: advisory names reported for the package with this name.
func reportedFor(vr *claircore.VulnerabilityReport, pkgName string) []string {
	var out []string
	for id, p := range vr.Packages {
		if p.Name != pkgName {
			continue
		}
		for _, vid := range vr.PackageVulnerabilities[id] {
			if v := vr.Vulnerabilities[vid]; v != nil {
				out = append(out, v.Name)
			}
		}
	}
	sort.Strings(out)
	return out
}

func (h *harness) checkImage(eco, rel string, ir *claircore.IndexReport, st *memStore, p pkgPair, want ...string) {
	r := h.r
	key := fmt.Sprintf("pipeline %s release=%s vuln=%s@%s fixed=%s@%s fixIn=%s", eco, rel, p.vulnBin, p.vulnVer, p.fixedBin, p.fixedVer, p.fixIn)
	r.Case(key, true)
	r.Count("pipeline:" + eco)
	var vr *claircore.VulnerabilityReport
	out := hx.Guard(func() string {
		var err error
		vr, err = matcher.Match(h.ctx, ir, defaultMatchers(h.ctx), st)
		if err != nil {
			return "err:" + err.Error()
		}
		return "ok"
	})
	if st.sqlErr != nil {
		r.Fail("", "the SQL text of buildGetQuery is no longer of the known shape: "+st.sqlErr.Error())
		return
	}
	if out != "ok" {
		r.Fail("", key+": matching failed: "+out)
		return
	}
	have := map[string]bool{}
	for _, pk := range ir.Packages {
		have[pk.Name] = true
	}
	if !have[p.vulnBin] || !have[p.fixedBin] {
		r.Fail("", key+": the package scanner did not find the generated packages in the image")
		return
	}
	gotV := reportedFor(vr, p.vulnBin)
	gotF := reportedFor(vr, p.fixedBin)
	want = expandWants(want)
	if (eco == "debian" || eco == "debianDistroless") && rel == strconv.Itoa(debianWorldReleases[0].major) {
		want = append(want, "ADV-debian-shared")
	}
	sort.Strings(want)
	if strings.Join(gotV, " ") != strings.Join(want, " ") {
		r.Fail("", fmt.Sprintf("%s: the vulnerable package is reported %v, expected exactly %v (distribution in the report: %s)", key, gotV, want, distsOf(ir)))
	}
	if len(gotF) != 0 {
		r.Fail("", fmt.Sprintf("%s: the fixed package is reported %v, expected nothing", key, gotF))
	}
}

func distsOf(ir *claircore.IndexReport) string {
	var out []string
	for _, d := range ir.Distributions {
		out = append(out, fmt.Sprintf("%+v", fromDist(d)))
	}
	sort.Strings(out)
	return strings.Join(out, "; ")
}

func (h *harness) sectionPipeline() {
	r := h.r
	rounds := h.cfg.N(3, 30)
	for round := 0; round < rounds && !r.Stop(); round++ {
		ctx, cancel := context.WithTimeout(h.ctx, 3*time.Minute)
		h.pipelineRound(ctx, round)
		if ctx.Err() != nil {
			r.Fail("", "pipeline: a round did not finish within three minutes (hang)")
		}
		cancel()
	}
}

func (h *harness) pipelineRound(ctx context.Context, round int) {
	r := h.r
	w := newWorld()
	st := &memStore{}
	fail := func(what string, err error) {
		r.Fail("", fmt.Sprintf("pipeline: %s: %v", what, err))
	}
	// ---- advisories of every ecosystem and release into one store
	apkP, debP, ubP, rpmP := h.genPair("apk"), h.genPair("deb"), h.genPair("deb"), h.genPair("rpm")
	aadv := map[string][]adv{}
	for _, e := range h.fx.Dirs["alpine"] {
		aadv[e.Release] = advSet("alpine", apkP, "alpine-"+e.Release, true)
	}
	w.alpineWorld(aadv)
	if m, err := alpineRun(ctx, w); err != nil {
		fail("alpine updaters", err)
	} else {
		for _, vs := range m {
			st.add(vs...)
		}
	}
	dadv := map[string][]adv{}
	for _, rel := range debianWorldReleases {
		dadv[rel.code] = advSet("debian", debP, "debian-"+strconv.Itoa(rel.major), true)
	}
	dadv[debianWorldReleases[0].code] = append(dadv[debianWorldReleases[0].code], debianShared(debP))
	w.debianWorld(debianWorldReleases, dadv)
	if vs, err := debianRun(ctx, w); err != nil {
		fail("debian updater", err)
	} else {
		st.add(vs...)
	}
	var series []ubSeries
	uadv := map[string][]adv{}
	for _, s := range h.fx.UbuntuSeries {
		series = append(series, ubSeries{version: s[0], name: s[1], active: true})
		uadv[s[0]] = advSet("ubuntu", ubP, "ubuntu-"+s[0], false)
	}
	w.ubuntuWorld(series, uadv)
	if m, err := ubuntuRun(ctx, w); err != nil {
		fail("ubuntu updaters", err)
	} else {
		for _, vs := range m {
			st.add(vs...)
		}
	}
	padv := map[string][]adv{}
	for _, rel := range []string{"photon1", "photon2", "photon3"} {
		padv[rel] = advSet("photon", rpmP, "photon-"+rel, false)
	}
	w.photonWorld(padv)
	if m, err := photonRun(ctx, w); err != nil {
		fail("photon updaters", err)
	} else {
		for _, vs := range m {
			st.add(vs...)
		}
	}
	for _, rel := range []aws.Release{aws.AmazonLinux1, aws.AmazonLinux2, aws.AmazonLinux2023} {
		if vs, err := awsParse(ctx, rel, advSet("aws", rpmP, "aws-"+string(rel), false)); err != nil {
			fail("aws parser", err)
		} else {
			st.add(vs...)
		}
	}
	byP := map[string][]adv{}
	for _, n := range []string{"5", "6", "7", "8", "9"} {
		byP["Oracle Linux "+n] = advSet("oracle", rpmP, "oracle-"+n, false)
	}
	if vs, err := oracleRun(ctx, w, 2024, byP); err != nil {
		fail("oracle updater", err)
	} else {
		st.add(vs...)
	}
	// definitions whose <affected> names two Oracle releases (every ordered
	// pair, one of them chosen per round for each release): both must be reached
	oraclePairs := map[string][]string{} // release -> advisory ids expected besides its own
	{
		rels := []string{"5", "6", "7", "8", "9"}
		var defs []adv
		for i, a := range rels {
			for j, b := range rels {
				if i == j || (i+j+round)%2 == 0 {
					continue
				}
				id := "ADV-oracle-pair-" + a + "-" + b
				defs = append(defs, adv{pkg: rpmP.vulnBin, fixed: rpmP.fixIn, id: id, plats: []string{"Oracle Linux " + a, "Oracle Linux " + b}})
				oraclePairs[a] = append(oraclePairs[a], id)
				oraclePairs[b] = append(oraclePairs[b], id)
			}
		}
		defs = append(defs, adv{pkg: rpmP.vulnBin, fixed: rpmP.fixIn, id: "ADV-oracle-unknown-platforms", plats: []string{"Oracle Linux 10", "Oracle VM 3"}})
		if vs, err := oracleParseDoc(ctx, w, fmt.Sprintf("com.oracle.elsa-pairs-%d.xml", round), defs); err != nil {
			fail("oracle updater (definitions with two platforms)", err)
		} else {
			st.add(vs...)
		}
	}
	sfiles := map[string][]adv{}
	for _, n := range []string{"12", "15"} {
		sfiles["suse.linux.enterprise.server."+n+".xml.gz"] = advSet("suse", rpmP, "suse-"+n, false)
	}
	for _, n := range []string{"15.5", "15.6"} {
		sfiles["opensuse.leap."+n+".xml.gz"] = advSet("suse", rpmP, "leap-"+n, false)
	}
	w.suseWorld(sfiles)
	if m, err := suseRun(ctx, w); err != nil {
		fail("suse updaters", err)
	} else {
		for _, vs := range m {
			st.add(vs...)
		}
	}
	// language ecosystems through OSV
	pyP, rbP := h.genPair("sem"), h.genPair("sem")
	// PyPI project names as authors spell them: mixed case, '.', '_' (the
	// advisory carries the PEP 503 name, as the OSV schema prescribes)
	pyRawV, pyRawF := pyP.vulnBin, pyP.fixedBin
	if round == 0 || h.rnd.Chance(1, 2) {
		sep := h.rnd.Pick("_", ".", "-", "__")
		if round == 0 {
			sep = "-" // mixed case only: the spelling the scanner is expected to fold
		}
		pyRawV = strings.ToUpper(pyRawV[:1]) + strings.Replace(pyRawV[1:], "-", sep, 1)
		pyRawF = strings.Replace(pyRawF, "-", sep, 1)
	}
	goMod, goVer := "", ""
	exe, _ := os.Executable()
	var exeBytes []byte
	if round == 0 && exe != "" {
		exeBytes, _ = os.ReadFile(exe)
	}
	lines := []string{"PyPI", "RubyGems", "Go", "Maven", "npm"}
	oadv := map[string][]osvAdv{
		"PyPI": {{id: "ADV-pypi-vuln", ecosystem: "PyPI", name: pep503(pyRawV), purl: "pkg:pypi/" + pep503(pyRawV), rangeType: "ECOSYSTEM", intro: "0", fixed: pyP.fixIn},
			{id: "ADV-pypi-multi", ecosystem: "PyPI", name: pep503(pyRawV), purl: "pkg:pypi/" + pep503(pyRawV), rangeType: "ECOSYSTEM", intro: "0", fixed: pyP.fixIn, before: []advPkg{{"aaa-verif-other", pyP.fixIn}}},
			{id: "ADV-pypi-fixed", ecosystem: "PyPI", name: pep503(pyRawF), purl: "pkg:pypi/" + pep503(pyRawF), rangeType: "ECOSYSTEM", intro: "0", fixed: pyP.fixIn}},
		"RubyGems": {{id: "ADV-gem-vuln", ecosystem: "RubyGems", name: rbP.vulnBin, purl: "pkg:gem/" + rbP.vulnBin, rangeType: "ECOSYSTEM", intro: "0", fixed: rbP.fixIn},
			{id: "ADV-gem-fixed", ecosystem: "RubyGems", name: rbP.fixedBin, purl: "pkg:gem/" + rbP.fixedBin, rangeType: "ECOSYSTEM", intro: "0", fixed: rbP.fixIn}},
		// the same package names under other ecosystems must not leak across repositories
		"Maven": {{id: "ADV-maven-decoy", ecosystem: "Maven", name: pyP.vulnBin, purl: "pkg:maven/x", rangeType: "ECOSYSTEM", intro: "0", fixed: pyP.fixIn}},
		"npm":   {{id: "ADV-npm-decoy", ecosystem: "npm", name: rbP.vulnBin, purl: "pkg:npm/x", rangeType: "SEMVER", intro: "0", fixed: "99.0.0"}},
	}
	// Go: the harness executable itself is the Go binary of the image; pick
	// two of its dependencies by scanning it first.
	var goVuln, goFixed *claircore.Package
	if exeBytes != nil {
		goVuln, goFixed = goDeps(ctx, exeBytes)
	}
	if goVuln != nil && goFixed != nil {
		goMod, goVer = goVuln.Name, goVuln.Version
		_ = goVer
		oadv["Go"] = goAdvisories(goVuln, goFixed)
	}
	w.osvWorld(lines, oadv)
	if m, err := osvRun(ctx, w); err != nil {
		fail("osv updaters", err)
	} else {
		for _, vs := range m {
			st.add(vs...)
		}
	}
	r.Count(fmt.Sprintf("pipeline:store-rows~%d", len(st.rows)/50*50))

	// ---- images
	lin := func() indexer.Coalescer { return linux.NewCoalescer() }
	for _, e := range h.fx.Dirs["alpine"] {
		if r.Stop() {
			return
		}
		files := map[string][]byte{"lib/apk/db/installed": apkDB(apkP)}
		for _, f := range e.Files {
			files[f[0]] = []byte(f[1])
		}
		ir, err := indexImage(ctx, files, []indexer.DistributionScanner{distScanner("alpine")}, []indexer.PackageScanner{&apk.Scanner{}}, lin())
		if err != nil {
			fail("index alpine "+e.Release, err)
			continue
		}
		h.checkImage("alpine", e.Release, ir, st, apkP, "ADV-alpine-"+e.Release+"-vuln")
		// the same image without os-release: the release comes from etc/issue
		if is, ok := fileOf(e.Files, "etc/issue"); ok {
			ir3, err := indexImage(ctx, map[string][]byte{"lib/apk/db/installed": apkDB(apkP), "etc/issue": is}, []indexer.DistributionScanner{distScanner("alpine")}, []indexer.PackageScanner{&apk.Scanner{}}, lin())
			if err != nil {
				fail("index alpine "+e.Release+" (etc/issue only)", err)
			} else {
				h.checkImage("alpine", e.Release+" (etc/issue only)", ir3, st, apkP, "ADV-alpine-"+e.Release+"-vuln")
			}
		}
		// the same image with a VERSION_ID of two or four components (the
		// release is what PRETTY_NAME says; VERSION_ID carries the patch level)
		if e.Release != "edge" {
			for _, vid := range []string{e.Release, e.Release + ".7.1", e.Release + ".0_rc2"} {
				f2 := map[string][]byte{"lib/apk/db/installed": apkDB(apkP)}
				for _, f := range e.Files {
					if f[0] != "etc/os-release" {
						continue
					}
					var ls []string
					for _, l := range strings.Split(f[1], "\n") {
						if strings.HasPrefix(l, "VERSION_ID=") {
							l = "VERSION_ID=" + vid
						}
						ls = append(ls, l)
					}
					f2[f[0]] = []byte(strings.Join(ls, "\n"))
				}
				if _, ok := f2["etc/os-release"]; !ok {
					continue
				}
				ir2, err := indexImage(ctx, f2, []indexer.DistributionScanner{distScanner("alpine")}, []indexer.PackageScanner{&apk.Scanner{}}, lin())
				if err != nil {
					fail("index alpine "+e.Release+" VERSION_ID="+vid, err)
					continue
				}
				h.checkImage("alpine", e.Release+" VERSION_ID="+vid, ir2, st, apkP, "ADV-alpine-"+e.Release+"-vuln")
			}
		}
	}
	for _, ns := range []string{"debian", "debianDistroless"} {
		for _, e := range h.fx.Dirs[ns] {
			if r.Stop() {
				return
			}
			files := map[string][]byte{"var/lib/dpkg/status": dpkgStatus(debP, true),
				"var/lib/dpkg/info/" + debP.vulnBin + ".md5sums":  []byte("d41d8cd98f00b204e9800998ecf8427e  usr/bin/x\n"),
				"var/lib/dpkg/info/" + debP.fixedBin + ".md5sums": []byte("d41d8cd98f00b204e9800998ecf8427e  usr/bin/y\n")}
			for _, f := range e.Files {
				files[f[0]] = []byte(f[1])
			}
			ir, err := indexImage(ctx, files, []indexer.DistributionScanner{distScanner("debian"), distScanner("ubuntu")}, []indexer.PackageScanner{&dpkg.Scanner{}}, lin())
			if err != nil {
				fail("index debian "+e.Release, err)
				continue
			}
			h.checkImage(ns, e.Release, ir, st, debP, "ADV-debian-"+e.Release+"-vuln")
		}
	}
	for _, s := range h.fx.UbuntuSeries {
		if r.Stop() {
			return
		}
		var fxd *struct{ files [][2]string }
		for _, e := range h.fx.Dirs["ubuntu"] {
			if e.Release == s[0] {
				fxd = &struct{ files [][2]string }{e.Files}
			}
		}
		if fxd == nil {
			continue
		}
		files := map[string][]byte{"var/lib/dpkg/status": dpkgStatus(ubP, false),
			"var/lib/dpkg/info/" + ubP.vulnBin + ":amd64.md5sums": []byte("d41d8cd98f00b204e9800998ecf8427e  usr/bin/x\n"),
			"var/lib/dpkg/info/" + ubP.fixedBin + ".md5sums":      []byte("d41d8cd98f00b204e9800998ecf8427e  usr/bin/y\n")}
		for _, f := range fxd.files {
			files[f[0]] = []byte(f[1])
		}
		ir, err := indexImage(ctx, files, []indexer.DistributionScanner{distScanner("debian"), distScanner("ubuntu")}, []indexer.PackageScanner{&dpkg.Scanner{}}, lin())
		if err != nil {
			fail("index ubuntu "+s[0], err)
			continue
		}
		h.checkImage("ubuntu", s[0], ir, st, ubP, "ADV-ubuntu-"+s[0]+"-vuln")
		// the same image without lsb-release, when its os-release names the
		// series (16.04 and later; older ones do not: the images ship lsb-release)
		if osr, ok := fileOf(fxd.files, "etc/os-release"); ok && strings.Contains(string(osr), "VERSION_CODENAME=") {
			f2 := map[string][]byte{}
			for k, v := range files {
				if k != "etc/lsb-release" {
					f2[k] = v
				}
			}
			ir2, err := indexImage(ctx, f2, []indexer.DistributionScanner{distScanner("debian"), distScanner("ubuntu")}, []indexer.PackageScanner{&dpkg.Scanner{}}, lin())
			if err != nil {
				fail("index ubuntu "+s[0]+" (os-release only)", err)
			} else {
				h.checkImage("ubuntu", s[0]+" (os-release only)", ir2, st, ubP, "ADV-ubuntu-"+s[0]+"-vuln")
			}
		}
	}
	// rpm distributions: the distribution scanners are real, the package
	// records are built by hand as rpm.Scanner reports them (no rpm database
	// can be generated here).
	rpmScanners := []indexer.DistributionScanner{distScanner("aws"), distScanner("oracle"), distScanner("suse"), distScanner("photon")}
	type rpmImg struct{ eco, rel, path, content, want string }
	var imgs []rpmImg
	byVar := func(d string) map[string]string {
		m := map[string]string{}
		for _, v := range h.fx.Vars[d] {
			m[v.Name] = v.Content
		}
		return m
	}
	for _, d := range []string{"aws", "oracle", "photon"} {
		vars := byVar(d)
		for _, e := range h.fx.Expected[d] {
			p := "etc/os-release"
			if strings.Contains(e[1], "Issue") {
				p = "etc/issue"
			}
			imgs = append(imgs, rpmImg{d, e[1], p, vars[e[1]], "ADV-" + d + "-" + e[0] + "-vuln"})
		}
	}
	sv := byVar("suse")
	imgs = append(imgs, rpmImg{"suse", "enterpriseServer12OSRelease", "etc/os-release", sv["enterpriseServer12OSRelease"], "ADV-suse-12-vuln"},
		rpmImg{"suse", "enterpriseServer15OSRelease", "etc/os-release", sv["enterpriseServer15OSRelease"], "ADV-suse-15-vuln"})
	// Leap 15.5 / 15.6: the Leap fixture with the version replaced
	for _, n := range []string{"15.5", "15.6"} {
		imgs = append(imgs, rpmImg{"suse", "leap" + n, "etc/os-release", strings.ReplaceAll(sv["leap151OSRelease"], "15.1", n), "ADV-leap-" + n + "-vuln"})
	}
	for _, im := range imgs {
		if r.Stop() {
			return
		}
		ir, err := indexImage(ctx, map[string][]byte{im.path: []byte(im.content)}, rpmScanners, nil, lin())
		if err != nil {
			fail("index "+im.eco+" "+im.rel, err)
			continue
		}
		// add the two rpm packages in the environment of the found distribution
		did := ""
		for id := range ir.Distributions {
			did = id
		}
		mk := func(id, name, src, ver string) {
			p := &claircore.Package{ID: id, Name: name, Version: ver, Kind: claircore.BINARY, Arch: "x86_64", PackageDB: "sqlite:var/lib/rpm",
				Source: &claircore.Package{ID: id + "s", Name: src, Version: ver, Kind: claircore.SOURCE}}
			ir.Packages[id] = p
			ir.Environments[id] = []*claircore.Environment{{PackageDB: p.PackageDB, DistributionID: did}}
		}
		mk("r1", rpmP.vulnBin, rpmP.vulnSrc, rpmP.vulnVer)
		mk("r2", rpmP.fixedBin, rpmP.fixedSrc, rpmP.fixedVer)
		want := []string{im.want}
		if im.eco == "oracle" {
			for _, e := range h.fx.Expected["oracle"] {
				if e[1] == im.rel {
					want = append(want, oraclePairs[e[0]]...)
				}
			}
		}
		h.checkImage(im.eco, im.rel, ir, st, rpmP, want...)
	}

	// python
	{
		meta := func(n, v string) []byte {
			return []byte("Metadata-Version: 2.1\nName: " + n + "\nVersion: " + v + "\nSummary: generated\n\nbody\n")
		}
		files := map[string][]byte{
			"usr/local/lib/python3.11/site-packages/" + pyRawV + "-" + pyP.vulnVer + ".dist-info/METADATA":  meta(pyRawV, pyP.vulnVer),
			"usr/local/lib/python3.11/site-packages/" + pyRawF + "-" + pyP.fixedVer + ".dist-info/METADATA": meta(pyRawF, pyP.fixedVer),
		}
		co, _ := python.NewCoalescer(ctx)
		ir, err := indexImage(ctx, files, nil, []indexer.PackageScanner{&python.Scanner{}}, co)
		if err != nil {
			fail("index python", err)
		} else {
			// the scanner's spelling of the two names
			q := pyP
			q.vulnBin, q.fixedBin = strings.ToLower(pyRawV), strings.ToLower(pyRawF)
			if strings.ToLower(pyRawV) == pep503(pyRawV) {
				h.checkImage("python", "pypi", ir, st, q, "ADV-pypi-vuln", "ADV-pypi-multi")
			} else {
				// the listed finding: a name with '.', '_' or a run of separators
				// is indexed lower-cased but not normalised
				r.Case("pipeline python non-normalised name "+pyRawV, true)
				r.Count("pipeline:python-nonnormalised")
				vr, err := matcher.Match(ctx, ir, defaultMatchers(ctx), st)
				indexed := false
				for _, pk := range ir.Packages {
					if pk.Name == q.vulnBin {
						indexed = true
					}
				}
				if err != nil {
					r.Fail("", "python: matching failed: "+err.Error())
				} else if !indexed {
					// not the listed finding: the scanner no longer reports the lower-cased METADATA name
					r.Fail("", fmt.Sprintf("python scanner did not report METADATA `Name: %s` as %q", pyRawV, q.vulnBin))
				} else if got := reportedFor(vr, q.vulnBin); len(got) == 0 {
					r.Fail("pypi-name-normalization", fmt.Sprintf("METADATA `Name: %s` is indexed as %q; the advisory for the PEP 503 name %q is not reported", pyRawV, q.vulnBin, pep503(pyRawV)))
				} else if strings.Join(got, " ") != "ADV-pypi-multi ADV-pypi-vuln" {
					r.Fail("", fmt.Sprintf("python package %q is reported %v", q.vulnBin, got))
				}
			}
		}
	}
	// ruby
	{
		spec := func(n, v string) []byte {
			return []byte("# -*- encoding: utf-8 -*-\nGem::Specification.new do |s|\n  s.name = \"" + n + "\".freeze\n  s.version = \"" + v + "\"\n  s.summary = \"generated\"\nend\n")
		}
		files := map[string][]byte{
			"usr/local/bundle/specifications/" + rbP.vulnBin + "-" + rbP.vulnVer + ".gemspec":   spec(rbP.vulnBin, rbP.vulnVer),
			"usr/local/bundle/specifications/" + rbP.fixedBin + "-" + rbP.fixedVer + ".gemspec": spec(rbP.fixedBin, rbP.fixedVer),
		}
		co, _ := ruby.NewCoalescer(ctx)
		ir, err := indexImage(ctx, files, nil, []indexer.PackageScanner{&ruby.Scanner{}}, co)
		if err != nil {
			fail("index ruby", err)
		} else {
			h.checkImage("ruby", "rubygems", ir, st, rbP, "ADV-gem-vuln")
		}
	}
	// go: the harness executable
	if exeBytes != nil && goVuln != nil && goFixed != nil {
		co, _ := gobin.NewEcosystem(ctx).Coalescer(ctx)
		ir, err := indexImage(ctx, map[string][]byte{"usr/local/bin/app": exeBytes}, nil, []indexer.PackageScanner{gobin.Detector{}}, co)
		if err != nil {
			fail("index go binary", err)
		} else {
			gp := pkgPair{vulnBin: goVuln.Name, fixedBin: goFixed.Name, vulnVer: goVuln.Version, fixedVer: goFixed.Version, fixIn: "next major / same"}
			h.checkImage("gobin", goMod, ir, st, gp, "ADV-go-vuln")
		}
	}
}

// pep503 is the PyPI name normalisation (PEP 503) the OSV schema prescribes
// for the name field of PyPI advisories.
func pep503(s string) string {
	var b strings.Builder
	run := false
	for _, c := range strings.ToLower(s) {
		if c == '-' || c == '_' || c == '.' {
			run = true
			continue
		}
		if run {
			b.WriteByte('-')
			run = false
		}
		b.WriteRune(c)
	}
	if run {
		b.WriteByte('-')
	}
	return b.String()
}

// sectionKnown replays the witnesses of the listed findings, and checks that
// the distribution scanners keep no state between images.
func (h *harness) sectionKnown() {
	ctx, r := h.ctx, h.r

	// (1) scanning an image must not change what the next image, or the
	// updater, gets for the same release name
	{
		osr := func(code, id string) map[string][]byte {
			return map[string][]byte{"etc/os-release": []byte("PRETTY_NAME=\"Debian GNU/Linux " + id + " (" + code + ")\"\nNAME=\"Debian GNU/Linux\"\nVERSION_ID=\"" + id + "\"\nVERSION=\"" + id + " (" + code + ")\"\nVERSION_CODENAME=" + code + "\nID=debian\n")}
		}
		r.Case("scanner-state debian zzverif 98 then 99", true)
		a, errA := scanDist(ctx, "debian", osr("zzverif", "98"))
		b, errB := scanDist(ctx, "debian", osr("zzverif", "99"))
		if errA != nil || errB != nil || len(a) != 1 || len(b) != 1 {
			r.Fail("", "debian scanner did not report a distribution for VERSION_CODENAME=zzverif VERSION_ID=98/99")
		} else if b[0].VersionID != "99" || b[0].Version != "99 (zzverif)" {
			r.Fail("", fmt.Sprintf("debian scanner keeps state between images: after an image with VERSION_CODENAME=zzverif VERSION_ID=98, an image with VERSION_ID=99 is reported as VersionID=%q Version=%q", b[0].VersionID, b[0].Version))
		}
		// the updater's view of the same codename
		w := newWorld()
		w.debianWorld([]debRelease{{"zzverif", 97}}, map[string][]adv{"zzverif": {{pkg: "p", fixed: "1", id: "CVE-zz"}}})
		if vs, err := debianRun(ctx, w); err != nil {
			r.Fail("", "debian updater against the generated mirror: "+err.Error())
		} else if len(vs) != 1 || vs[0].Dist == nil || vs[0].Dist.VersionID != "97" {
			got := "no advisory"
			if len(vs) > 0 && vs[0].Dist != nil {
				got = vs[0].Dist.Version
			}
			r.Fail("", "the debian updater's Distribution for codename zzverif (mirror says version 97) is "+got+" after images claiming 98 and 99 were scanned")
		}
		lsb := func(ver, code string) map[string][]byte {
			return map[string][]byte{"etc/lsb-release": []byte("DISTRIB_ID=Ubuntu\nDISTRIB_RELEASE=" + ver + "\nDISTRIB_CODENAME=" + code + "\n")}
		}
		r.Case("scanner-state ubuntu 98.04 zza then zzb", true)
		ua, errA := scanDist(ctx, "ubuntu", lsb("98.04", "zza"))
		ub, errB := scanDist(ctx, "ubuntu", lsb("98.04", "zzb"))
		if errA != nil || errB != nil || len(ua) != 1 || len(ub) != 1 {
			r.Fail("", "ubuntu scanner did not report a distribution for DISTRIB_RELEASE=98.04")
		} else if ub[0].VersionCodeName != "zzb" || ub[0].Version != "98.04 (Zzb)" {
			r.Fail("", fmt.Sprintf("ubuntu scanner keeps state between images: after an image with DISTRIB_RELEASE=98.04 DISTRIB_CODENAME=zza, an image with DISTRIB_CODENAME=zzb is reported as Version=%q", ub[0].Version))
		}
		w2 := newWorld()
		w2.ubuntuWorld([]ubSeries{{version: "98.04", name: "zzc", active: true}}, map[string][]adv{"98.04": {{pkg: "p", fixed: "1", id: "CVE-zz"}}})
		if m, err := ubuntuRun(ctx, w2); err != nil {
			r.Fail("", "ubuntu updater against the generated series: "+err.Error())
		} else if vs := m["ubuntu/updater/zzc"]; len(vs) != 1 || vs[0].Dist == nil || vs[0].Dist.VersionCodeName != "zzc" {
			r.Fail("", "the ubuntu updater's Distribution for version 98.04 (series zzc) was changed by images claiming other codenames")
		}
	}

	// (2) npm: the default matcher set has no matcher for the OSV npm repository
	{
		name, ver := "verif-left-pad", "1.2.3"
		files := map[string][]byte{"app/node_modules/" + name + "/package.json": []byte(`{"name":"` + name + `","version":"` + ver + `"}`)}
		w := newWorld()
		w.osvWorld([]string{"npm"}, map[string][]osvAdv{"npm": {{id: "ADV-npm", ecosystem: "npm", name: name, purl: "pkg:npm/" + name, rangeType: "SEMVER", intro: "0", fixed: "2.0.0"}}})
		st := &memStore{}
		if m, err := osvRun(ctx, w); err != nil {
			r.Fail("", "osv npm updater: "+err.Error())
		} else {
			for _, vs := range m {
				st.add(vs...)
			}
			co, _ := nodejs.NewEcosystem(ctx).Coalescer(ctx)
			ir, err := indexImage(ctx, files, nil, []indexer.PackageScanner{&nodejs.Scanner{}}, co)
			if err != nil {
				r.Fail("", "index npm image: "+err.Error())
			} else {
				r.Case("npm default matchers", true)
				vr1, err1 := matcher.Match(ctx, ir, defaultMatchers(ctx), st)
				vr2, err2 := matcher.Match(ctx, ir, append(defaultMatchers(ctx), &nodejs.Matcher{}), st)
				switch {
				case err1 != nil || err2 != nil:
					r.Fail("", "npm: matching failed")
				case len(reportedFor(vr2, name)) != 1:
					r.Fail("", fmt.Sprintf("npm: even with nodejs.Matcher the advisory for %s@%s (fixed 2.0.0) is reported %v", name, ver, reportedFor(vr2, name)))
				case len(reportedFor(vr1, name)) == 0:
					r.KnownSeen("npm-not-in-defaults", fmt.Sprintf("image with node_modules/%s@%s, OSV npm advisory fixed in 2.0.0: reported by nodejs.Matcher, not reported by the matchers of matchers/defaults", name, ver))
				}
			}
		}
	}

	// (3) PyPI names: the scanner lower-cases, the OSV schema normalises per PEP 503
	{
		raw := "Zope.Interface_Verif"
		norm := pep503(raw)
		meta := []byte("Metadata-Version: 2.1\nName: " + raw + "\nVersion: 1.0.0\n\n")
		files := map[string][]byte{"usr/lib/python3/site-packages/" + raw + "-1.0.0.dist-info/METADATA": meta}
		w := newWorld()
		w.osvWorld([]string{"PyPI"}, map[string][]osvAdv{"PyPI": {
			{id: "ADV-normalized", ecosystem: "PyPI", name: norm, purl: "pkg:pypi/" + norm, rangeType: "ECOSYSTEM", intro: "0", fixed: "2.0.0"},
			{id: "ADV-lowercase", ecosystem: "PyPI", name: strings.ToLower(raw), purl: "pkg:pypi/" + norm, rangeType: "ECOSYSTEM", intro: "0", fixed: "2.0.0"}}})
		st := &memStore{}
		if m, err := osvRun(ctx, w); err != nil {
			r.Fail("", "osv pypi updater: "+err.Error())
		} else {
			for _, vs := range m {
				st.add(vs...)
			}
			co, _ := python.NewCoalescer(ctx)
			ir, err := indexImage(ctx, files, nil, []indexer.PackageScanner{&python.Scanner{}}, co)
			if err != nil {
				r.Fail("", "index python image: "+err.Error())
			} else {
				r.Case("pypi name normalisation", true)
				vr, err := matcher.Match(ctx, ir, defaultMatchers(ctx), st)
				var pname string
				for _, p := range ir.Packages {
					pname = p.Name
				}
				if err != nil {
					r.Fail("", "pypi: matching failed")
				} else {
					got := reportedFor(vr, pname)
					has := func(id string) bool {
						for _, g := range got {
							if g == id {
								return true
							}
						}
						return false
					}
					switch {
					case !has("ADV-lowercase") && !has("ADV-normalized"):
						r.Fail("", fmt.Sprintf("pypi: package %q (METADATA Name: %s) joins neither the advisory named %q nor the one named %q", pname, raw, strings.ToLower(raw), norm))
					case !has("ADV-normalized"):
						r.KnownSeen("pypi-name-normalization", fmt.Sprintf("METADATA `Name: %s` is indexed as %q; the OSV advisory for the PEP 503 name %q is not reported (the one spelled %q is)", raw, pname, norm, strings.ToLower(raw)))
					}
				}
			}
		}
	}
}

// goDeps scans a Go executable with the real gobin detector and picks two of
// its dependencies that carry a proper semantic version.
func goDeps(ctx context.Context, exe []byte) (a, b *claircore.Package) {
	l, err := mkLayer(ctx, map[string][]byte{"usr/local/bin/app": exe})
	if err != nil {
		return nil, nil
	}
	defer l.Close()
	pkgs, _ := gobin.Detector{}.Scan(ctx, l)
	sort.Slice(pkgs, func(i, j int) bool { return pkgs[i].Name < pkgs[j].Name })
	for _, p := range pkgs {
		v := p.NormalizedVersion
		if v.Kind != "semver" || (v.V[1] == 0 && v.V[2] == 0 && v.V[3] == 0) {
			continue
		}
		if a == nil {
			a = p
		} else if b == nil && p.Name != a.Name {
			b = p
		}
	}
	return a, b
}

func goAdvisories(a, b *claircore.Package) []osvAdv {
	up := func(v [10]int32) string { return fmt.Sprintf("%d.%d.%d", v[1]+1, 0, 0) }
	same := func(v [10]int32) string { return fmt.Sprintf("%d.%d.%d", v[1], v[2], v[3]) }
	return []osvAdv{
		{id: "ADV-go-vuln", ecosystem: "Go", name: a.Name, purl: "pkg:golang/" + a.Name, rangeType: "SEMVER", intro: "0", fixed: up(a.NormalizedVersion.V)},
		{id: "ADV-go-fixed", ecosystem: "Go", name: b.Name, purl: "pkg:golang/" + b.Name, rangeType: "SEMVER", intro: "0", fixed: same(b.NormalizedVersion.V)},
	}
}
