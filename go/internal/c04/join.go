package c04

// Generated records and stored advisories for the filter / join / match ops.

import (
	"sort"
	"strings"

	"github.com/quay/claircore"
)

// distPool: the Distributions the real scanners and updaters produced in this
// run, plus a few made-up ones; joins between a scanner result and an updater
// result of the same / another release are what the ops should exercise.
func (h *harness) distPool() []distT {
	var out []distT
	add := func(m map[string]*claircore.Distribution) {
		var ks []string
		for k := range m {
			ks = append(ks, k)
		}
		sort.Strings(ks)
		for _, k := range ks {
			if m[k] != nil {
				out = append(out, fromDist(m[k]))
			}
		}
	}
	for _, m := range []map[string]*claircore.Distribution{h.alpineDist, h.debianDist, h.ubuntuDist, h.awsDist, h.photonDist, h.oracleDist, h.suseDist} {
		add(m)
	}
	var ds []string
	for d := range h.scanned {
		ds = append(ds, d)
	}
	sort.Strings(ds)
	for _, d := range ds {
		add(h.scanned[d])
	}
	out = append(out, distT{}, distT{did: "linux", name: "Linux"}, distT{did: "debian", name: "x", ver: "12 (bookworm)"},
		distT{did: "x", name: "Ubuntu", ver: "20.04 (Focal)", arch: "amd64"}, distT{did: "opensuse", name: "y", ver: "15.5"},
		distT{did: "amzn", name: "Amazon Linux", vid: "2", cpe: "cpe:2.3:o:amazon:amazon_linux:2:*:*:*:*:*:*:*"},
		distT{did: "rhel", name: "Red Hat Enterprise Linux Server", ver: "8", vid: "8", cpe: "cpe:2.3:o:redhat:enterprise_linux:8:*:*:*:*:*:*:*", pretty: "Red Hat Enterprise Linux Server 8"})
	return out
}

type repoT struct{ name, key, uri string }

func (h *harness) repoPool() []repoT {
	out := []repoT{{}, {"pypi", "", "https://pypi.org/simple"}, {"pypi", "", "https://pypi.org/"}, {"maven", "", "https://repo1.maven.apache.org/maven2"},
		{"rubygems", "", "https://rubygems.org/gems/"}, {"npm", "", "https://www.npmjs.com/"}, {"go", "", "https://pkg.go.dev/"}, {"go", "", ""}, {"Go", "", "https://pkg.go.dev/"},
		{"PyPI", "", ""}, {"Red Hat Container Catalog", "", "https://catalog.redhat.com/software/containers/explore"},
		{"cpe:/a:redhat:enterprise_linux:8::appstream", "rhel-cpe-repository", ""}, {"cpe:/o:redhat:enterprise_linux:8::baseos", "rhel-cpe-repository", ""},
		{"cpe:/a:redhat:enterprise_linux:8::appstream", "", ""}, {"x", "rhel-cpe-repository", "u"}, {"crates.io", "", "https://crates.io/"}}
	var ls []string
	for l := range h.osvRepo {
		ls = append(ls, l)
	}
	sort.Strings(ls)
	for _, l := range ls {
		out = append(out, repoT{h.osvRepo[l].Name, h.osvRepo[l].Key, h.osvRepo[l].URI})
	}
	return out
}

var namePool = []string{"openssl", "libssl1.1", "zlib", "requests", "o'brien", `back\slash`, "a b", "", "x", "log4j-core", "github.com/x/y", "Django"}
var kindPool = []string{"binary", "source", "", "Binary"}
var modulePool = []string{"", "", "nodejs:18", "postgresql:13"}
var normKindPool = []string{"", "pep440", "semver", "rpm", "gem"}

func (h *harness) genRec(dists []distT, repos []repoT) recT {
	rn := h.rnd
	r := recT{pn: namePool[rn.Intn(len(namePool))], pk: kindPool[rn.Intn(len(kindPool))], pm: modulePool[rn.Intn(len(modulePool))],
		pa: rn.Pick("", "x86_64", "noarch"), src: !rn.Chance(1, 12), nk: normKindPool[rn.Intn(len(normKindPool))], ver: rn.Pick("1.0.0", "1.0-1", "2.0.0", "3.1.4")}
	if r.src && rn.Chance(1, 2) {
		r.sn, r.sk = namePool[rn.Intn(len(namePool))], rn.Pick("source", "binary", "")
	}
	r.nv = [10]int32{0, int32(rn.Intn(3)), int32(rn.Intn(3)), int32(rn.Intn(2))}
	if !rn.Chance(1, 8) {
		r.hasDist = true
		r.d = dists[rn.Intn(len(dists))]
	}
	if !rn.Chance(1, 3) {
		r.hasRepo = true
		x := repos[rn.Intn(len(repos))]
		r.rname, r.rkey, r.ruri = x.name, x.key, x.uri
	}
	return r
}

// genRow derives a stored advisory that tends to join the record.
func (h *harness) genRow(rec recT, dists []distT, repos []repoT) rowT {
	rn := h.rnd
	v := rowT{vn: rec.pn, vk: rec.pk, vm: rec.pm, va: rec.pa, fixed: rn.Pick("2.0.0", "2.0-1", "", "0")}
	if rec.src && rec.sn != "" && rn.Chance(1, 2) {
		v.vn, v.vk = rec.sn, rec.sk
	}
	if rec.hasDist {
		v.d = rec.d
	}
	if rec.hasRepo {
		v.rname, v.rkey, v.ruri = rec.rname, rec.rkey, rec.ruri
	}
	// perturb
	for k := rn.Intn(3); k > 0; k-- {
		switch rn.Intn(9) {
		case 0:
			v.vn = namePool[rn.Intn(len(namePool))]
		case 1:
			v.vk = kindPool[rn.Intn(len(kindPool))]
		case 2:
			v.vm = modulePool[rn.Intn(len(modulePool))]
		case 3:
			v.d = dists[rn.Intn(len(dists))]
		case 4:
			x := repos[rn.Intn(len(repos))]
			v.rname, v.rkey, v.ruri = x.name, x.key, x.uri
		case 5:
			// one distribution field differs
			switch rn.Intn(7) {
			case 0:
				v.d.did += "x"
			case 1:
				v.d.name = strings.ToLower(v.d.name)
			case 2:
				v.d.ver = rn.Pick("", v.d.vid, v.d.ver+" ")
			case 3:
				v.d.code = rn.Pick("", "focal", v.d.code+"x")
			case 4:
				v.d.vid = rn.Pick("", "2", v.d.vid+".1")
			case 5:
				v.d.pretty = rn.Pick("", v.d.pretty+" LTS")
			case 6:
				v.d.arch = rn.Pick("", "x86_64")
			}
		case 6:
			v.fixed = rn.Pick("", "1.0.0", "9.9.9")
		case 7:
			v.rkey = rn.Pick("", "rhel-cpe-repository", "k")
		case 8:
			v.ruri = rn.Pick("", "https://pkg.go.dev/", "https://pypi.org/")
		}
	}
	if rn.Chance(1, 2) {
		v.hasKind = true
		v.vkind = rec.nk
		if rn.Chance(1, 5) {
			v.vkind = normKindPool[rn.Intn(len(normKindPool))]
		}
		v.lower = [10]int32{0, int32(rn.Intn(2)), 0, 0}
		v.upper = [10]int32{0, int32(1 + rn.Intn(3)), int32(rn.Intn(2)), 0}
		if rn.Chance(1, 6) {
			v.upper = [10]int32{65535}
		}
	}
	return v
}

var allConstraintNames = []string{"PackageSourceName", "PackageName", "PackageModule", "DistributionDID", "DistributionName", "DistributionVersion",
	"DistributionVersionCodeName", "DistributionVersionID", "DistributionArch", "DistributionCPE", "DistributionPrettyName", "RepositoryName", "RepositoryKey", "HasFixedInVersion"}

func (h *harness) sectionFilterJoin() {
	r := h.r
	ms, rhelOpt := realMatchers(h.ctx)
	var mnames []string
	for n := range ms {
		mnames = append(mnames, n)
	}
	sort.Strings(mnames)
	dists, repos := h.distPool(), h.repoPool()
	n := h.cfg.N(15000, 150000)
	for i := 0; i < n && !r.Stop(); i++ {
		rec := h.genRec(dists, repos)
		row := h.genRow(rec, dists, repos)
		name := mnames[h.rnd.Intn(len(mnames))]
		m := ms[name]
		switch h.rnd.Intn(5) {
		case 4:
			// several records of the same package: other repositories / distributions
			opt := false
			mm := m
			if name == "rhel" && h.rnd.Chance(1, 2) {
				opt, mm = true, rhelOpt
			}
			recs := []recT{rec}
			for k := 1 + h.rnd.Intn(3); k > 0; k-- {
				o := rec
				if h.rnd.Chance(2, 3) {
					x := repos[h.rnd.Intn(len(repos))]
					o.hasRepo, o.rname, o.rkey, o.ruri = true, x.name, x.key, x.uri
				} else {
					o.hasDist, o.d = true, dists[h.rnd.Intn(len(dists))]
				}
				if h.rnd.Chance(1, 2) {
					recs = append(recs, o)
				} else {
					recs = append([]recT{o}, recs...)
				}
			}
			opMatchN(h.ctx, r, name, mm, opt, recs, row)
		case 0:
			opFilter(r, name, m, rec)
		case 1:
			// the matcher's own constraint list, sometimes with extras / duplicates / unknowns
			var cs []string
			for _, c := range m.Query() {
				cs = append(cs, cname(c))
			}
			if h.rnd.Chance(1, 3) {
				cs = append(cs, allConstraintNames[h.rnd.Intn(len(allConstraintNames))])
			}
			if h.rnd.Chance(1, 8) && len(cs) > 0 {
				cs = append(cs, cs[0])
			}
			if h.rnd.Chance(1, 25) {
				cs = append(cs, "Bogus")
			}
			_, vf := m.(interface{ VersionFilter() })
			opJoin(r, cs, vf, rec, row)
		case 2:
			// an arbitrary constraint list
			var cs []string
			for k := h.rnd.Intn(5); k > 0; k-- {
				cs = append(cs, allConstraintNames[h.rnd.Intn(len(allConstraintNames))])
			}
			opJoin(r, cs, h.rnd.Chance(1, 3), rec, row)
		default:
			opt := false
			mm := m
			if name == "rhel" && h.rnd.Chance(1, 2) {
				opt, mm = true, rhelOpt
			}
			opMatch(h.ctx, r, name, mm, opt, rec, row)
		}
	}
}

// sectionWitnesses replays, as protocol ops, the inputs of the defects that
// were repaired in /repo (see findings/C04.txt), whatever the seed.
func (h *harness) sectionWitnesses() {
	r := h.r
	ms, rhelOpt := realMatchers(h.ctx)
	al2 := distT{did: "amzn", name: "Amazon Linux", ver: "2", vid: "2", cpe: "cpe:2.3:o:amazon:amazon_linux:2:*:*:*:*:*:*:*", pretty: "Amazon Linux 2"}
	al1 := distT{did: "amzn", name: "Amazon Linux AMI", ver: "2018.03", vid: "2018.03", cpe: "cpe:2.3:o:amazon:linux:2018.03:ga:*:*:*:*:*:*", pretty: "Amazon Linux AMI 2018.03"}
	base := recT{pn: "openssl", pk: "binary", src: true, sn: "openssl-src", sk: "source", hasDist: true, d: al2, ver: "1.0.0"}
	row := rowT{vn: "openssl", vk: "binary", d: al2, fixed: "2.0.0"}
	// b3acc276: the DistributionCPE constraint (set, different, unset on both sides)
	opJoin(r, []string{"DistributionCPE"}, false, base, row)
	row2 := row
	row2.d = al1
	opJoin(r, []string{"DistributionCPE", "DistributionDID"}, false, base, row2)
	nocpe := base
	nocpe.d.cpe = ""
	row3 := row
	row3.d.cpe = ""
	opJoin(r, []string{"DistributionCPE"}, false, nocpe, row3)
	opJoin(r, []string{"DistributionCPE"}, false, nocpe, row)
	// 16ec58ad: records without Source / Distribution / Repository
	nosrc := base
	nosrc.src, nosrc.sn, nosrc.sk = false, "", ""
	opJoin(r, []string{"DistributionDID"}, false, nosrc, row)
	srcRow := row
	srcRow.vn, srcRow.vk = "openssl-src", "source"
	opJoin(r, nil, false, nosrc, srcRow)
	opJoin(r, nil, false, base, srcRow)
	nodist := base
	nodist.hasDist = false
	opJoin(r, []string{"DistributionDID"}, false, nodist, row)
	opJoin(r, []string{"PackageModule", "DistributionDID"}, false, nodist, row)
	opJoin(r, []string{"RepositoryName"}, false, base, row)
	opJoin(r, []string{"PackageModule", "HasFixedInVersion"}, false, nodist, row)
	py := recT{pn: "requests", pk: "binary", nk: "pep440", ver: "1.0.0"}
	pyRow := rowT{vn: "requests", vk: "binary", rname: "pypi", ruri: "https://pypi.org/", fixed: "fixed=2.0.0"}
	opFilter(r, "python", ms["python"], py)
	opMatch(h.ctx, r, "python", ms["python"], false, py, pyRow)
	py.src = true
	opMatch(h.ctx, r, "python", ms["python"], false, py, pyRow)
	py.hasRepo, py.rname, py.ruri = true, "pypi", "https://pypi.org/simple"
	opMatch(h.ctx, r, "python", ms["python"], false, py, pyRow)
	// rhel with and without ignoreUnpatched
	rh := recT{pn: "bash", pk: "binary", src: true, pa: "x86_64", ver: "0:1.0-1.el8", hasRepo: true, rname: "cpe:/o:redhat:enterprise_linux:8::baseos", rkey: "rhel-cpe-repository"}
	rhRow := rowT{vn: "bash", vk: "binary", rname: "cpe:/o:redhat:enterprise_linux:8", rkey: "rhel-cpe-repository", fixed: ""}
	opMatch(h.ctx, r, "rhel", ms["rhel"], false, rh, rhRow)
	opMatch(h.ctx, r, "rhel", rhelOpt, true, rh, rhRow)
	rhRow.fixed = "0:2.0-1.el8"
	opMatch(h.ctx, r, "rhel", rhelOpt, true, rh, rhRow)
	// a package indexed under BaseOS and AppStream, advisory for AppStream (either order)
	{
		bo := recT{pn: "nodejs", pk: "binary", src: true, pa: "x86_64", ver: "1:16.0.0-1.el8", hasRepo: true, rname: "cpe:/o:redhat:enterprise_linux:8::baseos", rkey: "rhel-cpe-repository"}
		as := bo
		as.rname = "cpe:/a:redhat:enterprise_linux:8::appstream"
		adv := rowT{vn: "nodejs", vk: "binary", rname: "cpe:/a:redhat:enterprise_linux:8::appstream", rkey: "rhel-cpe-repository", fixed: "1:16.20.2-1.el8"}
		opMatchN(h.ctx, r, "rhel", ms["rhel"], false, []recT{bo, as}, adv)
		opMatchN(h.ctx, r, "rhel", ms["rhel"], false, []recT{as, bo}, adv)
		opMatchN(h.ctx, r, "rhel", ms["rhel"], false, []recT{bo}, adv)
		opMatchN(h.ctx, r, "rhel", ms["rhel"], false, []recT{bo, bo, as}, adv)
	}
	// unknown / undeclared constraints
	opJoin(r, []string{"PackageName"}, false, base, row)
	opJoin(r, []string{"PackageSourceName"}, false, base, row)
	opJoin(r, []string{"Bogus"}, false, base, row)
	opJoin(r, []string{"DistributionDID", "DistributionDID", "Bogus"}, false, base, row)
}
