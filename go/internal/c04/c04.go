// Package c04 checks property C04 (advisories reach the packages they name on
// every supported release): protocol lines that compare the REAL scanners,
// updater factories/parsers, matchers and query builder with the Lean model,
// and direct oracles that run the whole join (real scanners on an image, real
// updaters against an in-process world, real matcher controllers over an
// in-memory store driven by the real query text) for every release.
package c04

import (
	"context"
	"fmt"
	"os"
	"sort"
	"strconv"
	"strings"

	"github.com/rs/zerolog"

	"github.com/quay/claircore"
	"github.com/quay/claircore/aws"
	"github.com/quay/claircore/verifharness/internal/extract"
	"github.com/quay/claircore/verifharness/internal/hx"
)

// spread maps consecutive seeds to far-apart generator states: hx.NewRand's
// state is linear in the seed with the generator's own increment, so seeds 1
// and 2 would yield the same stream shifted by one draw.
func spread(seed uint64) uint64 {
	z := seed + 0x9E3779B97F4A7C15
	z = (z ^ (z >> 30)) * 0xBF58476D1CE4E5B9
	z = (z ^ (z >> 27)) * 0x94D049BB133111EB
	return z ^ (z >> 31)
}

func repoPath() string {
	if p := os.Getenv("VERIF_REPO"); p != "" {
		return p
	}
	return "/repo"
}

type harness struct {
	ctx context.Context
	cfg hx.Config
	r   *hx.Run
	rnd *hx.Rand
	fx  *extract.JoinFixtureSet
	// a text each expression of the aws / oracle / photon scanner tables matches: distro -> (release, text)
	samples map[string][][2]string

	// results of the updater runs: what each release's updater stamps
	alpineDist map[string]*claircore.Distribution // "3.18", "edge"
	debianDist map[string]*claircore.Distribution // codename
	ubuntuDist map[string]*claircore.Distribution // version
	awsDist    map[string]*claircore.Distribution // release
	photonDist map[string]*claircore.Distribution
	oracleDist map[string]*claircore.Distribution // platform
	suseDist   map[string]*claircore.Distribution // href
	osvRepo    map[string]*claircore.Repository   // ecosystems.txt line
	// what the scanners report for the fixture images
	scanned map[string]map[string]*claircore.Distribution // distro -> release -> dist
}

func Run(cfg hx.Config) error {
	r, err := hx.NewRun(cfg)
	if err != nil {
		return err
	}
	defer r.Close()
	zerolog.SetGlobalLevel(zerolog.Disabled)
	r.Rule = "protocol lines: osrelease.Parse, every distribution scanner (fixture images and mutated os-release/lsb-release/issue files), the Distribution each updater stamps (real factories and parsers against an in-process world), Filter/Query of every matcher, buildGetQuery evaluated on a stored row, the matcher controller's verdict, the OSV repository; non-trivial = a distribution was found / the filter accepted / the row joined. Oracle cases: one per (ecosystem, release, package): vulnerable reported, fixed not reported, other releases' advisories not reported."
	fx, err := extract.LoadJoinFixtures(repoPath())
	if err != nil {
		return fmt.Errorf("fixtures: %w", err)
	}
	smp, err := extract.LoadJoinRegexSamples(repoPath())
	if err != nil {
		return fmt.Errorf("regexp samples: %w", err)
	}
	h := &harness{ctx: context.Background(), cfg: cfg, r: r, rnd: hx.NewRand(spread(cfg.Seed)), fx: fx, samples: smp,
		scanned: map[string]map[string]*claircore.Distribution{}}
	r.Op("reset", "ok", false)
	h.sectionStatic()
	h.sectionOsRelease()
	h.sectionScan()
	h.sectionScanGenerated()
	if err := h.sectionUpdaters(); err != nil {
		r.Fail("", "an updater could not be run against the generated world: "+err.Error())
	}
	h.sectionWitnesses()
	h.sectionFilterJoin()
	h.sectionPipeline()
	h.sectionRhel()
	h.sectionFull()
	h.sectionHistory()
	h.sectionInterleave()
	h.sectionHistOps()
	h.sectionRhelFull()
	h.sectionVexGenerated()
	h.sectionMappingHistory()
	h.sectionJoinSweep()
	h.sectionKnown()
	return nil
}

// ---------------------------------------------------------------- static

func (h *harness) sectionStatic() {
	ms, rhelOpt := realMatchers(h.ctx)
	var names []string
	for n := range ms {
		names = append(names, n)
	}
	sort.Strings(names)
	for _, n := range names {
		var opt = ms[n]
		if n == "rhel" {
			opt = rhelOpt
		}
		opQuery(h.r, n, ms[n], opt)
	}
}

// ------------------------------------------------------------ os-release

// mutate derives a variant of an os-release-like text (ASCII).
func (h *harness) mutate(s string) string {
	lines := strings.Split(s, "\n")
	rn := h.rnd
	pickLine := func() int { return rn.Intn(len(lines)) }
	setVal := func(i int, f func(k, v string) string) {
		k, v, ok := strings.Cut(lines[i], "=")
		if ok {
			lines[i] = f(k, v)
		}
	}
	unq := func(v string) string { return strings.Trim(v, "\"'") }
	switch rn.Intn(16) {
	case 0: // change the quoting of a value
		setVal(pickLine(), func(k, v string) string {
			q := rn.Pick(`"`, `'`, ``)
			return k + "=" + q + unq(v) + q
		})
	case 1: // delete a line
		i := pickLine()
		lines = append(lines[:i], lines[i+1:]...)
	case 2: // duplicate a key with another value
		i := pickLine()
		k, _, ok := strings.Cut(lines[i], "=")
		if ok {
			lines = append(lines, k+"="+rn.Pick("x", `"9.9"`, "", "12", "jammy", `'q'`))
		}
	case 3: // swap two lines
		i, j := pickLine(), pickLine()
		lines[i], lines[j] = lines[j], lines[i]
	case 4: // spaces around the pieces
		setVal(pickLine(), func(k, v string) string {
			return rn.Pick("", " ", "\t") + k + rn.Pick("", " ") + "=" + rn.Pick("", " ") + v + rn.Pick("", " ", "\t ")
		})
	case 5: // comment / blank lines
		i := pickLine()
		lines = append(lines[:i], append([]string{rn.Pick("# comment", "", "   ", "#ID=debian")}, lines[i:]...)...)
	case 6: // CRLF
		for i := range lines {
			if rn.Chance(2, 3) {
				lines[i] += "\r"
			}
		}
	case 7: // replace a version-like value
		for i := range lines {
			k, v, ok := strings.Cut(lines[i], "=")
			if ok && (strings.Contains(k, "VERSION_ID") || strings.Contains(k, "RELEASE")) && rn.Chance(1, 2) {
				q := ""
				if strings.HasPrefix(v, `"`) {
					q = `"`
				}
				lines[i] = k + "=" + q + rn.Pick("3.19.1", "13", "24.04", "abc", "", "-5", "99999999999", "3.20", "9", "15.6", "2147483647", "2147483648", "+7", "1_0", "007") + q
			}
		}
	case 8: // a malformed line
		i := pickLine()
		lines = append(lines[:i], append([]string{rn.Pick("garbage", "NOEQUALS here", "=", "=x", "K=")}, lines[i:]...)...)
	case 9: // escapes inside double quotes
		setVal(pickLine(), func(k, v string) string {
			return k + `="` + rn.Pick(`a\"b`, `a\\b`, `a\$b`, "a\\`b", `a\nb`, `\`, `a\`, `\\\"`, `x'y`) + `"`
		})
	case 10: // single-quote escape
		setVal(pickLine(), func(k, v string) string { return k + `='` + rn.Pick(`it'\''s`, `a'b`, `''`, `'\''`, `x"y`) + `'` })
	case 11: // change ID
		for i := range lines {
			if strings.HasPrefix(lines[i], "ID=") || strings.HasPrefix(lines[i], "DISTRIB_ID=") {
				k, _, _ := strings.Cut(lines[i], "=")
				lines[i] = k + "=" + rn.Pick("debian", "ubuntu", "Ubuntu", "UBUNTU", "alpine", "ol", "fedora", `"debian"`, "'ubuntu'", "ubuntu ", "sles")
			}
		}
	case 12: // drop the codename / pretty name keys
		var out []string
		drop := rn.Pick("VERSION_CODENAME", "PRETTY_NAME", "VERSION", "CPE_NAME", "DISTRIB_CODENAME", "NAME")
		for _, l := range lines {
			if !strings.HasPrefix(l, drop+"=") {
				out = append(out, l)
			}
		}
		lines = out
	case 13: // no trailing newline / extra newlines
		s2 := strings.Join(lines, "\n")
		return strings.TrimRight(s2, "\n") + rn.Pick("", "\n\n", "\n")
	case 14: // change a VERSION / PRETTY_NAME text
		for i := range lines {
			k, _, ok := strings.Cut(lines[i], "=")
			if ok && (k == "VERSION" || k == "PRETTY_NAME" || k == "VERSION_CODENAME" || k == "DISTRIB_CODENAME") && rn.Chance(1, 2) {
				lines[i] = k + `="` + rn.Pick("12 (bookworm)", "(x)", "7 (wheezy_2)", "8 (9)", "Alpine Linux edge", "Alpine Linux v3.20", "Oracle Linux Server 8.9", "oracle linux server 7", "(a) (b)", "10 (buster", "buster)", "focal fossa", "x y-z") + `"`
			}
		}
	case 15: // change the CPE
		for i := range lines {
			if strings.HasPrefix(lines[i], "CPE_NAME=") {
				lines[i] = `CPE_NAME="` + rn.Pick("cpe:/o:suse:sles:15:sp5", "cpe:/o:suse:sles:12", "cpe:/o:opensuse:leap:15.5", "cpe:/o:opensuse:leap:15.6", "cpe:/o:suse:sled:15", "cpe:/o:amazon:linux:2015.03:ga", "cpe:/o:amazon:linux:2018.09:ga", "cpe:2.3:o:amazon:amazon_linux:2", "cpe:2.3:o:amazon:amazon_linux:2023", "cpe:2x3:o:amazon:amazon_linux:2", "cpe:/o:oracle:linux:9:3:server", "cpe:/o:suse:sles:15.3") + `"`
			}
		}
	}
	return strings.Join(lines, "\n")
}

// allTexts: every fixture text, for the parser ops.
func (h *harness) allTexts() []string {
	var out []string
	for _, ns := range []string{"alpine", "debian", "debianDistroless", "ubuntu"} {
		for _, e := range h.fx.Dirs[ns] {
			for _, f := range e.Files {
				out = append(out, f[1])
			}
		}
	}
	for _, d := range []string{"aws", "oracle", "photon", "suse"} {
		for _, v := range h.fx.Vars[d] {
			out = append(out, v.Content)
		}
	}
	return out
}

func (h *harness) sectionOsRelease() {
	texts := h.allTexts()
	for _, t := range texts {
		opOsr(h.ctx, h.r, []byte(t))
	}
	n := h.cfg.N(3000, 40000)
	for i := 0; i < n && !h.r.Stop(); i++ {
		t := texts[h.rnd.Intn(len(texts))]
		for k := 1 + h.rnd.Intn(3); k > 0; k-- {
			t = h.mutate(t)
		}
		if !isASCII([]byte(t)) {
			continue
		}
		opOsr(h.ctx, h.r, []byte(t))
	}
	// a few hand-written corner cases
	for _, t := range []string{"", "\n", "A=1", "A=1\nA=2\n", "A='x'y'\n", "A=\"\n", "A='\n", "A=\"\"\"\n", " # c\n\tB = \"q\" \n", "A==\n", "=\n", "A=\\\n", "A=\"\\\"\n", "A=\"a\\\\\\\"b\"\n", "A='''\\'''''\n", "\r\n", "A=1\r", "A=1\rB=2\n"} {
		opOsr(h.ctx, h.r, []byte(t))
	}
}

// ------------------------------------------------------------------ scan

func fileOf(fs [][2]string, p string) ([]byte, bool) {
	for _, f := range fs {
		if f[0] == p {
			return []byte(f[1]), true
		}
	}
	return nil, false
}

// suseSupported mirrors the restriction of the Lean model of the SUSE scanner:
// the CPE name is of the plain shape cpe:/<a|o|h>:v:p:version[:…] over [a-z0-9_.]
// and, for SLES, the version is digits(.digits){0,2} without leading zeros.
func suseSupported(ctx context.Context, b []byte) bool {
	files := map[string]string{}
	for _, l := range strings.Split(string(b), "\n") {
		k, v, ok := strings.Cut(strings.TrimSpace(l), "=")
		if ok {
			// as osrelease.Parse reads a value: quotes are stripped only when
			// the value STARTS with one (a lone trailing quote stays, and such
			// a CPE name is outside the plain shape)
			v = strings.TrimSpace(v)
			switch {
			case strings.HasPrefix(v, `"`):
				v = strings.Trim(v, `"`)
			case strings.HasPrefix(v, `'`):
				v = strings.Trim(v, `'`)
			}
			files[strings.TrimSpace(k)] = v
		}
	}
	c, ok := files["CPE_NAME"]
	if !ok {
		return true
	}
	if strings.ContainsAny(c, `\'"`) || !strings.HasPrefix(c, "cpe:/") {
		return false
	}
	parts := strings.Split(c[5:], ":")
	if len(parts) < 4 || len(parts) > 7 {
		return false
	}
	for _, p := range parts {
		if p == "" {
			return false
		}
		for _, ch := range []byte(p) {
			if !((ch >= 'a' && ch <= 'z') || (ch >= '0' && ch <= '9') || ch == '_' || ch == '.') {
				return false
			}
		}
	}
	if parts[0] != "a" && parts[0] != "o" && parts[0] != "h" {
		return false
	}
	if parts[1] == "suse" && parts[2] == "sles" {
		vs := strings.Split(parts[3], ".")
		if len(vs) > 3 {
			return false
		}
		for _, v := range vs {
			if v == "" || (len(v) > 1 && v[0] == '0') {
				return false
			}
			for _, ch := range []byte(v) {
				if ch < '0' || ch > '9' {
					return false
				}
			}
		}
	}
	return true
}

func (h *harness) noteScan(distro, rel string, d *claircore.Distribution) {
	if d == nil {
		return
	}
	if h.scanned[distro] == nil {
		h.scanned[distro] = map[string]*claircore.Distribution{}
	}
	if _, ok := h.scanned[distro][rel]; !ok {
		h.scanned[distro][rel] = d
	}
}

func (h *harness) sectionScan() {
	ctx, r := h.ctx, h.r
	const osr, issue, lsb = "etc/os-release", "etc/issue", "etc/lsb-release"
	nm := h.cfg.N(40, 500) // mutated variants per fixture
	mut := func(b []byte) []byte {
		t := string(b)
		for k := 1 + h.rnd.Intn(2); k > 0; k-- {
			t = h.mutate(t)
		}
		if !isASCII([]byte(t)) {
			return b
		}
		return []byte(t)
	}
	// alpine
	for _, e := range h.fx.Dirs["alpine"] {
		o, ho := fileOf(e.Files, osr)
		is, hi := fileOf(e.Files, issue)
		_, d := opScan(ctx, r, "alpine", osr, o, ho, issue, is, hi)
		h.noteScan("alpine", e.Release, d)
		_, d2 := opScan(ctx, r, "alpine", osr, nil, false, issue, is, hi)
		h.noteScan("alpine-issue", e.Release, d2)
		opScan(ctx, r, "alpine", osr, o, ho, issue, nil, false)
		for i := 0; i < nm && !r.Stop(); i++ {
			switch h.rnd.Intn(3) {
			case 0:
				opScan(ctx, r, "alpine", osr, mut(o), ho, issue, is, hi)
			case 1:
				opScan(ctx, r, "alpine", osr, nil, false, issue, mut(is), hi)
			default:
				opScan(ctx, r, "alpine", osr, mut(o), ho, issue, mut(is), hi && h.rnd.Chance(1, 2))
			}
		}
	}
	for _, t := range []string{"Welcome to Alpine Linux 3.19\n", "Alpine Linux 3.\n", "Alpine Linux .5\n", "xAlpine Linux 12.34abc", "Alpine Linux 3.x Alpine Linux 3.7\n", "Alpine Linux 3.20_alpha20240329 (edge)\n", "Alpine Linux 3.a (edge)", "Alpine Linux 3.4 (edge)", "alpine linux 3.4"} {
		opScan(ctx, r, "alpine", osr, nil, false, issue, []byte(t), true)
	}
	// debian
	for _, ns := range []string{"debian", "debianDistroless"} {
		for _, e := range h.fx.Dirs[ns] {
			o, ho := fileOf(e.Files, osr)
			_, d := opScan(ctx, r, "debian", osr, o, ho, "", nil, false)
			h.noteScan(ns, e.Release, d)
			for i := 0; i < nm && !r.Stop(); i++ {
				opScan(ctx, r, "debian", osr, mut(o), ho, "", nil, false)
			}
		}
	}
	opScan(ctx, r, "debian", osr, nil, false, "", nil, false)
	// ubuntu
	for _, e := range h.fx.Dirs["ubuntu"] {
		l, hl := fileOf(e.Files, lsb)
		o, ho := fileOf(e.Files, osr)
		_, d := opScan(ctx, r, "ubuntu", lsb, l, hl, osr, o, ho)
		h.noteScan("ubuntu", e.Release, d)
		if ho {
			opScan(ctx, r, "ubuntu", lsb, nil, false, osr, o, true)
		}
		for i := 0; i < nm && !r.Stop(); i++ {
			switch h.rnd.Intn(3) {
			case 0:
				opScan(ctx, r, "ubuntu", lsb, mut(l), hl, osr, o, ho)
			case 1:
				opScan(ctx, r, "ubuntu", lsb, nil, false, osr, mut(o), ho)
			default:
				opScan(ctx, r, "ubuntu", lsb, mut(l), hl && h.rnd.Chance(1, 2), osr, mut(o), ho)
			}
		}
	}
	// aws, oracle, photon: one file
	for _, d := range []string{"aws", "oracle", "photon"} {
		for _, v := range h.fx.Vars[d] {
			p := osr
			if strings.Contains(v.Name, "Issue") {
				p = issue
			}
			_, got := opScan(ctx, r, d, p, []byte(v.Content), true, "", nil, false)
			h.noteScan(d, v.Name, got)
			for i := 0; i < nm && !r.Stop(); i++ {
				opScan(ctx, r, d, p, mut([]byte(v.Content)), true, "", nil, false)
			}
		}
		opScan(ctx, r, d, osr, nil, false, "", nil, false)
	}
	for _, t := range []string{"ORACLE LINUX SERVER 8", "Oracle Linux Server release5", "Oracle Linux Server release 5.", "xx Oracle Linux Server 6.10 yy Oracle Linux Server 7", "Oracle Linux Server 10", "Oracle Linux Server  8"} {
		opScan(ctx, r, "oracle", osr, []byte(t), true, "", nil, false)
	}
	for _, t := range []string{"NAME=\"VMware Photon OS\"\nVERSION=\"3.0\"", "NAME=\"VMware Photon OS\" VERSION=\"3.0\"", "\nNAME=\"VMware Photon OS\"\nVERSION=\"2.0\"", "x=\"VMware Photon\"\tVERSION=\"1x0\"", "NAME=\"VMware Photon OS\"\nVERSION=\"4.0\"", "NAME=\"VMware Photon OS\"\n\nVERSION=\"3.0\""} {
		opScan(ctx, r, "photon", osr, []byte(t), true, "", nil, false)
	}
	// suse (restricted to the CPE shapes the model covers)
	for _, v := range h.fx.Vars["suse"] {
		_, got := opScan(ctx, r, "suse", osr, []byte(v.Content), true, "", nil, false)
		h.noteScan("suse", v.Name, got)
		for i := 0; i < nm && !r.Stop(); i++ {
			m := mut([]byte(v.Content))
			if !suseSupported(ctx, m) {
				r.Count("scan:suse:unsupported-shape-skipped")
				continue
			}
			opScan(ctx, r, "suse", osr, m, true, "", nil, false)
		}
	}
}

// -------------------------------------------------------------- updaters

func sameDist(vs []*claircore.Vulnerability) (*claircore.Distribution, bool) {
	if len(vs) == 0 {
		return nil, false
	}
	d := vs[0].Dist
	for _, v := range vs {
		if v.Dist == nil || d == nil || fromDist(v.Dist) != fromDist(d) {
			return d, false
		}
	}
	return d, true
}

var debianWorldReleases = []debRelease{{"wheezy", 7}, {"jessie", 8}, {"stretch", 9}, {"buster", 10}, {"bullseye", 11}, {"bookworm", 12}, {"trixie", 13}}

func (h *harness) sectionUpdaters() error {
	ctx, r := h.ctx, h.r
	w := newWorld()
	one := func(id string) []adv { return []adv{{pkg: "verifpkg", fixed: "2.0-r0", id: id}} }

	// alpine: the fixture releases, plus the minors up to 3.21 and 4.0
	h.alpineDist = map[string]*claircore.Distribution{}
	aadv := map[string][]adv{"edge": one("CVE-edge")}
	for m := 3; m <= 21; m++ {
		aadv["3."+strconv.Itoa(m)] = one("CVE-3." + strconv.Itoa(m))
	}
	aadv["4.0"] = one("CVE-4.0")
	w.alpineWorld(aadv)
	am, err := alpineRun(ctx, w)
	if err != nil {
		return fmt.Errorf("alpine: %w", err)
	}
	for rel := range aadv {
		name := "alpine-main-v" + rel + "-updater"
		args := ""
		if rel == "edge" {
			name = "alpine-main-edge-updater"
			args = "alpine-edge"
		} else {
			mm := strings.Split(rel, ".")
			args = "alpine-stable " + mm[0] + " " + mm[1]
		}
		vs := am[name]
		d, ok := sameDist(vs)
		if !ok {
			r.Fail("", "alpine updater "+name+" produced no advisories or advisories with differing distributions")
			continue
		}
		h.alpineDist[rel] = d
		opUpd(r, args, d)
	}

	// debian
	h.debianDist = map[string]*claircore.Distribution{}
	dadv := map[string][]adv{}
	for _, rel := range debianWorldReleases {
		dadv[rel.code] = []adv{{pkg: "verifsrc-" + rel.code, fixed: "2.0-1", id: "CVE-" + rel.code}}
	}
	w.debianWorld(debianWorldReleases, dadv)
	dvs, err := debianRun(ctx, w)
	if err != nil {
		return fmt.Errorf("debian: %w", err)
	}
	for _, rel := range debianWorldReleases {
		var vs []*claircore.Vulnerability
		for _, v := range dvs {
			if v.Name == "CVE-"+rel.code {
				vs = append(vs, v)
			}
		}
		d, ok := sameDist(vs)
		if !ok || len(vs) != 1 {
			r.Fail("", fmt.Sprintf("debian updater: %d advisories for release %s (expected 1: sid and unlisted names are dropped)", len(vs), rel.code))
			continue
		}
		h.debianDist[rel.code] = d
		opUpd(r, "debian "+hs(rel.code)+" "+strconv.Itoa(rel.major), d)
	}

	// ubuntu: the series of the scanner test, all active
	h.ubuntuDist = map[string]*claircore.Distribution{}
	var series []ubSeries
	uadv := map[string][]adv{}
	for _, s := range h.fx.UbuntuSeries {
		series = append(series, ubSeries{version: s[0], name: s[1], active: true})
		uadv[s[0]] = []adv{{pkg: "verifbin", fixed: "2.0-1", id: "CVE-" + s[0]}}
	}
	series = append(series, ubSeries{version: "24.04", name: "noble", active: true}, ubSeries{version: "9.10", name: "karmic", active: false})
	uadv["24.04"] = []adv{{pkg: "verifbin", fixed: "2.0-1", id: "CVE-24.04"}}
	w.ubuntuWorld(series, uadv)
	um, err := ubuntuRun(ctx, w)
	if err != nil {
		return fmt.Errorf("ubuntu: %w", err)
	}
	for _, s := range series {
		if !s.active {
			continue
		}
		vs := um["ubuntu/updater/"+s.name]
		d, ok := sameDist(vs)
		if !ok {
			r.Fail("", "ubuntu updater for "+s.name+" produced no advisories or differing distributions")
			continue
		}
		h.ubuntuDist[s.version] = d
		opUpd(r, "ubuntu "+hs(s.version)+" "+hs(s.name), d)
	}

	// photon
	h.photonDist = map[string]*claircore.Distribution{}
	padv := map[string][]adv{}
	for _, rel := range []string{"photon1", "photon2", "photon3"} {
		padv[rel] = []adv{{pkg: "verifrpm", fixed: "0:2.0-1.ph", id: "PHSA-" + rel}}
	}
	w.photonWorld(padv)
	pm, err := photonRun(ctx, w)
	if err != nil {
		return fmt.Errorf("photon: %w", err)
	}
	for name, vs := range pm {
		rel := strings.TrimPrefix(name, "photon-updater-")
		d, ok := sameDist(vs)
		if !ok {
			r.Fail("", "photon updater "+name+" produced no advisories")
			continue
		}
		h.photonDist[rel] = d
		opUpd(r, "photon "+hs(rel), d)
	}

	// aws
	h.awsDist = map[string]*claircore.Distribution{}
	for _, rel := range []aws.Release{aws.AmazonLinux1, aws.AmazonLinux2, aws.AmazonLinux2023, aws.Release("AL9")} {
		vs, err := awsParse(ctx, rel, []adv{{pkg: "verifrpm", fixed: "2.0-1.amzn", id: "ALAS-" + string(rel)}})
		if err != nil {
			return fmt.Errorf("aws: %w", err)
		}
		d, ok := sameDist(vs)
		if !ok {
			r.Fail("", "aws updater "+string(rel)+" produced no advisories")
			continue
		}
		if rel != "AL9" {
			h.awsDist[string(rel)] = d
		}
		opUpd(r, "aws "+hs(string(rel)), d)
	}

	// oracle: one advisory per platform string
	h.oracleDist = map[string]*claircore.Distribution{}
	plats := []string{"Oracle Linux 5", "Oracle Linux 6", "Oracle Linux 7", "Oracle Linux 8", "Oracle Linux 9", "Oracle Linux 10", "Oracle VM 3"}
	byP := map[string][]adv{}
	for _, p := range plats {
		byP[p] = []adv{{pkg: "verifrpm", fixed: "0:2.0-1.el", id: "ELSA-" + p}}
	}
	ovs, err := oracleRun(ctx, w, 2024, byP)
	if err != nil {
		return fmt.Errorf("oracle: %w", err)
	}
	for _, p := range plats {
		var vs []*claircore.Vulnerability
		for _, v := range ovs {
			if v.Name == "ELSA-"+p {
				vs = append(vs, v)
			}
		}
		if len(vs) == 0 {
			opUpd(r, "oracle "+hs(p), nil)
			continue
		}
		d, _ := sameDist(vs)
		h.oracleDist[p] = d
		opUpd(r, "oracle "+hs(p), d)
	}

	// oracle: definitions naming several platforms (all ordered pairs, some triples, unknown ones mixed in)
	{
		all := []string{"Oracle Linux 5", "Oracle Linux 6", "Oracle Linux 7", "Oracle Linux 8", "Oracle Linux 9", "Oracle Linux 10", "Oracle VM 3"}
		var lists [][]string
		for i, a := range all {
			for j, b := range all {
				if i != j {
					lists = append(lists, []string{a, b})
				}
			}
		}
		for k := 0; k < h.cfg.N(20, 200); k++ {
			n := 3 + h.rnd.Intn(3)
			var l []string
			for ; n > 0; n-- {
				l = append(l, all[h.rnd.Intn(len(all))])
			}
			lists = append(lists, l)
		}
		var defs []adv
		for i, l := range lists {
			defs = append(defs, adv{pkg: "verifrpm", fixed: "0:2.0-1.el", id: fmt.Sprintf("ELSA-multi-%d", i), plats: l})
		}
		mvs, err := oracleParseDoc(ctx, w, "com.oracle.elsa-multi.xml", defs)
		if err != nil {
			return fmt.Errorf("oracle (several platforms): %w", err)
		}
		byID := map[string][]*claircore.Vulnerability{}
		for _, v := range mvs {
			byID[v.Name] = append(byID[v.Name], v)
		}
		for i, l := range lists {
			vs := byID[fmt.Sprintf("ELSA-multi-%d", i)]
			var toks, lines, want, got []string
			for _, p := range l {
				toks = append(toks, hs(p))
				if n := strings.TrimPrefix(p, "Oracle Linux "); n != p && len(n) == 1 {
					want = append(want, n)
				}
			}
			for _, v := range vs {
				if v.Dist == nil {
					lines = append(lines, "nil")
					continue
				}
				lines = append(lines, distLine(v.Dist))
				got = append(got, v.Dist.Version)
			}
			out := "none"
			if len(lines) > 0 {
				out = strings.Join(lines, " | ")
			}
			r.Op("upd oracle-multi "+strings.Join(toks, " "), out, len(lines) > 1)
			r.Count("upd:oracle-multi")
			// the statement itself: every named release is reached, and no other
			r.Case("oracle definition with platforms "+strings.Join(l, ","), true)
			sort.Strings(want)
			sort.Strings(got)
			if strings.Join(want, ",") != strings.Join(got, ",") {
				r.Fail("", fmt.Sprintf("oracle parser: a definition whose <affected> lists the platforms %v yields advisories for the releases %v, expected %v", l, got, want))
			}
		}
	}

	// suse
	h.suseDist = map[string]*claircore.Distribution{}
	sfiles := map[string][]adv{}
	for _, n := range []string{"suse.linux.enterprise.server.11.xml.gz", "suse.linux.enterprise.server.12.xml.gz", "suse.linux.enterprise.server.15.xml.gz",
		"opensuse.leap.15.5.xml.gz", "opensuse.leap.15.6.xml.gz"} {
		sfiles[n] = []adv{{pkg: "verifrpm", fixed: "0:2.0-1", id: "SUSE-" + n}}
	}
	w.suseWorld(sfiles)
	sm, err := suseRun(ctx, w)
	if err != nil {
		return fmt.Errorf("suse: %w", err)
	}
	if len(sm) != len(sfiles) {
		var got []string
		for n := range sm {
			got = append(got, n)
		}
		sort.Strings(got)
		r.Fail("", fmt.Sprintf("suse factory created %d updaters for %d served OVAL files (SLES 11/12/15, Leap 15.5/15.6): %v", len(sm), len(sfiles), got))
	}
	for _, vs := range sm {
		d, ok := sameDist(vs)
		if !ok {
			continue
		}
		href := strings.TrimPrefix(vs[0].Name, "SUSE-")
		h.suseDist[href] = d
		if strings.HasPrefix(href, "suse.linux") {
			opUpd(r, "suse-el "+hs(href), d)
		} else {
			ver := strings.TrimSuffix(strings.TrimPrefix(href, "opensuse.leap."), ".xml.gz")
			opUpd(r, "suse-leap "+hs(ver), d)
		}
	}

	// OSV
	h.osvRepo = map[string]*claircore.Repository{}
	lines := []string{"PyPI", "Maven", "RubyGems", "Go", "npm", "crates.io", "NuGet", "Packagist", "Debian:10", "Debian:11", "Alpine:v3.18", "Linux", "Ubuntu:22.04:LTS", "Hex", "Pub", "Bitnami", "GitHub Actions", "Rocky Linux:8"}
	oadv := map[string][]osvAdv{}
	for _, l := range lines {
		rt := "ECOSYSTEM"
		if l == "Go" || l == "npm" || l == "crates.io" {
			rt = "SEMVER"
		}
		oadv[l] = []osvAdv{{id: "OSV-" + l, ecosystem: l, name: "verif-" + strings.ToLower(l), purl: "pkg:x/verif-" + strings.ToLower(l), rangeType: rt, intro: "0", fixed: "2.0.0"}}
	}
	w.osvWorld(lines, oadv)
	om, err := osvRun(ctx, w)
	if err != nil {
		return fmt.Errorf("osv: %w", err)
	}
	for _, l := range lines {
		e := strings.ToLower(l)
		if i := strings.Index(e, ":"); i >= 0 {
			e = e[:i]
		}
		vs, ok := om["osv/"+e]
		if !ok {
			r.Op("osvrepo "+hs(l), "ignored", false)
			r.Count("osvrepo:ignored")
			continue
		}
		// versioned lines of one ecosystem share an updater (the first line's)
		if len(vs) == 0 || vs[0].Repo == nil {
			r.Fail("", "the OSV updater of "+l+" produced no advisory with a repository")
			continue
		}
		h.osvRepo[l] = vs[0].Repo
		r.Op("osvrepo "+hs(l), "repo "+hs(vs[0].Repo.Name)+" "+hs(vs[0].Repo.URI), true)
		r.Count("osvrepo:repo")
		if vs[0].Name == "OSV-"+l && vs[0].Package != nil {
			a := oadv[l][0]
			r.Op("osvpkg "+hs(a.ecosystem)+" "+hs(a.name)+" "+hs(a.purl), "pkg "+hs(vs[0].Package.Name)+" "+hs(vs[0].Package.Kind), true)
		}
	}
	return nil
}

// suseELOsRelease / suseLeapOsRelease: the os-release texts of
// Proofs/JoinTables.lean (suseELAllRows, suseLeapRows).
func suseELOsRelease(major string) []byte {
	return []byte("NAME=\"SLES\"\nID=\"sles\"\nCPE_NAME=\"cpe:/o:suse:sles:" + major + ":sp3\"\n")
}

func suseLeapOsRelease(ver string) []byte {
	return []byte("NAME=\"openSUSE Leap\"\nCPE_NAME=\"cpe:/o:opensuse:leap:" + ver + "\"\n")
}

var suseLeapVersions = []string{"15.5", "15.6", "15.7", "15.10", "16.0", "16.3"}

// sectionScanGenerated: every row of the aws / oracle / photon scanner tables
// on a file made of the text its expression matches (alone, and inside an
// os-release of another release of the same distribution: the first matching
// row decides), every SLES major the updater factory admits, Leap versions.
func (h *harness) sectionScanGenerated() {
	ctx, r := h.ctx, h.r
	const osr, issue = "etc/os-release", "etc/issue"
	for _, d := range []string{"aws", "oracle", "photon"} {
		for _, p := range h.samples[d] {
			_, got := opScan(ctx, r, d, osr, []byte(p[1]), true, "", nil, false)
			r.Count("scan-generated:" + d)
			if got == nil {
				r.Fail("", fmt.Sprintf("%s scanner: the text %q, which the table's expression for release %s matches, yields no distribution", d, p[1], p[0]))
			}
			if d == "oracle" {
				opScan(ctx, r, d, issue, []byte(p[1]), true, "", nil, false)
			}
			opScan(ctx, r, d, osr, []byte("NAME=x\n"+p[1]+"\nID=y\n"), true, "", nil, false)
			for _, q := range h.samples[d] {
				if q[0] != p[0] {
					opScan(ctx, r, d, osr, []byte(p[1]+"\n"+q[1]+"\n"), true, "", nil, false)
				}
			}
		}
	}
	for a := '1'; a <= '9'; a++ {
		for b := '1'; b <= '9'; b++ {
			opScan(ctx, r, "suse", osr, suseELOsRelease(string([]rune{a, b})), true, "", nil, false)
			r.Count("scan-generated:suse-el")
		}
	}
	for _, v := range suseLeapVersions {
		opScan(ctx, r, "suse", osr, suseLeapOsRelease(v), true, "", nil, false)
		r.Count("scan-generated:suse-leap")
	}
}
