package c04

// Histories: the update manager is not run once but periodically, against
// mirrors and feeds that change and that fail now and then.  Several updater
// factories keep state between runs (debian and ubuntu a process-wide release
// table, alpine the last enumeration and its validators, osv an etag), so
// what a run's Parse stamps depends on the runs before it.
//
// sectionHistory drives the REAL libvuln (update manager, default matchers,
// Scan) through several runs against an in-process world whose feeds change
// from run to run (new epoch = new advisory ids, new validators), whose
// mirrors gain and lose releases, and whose routes fail transiently (5xx /
// 429, connection reset, body that breaks off).  The store keeps, as the
// postgres store does, the latest successful update operation per updater and
// its fingerprint.  After every run the statement is checked on images indexed
// by the REAL libindex: whenever an updater's Parse succeeded and was stored,
// the vulnerable package of every release that updater serves is reported with
// exactly the advisory of that feed epoch; nothing is reported for the fixed
// package; nothing of another release is ever reported.
//
// sectionInterleave puts a Parse of the previous run's updaters inside every
// request the next enumeration makes (the world calls back from RoundTrip, so
// the interleaving is deterministic): whatever the factory is doing to its
// shared state, a concurrently running Parse must still reach every release.

import (
	"context"
	"encoding/json"
	"fmt"
	"sort"
	"strconv"
	"strings"
	"sync"
	"time"

	"github.com/google/uuid"

	"github.com/quay/claircore"
	"github.com/quay/claircore/alpine"
	"github.com/quay/claircore/datastore"
	"github.com/quay/claircore/debian"
	"github.com/quay/claircore/libindex"
	"github.com/quay/claircore/libvuln"
	"github.com/quay/claircore/libvuln/driver"
	"github.com/quay/claircore/libvuln/updates"
	"github.com/quay/claircore/ubuntu"
	"github.com/quay/claircore/verifharness/internal/hx"
	"github.com/quay/claircore/verifharness/internal/memstore"
)

// histStore is fullStore plus what the update manager needs to behave as in
// production over several runs: the fingerprint of the latest operation.
type histStore struct {
	*fullStore
	hmu      sync.Mutex
	run      int
	fps      map[string]driver.Fingerprint
	storedAt map[string]int // updater -> run of its latest stored operation
}

func newHistStore() *histStore {
	return &histStore{fullStore: newFullStore(), fps: map[string]driver.Fingerprint{}, storedAt: map[string]int{}}
}

func (s *histStore) UpdateVulnerabilities(ctx context.Context, updater string, fp driver.Fingerprint, vulns []*claircore.Vulnerability) (uuid.UUID, error) {
	ref, err := s.fullStore.UpdateVulnerabilities(ctx, updater, fp, vulns)
	if err == nil {
		s.hmu.Lock()
		s.fps[updater] = fp
		s.storedAt[updater] = s.run
		s.hmu.Unlock()
	}
	return ref, err
}

func (s *histStore) UpdateVulnerabilitiesIter(ctx context.Context, updater string, fp driver.Fingerprint, it datastore.VulnerabilityIter) (uuid.UUID, error) {
	var vs []*claircore.Vulnerability
	var ierr error
	it(func(v *claircore.Vulnerability, err error) bool {
		if err != nil {
			ierr = err
			return false
		}
		vs = append(vs, v)
		return true
	})
	if ierr != nil {
		return uuid.Nil, ierr
	}
	return s.UpdateVulnerabilities(ctx, updater, fp, vs)
}

func (s *histStore) GetUpdateOperations(_ context.Context, kind driver.UpdateKind, names ...string) (map[string][]driver.UpdateOperation, error) {
	out := map[string][]driver.UpdateOperation{}
	s.hmu.Lock()
	defer s.hmu.Unlock()
	for _, n := range names {
		if fp, ok := s.fps[n]; ok {
			out[n] = []driver.UpdateOperation{{Ref: uuid.New(), Updater: n, Fingerprint: fp, Kind: kind}}
		}
	}
	return out, nil
}

func (s *histStore) stored(updater string) int {
	s.hmu.Lock()
	defer s.hmu.Unlock()
	return s.storedAt[updater]
}

// histRelease is one release of one ecosystem in a history.
type histRelease struct {
	eco, rel   string
	updater    string // name of the updater that serves it
	feed       string // route of its feed
	relKey     string // debian: route of dists/<code>/Release
	listedFrom int    // first run in which the mirror lists it
	listedTo   int    // last run in which the mirror lists it (0 = for ever)
	pair       pkgPair
	ir         *claircore.IndexReport
	expect     int // epoch of the feed the store holds for it (0 = no demand)
	major      int // debian
	name       string
}

func (x *histRelease) listed(run int) bool {
	return run >= x.listedFrom && (x.listedTo == 0 || run <= x.listedTo)
}

func (x *histRelease) advID(kind string, epoch int) string {
	return fmt.Sprintf("ADV-%s-%s-%s-e%d", x.eco, x.rel, kind, epoch)
}

func (x *histRelease) advs(epoch int, bySource bool) []adv {
	p := x.pair
	vn, fn, decoy := p.vulnBin, p.fixedBin, p.vulnSrc
	if bySource {
		vn, fn, decoy = p.vulnSrc, p.fixedSrc, p.vulnBin
	}
	return []adv{{pkg: vn, fixed: p.fixIn, id: x.advID("vuln", epoch)}, {pkg: fn, fixed: p.fixIn, id: x.advID("fixed", epoch)},
		{pkg: decoy, fixed: p.fixIn, id: x.advID("decoy", epoch)}}
}

// histSeq hands out codenames / versions no other scenario of this process
// has used: the debian and ubuntu release tables are process-wide.
var histSeq int

func freshTag() string {
	histSeq++
	return strconv.Itoa(histSeq)
}

func debianOSRelease(code string, major int) []byte {
	m := strconv.Itoa(major)
	return []byte("PRETTY_NAME=\"Debian GNU/Linux " + m + " (" + code + ")\"\nNAME=\"Debian GNU/Linux\"\nVERSION_ID=\"" + m + "\"\nVERSION=\"" + m + " (" + code + ")\"\nVERSION_CODENAME=" + code + "\nID=debian\nHOME_URL=\"https://www.debian.org/\"\n")
}

func ubuntuLSB(ver, name string) []byte {
	return []byte("DISTRIB_ID=Ubuntu\nDISTRIB_RELEASE=" + ver + "\nDISTRIB_CODENAME=" + name + "\nDISTRIB_DESCRIPTION=\"Ubuntu " + ver + "\"\n")
}

func dpkgImage(p pkgPair, src bool) map[string][]byte {
	return map[string][]byte{"var/lib/dpkg/status": dpkgStatus(p, src),
		"var/lib/dpkg/info/" + p.vulnBin + ".md5sums":  []byte("d41d8cd98f00b204e9800998ecf8427e  usr/bin/x\n"),
		"var/lib/dpkg/info/" + p.fixedBin + ".md5sums": []byte("d41d8cd98f00b204e9800998ecf8427e  usr/bin/y\n")}
}

// history is one libvuln instance driven through several runs.
type history struct {
	id    int
	h     *harness
	w     *world
	st    *histStore
	lv    *libvuln.Libvuln
	rels  []*histRelease
	epoch map[string]int // feed route -> epoch of the content it serves
	log   []string       // what happened so far (the replayable history)
	forced map[int][]string // run -> routes that fail in that run whatever the dice say
	forcedNet map[int][]string // run -> routes whose request fails (connection reset) in that run
	changed   map[int][]string // run -> ecosystems that republish in that run whatever the dice say
	forcedSt  map[int][]string // run -> routes that answer 503 in that run
	quiet     map[int]bool     // run -> no faults and nothing republished (the dice are not asked)
	// debian: per run, was the dists/ listing served, and which Release files failed
	debListingOK map[int]bool
	debRelFault  map[int]map[string]bool
}

func (hy *history) logf(f string, a ...any) { hy.log = append(hy.log, fmt.Sprintf(f, a...)) }

// mirrors (re)writes the listings for this run.
func (hy *history) mirrors(run int) {
	w := hy.w
	// debian: dists/ listing and the Release files of the listed releases
	var listing strings.Builder
	listing.WriteString("<html><body><h1>Index of /debian/dists</h1><a href=\"../\">Parent Directory</a>\n<a href=\"?C=N;O=D\">Name</a>\n<a href=\"README\">README</a>\n")
	for _, x := range hy.rels {
		if x.eco != "debian" {
			continue
		}
		if !x.listed(run) {
			w.del(x.relKey)
			continue
		}
		fmt.Fprintf(&listing, "<a href=\"%s/\">%s/</a>\n<a href=\"%s-updates/\">%s-updates/</a>\n<a href=\"%s-backports/\">x</a>\n<a href=\"Debian%d.4/\">x</a>\n", x.rel, x.rel, x.rel, x.rel, x.rel, x.major)
		w.put(x.relKey, 200, "text/plain", []byte(fmt.Sprintf("Origin: Debian\nLabel: Debian\nSuite: stable\nVersion: %d.4\nCodename: %s\nDate: Sat, 10 Feb 2024 11:07:25 UTC\nAcquire-By-Hash: yes\n", x.major, x.rel)))
	}
	listing.WriteString("<a href=\"sid/\">sid/</a>\n<a href=\"stable/\">stable/</a>\n<a href=\"testing/\">testing/</a>\n<a href=\"experimental/\">x</a></body></html>")
	w.put("deb.test/debian/dists/", 200, "text/html", []byte(listing.String()))
	w.put("deb.test/debian/dists/sid/Release", 200, "text/plain", []byte("Origin: Debian\nSuite: unstable\nCodename: sid\n"))
	// ubuntu: the series collection
	type ent struct {
		Active  bool   `json:"active"`
		Name    string `json:"name"`
		Version string `json:"version"`
	}
	var es []string
	for _, x := range hy.rels {
		if x.eco == "ubuntu" && x.listed(run) {
			es = append(es, fmt.Sprintf(`{"active":true,"name":%q,"version":%q}`, x.name, x.rel))
		}
	}
	es = append(es, `{"active":false,"name":"karmic","version":"9.10"}`)
	w.put("lp.test/1.0/ubuntu/series", 200, "application/json", []byte(`{"entries":[`+strings.Join(es, ",")+`]}`))
}

// feeds rewrites the feeds of the ecosystems that publish something new in
// this run (content and validators change together).
func (hy *history) feeds(run int, changed map[string]bool) {
	w := hy.w
	et := fmt.Sprintf(`"e%d"`, run)
	if changed["alpine"] {
		for _, x := range hy.rels {
			if x.eco != "alpine" || !x.listed(run) {
				continue
			}
			dir := "v" + x.rel
			if x.rel == "edge" {
				dir = "edge"
			} else {
				w.put("alpine.test/"+dir+"/", 200, "text/html", []byte("<html></html>"))
			}
			w.put(x.feed, 200, "application/json", alpineSecdb(dir, x.advs(run, true)), "etag", et)
			hy.epoch[x.feed] = run
		}
		w.put("alpine.test/last-update", 200, "text/plain", []byte(fmt.Sprintf("stamp-%d", run)), "etag", et)
	}
	if changed["debian"] {
		type rd struct {
			Status       string `json:"status"`
			FixedVersion string `json:"fixed_version"`
			Urgency      string `json:"urgency"`
		}
		type vuln struct {
			Description string        `json:"description"`
			Releases    map[string]rd `json:"releases"`
		}
		data := map[string]map[string]*vuln{}
		feed := ""
		for _, x := range hy.rels {
			if x.eco != "debian" {
				continue
			}
			feed = x.feed
			// the tracker names a release before (and after) the mirror lists it
			for _, a := range x.advs(run, true) {
				if data[a.pkg] == nil {
					data[a.pkg] = map[string]*vuln{}
				}
				data[a.pkg][a.id] = &vuln{Description: "generated", Releases: map[string]rd{
					x.rel: {Status: "resolved", FixedVersion: a.fixed, Urgency: "low"},
					"sid": {Status: "resolved", FixedVersion: a.fixed, Urgency: "low"}}}
			}
		}
		b, _ := json.Marshal(data)
		w.put(feed, 200, "application/json", b, "last-modified", fmt.Sprintf("Sat, 10 Feb 2024 11:07:%02d GMT", run%60))
		hy.epoch[feed] = run
	}
	if changed["ubuntu"] {
		for _, x := range hy.rels {
			if x.eco != "ubuntu" {
				continue
			}
			w.put(x.feed, 200, "application/xml", ovalDoc("dpkg", "Ubuntu "+x.rel, x.advs(run, false)),
				"content-location", "com.ubuntu."+x.name+".cve.oval.xml", "etag", et)
			hy.epoch[x.feed] = run
		}
	}
	if changed["rpm"] {
		for _, x := range hy.rels {
			switch x.eco {
			case "photon":
				w.put(x.feed, 200, "application/xml", ovalDoc("rpm", "Photon", x.advs(run, false)), "etag", et)
			case "suse":
				files := map[string][]adv{x.name: x.advs(run, false)}
				w.suseWorld(files)
				// suseWorld serves the file without a validator; add one
				w.mu.Lock()
				rr := w.routes[x.feed]
				rr.header["etag"] = et
				w.routes[x.feed] = rr
				w.mu.Unlock()
			case "aws":
				w.awsWorldTagged(map[string][]adv{x.rel: x.advs(run, false)}, fmt.Sprintf("-e%d", run))
			case "oracle":
				as := x.advs(run, false)
				for i := range as {
					as[i].plats = []string{"Oracle Linux " + x.rel}
				}
				w.put(x.feed, 200, "application/xml", ovalDoc("rpm", "Oracle Linux 0", as), "etag", et)
			default:
				continue
			}
			hy.epoch[x.feed] = run
		}
	}
	if changed["osv"] {
		for _, x := range hy.rels {
			if x.eco != "pypi" {
				continue
			}
			p := x.pair
			// the list of ecosystems does not change when an ecosystem's database does
			w.put("osv.test/ecosystems.txt", 200, "text/plain", []byte("PyPI\n"), "etag", `"ecosystems-1"`)
			w.put(x.feed, 200, "application/zip", osvZip([]osvAdv{
				{id: x.advID("vuln", run), ecosystem: "PyPI", name: p.vulnBin, purl: "pkg:pypi/x", rangeType: "ECOSYSTEM", intro: "0", fixed: p.fixIn},
				{id: x.advID("fixed", run), ecosystem: "PyPI", name: p.fixedBin, purl: "pkg:pypi/y", rangeType: "ECOSYSTEM", intro: "0", fixed: p.fixIn}}), "etag", et)
			hy.epoch[x.feed] = run
		}
	}
}

func randFault(rn *hx.Rand) fault {
	switch rn.Intn(8) {
	case 0, 1:
		return fault{net: true}
	case 2, 3:
		return fault{body: true}
	case 4:
		return fault{status: 500}
	case 5:
		return fault{status: 502}
	case 6:
		return fault{status: 429}
	}
	return fault{status: 503}
}

// pickFaults chooses the routes that fail in this run.
func (hy *history) pickFaults(run int) map[string]fault {
	rn := hy.h.rnd
	out := map[string]fault{}
	for _, k := range hy.forced[run] {
		out[k] = randFault(rn)
	}
	for _, k := range hy.forcedNet[run] {
		out[k] = fault{net: true}
	}
	for _, k := range hy.forcedSt[run] {
		out[k] = fault{status: 503}
	}
	if hy.quiet[run] {
		return map[string]fault{}
	}
	if run == 1 && rn.Chance(2, 3) {
		return out // most histories start with a clean run
	}
	hy.w.mu.Lock()
	var keys []string
	for k := range hy.w.routes {
		keys = append(keys, k)
	}
	hy.w.mu.Unlock()
	sort.Strings(keys)
	var pool []string
	for _, k := range keys {
		wgt := 1
		switch {
		case strings.HasPrefix(k, "deb.test/"):
			wgt = 8
		case strings.HasPrefix(k, "lp.test/"), strings.HasPrefix(k, "security-metadata.canonical.com/"):
			wgt = 3
		case k == "alpine.test/last-update", strings.HasPrefix(k, "osv.test/"):
			wgt = 3
		case strings.HasPrefix(k, "linux.oracle.test/") && !strings.Contains(k, "elsa-2024"):
			wgt = 0 // the other years' (empty) documents
		case strings.HasPrefix(k, "aws.test/"), strings.HasPrefix(k, "ftp.suse.test/"), strings.HasPrefix(k, "packages.vmware.com/"), strings.Contains(k, "mirror.list"), strings.Contains(k, "elsa-2024"):
			wgt = 2
		}
		for ; wgt > 0; wgt-- {
			pool = append(pool, k)
		}
	}
	n := []int{0, 1, 1, 1, 2, 2, 3}[rn.Intn(7)]
	for ; n > 0 && len(pool) > 0; n-- {
		out[pool[rn.Intn(len(pool))]] = randFault(rn)
	}
	return out
}

func (hy *history) run(ctx context.Context, run int) {
	h, r, w := hy.h, hy.h.r, hy.w
	rn := h.rnd
	hy.mirrors(run)
	changed := map[string]bool{}
	for _, e := range []string{"alpine", "debian", "ubuntu", "osv", "rpm"} {
		changed[e] = run == 1 || rn.Chance(3, 4)
	}
	if len(hy.forced[run]) > 0 {
		changed["debian"] = true
	}
	for _, e := range hy.changed[run] {
		changed[e] = true
	}
	if hy.quiet[run] {
		changed = map[string]bool{}
	}
	// a release that enters the alpine mirror comes with a new stamp
	for _, x := range hy.rels {
		if x.eco == "alpine" && x.listedFrom == run && run > 1 {
			changed["alpine"] = true
		}
	}
	hy.feeds(run, changed)
	faults := hy.pickFaults(run)
	w.mu.Lock()
	w.faults = faults
	w.mu.Unlock()
	var fl, ch []string
	for k, f := range faults {
		fl = append(fl, k+"="+f.String())
		r.Count("history:fault:" + f.String())
	}
	for e, c := range changed {
		if c {
			ch = append(ch, e)
		}
	}
	sort.Strings(fl)
	sort.Strings(ch)
	hy.logf("run %d: feeds republished %v; transient faults %v", run, ch, fl)
	hy.st.hmu.Lock()
	hy.st.run = run
	hy.st.hmu.Unlock()
	if err := hy.lv.FetchUpdates(ctx); err != nil {
		r.Count("history:run-with-updater-errors")
	} else {
		r.Count("history:run-clean")
	}
	w.mu.Lock()
	w.faults = map[string]fault{}
	w.mu.Unlock()
	if hy.st.sqlErr != nil {
		return
	}
	// what this run's successful operations oblige
	_, listingFault := faults["deb.test/debian/dists/"]
	hy.debListingOK[run] = !listingFault
	hy.debRelFault[run] = map[string]bool{}
	for _, x := range hy.rels {
		if x.eco != "debian" {
			continue
		}
		if _, f := faults[x.relKey]; f {
			hy.debRelFault[run][x.relKey] = true
		}
	}
	for _, x := range hy.rels {
		if hy.st.stored(x.updater) != run {
			continue
		}
		r.Count("history:stored:" + x.eco)
		switch {
		case x.eco != "debian":
			x.expect = hy.epoch[x.feed]
		case x.listed(run) && hy.debianAbsence(x, run) == "known":
			x.expect = hy.epoch[x.feed]
		default:
			// the single debian updater stored a new operation; the mirror does
			// not list this release (any more), or the release was not in the
			// table when the feed was parsed: classified below
			x.expect = 0
		}
	}
	faultFree := len(faults) == 0
	if faultFree {
		r.Count("history:fault-free-run")
	}
	// the statement, on every image
	for _, x := range hy.rels {
		if r.Stop() {
			return
		}
		key := fmt.Sprintf("history %d %s release=%s run=%d", hy.id, x.eco, x.rel, run)
		r.Case(key, true)
		vr, err := hy.lv.Scan(ctx, x.ir)
		if err != nil {
			r.Fail("", key+": libvuln.Scan failed: "+err.Error())
			continue
		}
		gotV, gotF := reportedFor(vr, x.pair.vulnBin), reportedFor(vr, x.pair.fixedBin)
		where := fmt.Sprintf("%s: history [%s]", key, strings.Join(hy.log, " | "))
		if len(gotF) != 0 {
			r.Fail("", fmt.Sprintf("%s: the fixed package %s@%s is reported %v", where, x.pair.fixedBin, x.pair.fixedVer, gotF))
		}
		own := fmt.Sprintf("ADV-%s-%s-vuln-e", x.eco, x.rel)
		for _, g := range gotV {
			if !strings.HasPrefix(g, own) {
				r.Fail("", fmt.Sprintf("%s: the advisory %s of another release is reported for %s", where, g, x.pair.vulnBin))
			}
		}
		last := hy.st.stored(x.updater)
		switch {
		case x.expect != 0:
			r.Count("history:demand:" + x.eco)
			want := x.advID("vuln", x.expect)
			if len(gotV) != 1 || gotV[0] != want {
				r.Fail("", fmt.Sprintf("%s: the updater %s last stored the feed of run %d successfully, the mirror lists the release, and the vulnerable package %s@%s (fixed in %s) is reported %v, expected exactly [%s]",
					where, x.updater, x.expect, x.pair.vulnBin, x.pair.vulnVer, x.pair.fixIn, gotV, want))
			}
			// a run without any transient fault brings the store up to date
			if faultFree && x.listed(run) && x.expect != hy.epoch[x.feed] {
				r.Fail("", fmt.Sprintf("%s: the run had no transient fault, the mirror lists the release, and the store does not hold the release's current feed (epoch %d; the updater %s last stored epoch %d)", where, hy.epoch[x.feed], x.updater, x.expect))
			}
		case x.eco == "debian" && x.listed(run) && last != 0 && len(gotV) == 0 && (last == run || faultFree):
			// The latest stored operation of debian/updater (run `last`) holds
			// nothing for a release the mirror lists.  Why was the release not in
			// the process-wide table when that feed was parsed?  Computed from the
			// history, not from the look of the failure.
			switch cause := hy.debianAbsence(x, last); cause {
			case "release-file":
				// every enumeration up to then that got the dists/ listing and
				// found the release in it failed to read its Release file
				r.Count("history:debian-never-enumerated")
				r.Fail("debian-release-fault-drops", fmt.Sprintf("%s: up to run %d every enumeration that was served the dists/ listing with %s in it failed to read dists/%s/Release; the Parse of run %d succeeded and stored no advisory of the release", where, last, x.rel, x.rel, last))
			case "not-listed-yet":
				// the mirror did not list the release in any run up to then, and
				// the tracker has not been republished since
				r.Count("history:debian-new-release-waits")
				r.Fail("debian-new-release-waits-for-tracker", fmt.Sprintf("%s: the mirror lists %s since run %d, after the latest stored operation of debian/updater (run %d, when the tracker already named the release); the tracker feed has not changed since, Fetch answers Unchanged, and the release's advisories are not in the store", where, x.rel, x.listedFrom, last))
			case "listing-failed":
				r.Fail("", fmt.Sprintf("%s: the dists/ listing could not be fetched in any run up to %d in which the mirror listed %s, debian/updater ran all the same in run %d, its Parse succeeded and the operation stored (fingerprint: the tracker's Last-Modified) holds no advisory of the release: the vulnerable package %s@%s is reported %v", where, last, x.rel, last, x.pair.vulnBin, x.pair.vulnVer, gotV))
			default:
				r.Fail("", fmt.Sprintf("%s: dists/%s/Release was read in an enumeration up to run %d; the operation debian/updater stored in run %d holds no advisory of the release: the vulnerable package %s@%s is reported %v", where, x.rel, last, last, x.pair.vulnBin, x.pair.vulnVer, gotV))
			}
		case faultFree && x.listed(run) && (x.eco != "debian" || last == 0):
			r.Fail("", fmt.Sprintf("%s: the run had no transient fault, the mirror lists the release, and the store holds nothing of the updater %s for it (current feed: epoch %d)", where, x.updater, hy.epoch[x.feed]))
		default:
			r.Count("history:no-demand:" + x.eco)
		}
	}
}

// debianAbsence says whether, and if not why not, the release was in debian's
// process-wide release table when the feed of run j was parsed, from the
// history up to j: "known" (some enumeration was served the listing with the
// release in it and read its Release file), "release-file" (enumerations were
// served the listing with the release in it, and every one of them failed to
// read the file), "listing-failed" (the mirror listed it, but no enumeration
// was served the listing), "not-listed-yet" (the mirror did not list it).
func (hy *history) debianAbsence(x *histRelease, j int) string {
	listed, served := false, false
	for i := 1; i <= j; i++ {
		if !x.listed(i) {
			continue
		}
		listed = true
		if !hy.debListingOK[i] {
			continue
		}
		served = true
		if !hy.debRelFault[i][x.relKey] {
			return "known"
		}
	}
	switch {
	case served:
		return "release-file"
	case listed:
		return "listing-failed"
	}
	return "not-listed-yet"
}

func (h *harness) sectionHistory() {
	r := h.r
	ctx, cancel := context.WithTimeout(h.ctx, 4*time.Minute)
	defer cancel()
	defer func() {
		if ctx.Err() != nil {
			r.Fail("", "history: libindex / libvuln did not finish within four minutes (hang)")
		}
	}()
	// one libindex for all histories
	wi := newWorld()
	wi.put("security.access.redhat.com/data/metrics/repository-to-cpe.json", 200, "application/json", []byte(`{"data":{}}`), "last-modified", "Mon, 01 Jan 2024 00:00:00 GMT")
	ar := &memArena{layers: map[string][]byte{}}
	li, err := libindex.New(ctx, &libindex.Options{
		Store: memstore.New(), Locker: updates.NewLocalLockSource(), FetchArena: ar, LayerScanConcurrency: 2,
	}, wi.client())
	if err != nil {
		r.Fail("", "history: libindex.New: "+err.Error())
		return
	}
	defer li.Close(ctx)
	index := func(what string, layers ...map[string][]byte) *claircore.IndexReport {
		ir, err := li.Index(ctx, ar.manifestOf(layers...))
		if err != nil || ir == nil || !ir.Success {
			e := ""
			if ir != nil {
				e = ir.Err
			}
			r.Fail("", fmt.Sprintf("history: libindex.Index of the %s image failed: %v %s", what, err, e))
			return nil
		}
		return ir
	}
	// the alpine images do not depend on the history
	apkP := h.genPair("apk")
	type alp struct {
		rel string
		ir  *claircore.IndexReport
	}
	var alps []alp
	for _, e := range h.fx.Dirs["alpine"] {
		files := map[string][]byte{"lib/apk/db/installed": apkDB(apkP)}
		for _, f := range e.Files {
			files[f[0]] = []byte(f[1])
		}
		if ir := index("alpine "+e.Release, files); ir != nil {
			alps = append(alps, alp{e.Release, ir})
		}
	}

	nh, nr := h.cfg.N(4, 24), h.cfg.N(6, 10)
	for hi := 0; hi < nh && !r.Stop(); hi++ {
		hy := &history{id: hi, h: h, w: newWorld(), st: newHistStore(), epoch: map[string]int{}, forced: map[int][]string{}, forcedNet: map[int][]string{}, changed: map[int][]string{}, forcedSt: map[int][]string{}, quiet: map[int]bool{},
			debListingOK: map[int]bool{}, debRelFault: map[int]map[string]bool{}}
		hy.w.conditional = true
		tag := freshTag()
		for _, a := range alps {
			dir := "v" + a.rel
			if a.rel == "edge" {
				dir = "edge"
			}
			hy.rels = append(hy.rels, &histRelease{eco: "alpine", rel: a.rel, updater: "alpine-main-" + dir + "-updater",
				feed: "alpine.test/" + dir + "/main.json", listedFrom: 1, pair: apkP, ir: a.ir})
		}
		// the next minor after the last fixture release enters the mirror in run
		// 3, in a run in which a request of the walk fails
		if len(alps) > 1 {
			last := alps[len(alps)-2] // the one before edge
			for _, a := range alps {
				if a.rel != "edge" && alpLess(last.rel, a.rel) {
					last = a
				}
			}
			if next, files := nextAlpine(h, last.rel, apkP); next != "" {
				if ir := index("alpine "+next, files); ir != nil {
					hy.rels = append(hy.rels, &histRelease{eco: "alpine", rel: next, updater: "alpine-main-v" + next + "-updater",
						feed: "alpine.test/v" + next + "/main.json", listedFrom: 3, pair: apkP, ir: ir})
					if hi < 2 {
						hy.forcedNet[3] = []string{"alpine.test/v" + last.rel + "/"}
						hy.changed[3] = []string{"alpine"}
						// run 5: a repository file (history 0) or a release directory
						// (history 1) answers 503 while the walk completes; run 6 is quiet
						var stable []string
						for _, a := range alps {
							if a.rel != "edge" {
								stable = append(stable, a.rel)
							}
						}
						if hi == 0 {
							hy.forcedSt[5] = []string{"alpine.test/v" + stable[0] + "/main.json"}
						} else {
							hy.forcedSt[5] = []string{"alpine.test/v" + stable[len(stable)/2] + "/"}
						}
						hy.changed[5] = []string{"alpine"}
						hy.quiet[6] = true
					}
				}
			}
		}
		debP, ubP, pyP := h.genPair("deb"), h.genPair("deb"), h.genPair("sem")
		nd := 3 + h.rnd.Intn(2)
		for i := 0; i < nd; i++ {
			code := fmt.Sprintf("vrf%sd%c", tag, 'a'+i)
			x := &histRelease{eco: "debian", rel: code, major: 30 + i, updater: "debian/updater", feed: "deb.test/tracker/data/json",
				relKey: "deb.test/debian/dists/" + code + "/Release", listedFrom: 1, pair: debP}
			if i == nd-1 {
				x.listedFrom = 3 // a release that enters the mirror later
			}
			if i == 0 && h.rnd.Chance(1, 2) {
				x.listedTo = 4 // the oldest one leaves for the archive
			}
			if x.ir = index("debian "+code, map[string][]byte{"etc/os-release": debianOSRelease(code, x.major)}, dpkgImage(debP, true)); x.ir == nil {
				continue
			}
			hy.rels = append(hy.rels, x)
		}
		nu := 2 + h.rnd.Intn(2)
		for i := 0; i < nu; i++ {
			ver := fmt.Sprintf("7%s.%02d", tag, 4+6*i)
			name := fmt.Sprintf("vrf%su%c", tag, 'a'+i)
			x := &histRelease{eco: "ubuntu", rel: ver, name: name, updater: "ubuntu/updater/" + name,
				feed: "security-metadata.canonical.com/oval/com.ubuntu." + name + ".cve.oval.xml", listedFrom: 1, pair: ubP}
			if i == nu-1 && h.rnd.Chance(1, 2) {
				x.listedFrom = 2
			}
			if x.ir = index("ubuntu "+ver, map[string][]byte{"etc/lsb-release": ubuntuLSB(ver, name)}, dpkgImage(ubP, false)); x.ir == nil {
				continue
			}
			hy.rels = append(hy.rels, x)
		}
		{
			meta := func(n, v string) []byte {
				return []byte("Metadata-Version: 2.1\nName: " + n + "\nVersion: " + v + "\nSummary: generated\n\nbody\n")
			}
			x := &histRelease{eco: "pypi", rel: "pypi", updater: "osv/pypi", feed: "osv.test/PyPI/all.zip", listedFrom: 1, pair: pyP}
			x.ir = index("python", map[string][]byte{
				"usr/local/lib/python3.11/site-packages/" + pyP.vulnBin + "-" + pyP.vulnVer + ".dist-info/METADATA":   meta(pyP.vulnBin, pyP.vulnVer),
				"usr/local/lib/python3.11/site-packages/" + pyP.fixedBin + "-" + pyP.fixedVer + ".dist-info/METADATA": meta(pyP.fixedBin, pyP.fixedVer)})
			if x.ir != nil {
				hy.rels = append(hy.rels, x)
			}
		}
		// the rpm-based distributions: one release each, image = fixture file + rpm database
		{
			rpmP := h.genPair("rpm")
			byVar := func(d string) map[string]string {
				m := map[string]string{}
				for _, v := range h.fx.Vars[d] {
					m[v.Name] = v.Content
				}
				return m
			}
			mkImg := func(path, content string, flavour string) []map[string][]byte {
				dbPath, db, err := rpmImageDB(rpmP, flavour, "")
				if err != nil {
					return nil
				}
				return []map[string][]byte{{path: []byte(content)}, {dbPath: db}}
			}
			for k, d := range []string{"aws", "oracle", "photon"} {
				exp := h.fx.Expected[d]
				if len(exp) == 0 {
					continue
				}
				e := exp[(hi+k)%len(exp)]
				path := "etc/os-release"
				if strings.Contains(e[1], "Issue") {
					path = "etc/issue"
				}
				x := &histRelease{eco: d, rel: e[0], listedFrom: 1, pair: rpmP}
				switch d {
				case "aws":
					x.updater, x.feed = "aws-"+e[0]+"-updater", "aws.test/"+e[0]+"/repodata/updateinfo.xml.gz"
				case "oracle":
					x.updater, x.feed = "oracle-2024-updater", "linux.oracle.test/security/oval/com.oracle.elsa-2024.xml"
				case "photon":
					x.updater, x.feed = "photon-updater-"+e[0], "packages.vmware.com/photon/photon_oval_definitions/com.vmware.phsa-"+e[0]+".xml"
				}
				if layers := mkImg(path, byVar(d)[e[1]], []string{"sqlite", "ndb"}[(hi+k)%2]); layers != nil {
					if x.ir = index(d+" "+e[0], layers...); x.ir != nil {
						hy.rels = append(hy.rels, x)
					}
				}
			}
			sx := &histRelease{eco: "suse", rel: "15", name: "suse.linux.enterprise.server.15.xml.gz", updater: "suse-updater-suse.linux.enterprise.server.15",
				feed: "ftp.suse.test/pub/projects/security/oval/suse.linux.enterprise.server.15.xml.gz", listedFrom: 1, pair: rpmP}
			if layers := mkImg("etc/os-release", byVar("suse")["enterpriseServer15OSRelease"], "ndb"); layers != nil {
				if sx.ir = index("suse 15", layers...); sx.ir != nil {
					hy.rels = append(hy.rels, sx)
				}
			}
		}
		// directed part of the first histories: one release's Release file
		// fails in run 2 (after a clean first run), the late release's in the
		// run it appears in
		var debs []*histRelease
		for _, x := range hy.rels {
			if x.eco == "debian" {
				debs = append(debs, x)
			}
		}
		if hi < 2 && len(debs) > 1 {
			hy.forced[2] = []string{debs[hi%(len(debs)-1)].relKey}
			hy.forced[3] = []string{debs[len(debs)-1].relKey}
		}
		if hi == 3 && len(debs) > 1 {
			// corpus/C04/history-new-release-tracker-unchanged.txt: the late
			// release enters the mirror in run 3; runs 3 and 4 are quiet
			hy.quiet[3], hy.quiet[4] = true, true
		}
		if hi == 2 && len(debs) > 1 {
			// the listing itself fails in the run in which the late release
			// appears (the tracker is republished and answers); run 4 is quiet
			hy.forcedSt[3] = []string{"deb.test/debian/dists/"}
			hy.changed[3] = []string{"debian"}
			hy.quiet[4] = true
		}
		cfgs := map[string]driver.ConfigUnmarshaler{}
		sets := []string{"alpine", "debian", "ubuntu", "osv", "photon", "suse", "aws", "oracle"}
		for _, n := range sets {
			cfgs[n] = worldConfig
		}
		// oracle: one (empty) document per year, the advisories in 2024's
		for n, c := range hy.w.oracleYearsWorld(nil, 2007, time.Now().Year()) {
			cfgs[n] = c
		}
		// photon: the releases without an image still have a (empty) document
		hy.w.photonWorld(map[string][]adv{"photon1": nil, "photon2": nil, "photon3": nil})
		lv, err := libvuln.New(ctx, &libvuln.Options{
			Store: hy.st, Locker: updates.NewLocalLockSource(), Client: hy.w.client(),
			UpdaterSets: sets, UpdaterConfigs: cfgs, DisableBackgroundUpdates: true, UpdateRetention: 2,
		})
		if err != nil {
			r.Fail("", "history: libvuln.New: "+err.Error())
			return
		}
		hy.lv = lv
		for run := 1; run <= nr && !r.Stop(); run++ {
			hy.run(ctx, run)
		}
		if hy.st.sqlErr != nil {
			r.Fail("", "the SQL text of buildGetQuery is no longer of the known shape: "+hy.st.sqlErr.Error())
		}
		lv.Close(ctx)
	}
}

// ---- a Parse inside every request of the next enumeration ----

// sectionInterleave: for the factories with shared state, enumerate once,
// keep that run's updaters, and during every request of a second enumeration
// run Fetch+Parse of the kept updaters: each must still stamp every release of
// the first enumeration, with the same Distribution.
func (h *harness) sectionInterleave() {
	ctx, r := h.ctx, h.r
	tag := freshTag()
	type want struct {
		adv  string
		dist claircore.Distribution
	}
	check := func(eco, at string, vs []*claircore.Vulnerability, err error, wants []want) {
		r.Case("interleave "+eco+" parse during "+at, true)
		r.Count("interleave:" + eco)
		if err != nil {
			r.Fail("", fmt.Sprintf("interleave %s: a Parse of the previous run's updater, running while the next enumeration waits for %s, failed: %v", eco, at, err))
			return
		}
		for _, wnt := range wants {
			n := 0
			for _, v := range vs {
				if v.Name == wnt.adv && v.Dist != nil && fromDist(v.Dist) == fromDist(&wnt.dist) {
					n++
				}
			}
			if n != 1 {
				r.Fail("", fmt.Sprintf("interleave %s: a Parse of the previous run's updater, running while the next enumeration waits for %s, yields %d advisories %s with the release's Distribution (%s), expected 1", eco, at, n, wnt.adv, wnt.dist.PrettyName))
			}
		}
	}
	guard := func(f func() ([]*claircore.Vulnerability, error)) (vs []*claircore.Vulnerability, err error) {
		out := hx.Guard(func() string {
			vs, err = f()
			return "ok"
		})
		if out != "ok" {
			err = fmt.Errorf("%s", out)
		}
		return vs, err
	}

	// debian
	{
		w := newWorld()
		var rels []debRelease
		dadv := map[string][]adv{}
		for i := 0; i < 3; i++ {
			code := fmt.Sprintf("vrf%si%c", tag, 'a'+i)
			rels = append(rels, debRelease{code, 40 + i})
			dadv[code] = []adv{{pkg: "verifsrc", fixed: "2.0-1", id: "CVE-" + code}}
		}
		w.debianWorld(rels, dadv)
		f, _ := debian.NewFactory(ctx)
		cf := func(v any) error {
			if c, ok := v.(*debian.FactoryConfig); ok {
				c.MirrorURL = "http://deb.test/"
				c.JSONURL = "http://deb.test/tracker/data/json"
			}
			return nil
		}
		if err := f.Configure(ctx, cf, w.client()); err != nil {
			r.Fail("", "interleave debian: configure: "+err.Error())
		} else if us, err := f.UpdaterSet(ctx); err != nil || len(us.Updaters()) != 1 {
			r.Fail("", fmt.Sprintf("interleave debian: first enumeration: %v", err))
		} else {
			u := us.Updaters()[0]
			first, err := runUpdater(ctx, u, w.client(), noConfig)
			var wants []want
			for _, rel := range rels {
				for _, v := range first {
					if v.Name == "CVE-"+rel.code && v.Dist != nil {
						wants = append(wants, want{v.Name, *v.Dist})
					}
				}
			}
			if err != nil || len(wants) != len(rels) {
				r.Fail("", fmt.Sprintf("interleave debian: the first run stamped %d of %d releases: %v", len(wants), len(rels), err))
			} else {
				busy := false
				w.during = func(method, key string) {
					if busy || !strings.HasPrefix(key, "deb.test/debian/dists/") {
						return
					}
					busy = true
					defer func() { busy = false }()
					vs, err := guard(func() ([]*claircore.Vulnerability, error) { return runUpdater(ctx, u, w.client(), noConfig) })
					check("debian", method+" "+key, vs, err, wants)
				}
				_, err := f.UpdaterSet(ctx)
				w.during = nil
				if err != nil {
					r.Fail("", "interleave debian: second enumeration: "+err.Error())
				}
			}
		}
	}
	// ubuntu
	{
		w := newWorld()
		var series []ubSeries
		uadv := map[string][]adv{}
		for i := 0; i < 3; i++ {
			ver := fmt.Sprintf("8%s.%02d", tag, 4+i)
			name := fmt.Sprintf("vrf%sj%c", tag, 'a'+i)
			series = append(series, ubSeries{version: ver, name: name, active: true})
			uadv[ver] = []adv{{pkg: "verifbin", fixed: "2.0-1", id: "CVE-" + ver}}
		}
		w.ubuntuWorld(series, uadv)
		f, _ := ubuntu.NewFactory(ctx)
		cf := func(v any) error {
			if c, ok := v.(*ubuntu.FactoryConfig); ok {
				c.URL = "http://lp.test/1.0/"
			}
			return nil
		}
		if err := f.Configure(ctx, cf, w.client()); err != nil {
			r.Fail("", "interleave ubuntu: configure: "+err.Error())
		} else if us, err := f.UpdaterSet(ctx); err != nil || len(us.Updaters()) != len(series) {
			r.Fail("", fmt.Sprintf("interleave ubuntu: first enumeration: %d updaters, %v", len(us.Updaters()), err))
		} else {
			ups := us.Updaters()
			sort.Slice(ups, func(i, j int) bool { return ups[i].Name() < ups[j].Name() })
			wants := map[string][]want{}
			ok := true
			for _, u := range ups {
				vs, err := runUpdater(ctx, u, w.client(), noConfig)
				if err != nil || len(vs) != 1 || vs[0].Dist == nil {
					r.Fail("", fmt.Sprintf("interleave ubuntu: first run of %s: %d advisories, %v", u.Name(), len(vs), err))
					ok = false
					continue
				}
				wants[u.Name()] = []want{{vs[0].Name, *vs[0].Dist}}
			}
			if ok {
				var mu sync.Mutex
				busy := false
				w.during = func(method, key string) {
					mu.Lock()
					if busy || strings.Contains(key, ".oval.xml") && method == "GET" {
						mu.Unlock()
						return
					}
					busy = true
					mu.Unlock()
					defer func() { mu.Lock(); busy = false; mu.Unlock() }()
					for _, u := range ups {
						vs, err := guard(func() ([]*claircore.Vulnerability, error) { return runUpdater(ctx, u, w.client(), noConfig) })
						check("ubuntu", method+" "+key, vs, err, wants[u.Name()])
					}
				}
				_, err := f.UpdaterSet(ctx)
				w.during = nil
				if err != nil {
					r.Fail("", "interleave ubuntu: second enumeration: "+err.Error())
				}
			}
		}
	}
	h.knownDebianFault()
	// alpine
	{
		w := newWorld()
		aadv := map[string][]adv{"edge": {{pkg: "verifpkg", fixed: "2.0-r0", id: "CVE-edge"}}}
		for m := 3; m <= 8; m++ {
			aadv["3."+strconv.Itoa(m)] = []adv{{pkg: "verifpkg", fixed: "2.0-r0", id: "CVE-3." + strconv.Itoa(m)}}
		}
		w.alpineWorld(aadv)
		f, _ := alpine.NewFactory(ctx)
		cf := func(v any) error {
			if c, ok := v.(*alpine.FactoryConfig); ok {
				c.URL = "http://alpine.test/"
			}
			return nil
		}
		if err := f.Configure(ctx, cf, w.client()); err != nil {
			r.Fail("", "interleave alpine: configure: "+err.Error())
		} else if us, err := f.UpdaterSet(ctx); err != nil || len(us.Updaters()) != len(aadv) {
			r.Fail("", fmt.Sprintf("interleave alpine: first enumeration: %d updaters for %d releases, %v", len(us.Updaters()), len(aadv), err))
		} else {
			ups := us.Updaters()
			sort.Slice(ups, func(i, j int) bool { return ups[i].Name() < ups[j].Name() })
			wants := map[string][]want{}
			ok := true
			for _, u := range ups {
				vs, err := runUpdater(ctx, u, w.client(), noConfig)
				if err != nil || len(vs) != 1 || vs[0].Dist == nil {
					r.Fail("", fmt.Sprintf("interleave alpine: first run of %s: %d advisories, %v", u.Name(), len(vs), err))
					ok = false
					continue
				}
				wants[u.Name()] = []want{{vs[0].Name, *vs[0].Dist}}
			}
			if ok {
				// a new stamp makes the factory enumerate again
				w.put("alpine.test/last-update", 200, "text/plain", []byte("stamp-2"), "etag", `"2"`)
				busy := false
				w.during = func(method, key string) {
					if busy || method != "HEAD" {
						return
					}
					busy = true
					defer func() { busy = false }()
					for _, u := range ups {
						vs, err := guard(func() ([]*claircore.Vulnerability, error) { return runUpdater(ctx, u, w.client(), noConfig) })
						check("alpine", method+" "+key, vs, err, wants[u.Name()])
					}
				}
				us2, err := f.UpdaterSet(ctx)
				w.during = nil
				if err != nil || len(us2.Updaters()) != len(aadv) {
					r.Fail("", fmt.Sprintf("interleave alpine: second enumeration: %d updaters, %v", len(us2.Updaters()), err))
				}
				// an unchanged stamp hands out the same set again
				us3, err := f.UpdaterSet(ctx)
				r.Case("alpine factory: unchanged last-update", true)
				if err != nil || len(us3.Updaters()) != len(aadv) {
					r.Fail("", fmt.Sprintf("alpine factory: a third enumeration with an unchanged last-update stamp yields %d updaters for %d releases: %v", len(us3.Updaters()), len(aadv), err))
				}
			}
		}
	}
}

// knownDebianFault replays the witness of finding debian-release-fault-drops
// (a release whose Release request fails in the enumeration that would have
// learnt it is dropped by a Parse that succeeds), and then the other half of
// the statement on the same mirror: once the file has been read, later
// failures of the same request must not matter.
func (h *harness) knownDebianFault() {
	ctx, r := h.ctx, h.r
	code := "vrf" + freshTag() + "zz"
	relKey := "deb.test/debian/dists/" + code + "/Release"
	w := newWorld()
	w.debianWorld([]debRelease{{code, 61}}, map[string][]adv{code: {{pkg: "pa", fixed: "1", id: "CVE-zz-1"}, {pkg: "pb", fixed: "1", id: "CVE-zz-2"}, {pkg: "pc", fixed: "1", id: "CVE-zz-3"}}})
	count := func() (int, error) {
		vs, err := debianRun(ctx, w)
		n := 0
		for _, v := range vs {
			if v.Dist != nil && v.Dist.VersionCodeName == code && v.Dist.VersionID == "61" {
				n++
			}
		}
		return n, err
	}
	// the dists/ listing fails: no updater may run (or, if one does, it must not
	// store an operation without the release)
	{
		code2 := "vrf" + freshTag() + "zy"
		w2 := newWorld()
		w2.debianWorld([]debRelease{{code2, 62}}, map[string][]adv{code2: {{pkg: "pa", fixed: "1", id: "CVE-zy-1"}}})
		w2.faults["deb.test/debian/dists/"] = fault{status: 503}
		r.Case("debian: the dists/ listing fails in the first enumeration", true)
		vs, err := debianRun(ctx, w2)
		if err == nil {
			n := 0
			for _, v := range vs {
				if v.Dist != nil && v.Dist.VersionCodeName == code2 {
					n++
				}
			}
			if n != 1 {
				r.Fail("", fmt.Sprintf("debian: GET dists/ answers 503 in the first enumeration of a mirror listing %s; UpdaterSet hands out the updater all the same, and its Fetch and Parse succeed with %d of the 1 advisories the tracker has for %s (an operation without the release would be stored under the tracker's Last-Modified)", code2, n, code2))
			}
		}
	}
	// a release enters the mirror while the tracker feed stays as it is
	{
		tag := freshTag()
		a, b := "vrf"+tag+"ya", "vrf"+tag+"yb"
		w3 := newWorld()
		w3.conditional = true
		advs := map[string][]adv{a: {{pkg: "pa", fixed: "1", id: "CVE-ya"}}, b: {{pkg: "pb", fixed: "1", id: "CVE-yb"}}}
		w3.debianWorld([]debRelease{{a, 63}, {b, 64}}, advs)
		// the mirror does not list b yet (the tracker names it already)
		w3.debianWorld([]debRelease{{a, 63}}, advs)
		w3.del("deb.test/debian/dists/" + b + "/Release")
		r.Case("debian: a release enters the mirror, the tracker is unchanged", true)
		f, err := debFactory(ctx, w3)
		if err == nil {
			if us, err := f.UpdaterSet(ctx); err == nil && len(us.Updaters()) == 1 {
				u := us.Updaters()[0]
				if c, ok := u.(driver.Configurable); ok {
					c.Configure(ctx, noConfig, w3.client())
				}
				if rc, fp, err := u.Fetch(ctx, ""); err == nil {
					vs, perr := u.Parse(ctx, rc)
					nb := 0
					for _, v := range vs {
						if v.Name == "CVE-yb" {
							nb++
						}
					}
					// now the mirror lists b
					w3.debianWorld([]debRelease{{a, 63}, {b, 64}}, advs)
					if us2, err := f.UpdaterSet(ctx); perr == nil && nb == 0 && err == nil && len(us2.Updaters()) == 1 {
						u2 := us2.Updaters()[0]
						if c, ok := u2.(driver.Configurable); ok {
							c.Configure(ctx, noConfig, w3.client())
						}
						if _, _, err := u2.Fetch(ctx, fp); err == driver.Unchanged {
							r.KnownSeen("debian-new-release-waits-for-tracker", fmt.Sprintf("tracker naming %s and %s, mirror listing %s only: operation stored without %s; then the mirror lists %s too, its Release file is read, and Fetch with the stored fingerprint answers Unchanged", a, b, a, b, b))
						}
					}
				}
			}
		}
	}
	r.Case("debian: Release request fails in the first enumeration", true)
	w.faults[relKey] = fault{status: 503}
	n, err := count()
	switch {
	case err != nil:
		// the enumeration or the run failed loudly: nothing was dropped silently
	case n == 0:
		r.KnownSeen("debian-release-fault-drops", fmt.Sprintf("mirror listing one release %s whose Release file answers 503 in the first UpdaterSet call; Fetch and Parse succeed with 0 of the 3 advisories the tracker has for %s", code, code))
	case n != 3:
		r.Fail("", fmt.Sprintf("debian: Release of %s answers 503 in the first enumeration: Parse stamps %d of 3 advisories", code, n))
	}
	delete(w.faults, relKey)
	if n, err := count(); err != nil || n != 3 {
		r.Fail("", fmt.Sprintf("debian: the Release file of %s is served again: Parse stamps %d of its 3 advisories (%v)", code, n, err))
		return
	}
	for _, f := range []fault{{status: 503}, {net: true}, {status: 429}, {body: true}} {
		r.Case("debian: Release request fails after it was read once: "+f.String(), true)
		w.faults[relKey] = f
		if n, err := count(); err != nil || n != 3 {
			r.Fail("", fmt.Sprintf("debian: dists/%s/Release was read in an earlier enumeration and fails now (%s): Parse stamps %d of the release's 3 advisories (%v); the mirror still lists the release", code, f, n, err))
		}
	}
	delete(w.faults, relKey)
}


func alpLess(a, b string) bool {
	pa, pb := strings.Split(a, "."), strings.Split(b, ".")
	if len(pa) != 2 || len(pb) != 2 {
		return false
	}
	a0, _ := strconv.Atoi(pa[0])
	a1, _ := strconv.Atoi(pa[1])
	b0, _ := strconv.Atoi(pb[0])
	b1, _ := strconv.Atoi(pb[1])
	return a0 < b0 || (a0 == b0 && a1 < b1)
}

// nextAlpine: the image of the minor release after rel (the fixture of rel
// with the version replaced).
func nextAlpine(h *harness, rel string, p pkgPair) (string, map[string][]byte) {
	parts := strings.Split(rel, ".")
	if len(parts) != 2 {
		return "", nil
	}
	min, err := strconv.Atoi(parts[1])
	if err != nil {
		return "", nil
	}
	next := parts[0] + "." + strconv.Itoa(min+1)
	for _, e := range h.fx.Dirs["alpine"] {
		if e.Release != rel {
			continue
		}
		files := map[string][]byte{"lib/apk/db/installed": apkDB(p)}
		for _, f := range e.Files {
			files[f[0]] = []byte(strings.ReplaceAll(f[1], rel, next))
		}
		return next, files
	}
	return "", nil
}
