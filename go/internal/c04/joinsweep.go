package c04

// Systematic sweep of the constraint switch of buildGetQuery: every
// MatchConstraint alone, every ordered pair and a sample of triples, with and
// without version filtering, on a record / row pair that agrees on every
// field, and on rows that differ from it in exactly one field.  Protocol
// lines (`join`) plus the statement itself as a direct oracle
// (`query_meaning`, `dist_constraint_meaning`): a constraint compares its own
// column and nothing else; HasFixedInVersion asks for a non-empty
// fixed_in_version; the version filter asks for the same version kind and a
// version inside the range.

import (
	"fmt"
	"strings"
)

// rowField: one column of the vuln table a constraint can look at.
type rowField struct {
	constraint string
	change     func(*rowT)
}

var rowFields = []rowField{
	{"PackageModule", func(v *rowT) { v.vm += "x" }},
	{"DistributionDID", func(v *rowT) { v.d.did += "x" }},
	{"DistributionName", func(v *rowT) { v.d.name += "x" }},
	{"DistributionVersion", func(v *rowT) { v.d.ver += "x" }},
	{"DistributionVersionCodeName", func(v *rowT) { v.d.code += "x" }},
	{"DistributionVersionID", func(v *rowT) { v.d.vid += "x" }},
	{"DistributionArch", func(v *rowT) { v.d.arch += "x" }},
	{"DistributionCPE", func(v *rowT) { v.d.cpe = "cpe:2.3:o:verif:other:1:*:*:*:*:*:*:*" }},
	{"DistributionPrettyName", func(v *rowT) { v.d.pretty += "x" }},
	{"RepositoryName", func(v *rowT) { v.rname += "x" }},
	{"RepositoryKey", func(v *rowT) { v.rkey += "x" }},
	{"HasFixedInVersion", func(v *rowT) { v.fixed = "" }},
}

func (h *harness) sectionJoinSweep() {
	r := h.r
	d := distT{did: "verifos", name: "Verif OS", ver: "7 (seven)", code: "seven", vid: "7", arch: "x86_64", cpe: "cpe:2.3:o:verif:os:7:*:*:*:*:*:*:*", pretty: "Verif OS 7"}
	rec := recT{pn: "verifpkg", pk: "binary", pm: "mod:1", pa: "x86_64", src: true, sn: "verifsrc", sk: "source", nk: "semver", ver: "1.0.0",
		nv: [10]int32{0, 1, 0, 0}, hasDist: true, d: d, hasRepo: true, rname: "verifrepo", rkey: "verifkey", ruri: "https://repo.verif/"}
	row := rowT{vn: "verifpkg", vk: "binary", vm: "mod:1", va: "x86_64", d: d, rname: "verifrepo", rkey: "verifkey", ruri: "https://repo.verif/", fixed: "2.0.0",
		hasKind: true, vkind: "semver", lower: [10]int32{0, 0, 0, 0}, upper: [10]int32{0, 2, 0, 0}}
	names := func(fs []rowField) []string {
		var out []string
		for _, f := range fs {
			out = append(out, f.constraint)
		}
		return out
	}
	contains := func(fs []rowField, c string) bool {
		for _, f := range fs {
			if f.constraint == c {
				return true
			}
		}
		return false
	}
	check := func(cs []rowField, vf bool) {
		if r.Stop() {
			return
		}
		key := fmt.Sprintf("join-sweep constraints=%s versionFiltering=%v", strings.Join(names(cs), ","), vf)
		r.Case(key, true)
		r.Count(fmt.Sprintf("join-sweep:%d", len(cs)))
		if got := opJoin(r, names(cs), vf, rec, row); got != "true" {
			r.Fail("", fmt.Sprintf("%s: record and advisory agree on every field, the advisory has a fixed-in version and the version is in range: the query does not select the advisory (%s)", key, got))
		}
		for _, f := range rowFields {
			v := row
			f.change(&v)
			want := "true"
			if contains(cs, f.constraint) {
				want = "false"
			}
			if got := opJoin(r, names(cs), vf, rec, v); got != want {
				r.Fail("", fmt.Sprintf("%s: the advisory differs from the record in the column of %s only: the query selects it: %s, expected %s", key, f.constraint, got, want))
			}
		}
		// the package clause: another name, another kind; the source package instead
		for _, ch := range []struct {
			what string
			f    func(*rowT)
			want string
		}{{"package name", func(v *rowT) { v.vn = "other" }, "false"}, {"package kind", func(v *rowT) { v.vk = "source" }, "false"},
			{"source package name and kind", func(v *rowT) { v.vn, v.vk = "verifsrc", "source" }, "true"},
			{"source package name with the binary kind", func(v *rowT) { v.vn = "verifsrc" }, "false"}} {
			v := row
			ch.f(&v)
			if got := opJoin(r, names(cs), vf, rec, v); got != ch.want {
				r.Fail("", fmt.Sprintf("%s: advisory with another %s: the query selects it: %s, expected %s", key, ch.what, got, ch.want))
			}
		}
		// version filtering: another kind, no range, version outside the range
		for _, ch := range []struct {
			what string
			f    func(*rowT)
		}{{"version kind", func(v *rowT) { v.vkind = "pep440" }}, {"no range", func(v *rowT) { v.hasKind = false }},
			{"range below the version", func(v *rowT) { v.upper = [10]int32{0, 1, 0, 0} }}, {"range above the version", func(v *rowT) { v.lower = [10]int32{0, 1, 0, 1} }}} {
			v := row
			ch.f(&v)
			want := "true"
			if vf {
				want = "false"
			}
			if got := opJoin(r, names(cs), vf, rec, v); got != want {
				r.Fail("", fmt.Sprintf("%s: advisory with %s: the query selects it: %s, expected %s", key, ch.what, got, want))
			}
		}
		// records without the part a constraint needs are skipped (an error, no panic)
		for _, part := range []string{"Distribution", "Repository"} {
			x := rec
			needs := false
			for _, c := range cs {
				if strings.HasPrefix(c.constraint, part) {
					needs = true
				}
			}
			if part == "Distribution" {
				x.hasDist = false
			} else {
				x.hasRepo = false
			}
			want := "true"
			if needs {
				want = "err"
			}
			if got := opJoin(r, names(cs), vf, x, row); got != want {
				r.Fail("", fmt.Sprintf("%s: record without %s: %s, expected %s", key, part, got, want))
			}
		}
	}
	for _, vf := range []bool{false, true} {
		check(nil, vf)
		for _, a := range rowFields {
			check([]rowField{a}, vf)
		}
	}
	for _, a := range rowFields {
		for _, b := range rowFields {
			if a.constraint != b.constraint {
				check([]rowField{a, b}, h.rnd.Chance(1, 2))
			}
		}
	}
	for n := h.cfg.N(40, 600); n > 0; n-- {
		var cs []rowField
		for k := 3 + h.rnd.Intn(5); k > 0; k-- {
			cs = append(cs, rowFields[h.rnd.Intn(len(rowFields))]) // duplicates included
		}
		check(cs, h.rnd.Chance(1, 2))
	}
	check(rowFields, true)
}
