package c04

// RHEL: the join is by repository (a CPE name under the key
// "rhel-cpe-repository") and module, not by distribution.  The advisories are
// the repository's own VEX test feed parsed by the REAL vex updater; for a
// sample of them an image is made whose content manifest maps (through a
// repository-to-cpe mapping served in-process) to the advisory's CPE, the REAL
// rhel.RepositoryScanner reads it, and the REAL matcher controller (rhel
// matcher) runs over the in-memory store.  The rpm package records are built
// by hand as rpm.Scanner reports them.

import (
	"bytes"
	"context"
	"encoding/json"
	"fmt"
	"os"
	"path/filepath"
	"sort"
	"strconv"
	"strings"
	"time"

	"github.com/klauspost/compress/snappy"

	"github.com/quay/claircore"
	"github.com/quay/claircore/internal/matcher"
	"github.com/quay/claircore/libindex"
	"github.com/quay/claircore/libvuln"
	"github.com/quay/claircore/libvuln/driver"
	"github.com/quay/claircore/libvuln/updates"
	"github.com/quay/claircore/verifharness/internal/memstore"
	"github.com/quay/claircore/rhel"
	"github.com/quay/claircore/rhel/vex"
)

func vexVulns(ctx context.Context) ([]*claircore.Vulnerability, error) {
	b, err := os.ReadFile(filepath.Join(repoPath(), "rhel/vex/testdata/example_vex.jsonl"))
	if err != nil {
		return nil, err
	}
	var buf bytes.Buffer
	sw := snappy.NewBufferedWriter(&buf)
	if _, err := sw.Write(b); err != nil {
		return nil, err
	}
	if err := sw.Close(); err != nil {
		return nil, err
	}
	f := &vex.Factory{}
	w := newWorld()
	if err := f.Configure(ctx, func(v any) error {
		if c, ok := v.(*vex.FactoryConfig); ok {
			c.URL = "http://vex.test/"
		}
		return nil
	}, w.client()); err != nil {
		return nil, err
	}
	us, err := f.UpdaterSet(ctx)
	if err != nil {
		return nil, err
	}
	for _, u := range us.Updaters() {
		du, ok := u.(driver.DeltaUpdater)
		if !ok {
			return nil, fmt.Errorf("the vex updater is not a DeltaUpdater")
		}
		vs, _, err := du.DeltaParse(ctx, nopCloser{bytes.NewReader(buf.Bytes())})
		return vs, err
	}
	return nil, fmt.Errorf("no vex updater")
}

type nopCloser struct{ *bytes.Reader }

func (nopCloser) Close() error { return nil }

// rhelRepos runs the real repository scanner on a layer whose content
// manifest names one content set that the served mapping file maps to cpes.
func rhelRepos(ctx context.Context, cpes []string) ([]*claircore.Repository, error) {
	w := newWorld()
	mapping, _ := json.Marshal(map[string]any{"data": map[string]any{"verif-content-set": map[string]any{"cpes": cpes}}})
	w.put("rh.test/repository-to-cpe.json", 200, "application/json", mapping, "last-modified", "Mon, 01 Jan 2024 00:00:00 GMT")
	sc := &rhel.RepositoryScanner{}
	err := sc.Configure(ctx, func(v any) error {
		if c, ok := v.(*rhel.RepositoryScannerConfig); ok {
			c.DisableAPI = true
			c.Repo2CPEMappingURL = "http://rh.test/repository-to-cpe.json"
		}
		return nil
	}, w.client())
	if err != nil {
		return nil, err
	}
	manifest := []byte(`{"metadata":{"icm_version":1,"icm_spec":"x","image_layer_index":0},"content_sets":["verif-content-set"],"image_contents":[]}`)
	l, err := mkLayer(ctx, map[string][]byte{"root/buildinfo/content_manifests/verif-1-1.json": manifest})
	if err != nil {
		return nil, err
	}
	defer l.Close()
	return sc.Scan(ctx, l)
}

func archFor(v *claircore.Vulnerability) string {
	a := v.Package.Arch
	switch v.ArchOperation {
	case claircore.OpPatternMatch:
		if i := strings.IndexByte(a, '|'); i >= 0 {
			a = a[:i]
		}
		return strings.Trim(a, "()^$")
	case claircore.OpNotEquals:
		return "verifarch"
	}
	if a == "" {
		return "x86_64"
	}
	return a
}

func (h *harness) sectionRhel() {
	ctx, r := h.ctx, h.r
	vs, err := vexVulns(ctx)
	if err != nil {
		r.Fail("", "the VEX test feed of the repository could not be parsed by the vex updater: "+err.Error())
		return
	}
	sort.Slice(vs, func(i, j int) bool {
		a, b := vs[i], vs[j]
		ka := a.Name + "\x00" + a.Package.Name + "\x00" + a.Package.Module + "\x00" + a.FixedInVersion + "\x00" + a.Repo.Name + "\x00" + a.Package.Arch
		kb := b.Name + "\x00" + b.Package.Name + "\x00" + b.Package.Module + "\x00" + b.FixedInVersion + "\x00" + b.Repo.Name + "\x00" + b.Package.Arch
		return ka < kb
	})
	st := &memStore{}
	st.add(vs...)
	ms, _ := realMatchers(ctx)
	matchers := []driver.Matcher{ms["rhel"], ms["rhel/rhcc"]}
	// the key the repository scanner stamps
	probe, err := rhelRepos(ctx, []string{"cpe:/o:redhat:enterprise_linux:8::baseos"})
	if err != nil || len(probe) != 1 {
		r.Fail("", fmt.Sprintf("rhel repository scanner on a content manifest mapped to cpe:/o:redhat:enterprise_linux:8::baseos: %d repositories, err=%v", len(probe), err))
		return
	}
	scanKey := probe[0].Key
	var cands []*claircore.Vulnerability
	otherKeys := map[string]int{}
	for _, v := range vs {
		if v.Repo == nil || v.Package == nil || v.Package.Name == "" {
			continue
		}
		if v.Repo.Key == scanKey {
			cands = append(cands, v)
		} else if v.Repo.Key != "" {
			otherKeys[v.Repo.Key]++
		}
	}
	r.Count(fmt.Sprintf("rhel:vex-advisories~%d", len(cands)/100*100))
	if len(cands) == 0 {
		r.Fail("", fmt.Sprintf("no advisory of the VEX test feed carries the repository key %q the repository scanner stamps (keys on advisories: %v): no RHEL package can be joined", scanKey, otherKeys))
		return
	}
	n := h.cfg.N(60, 400)
	for i := 0; i < n && !r.Stop(); i++ {
		v := cands[h.rnd.Intn(len(cands))]
		repos, err := rhelRepos(ctx, []string{v.Repo.Name})
		if err != nil || len(repos) != 1 {
			r.Fail("", fmt.Sprintf("rhel repository scanner on a content manifest mapped to %q: %d repositories, err=%v", v.Repo.Name, len(repos), err))
			continue
		}
		other, err := rhelRepos(ctx, []string{"cpe:/a:redhat:verif_unrelated_product:1"})
		if err != nil || len(other) != 1 {
			r.Fail("", "rhel repository scanner on an unrelated CPE failed")
			continue
		}
		// the same package indexed under two repositories (as a RHEL image with
		// several content sets is): the advisory's repository first or last
		mkIR2 := func(first, second *claircore.Repository, version string) *claircore.IndexReport {
			a, b := *first, *second
			a.ID, b.ID = "r1", "r2"
			p := &claircore.Package{ID: "p1", Name: v.Package.Name, Version: version, Kind: claircore.BINARY, Module: v.Package.Module, Arch: archFor(v),
				Source: &claircore.Package{ID: "p1s", Name: v.Package.Name + "-verifsrc", Kind: claircore.SOURCE, Version: version}}
			if v.Package.Kind == claircore.SOURCE {
				p.Name = v.Package.Name + "-verifbin"
				p.Source.Name = v.Package.Name
			}
			return &claircore.IndexReport{
				Packages:     map[string]*claircore.Package{"p1": p},
				Repositories: map[string]*claircore.Repository{"r1": &a, "r2": &b},
				Environments: map[string][]*claircore.Environment{"p1": {{PackageDB: "sqlite:var/lib/rpm", RepositoryIDs: []string{"r1", "r2"}}}},
			}
		}
		mkIR := func(repo *claircore.Repository, version string) *claircore.IndexReport {
			rp := *repo
			rp.ID = "r1"
			p := &claircore.Package{ID: "p1", Name: v.Package.Name, Version: version, Kind: claircore.BINARY, Module: v.Package.Module, Arch: archFor(v),
				Source: &claircore.Package{ID: "p1s", Name: v.Package.Name + "-verifsrc", Kind: claircore.SOURCE, Version: version}}
			if v.Package.Kind == claircore.SOURCE {
				p.Name = v.Package.Name + "-verifbin"
				p.Source.Name = v.Package.Name
			}
			return &claircore.IndexReport{
				Packages:     map[string]*claircore.Package{"p1": p},
				Repositories: map[string]*claircore.Repository{"r1": &rp},
				Environments: map[string][]*claircore.Environment{"p1": {{PackageDB: "sqlite:var/lib/rpm", RepositoryIDs: []string{"r1"}}}},
			}
		}
		reportedNames := func(ir *claircore.IndexReport) (map[string]bool, error) {
			vr, err := matcher.Match(ctx, ir, matchers, st)
			if err != nil {
				return nil, err
			}
			out := map[string]bool{}
			for _, ids := range vr.PackageVulnerabilities {
				for _, id := range ids {
					x := vr.Vulnerabilities[id]
					out[x.Name+"|"+x.FixedInVersion+"|"+x.Repo.Name] = true
				}
			}
			return out, nil
		}
		key := fmt.Sprintf("rhel advisory=%s package=%s module=%q fixed=%q repo=%s arch=%s/%v", v.Name, v.Package.Name, v.Package.Module, v.FixedInVersion, v.Repo.Name, v.Package.Arch, v.ArchOperation)
		r.Case(key, true)
		r.Count("pipeline:rhel")
		want := v.Name + "|" + v.FixedInVersion + "|" + v.Repo.Name
		low, err := reportedNames(mkIR(repos[0], "0:0.0.1-1"))
		if err != nil {
			r.Fail("", key+": matching failed: "+err.Error())
			continue
		}
		if !low[want] {
			r.Fail("", key+": an installed version 0:0.0.1-1 in the advisory's repository is not reported")
		}
		if v.FixedInVersion != "" {
			fixed, err := reportedNames(mkIR(repos[0], v.FixedInVersion))
			if err == nil && fixed[want] {
				r.Fail("", key+": the fixed version itself is reported")
			}
		}
		for _, order := range []string{"advisory's repository first", "advisory's repository last"} {
			ir2 := mkIR2(repos[0], other[0], "0:0.0.1-1")
			if order == "advisory's repository last" {
				ir2 = mkIR2(other[0], repos[0], "0:0.0.1-1")
			}
			got, err := reportedNames(ir2)
			if err != nil {
				r.Fail("", key+": matching failed: "+err.Error())
			} else if !got[want] {
				r.Fail("", fmt.Sprintf("%s: the package is indexed under two repositories (%s and cpe:/a:redhat:verif_unrelated_product:1, %s) and the advisory is not reported", key, v.Repo.Name, order))
			}
		}
		// both repositories from ONE content manifest, through the real repository scanner
		if both, err := rhelRepos(ctx, []string{"cpe:/a:redhat:verif_unrelated_product:1", v.Repo.Name}); err == nil && len(both) == 2 {
			for _, ir2 := range []*claircore.IndexReport{mkIR2(both[0], both[1], "0:0.0.1-1"), mkIR2(both[1], both[0], "0:0.0.1-1")} {
				if got, err := reportedNames(ir2); err == nil && !got[want] {
					r.Fail("", key+": content manifest mapped to two CPEs: the advisory is not reported for a package listed under both repositories")
				}
			}
		} else if v.Repo.Name != "cpe:/a:redhat:verif_unrelated_product:1" {
			r.Fail("", fmt.Sprintf("rhel repository scanner on a content set mapped to two CPEs: %d repositories, err=%v", len(both), err))
		}
		un, err := reportedNames(mkIR(other[0], "0:0.0.1-1"))
		if err == nil && len(un) != 0 {
			r.Fail("", key+": reported for a package from the unrelated repository cpe:/a:redhat:verif_unrelated_product:1")
		}
	}
	if st.sqlErr != nil {
		r.Fail("", "the SQL text of buildGetQuery is no longer of the known shape: "+st.sqlErr.Error())
	}
}

// sectionRhelFull is the RHEL join at the property's observation point: the
// image (redhat-release, a content manifest naming content sets, an rpm
// database written by the harness) goes through the REAL libindex with its
// default ecosystems (rpm.Scanner, rhel.DistributionScanner,
// rhel.RepositoryScanner over the served repository-to-cpe mapping,
// rhel.Coalescer next to the rpm ecosystem's), and libvuln.Scan with the
// default matchers runs over a store holding the advisories the REAL vex
// updater parsed from the repository's VEX test feed.
func (h *harness) sectionRhelFull() {
	r := h.r
	ctx, cancel := context.WithTimeout(h.ctx, 3*time.Minute)
	defer cancel()
	defer func() {
		if ctx.Err() != nil {
			r.Fail("", "rhel-full: libindex / libvuln did not finish within three minutes (hang)")
		}
	}()
	vs, err := vexVulns(ctx)
	if err != nil {
		return // reported by sectionRhel
	}
	sort.Slice(vs, func(i, j int) bool {
		a, b := vs[i], vs[j]
		ka := a.Name + "\x00" + a.Package.Name + "\x00" + a.Package.Module + "\x00" + a.FixedInVersion + "\x00" + a.Repo.Name + "\x00" + a.Package.Arch
		kb := b.Name + "\x00" + b.Package.Name + "\x00" + b.Package.Module + "\x00" + b.FixedInVersion + "\x00" + b.Repo.Name + "\x00" + b.Package.Arch
		return ka < kb
	})
	var cands []*claircore.Vulnerability
	for _, v := range vs {
		if v.Repo != nil && v.Package != nil && v.Package.Name != "" && v.Repo.Key == "rhel-cpe-repository" && !strings.ContainsAny(v.Package.Name, " /") {
			cands = append(cands, v)
		}
	}
	if len(cands) == 0 {
		return
	}
	n := h.cfg.N(25, 150)
	var chosen []*claircore.Vulnerability
	mapping := map[string]any{"verif-cs-other": map[string]any{"cpes": []string{"cpe:/a:redhat:verif_unrelated_product:1"}}}
	for i := 0; i < n; i++ {
		v := cands[h.rnd.Intn(len(cands))]
		chosen = append(chosen, v)
		mapping[fmt.Sprintf("verif-cs-%d", i)] = map[string]any{"cpes": []string{v.Repo.Name}}
	}
	mb, _ := json.Marshal(map[string]any{"data": mapping})
	wi := newWorld()
	wi.put("security.access.redhat.com/data/metrics/repository-to-cpe.json", 200, "application/json", mb, "last-modified", "Mon, 01 Jan 2024 00:00:00 GMT")
	ar := &memArena{layers: map[string][]byte{}}
	li, err := libindex.New(ctx, &libindex.Options{
		Store: memstore.New(), Locker: updates.NewLocalLockSource(), FetchArena: ar, LayerScanConcurrency: 2,
	}, wi.client())
	if err != nil {
		r.Fail("", "rhel-full: libindex.New: "+err.Error())
		return
	}
	defer li.Close(ctx)
	st := newFullStore()
	st.byUpdater["rhel-vex"] = vs
	st.rebuild()
	lv, err := libvuln.New(ctx, &libvuln.Options{
		Store: st, Locker: updates.NewLocalLockSource(), Client: wi.client(),
		UpdaterSets: []string{}, DisableBackgroundUpdates: true, UpdateRetention: 2,
	})
	if err != nil {
		r.Fail("", "rhel-full: libvuln.New: "+err.Error())
		return
	}
	defer lv.Close(ctx)

	manifest := func(sets ...string) []byte {
		q := make([]string, len(sets))
		for i, s := range sets {
			q[i] = fmt.Sprintf("%q", s)
		}
		return []byte(`{"metadata":{"icm_version":1,"icm_spec":"x","image_layer_index":0},"content_sets":[` + strings.Join(q, ",") + `],"image_contents":[]}`)
	}
	for i, v := range chosen {
		if r.Stop() {
			return
		}
		key := fmt.Sprintf("rhel-full advisory=%s package=%s module=%q fixed=%q repo=%s arch=%s/%v", v.Name, v.Package.Name, v.Package.Module, v.FixedInVersion, v.Repo.Name, v.Package.Arch, v.ArchOperation)
		bin, src := v.Package.Name, v.Package.Name+"-verifsrc"
		if v.Package.Kind == claircore.SOURCE {
			bin, src = v.Package.Name+"-verifbin", v.Package.Name
		}
		label := ""
		if v.Package.Module != "" {
			label = v.Package.Module + ":8090020231130:0a1b2c3d"
		}
		mkDB := func(evr string) ([]byte, bool) {
			rec := rpmRec{name: bin, arch: archFor(v), module: label}
			if j := strings.IndexByte(evr, ':'); j >= 0 {
				e, err := strconv.Atoi(evr[:j])
				if err != nil {
					return nil, false
				}
				rec.epoch = int32(e)
				evr = evr[j+1:]
			}
			rec.version, rec.release = splitVR(evr)
			rec.srpm = src + "-" + rec.version + "-" + rec.release + ".src.rpm"
			if strings.ContainsAny(rec.version, "-") || rec.version == "" || rec.release == "" {
				return nil, false
			}
			db, err := rpmSqliteDB([]rpmRec{{name: "verif-filler", version: "1.0", release: "1", arch: "noarch", srpm: "verif-filler-1.0-1.src.rpm"}, rec})
			if err != nil {
				r.Fail("", "rhel-full: writing an rpm database: "+err.Error())
				return nil, false
			}
			return db, true
		}
		reported := func(what string, layers ...map[string][]byte) (map[string]bool, bool) {
			ir, err := li.Index(ctx, ar.manifestOf(layers...))
			if err != nil || ir == nil || !ir.Success {
				e := ""
				if ir != nil {
					e = ir.Err
				}
				r.Fail("", fmt.Sprintf("%s: %s: libindex.Index failed: %v %s", key, what, err, e))
				return nil, false
			}
			found := false
			for _, p := range ir.Packages {
				if p.Name == bin {
					found = true
				}
			}
			if !found {
				r.Fail("", fmt.Sprintf("%s: %s: libindex did not find the package %s written to the rpm database", key, what, bin))
				return nil, false
			}
			vr, err := lv.Scan(ctx, ir)
			if err != nil {
				r.Fail("", fmt.Sprintf("%s: %s: libvuln.Scan failed: %v", key, what, err))
				return nil, false
			}
			out := map[string]bool{}
			for id, p := range vr.Packages {
				if p.Name != bin {
					continue
				}
				for _, vid := range vr.PackageVulnerabilities[id] {
					if x := vr.Vulnerabilities[vid]; x != nil && x.Repo != nil {
						out[x.Name+"|"+x.FixedInVersion+"|"+x.Repo.Name] = true
					}
				}
			}
			return out, true
		}
		r.Case(key, true)
		r.Count("full:rhel")
		want := v.Name + "|" + v.FixedInVersion + "|" + v.Repo.Name
		rel := map[string][]byte{"etc/redhat-release": []byte("Red Hat Enterprise Linux release 8.9 (Ootpa)\n")}
		cs := fmt.Sprintf("verif-cs-%d", i)
		withM := func(m []byte, extra map[string][]byte) map[string][]byte {
			out := map[string][]byte{"root/buildinfo/content_manifests/verif-1-1.json": m}
			for k, b := range rel {
				out[k] = b
			}
			for k, b := range extra {
				out[k] = b
			}
			return out
		}
		low, ok := mkDB("0.0.1-1")
		if !ok {
			continue
		}
		dbf := map[string][]byte{"var/lib/rpm/rpmdb.sqlite": low}
		if got, ok := reported("one layer", withM(manifest(cs), dbf)); ok && !got[want] {
			r.Fail("", key+": version 0.0.1-1 installed in an image whose content manifest names a content set mapped to the advisory's CPE: not reported by libvuln.Scan")
		}
		if got, ok := reported("packages in a later layer", withM(manifest(cs), nil), dbf); ok && !got[want] {
			r.Fail("", key+": the rpm database is in a layer above the one with the content manifest: not reported by libvuln.Scan")
		}
		for _, sets := range [][]string{{"verif-cs-other", cs}, {cs, "verif-cs-other"}} {
			if got, ok := reported("two content sets", withM(manifest(sets...), dbf)); ok && !got[want] {
				r.Fail("", fmt.Sprintf("%s: the content manifest names the content sets %v (the other one maps to cpe:/a:redhat:verif_unrelated_product:1): not reported by libvuln.Scan", key, sets))
			}
		}
		if got, ok := reported("unrelated content set", withM(manifest("verif-cs-other"), dbf)); ok && len(got) != 0 {
			r.Fail("", fmt.Sprintf("%s: reported %v for an image whose only content set maps to cpe:/a:redhat:verif_unrelated_product:1", key, got))
		}
		if v.FixedInVersion != "" {
			if fixed, ok := mkDB(v.FixedInVersion); ok {
				if got, ok := reported("fixed version", withM(manifest(cs), map[string][]byte{"var/lib/rpm/rpmdb.sqlite": fixed})); ok && got[want] {
					r.Fail("", key+": the fixed version itself is installed and the advisory is reported by libvuln.Scan")
				}
			}
		}
	}
	if st.sqlErr != nil {
		r.Fail("", "the SQL text of buildGetQuery is no longer of the known shape: "+st.sqlErr.Error())
	}
}
