package c04

// Protocol ops over histories (answered by Model/JoinHist.lean):
//
//   denum <listingOK> <code>:<v<major>|s|f> …   one debian.Factory.UpdaterSet call against a mirror
//                                               whose dists/ listing names the codes; per code the
//                                               Release request yields a version, is skipped (404, no
//                                               Version, one-component / non-numeric / out-of-range
//                                               version) or fails (5xx, 403, 429, connection reset)
//   dparse <code> …                             updater.Parse of a feed with one advisory per code:
//                                               the (code, Distribution) pairs stamped
//   alp new | alp f | alp n | alp s <stamp> <etag> <dirs> <jsons>
//                                               one alpine.Factory.UpdaterSet call: last-update fails /
//                                               answers 304 / holds <stamp> under <etag>, the mirror
//                                               answers the walk's HEAD requests as listed
//                                               (o = 200, x = 500, e = connection reset, unlisted = 404)
//
// The debian table is process-wide: every scenario uses code names of its own.

import (
	"context"
	"encoding/json"
	"fmt"
	"sort"
	"strconv"
	"strings"

	"github.com/quay/claircore"
	"github.com/quay/claircore/alpine"
	"github.com/quay/claircore/debian"
	"github.com/quay/claircore/libvuln/driver"
	"github.com/quay/claircore/updater/osv"
	"github.com/quay/claircore/verifharness/internal/hx"
)

func debFactory(ctx context.Context, w *world) (*debian.Factory, error) {
	f, err := debian.NewFactory(ctx)
	if err != nil {
		return nil, err
	}
	cf := func(v any) error {
		if c, ok := v.(*debian.FactoryConfig); ok {
			c.MirrorURL = "http://deb.test/"
			c.JSONURL = "http://deb.test/tracker/data/json"
		}
		return nil
	}
	return f, f.Configure(ctx, cf, w.client())
}

type denumEntry struct {
	code    string
	outcome string // v<major> | s | f
}

// opDenum serves the mirror the entries describe and runs one UpdaterSet.
func (h *harness) opDenum(listingOK bool, es []denumEntry) {
	ctx, r, rn := h.ctx, h.r, h.rnd
	w := newWorld()
	var listing strings.Builder
	listing.WriteString("<html><body><a href=\"../\">Parent Directory</a>\n<a href=\"README\">README</a>\n")
	var toks []string
	for _, e := range es {
		fmt.Fprintf(&listing, "<a href=\"%s/\">%s/</a>\n<a href=\"%s-updates/\">x</a>\n", e.code, e.code, e.code)
		key := "deb.test/debian/dists/" + e.code + "/Release"
		rel := func(version string) []byte {
			s := "Origin: Debian\nLabel: Debian\nSuite: stable\n"
			if version != "" {
				s += "Version: " + version + "\n"
			}
			return []byte(s + "Codename: " + e.code + "\nDate: Sat, 10 Feb 2024 11:07:25 UTC\n")
		}
		switch {
		case strings.HasPrefix(e.outcome, "v"):
			st := 200
			if rn.Chance(1, 3) {
				st = 206
			}
			w.put(key, st, "text/plain", rel(e.outcome[1:]+"."+strconv.Itoa(rn.Intn(12))))
			r.Count("denum:version")
		case e.outcome == "s":
			switch rn.Intn(5) {
			case 0: // no such file
			case 1:
				w.put(key, 200, "text/plain", rel(""))
			case 2:
				w.put(key, 200, "text/plain", rel("12"))
			case 3:
				w.put(key, 200, "text/plain", rel("x.1"))
			default:
				w.put(key, 200, "text/plain", rel("99999999999.1"))
			}
			r.Count("denum:skip")
		default:
			w.put(key, 200, "text/plain", rel("77.1"))
			switch rn.Intn(6) {
			case 0:
				w.faults[key] = fault{net: true}
			case 1:
				w.faults[key] = fault{status: 403}
			case 2:
				w.faults[key] = fault{status: 429}
			case 3:
				w.faults[key] = fault{status: 500}
			case 4:
				w.faults[key] = fault{status: 502}
			default:
				w.faults[key] = fault{status: 503}
			}
			r.Count("denum:fault")
		}
		toks = append(toks, hs(e.code)+":"+e.outcome)
	}
	listing.WriteString("<a href=\"sid/\">sid/</a>\n<a href=\"stable/\">stable/</a></body></html>")
	w.put("deb.test/debian/dists/", 200, "text/html", []byte(listing.String()))
	lk := "0"
	if listingOK {
		lk = "1"
	} else {
		w.faults["deb.test/debian/dists/"] = randFault(rn)
	}
	out := hx.Guard(func() string {
		f, err := debFactory(ctx, w)
		if err != nil {
			return "err"
		}
		if _, err := f.UpdaterSet(ctx); err != nil {
			return "err"
		}
		return "ok"
	})
	r.Op(strings.TrimSpace("denum "+lk+" "+strings.Join(toks, " ")), out, listingOK && len(es) > 0)
}

// opDparse parses a feed with one advisory per code.
func (h *harness) opDparse(codes []string) {
	ctx, r := h.ctx, h.r
	w := newWorld()
	w.put("deb.test/debian/dists/", 200, "text/html", []byte("<html></html>"))
	type rd struct {
		Status       string `json:"status"`
		FixedVersion string `json:"fixed_version"`
		Urgency      string `json:"urgency"`
	}
	type vuln struct {
		Description string        `json:"description"`
		Releases    map[string]rd `json:"releases"`
	}
	data := map[string]map[string]*vuln{"verifsrc": {}}
	var toks []string
	for i, c := range codes {
		data["verifsrc"]["CVE-"+strconv.Itoa(i)] = &vuln{Description: "generated", Releases: map[string]rd{
			c: {Status: "resolved", FixedVersion: "2.0-1", Urgency: "low"}, "sid": {Status: "resolved", FixedVersion: "2.0-1", Urgency: "low"}}}
		toks = append(toks, hs(c))
	}
	b, _ := json.Marshal(data)
	w.put("deb.test/tracker/data/json", 200, "application/json", b, "last-modified", "Sat, 10 Feb 2024 11:07:25 GMT")
	var vs []*claircore.Vulnerability
	out := hx.Guard(func() string {
		f, err := debFactory(ctx, w)
		if err != nil {
			return "err"
		}
		us, err := f.UpdaterSet(ctx)
		if err != nil || len(us.Updaters()) != 1 {
			return "err"
		}
		vs, err = runUpdater(ctx, us.Updaters()[0], w.client(), noConfig)
		if err != nil {
			return "err"
		}
		return "ok"
	})
	if out == "ok" {
		var items []string
		for i, c := range codes {
			for _, v := range vs {
				if v.Name == "CVE-"+strconv.Itoa(i) && v.Dist != nil {
					items = append(items, hs(c)+" "+distLine(v.Dist))
				}
			}
		}
		out = "parsed none"
		if len(items) > 0 {
			out = "parsed " + strings.Join(items, " | ")
		}
		if len(vs) != len(items) {
			out += fmt.Sprintf(" (+%d advisories without a release's Distribution)", len(vs)-len(items))
		}
	}
	r.Op(strings.TrimSpace("dparse "+strings.Join(toks, " ")), out, strings.Contains(out, "|"))
	r.Count("dparse")
}

func (h *harness) sectionHistOps() {
	r, rn := h.r, h.rnd
	// ---- debian: enumerations and parses over a pool of fresh code names
	for sc := h.cfg.N(60, 600); sc > 0 && !r.Stop(); sc-- {
		tag := freshTag()
		var pool []string
		major := map[string]int{}
		for i := 0; i < 5; i++ {
			c := fmt.Sprintf("vrf%sp%c", tag, 'a'+i)
			pool = append(pool, c)
			major[c] = 20 + rn.Intn(30)
		}
		for ev := 4 + rn.Intn(6); ev > 0; ev-- {
			if rn.Chance(7, 10) {
				var es []denumEntry
				for _, i := range perm(rn, len(pool)) {
					c := pool[i]
					if !rn.Chance(2, 3) {
						continue
					}
					o := "f"
					switch x := rn.Intn(10); {
					case x < 5:
						m := major[c]
						if rn.Chance(1, 8) {
							m += 1 + rn.Intn(3) // the mirror renumbers a release: the first record stays
						}
						o = "v" + strconv.Itoa(m)
					case x < 7:
						o = "s"
					}
					es = append(es, denumEntry{c, o})
				}
				h.opDenum(rn.Chance(7, 8), es)
			} else {
				var cs []string
				for _, i := range perm(rn, len(pool)) {
					if rn.Chance(2, 3) {
						cs = append(cs, pool[i])
					}
				}
				if rn.Chance(1, 3) {
					cs = append(cs, "vrf"+tag+"pz") // a release no mirror ever listed
				}
				h.opDparse(cs)
			}
		}
		h.opDparse(pool)
	}
	h.osvWitness()
	for sc := h.cfg.N(30, 300); sc > 0 && !r.Stop(); sc-- {
		h.osvScenario()
	}
	// ---- alpine: the witness of fix 9c7e43c2 (a 5xx on a release directory in a
	// walk that completes; the mirror answers again under the same stamp)
	h.alpineWitness()
	// ---- alpine: one factory per scenario
	for sc := h.cfg.N(40, 400); sc > 0 && !r.Stop(); sc-- {
		h.alpineScenario()
	}
}

func perm(rn *hx.Rand, n int) []int {
	p := make([]int, n)
	for i := range p {
		p[i] = i
	}
	for i := n - 1; i > 0; i-- {
		j := rn.Intn(i + 1)
		p[i], p[j] = p[j], p[i]
	}
	return p
}

func (h *harness) alpineScenario() {
	ctx, r, rn := h.ctx, h.r, h.rnd
	w := newWorld()
	w.conditional = true
	f, _ := alpine.NewFactory(ctx)
	cf := func(v any) error {
		if c, ok := v.(*alpine.FactoryConfig); ok {
			c.URL = "http://alpine.test/"
		}
		return nil
	}
	if err := f.Configure(ctx, cf, w.client()); err != nil {
		r.Fail("", "alpine factory: configure: "+err.Error())
		return
	}
	r.Op("alp new", "ok", false)
	withEtag := rn.Chance(2, 3)
	stamp := 0
	var dirTok, jsonTok string
	layout := func() {
		// forget the previous mirror
		w.mu.Lock()
		for k := range w.routes {
			if k != "alpine.test/last-update" {
				delete(w.routes, k)
			}
		}
		w.mu.Unlock()
		var ds, js []string
		top := 4 + rn.Intn(6)
		hole := -1
		if rn.Chance(1, 5) {
			hole = 3 + rn.Intn(top-2)
		}
		put := func(key, tok string, list *[]string) {
			switch x := rn.Intn(20); {
			case x == 0:
				w.put(key, 500, "text/plain", []byte("oops"))
				*list = append(*list, tok+"=x")
			case x == 1:
				w.put(key, 200, "text/html", []byte("<html></html>"))
				w.faults[key] = fault{net: true}
				*list = append(*list, tok+"=e")
			default:
				w.put(key, 200, "text/html", []byte("<html></html>"))
				*list = append(*list, tok+"=o")
			}
		}
		var rels []string
		for m := 3; m <= top; m++ {
			if m == hole {
				continue
			}
			put(fmt.Sprintf("alpine.test/v3.%d/", m), fmt.Sprintf("3.%d", m), &ds)
			rels = append(rels, fmt.Sprintf("v3.%d", m))
		}
		if rn.Chance(1, 6) {
			put("alpine.test/v4.0/", "4.0", &ds)
			rels = append(rels, "v4.0")
		}
		rels = append(rels, "edge")
		for _, rel := range rels {
			for _, repo := range []string{"main", "community"} {
				if repo == "community" && rn.Chance(1, 2) || repo == "main" && rn.Chance(1, 10) {
					continue
				}
				put("alpine.test/"+rel+"/"+repo+".json", hs(rel)+"/"+hs(repo), &js)
			}
		}
		dirTok, jsonTok = "-", "-"
		if len(ds) > 0 {
			dirTok = strings.Join(ds, ",")
		}
		if len(js) > 0 {
			jsonTok = strings.Join(js, ",")
		}
	}
	etag := ""
	newStamp := func() {
		stamp++
		etag = ""
		extra := []string{}
		if withEtag {
			etag = fmt.Sprintf(`"s%d"`, stamp)
			extra = []string{"etag", etag}
		}
		w.put("alpine.test/last-update", 200, "text/plain", []byte(fmt.Sprintf("stamp-%d", stamp)), extra...)
		w.mu.Lock()
		w.faults = map[string]fault{}
		w.mu.Unlock()
		layout()
	}
	call := func() string {
		var us driver.UpdaterSet
		out := hx.Guard(func() string {
			var err error
			us, err = f.UpdaterSet(ctx)
			if err != nil {
				return "err"
			}
			return "ok"
		})
		if out != "ok" {
			return out
		}
		var names []string
		for _, u := range us.Updaters() {
			names = append(names, u.Name())
		}
		sort.Strings(names)
		for i := range names {
			names[i] = hs(names[i])
		}
		if len(names) == 0 {
			return "set -"
		}
		return "set " + strings.Join(names, ",")
	}
	newStamp()
	for ev := 3 + rn.Intn(6); ev > 0; ev-- {
		switch x := rn.Intn(10); {
		case x < 2: // last-update fails
			w.mu.Lock()
			// (not a body that breaks off: a conditional request may be answered 304, without a body)
			w.faults["alpine.test/last-update"] = []fault{{status: 500}, {status: 502}, {status: 503}, {status: 429}, {net: true}}[rn.Intn(5)]
			w.mu.Unlock()
			r.Op("alp f", call(), false)
			w.mu.Lock()
			delete(w.faults, "alpine.test/last-update")
			w.mu.Unlock()
			r.Count("alp:stamp-fault")
			continue
		case x < 5: // the mirror has not changed
			if rn.Chance(1, 2) {
				// … but a request of a repeated walk would fail now
				jsonTok2 := strings.Replace(jsonTok, "=o", "=e", 1)
				if jsonTok2 != jsonTok {
					// find the route of the first json that answered 200 and break it
					first := strings.SplitN(strings.SplitN(jsonTok, "=o", 2)[0], ",", -1)
					last := first[len(first)-1]
					parts := strings.Split(last, "/")
					rel, _ := hx.Unhex(parts[0])
					repo, _ := hx.Unhex(parts[1])
					w.mu.Lock()
					w.faults["alpine.test/"+string(rel)+"/"+string(repo)+".json"] = fault{net: true}
					w.mu.Unlock()
					jsonTok = jsonTok2
				}
			}
			r.Count("alp:same-stamp")
		default:
			newStamp()
			r.Count("alp:new-stamp")
		}
		out := call()
		r.Op(fmt.Sprintf("alp s %d %s %s %s", stamp, hs(etag), dirTok, jsonTok), out, strings.HasPrefix(out, "set "))
		r.Count("alp:" + strings.SplitN(out, " ", 2)[0])
	}
}

// alpineWitness: v3.4/ answers 500 during the first walk, 200 from then on;
// last-update does not change.  The second call must hand out v3.4's updater.
func (h *harness) alpineWitness() {
	ctx, r := h.ctx, h.r
	w := newWorld()
	w.conditional = true
	f, _ := alpine.NewFactory(ctx)
	if err := f.Configure(ctx, func(v any) error {
		if c, ok := v.(*alpine.FactoryConfig); ok {
			c.URL = "http://alpine.test/"
		}
		return nil
	}, w.client()); err != nil {
		r.Fail("", "alpine factory: configure: "+err.Error())
		return
	}
	r.Op("alp new", "ok", false)
	w.put("alpine.test/last-update", 200, "text/plain", []byte("stamp-1"), "etag", `"s1"`)
	var js []string
	for _, rel := range []string{"v3.3", "v3.4", "v3.5", "edge"} {
		if rel != "edge" {
			w.put("alpine.test/"+rel+"/", 200, "text/html", []byte("<html></html>"))
		}
		w.put("alpine.test/"+rel+"/main.json", 200, "application/json", []byte("{}"))
		js = append(js, hs(rel)+"/"+hs("main")+"=o")
	}
	call := func() (string, []string) {
		us, err := f.UpdaterSet(ctx)
		if err != nil {
			return "err", nil
		}
		var names, toks []string
		for _, u := range us.Updaters() {
			names = append(names, u.Name())
		}
		sort.Strings(names)
		for _, n := range names {
			toks = append(toks, hs(n))
		}
		if len(toks) == 0 {
			return "set -", names
		}
		return "set " + strings.Join(toks, ","), names
	}
	w.faults["alpine.test/v3.4/"] = fault{status: 500}
	out, _ := call()
	r.Op("alp s 1 "+hs(`"s1"`)+" 3.3=o,3.4=x,3.5=o "+strings.Join(js, ","), out, true)
	delete(w.faults, "alpine.test/v3.4/")
	out, names := call()
	r.Op("alp s 1 "+hs(`"s1"`)+" 3.3=o,3.4=o,3.5=o "+strings.Join(js, ","), out, true)
	r.Case("alpine factory: a release skipped on a 5xx comes back under the same stamp", true)
	found := false
	for _, n := range names {
		if n == "alpine-main-v3.4-updater" {
			found = true
		}
	}
	if !found {
		r.Fail("", fmt.Sprintf("alpine factory: HEAD v3.4/ answered 500 in the first enumeration and 200 in the second (last-update unchanged): the second UpdaterSet call hands out %v, without the updater of v3.4", names))
	}
	// the same for a repository file, under a new stamp
	w.put("alpine.test/last-update", 200, "text/plain", []byte("stamp-2"), "etag", `"s2"`)
	w.faults["alpine.test/v3.5/main.json"] = fault{status: 503}
	js2 := strings.Replace(strings.Join(js, ","), hs("v3.5")+"/"+hs("main")+"=o", hs("v3.5")+"/"+hs("main")+"=x", 1)
	out, _ = call()
	r.Op("alp s 2 "+hs(`"s2"`)+" 3.3=o,3.4=o,3.5=o "+js2, out, true)
	delete(w.faults, "alpine.test/v3.5/main.json")
	out, names = call()
	r.Op("alp s 2 "+hs(`"s2"`)+" 3.3=o,3.4=o,3.5=o "+strings.Join(js, ","), out, true)
	r.Case("alpine factory: a repository skipped on a 5xx comes back under the same stamp", true)
	found = false
	for _, n := range names {
		if n == "alpine-main-v3.5-updater" {
			found = true
		}
	}
	if !found {
		r.Fail("", fmt.Sprintf("alpine factory: HEAD v3.5/main.json answered 503 in one enumeration and 200 in the next (last-update unchanged): the next UpdaterSet call hands out %v, without alpine-main-v3.5-updater", names))
	}
}

// osvWitness: the OSV factory against a bucket that answers conditional
// requests: ecosystems.txt stays the same while the ecosystems' databases
// change.  Every UpdaterSet call must hand out the updaters of the listed
// ecosystems (they are what fetches the new databases); a read error on
// ecosystems.txt in one call must not silence the following calls.
func (h *harness) osvWitness() {
	ctx, r := h.ctx, h.r
	w := newWorld()
	w.conditional = true
	w.put("osv.test/ecosystems.txt", 200, "text/plain", []byte("PyPI\nGo\nMaven\n"), "etag", `"ecosystems-1"`)
	f := new(osv.Factory)
	if err := f.Configure(ctx, func(v any) error {
		if c, ok := v.(*osv.FactoryConfig); ok {
			c.URL = "http://osv.test/"
		}
		return nil
	}, w.client()); err != nil {
		r.Fail("", "osv factory: configure: "+err.Error())
		return
	}
	names := func() ([]string, error) {
		us, err := f.UpdaterSet(ctx)
		if err != nil {
			return nil, err
		}
		var out []string
		for _, u := range us.Updaters() {
			out = append(out, u.Name())
		}
		sort.Strings(out)
		return out, nil
	}
	first, err := names()
	r.Case("osv factory: enumeration repeated with an unchanged ecosystems.txt", true)
	if err != nil || len(first) != 3 {
		r.Fail("", fmt.Sprintf("osv factory: first enumeration of PyPI, Go, Maven: %v %v", first, err))
		return
	}
	for i := 2; i <= 3; i++ {
		got, err := names()
		if err != nil || strings.Join(got, ",") != strings.Join(first, ",") {
			r.Fail("", fmt.Sprintf("osv factory: enumeration %d against a bucket whose ecosystems.txt is unchanged (the server answers the conditional request with 304) hands out the updaters %v (%v), the first one handed out %v: the ecosystems' databases are not fetched again", i, got, err, first))
			return
		}
	}
	// a read error on a NEW ecosystems.txt, then the bucket answers properly
	w.put("osv.test/ecosystems.txt", 200, "text/plain", []byte("PyPI\nGo\nMaven\nRubyGems\n"), "etag", `"ecosystems-2"`)
	w.faults["osv.test/ecosystems.txt"] = fault{body: true}
	_, err1 := names()
	delete(w.faults, "osv.test/ecosystems.txt")
	got, err2 := names()
	r.Case("osv factory: ecosystems.txt breaks off once", true)
	if err2 != nil || len(got) != 4 {
		r.Fail("", fmt.Sprintf("osv factory: the body of a new ecosystems.txt (4 ecosystems) broke off in one enumeration (result: %v); the next enumeration, answered properly, hands out %v (%v)", err1, got, err2))
	}
}

// osvScenario: one osv.Factory against a bucket that answers conditional
// requests; ops `osvf new | f | l <etag> <readOK> <lines>` (Model/JoinHist.lean osvStep).
func (h *harness) osvScenario() {
	ctx, r, rn := h.ctx, h.r, h.rnd
	w := newWorld()
	w.conditional = true
	f := new(osv.Factory)
	if err := f.Configure(ctx, func(v any) error {
		if c, ok := v.(*osv.FactoryConfig); ok {
			c.URL = "http://osv.test/"
		}
		return nil
	}, w.client()); err != nil {
		r.Fail("", "osv factory: configure: "+err.Error())
		return
	}
	r.Op("osvf new", "ok", false)
	pool := []string{"PyPI", "Go", "Maven", "npm", "RubyGems", "crates.io", "NuGet", "Debian:11", "Debian:12", "Alpine:v3.18", "Alpine", "Linux", "Ubuntu:22.04:LTS", "Packagist", "Rocky Linux:8", "go", "PYPI", "Hex", "GitHub Actions", "Bitnami"}
	version := 0
	var lines []string
	etag := ""
	publish := func() {
		version++
		lines = nil
		for _, i := range perm(rn, len(pool))[:2+rn.Intn(8)] {
			lines = append(lines, pool[i])
		}
		etag = fmt.Sprintf(`"eco-%d"`, version)
		if rn.Chance(1, 6) {
			etag = "" // a bucket without validators
		}
		extra := []string{}
		if etag != "" {
			extra = []string{"etag", etag}
		}
		w.put("osv.test/ecosystems.txt", 200, "text/plain", []byte(strings.Join(lines, "\n")+"\n"), extra...)
	}
	call := func() string {
		var us driver.UpdaterSet
		out := hx.Guard(func() string {
			var err error
			us, err = f.UpdaterSet(ctx)
			if err != nil {
				return "err"
			}
			return "ok"
		})
		if out != "ok" {
			return out
		}
		var names []string
		for _, u := range us.Updaters() {
			names = append(names, u.Name())
		}
		sort.Strings(names)
		for i := range names {
			names[i] = hs(names[i])
		}
		if len(names) == 0 {
			return "set -"
		}
		return "set " + strings.Join(names, ",")
	}
	publish()
	for ev := 3 + rn.Intn(6); ev > 0; ev-- {
		switch x := rn.Intn(10); {
		case x < 2:
			w.faults["osv.test/ecosystems.txt"] = []fault{{status: 500}, {status: 503}, {net: true}, {status: 429}}[rn.Intn(4)]
			r.Op("osvf f", call(), false)
			delete(w.faults, "osv.test/ecosystems.txt")
			r.Count("osvf:fault")
			continue
		case x < 5:
			publish()
		}
		ok := "1"
		if rn.Chance(1, 6) {
			ok = "0"
			w.faults["osv.test/ecosystems.txt"] = fault{body: true}
		}
		var toks []string
		for _, l := range lines {
			toks = append(toks, hs(l))
		}
		out := call()
		delete(w.faults, "osv.test/ecosystems.txt")
		r.Op("osvf l "+hs(etag)+" "+ok+" "+strings.Join(toks, ","), out, strings.HasPrefix(out, "set "))
		r.Count("osvf:" + strings.SplitN(out, " ", 2)[0])
	}
}
