package c04

// Histories of the lookup data on the RHEL join path: the repository-to-CPE
// mapping that rhel.RepositoryScanner refreshes periodically (conditional GET
// with If-Modified-Since) and uses to turn an image's content sets into the
// CPE repositories the rhel matcher joins VEX advisories on.
//
// The world publishes versions of the mapping (each with its Last-Modified;
// later versions add repositories), refreshes happen with and without
// transient faults (5xx, connection reset, body that breaks off, body cut
// short), and images are indexed AFTER such histories by the REAL libindex
// whose rhel ecosystem holds the scanner under test (refreshes are forced
// through the verif hook RefreshMappingForVerif = the updater's Fetch, which
// Scan performs when its daily rate limiter allows).  The statement: the
// advisory for a package in repository R reaches it whenever the currently
// published mapping maps the image's content set to R's CPE and a healthy
// refresh has happened since that version was published.

import (
	"context"
	"encoding/json"
	"fmt"
	"sort"
	"strings"
	"time"

	"github.com/quay/claircore"
	"github.com/quay/claircore/indexer"
	"github.com/quay/claircore/libindex"
	"github.com/quay/claircore/libvuln"
	"github.com/quay/claircore/libvuln/updates"
	"github.com/quay/claircore/rhel"
	"github.com/quay/claircore/rpm"
	"github.com/quay/claircore/toolkit/types/cpe"
	"github.com/quay/claircore/verifharness/internal/memstore"
)

const mappingRoute = "security.access.redhat.com/data/metrics/repository-to-cpe.json"

func (h *harness) sectionMappingHistory() {
	r := h.r
	ctx, cancel := context.WithTimeout(h.ctx, 3*time.Minute)
	defer cancel()
	defer func() {
		if ctx.Err() != nil {
			r.Fail("", "mapping-history: libindex / libvuln did not finish within three minutes (hang)")
		}
	}()
	docs := h.genVexDocs(h.cfg.N(6, 30))
	vs, err := vexParse(ctx, docs)
	if err != nil {
		return // reported by sectionVexGenerated
	}
	sort.Slice(vs, func(i, j int) bool { return fmt.Sprint(vs[i].Name, vs[i].Package, vs[i].FixedInVersion, vs[i].Repo) < fmt.Sprint(vs[j].Name, vs[j].Package, vs[j].FixedInVersion, vs[j].Repo) })
	for hi := 0; hi < h.cfg.N(3, 20) && !r.Stop(); hi++ {
		h.mappingHistory(ctx, hi, docs, vs)
	}
}

func (h *harness) mappingHistory(ctx context.Context, hi int, docs []vexDoc, vs []*claircore.Vulnerability) {
	r, rn := h.r, h.rnd
	w := newWorld()
	w.conditional = true
	// versions of the mapping: version v knows the repositories order[:known[v]]
	order := perm(rn, len(vexRepoPool))
	version, known := 0, 0
	publish := func(n int) {
		version++
		known = n
		m := map[string]any{}
		for _, j := range order[:known] {
			m[fmt.Sprintf("verif-pool-%d", j)] = map[string]any{"cpes": []string{vexRepoPool[j]}}
		}
		b, _ := json.Marshal(map[string]any{"data": m})
		w.put(mappingRoute, 200, "application/json", b, "last-modified", fmt.Sprintf("Mon, 01 Jan 2024 00:00:%02d GMT", version))
	}
	publish(2 + rn.Intn(2))
	sc := new(rhel.RepositoryScanner)
	eco := &indexer.Ecosystem{
		PackageScanners:      func(context.Context) ([]indexer.PackageScanner, error) { return []indexer.PackageScanner{new(rpm.Scanner)}, nil },
		DistributionScanners: func(context.Context) ([]indexer.DistributionScanner, error) { return []indexer.DistributionScanner{new(rhel.DistributionScanner)}, nil },
		RepositoryScanners:   func(context.Context) ([]indexer.RepositoryScanner, error) { return []indexer.RepositoryScanner{sc}, nil },
		Coalescer:            func(context.Context) (indexer.Coalescer, error) { return new(rhel.Coalescer), nil },
	}
	ar := &memArena{layers: map[string][]byte{}}
	li, err := libindex.New(ctx, &libindex.Options{Store: memstore.New(), Locker: updates.NewLocalLockSource(), FetchArena: ar, LayerScanConcurrency: 2,
		Ecosystems: []*indexer.Ecosystem{eco, rpm.NewEcosystem(ctx)}}, w.client())
	if err != nil {
		r.Fail("", "mapping-history: libindex.New: "+err.Error())
		return
	}
	defer li.Close(ctx)
	st := newFullStore()
	st.byUpdater["rhel-vex"] = vs
	st.rebuild()
	lv, err := libvuln.New(ctx, &libvuln.Options{Store: st, Locker: updates.NewLocalLockSource(), Client: w.client(),
		UpdaterSets: []string{}, DisableBackgroundUpdates: true, UpdateRetention: 2})
	if err != nil {
		r.Fail("", "mapping-history: libvuln.New: "+err.Error())
		return
	}
	defer lv.Close(ctx)

	log := []string{fmt.Sprintf("mapping v1 (Last-Modified …:01) lists %d repositories, loaded when the indexer was built", known)}
	healthySince := true // a healthy refresh (or the initial load) has happened since the current version was published
	nonce := 0
	// check: an image per known repository that some document has a fixed entry for
	check := func() {
		for _, j := range order[:known] {
			c := vexRepoPool[j]
			var d vexDoc
			var e vexEntry
			found := false
			for _, dd := range docs {
				for _, ee := range dd.entries {
					if ee.vr != "" && dd.repos[ee.repo] == c {
						d, e, found = dd, ee, true
					}
				}
			}
			if !found || r.Stop() {
				continue
			}
			nonce++
			key := fmt.Sprintf("mapping-history %d: %s package=%s repository=%s content set verif-pool-%d; history [%s]", hi, d.cve, e.pkg, c, j, strings.Join(log, " | "))
			r.Case(fmt.Sprintf("mapping-history %d step %d repo %d", hi, nonce, j), true)
			r.Count("full:mapping-history")
			label := ""
			if e.module != "" {
				label = e.module + ":8090020231130:0a1b2c3d"
			}
			db, err := rpmSqliteDB([]rpmRec{{name: "verif-filler", version: "1.0", release: "1", arch: "noarch", srpm: "verif-filler-1.0-1.src.rpm"},
				{name: e.pkg, version: "0.0.1", release: "1.el8", arch: e.arch, srpm: e.pkg + "-0.0.1-1.el8.src.rpm", module: label}})
			if err != nil {
				r.Fail("", "mapping-history: writing an rpm database: "+err.Error())
				return
			}
			manifest := []byte(fmt.Sprintf(`{"metadata":{"icm_version":1,"icm_spec":"x","image_layer_index":0},"content_sets":["verif-pool-%d"],"image_contents":[]}`, j))
			ir, err := li.Index(ctx, ar.manifestOf(map[string][]byte{
				"etc/redhat-release": []byte("Red Hat Enterprise Linux release 8.9 (Ootpa)\n"),
				"etc/verif-nonce":    []byte(fmt.Sprintf("%d-%d\n", hi, nonce)),
				"root/buildinfo/content_manifests/verif-1-1.json": manifest, "var/lib/rpm/rpmdb.sqlite": db}))
			if err != nil || ir == nil || !ir.Success {
				r.Fail("", fmt.Sprintf("%s: libindex.Index failed: %v", key, err))
				continue
			}
			vr, err := lv.Scan(ctx, ir)
			if err != nil {
				r.Fail("", fmt.Sprintf("%s: libvuln.Scan failed: %v", key, err))
				continue
			}
			want, _ := cpe.Unbind(c)
			hit := false
			for id, p := range vr.Packages {
				if p.Name != e.pkg {
					continue
				}
				for _, vid := range vr.PackageVulnerabilities[id] {
					if x := vr.Vulnerabilities[vid]; x != nil && x.Repo != nil && x.Name == d.cve {
						if got, err := cpe.Unbind(x.Repo.Name); err == nil && got.String() == want.String() {
							hit = true
						}
					}
				}
			}
			if !hit {
				var repos []string
				for _, rp := range ir.Repositories {
					repos = append(repos, rp.Name)
				}
				sort.Strings(repos)
				r.Fail("", fmt.Sprintf("%s: the published mapping maps the image's content set to the advisory's repository and a healthy refresh has happened since it was published; %s-0.0.1-1.el8 is not reported (repositories in the index report: %v)", key, e.pkg, repos))
			}
		}
	}
	check()
	steps := 4 + rn.Intn(4)
	for step := 1; step <= steps && !r.Stop(); step++ {
		// directed start of the first histories: a new version with more
		// repositories, a refresh whose body cannot be decoded, a healthy one
		pub, flt := rn.Chance(1, 2) && known < len(order), fault{}
		hasFault := rn.Chance(2, 5)
		if hasFault {
			flt = []fault{{status: 500}, {status: 503}, {net: true}, {body: true}, {trunc: true}, {trunc: true}, {body: true}}[rn.Intn(7)]
		}
		if hi < 2 {
			switch step {
			case 1:
				pub, hasFault, flt = true, true, []fault{{trunc: true}, {body: true}}[hi]
			case 2:
				pub, hasFault = false, false
			}
		}
		if pub && known < len(order) {
			publish(known + 1 + rn.Intn(len(order)-known))
			healthySince = false
			log = append(log, fmt.Sprintf("mapping v%d published (Last-Modified …:%02d), %d repositories", version, version, known))
		}
		if hasFault {
			w.faults[mappingRoute] = flt
		}
		err := sc.RefreshMappingForVerif(ctx)
		delete(w.faults, mappingRoute)
		if hasFault {
			log = append(log, "refresh with "+flt.String())
			r.Count("mapping-history:refresh:" + flt.String())
		} else {
			log = append(log, "healthy refresh")
			r.Count("mapping-history:refresh:healthy")
			healthySince = true
			if err != nil {
				r.Fail("", fmt.Sprintf("mapping-history %d: history [%s]: a refresh answered properly by the server failed: %v", hi, strings.Join(log, " | "), err))
			}
		}
		if healthySince {
			check()
		}
	}
}
