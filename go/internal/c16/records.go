package c16

// Records by construction from the struct types.
//
// The vulnerabilities and enrichment records the harness stores are built by
// reflection over claircore.Vulnerability and driver.EnrichmentRecord, so that
// every field that reaches the JSON form (a field added later too) is
// exercised: every member of every enum-like type at every place it occurs,
// pointers nil and non-nil, slices nil / empty / filled, strings empty, long
// and non-ASCII, times with zone offsets and nanoseconds, versions of every
// kind with negative and extreme slots, CPE names.
//
// A loaded record is compared with the recorded one FIELD BY FIELD on the
// decoded values (diffValues); the re-encoded JSON is only an index.
//
// What "the same record" means here (everything else must be identical):
//   * fields tagged `json:"-"` are not part of the format and are left zero;
//   * two times are the same if they are the same instant with the same zone
//     offset (a zone's name is not in RFC 3339);
//   * two json.RawMessage are the same if they are the same JSON value (the
//     store's encoder compacts white space; a nil one is written as null);
//   * two CPE names are the same if they bind to the same formatted string (an
//     attribute left unset, as the URI form leaves the trailing ones, is
//     written as ANY: the name's text has no other way to say it).
// Values the codecs are known not to carry (findings of property C17) are not
// generated: a Version kind containing ':', an empty kind with non-zero slots;
// strings are valid UTF-8; years are within 0001..9999; zone offsets are whole
// minutes.

import (
	"bytes"
	"encoding/json"
	"fmt"
	"reflect"
	"sort"
	"strings"
	"time"

	"github.com/quay/claircore"
	"github.com/quay/claircore/pkg/cpe"
	"github.com/quay/claircore/verifharness/internal/hx"
)

type genMode int

const (
	modeRandom genMode = iota
	modeFull           // every pointer set, every slice filled, enums at member k
	modeZero           // the zero value
	modeEmpty          // pointers to zero structs, empty non-nil slices, empty strings
)

type recGen struct {
	rnd  *hx.Rand
	mode genMode
	k    int // modeFull: which member of every enum
	seen map[string]bool
}

var (
	tTime    = reflect.TypeOf(time.Time{})
	tVersion = reflect.TypeOf(claircore.Version{})
	tWFN     = reflect.TypeOf(cpe.WFN{})
	tRaw     = reflect.TypeOf(json.RawMessage{})
	tStr     = reflect.TypeOf((*fmt.Stringer)(nil)).Elem()
)

var cpeNames = []string{
	"cpe:2.3:o:redhat:enterprise_linux:8:*:*:*:*:*:*:*",
	"cpe:2.3:a:openssl:openssl:1.1.1k:*:*:*:*:*:*:*",
	"cpe:/a:redhat:enterprise_linux:8::appstream",
	"cpe:2.3:a:redhat:rhel_eus:8.4:*:*:*:appstream:*:*:*",
	"cpe:2.3:*:*:*:*:*:*:*:*:*:*:*",
	"cpe:2.3:a:vendor:pro\\.duct:1\\:2:-:*:*:*:*:*:*",
}

var versionKinds = []string{"semver", "rpm", "pep440", "gem", "a", "kind with spaces", "ünïcode"}

var longString = strings.Repeat("long string é日本😀 <&> \"q\" \\ ", 40)

// enumMembers lists the members of an enum-like type: an integer type with a
// String method (stringer style: a value outside the enum prints as "T(n)").
func enumMembers(t reflect.Type) []reflect.Value {
	switch t.Kind() {
	case reflect.Int, reflect.Int8, reflect.Int16, reflect.Int32, reflect.Int64,
		reflect.Uint, reflect.Uint8, reflect.Uint16, reflect.Uint32, reflect.Uint64:
	default:
		return nil
	}
	if t.PkgPath() == "" || !t.Implements(tStr) {
		return nil
	}
	var ms []reflect.Value
	for i := 0; i < 256; i++ {
		v := reflect.New(t).Elem()
		if v.CanInt() {
			v.SetInt(int64(i))
		} else {
			v.SetUint(uint64(i))
		}
		s := v.Interface().(fmt.Stringer).String()
		if strings.Contains(s, "(") && strings.HasSuffix(s, ")") {
			break
		}
		ms = append(ms, v)
	}
	return ms
}

func (g *recGen) str() string {
	switch g.mode {
	case modeZero, modeEmpty:
		return ""
	case modeFull:
		if g.k%5 == 4 && g.rnd.Chance(1, 8) {
			return longString
		}
		return "s" + genStr(g.rnd, 12)
	}
	switch c := g.rnd.Intn(150); {
	case c == 0:
		return ""
	case c == 1:
		return longString[:1+g.rnd.Intn(len(longString)-1)] // cut back to a rune boundary by the caller
	}
	return genStr(g.rnd, 16)
}

func validUTF8Prefix(s string) string {
	for len(s) > 0 && !strings.HasPrefix(strings.ToValidUTF8(s, "�"), s) {
		s = s[:len(s)-1]
	}
	return strings.ToValidUTF8(s, "")
}

func (g *recGen) time() time.Time {
	switch g.mode {
	case modeZero, modeEmpty:
		return time.Time{}
	}
	sec := int64(g.rnd.Intn(2000000000)) - 200000000
	ns := int64(0)
	if g.mode == modeFull || g.rnd.Chance(2, 3) {
		ns = int64(g.rnd.Intn(1000000000))
	}
	t := time.Unix(sec, ns)
	switch g.rnd.Intn(4) {
	case 0:
		return t.UTC()
	case 1:
		return t.In(time.FixedZone("", (g.rnd.Intn(27)-12)*3600))
	case 2:
		return t.In(time.FixedZone("", (g.rnd.Intn(2*14*60)-14*60)*60))
	}
	return t.In(time.FixedZone("", 0)) // +00:00 decodes as UTC: same instant, same offset
}

func (g *recGen) version() claircore.Version {
	var v claircore.Version
	if g.mode == modeZero || g.mode == modeEmpty || (g.mode == modeRandom && g.rnd.Chance(1, 5)) {
		return v
	}
	v.Kind = versionKinds[g.rnd.Intn(len(versionKinds))]
	if g.mode == modeFull {
		v.Kind = versionKinds[g.k%len(versionKinds)]
	}
	for i := range v.V {
		switch g.rnd.Intn(6) {
		case 0:
			v.V[i] = 0
		case 1:
			v.V[i] = int32(-g.rnd.Intn(1000))
		case 2:
			v.V[i] = 2147483647
		case 3:
			v.V[i] = -2147483648
		default:
			v.V[i] = int32(g.rnd.Intn(100000))
		}
	}
	return v
}

func (g *recGen) raw() json.RawMessage {
	switch g.mode {
	case modeZero:
		return nil
	case modeEmpty:
		return json.RawMessage(`null`)
	}
	n := g.rnd.Intn(1000000)
	switch g.rnd.Intn(7) {
	case 0:
		return json.RawMessage(fmt.Sprintf(`{"i":%d}`, n))
	case 1:
		b, _ := json.Marshal(map[string]any{"score": g.rnd.Intn(100), "vector": genStr(g.rnd, 12), "n": n})
		return b
	case 2:
		return json.RawMessage(fmt.Sprintf(`[%d,"<x>&",null,true,{"a":[]}]`, n))
	case 3:
		b, _ := json.Marshal(genStr(g.rnd, 20) + fmt.Sprint(n))
		return b
	case 4:
		return json.RawMessage(fmt.Sprintf("{ \"spaced\" : [ 1 , 2 ],\n\t\"n\" : %d }", n))
	case 5:
		return json.RawMessage(fmt.Sprintf(`{"big":123456789012345678901234567890,"f":1.5e300,"n":%d}`, n))
	}
	return json.RawMessage(fmt.Sprint(n))
}

// value builds a value of type t.
func (g *recGen) value(t reflect.Type, depth int) reflect.Value {
	v := reflect.New(t).Elem()
	g.seen["type:"+t.String()] = true
	switch t {
	case tTime:
		v.Set(reflect.ValueOf(g.time()))
		return v
	case tVersion:
		v.Set(reflect.ValueOf(g.version()))
		return v
	case tWFN:
		if g.mode == modeZero || g.mode == modeEmpty || (g.mode == modeRandom && g.rnd.Chance(1, 2)) {
			return v
		}
		i := g.rnd.Intn(len(cpeNames))
		if g.mode == modeFull {
			i = g.k % len(cpeNames)
		}
		w, err := cpe.Unbind(cpeNames[i]) // formatted string or URI
		if err != nil {
			panic(err)
		}
		v.Set(reflect.ValueOf(w))
		return v
	case tRaw:
		v.Set(reflect.ValueOf(g.raw()))
		return v
	}
	if ms := enumMembers(t); ms != nil {
		var m reflect.Value
		switch g.mode {
		case modeZero, modeEmpty:
			return v
		case modeFull:
			m = ms[g.k%len(ms)]
		default:
			m = ms[g.rnd.Intn(len(ms))]
		}
		g.seen["enum:"+t.String()+"="+m.Interface().(fmt.Stringer).String()] = true
		v.Set(m)
		return v
	}
	switch t.Kind() {
	case reflect.String:
		v.SetString(validUTF8Prefix(g.str()))
	case reflect.Bool:
		v.SetBool(g.mode == modeFull || (g.mode == modeRandom && g.rnd.Chance(1, 2)))
	case reflect.Int, reflect.Int8, reflect.Int16, reflect.Int32, reflect.Int64:
		if g.mode == modeFull || g.mode == modeRandom {
			v.SetInt(int64(g.rnd.Intn(127)) - 20)
		}
	case reflect.Uint, reflect.Uint8, reflect.Uint16, reflect.Uint32, reflect.Uint64:
		if g.mode == modeFull || g.mode == modeRandom {
			v.SetUint(uint64(g.rnd.Intn(127)))
		}
	case reflect.Float32, reflect.Float64:
		if g.mode == modeFull || g.mode == modeRandom {
			v.SetFloat(float64(g.rnd.Intn(1000)) / 8)
		}
	case reflect.Pointer:
		set := false
		switch g.mode {
		case modeFull:
			set = depth < 2
		case modeEmpty:
			set = depth < 2
		case modeRandom:
			set = depth < 2 && g.rnd.Chance(2, 3)
		}
		if set {
			p := reflect.New(t.Elem())
			p.Elem().Set(g.value(t.Elem(), depth+1))
			v.Set(p)
		}
	case reflect.Struct:
		for i := 0; i < t.NumField(); i++ {
			f := t.Field(i)
			if !f.IsExported() {
				continue
			}
			if tag := f.Tag.Get("json"); tag == "-" {
				continue // not part of the format
			}
			g.seen["field:"+t.String()+"."+f.Name] = true
			v.Field(i).Set(g.value(f.Type, depth))
		}
	case reflect.Slice:
		n := 0
		switch g.mode {
		case modeZero:
			return v // nil
		case modeEmpty:
		case modeFull:
			n = 1 + g.k%3
		default:
			switch c := g.rnd.Intn(6); {
			case c == 0:
				return v
			case c == 1:
			default:
				n = 1 + g.rnd.Intn(4)
			}
		}
		s := reflect.MakeSlice(t, n, n)
		for i := 0; i < n; i++ {
			s.Index(i).Set(g.value(t.Elem(), depth+1))
		}
		v.Set(s)
	case reflect.Map:
		if g.mode == modeZero {
			return v
		}
		m := reflect.MakeMap(t)
		if g.mode != modeEmpty && t.Key().Kind() == reflect.String {
			for i := 0; i < 1+g.rnd.Intn(3); i++ {
				k := reflect.New(t.Key()).Elem()
				k.SetString(fmt.Sprintf("k%d", i))
				m.SetMapIndex(k, g.value(t.Elem(), depth+1))
			}
		}
		v.Set(m)
	case reflect.Array:
		for i := 0; i < t.Len(); i++ {
			v.Index(i).Set(g.value(t.Elem(), depth+1))
		}
	case reflect.Interface:
		// left nil
	}
	return v
}

// sameJSON reports whether two raw messages are the same JSON value.
func sameJSON(a, b []byte) bool {
	if len(a) == 0 || len(b) == 0 {
		return len(a) == len(b)
	}
	dec := func(x []byte) (any, bool) {
		d := json.NewDecoder(bytes.NewReader(x))
		d.UseNumber()
		var v any
		if d.Decode(&v) != nil {
			return nil, false
		}
		return v, true
	}
	va, oka := dec(a)
	vb, okb := dec(b)
	if !oka || !okb {
		return bytes.Equal(a, b)
	}
	return reflect.DeepEqual(va, vb)
}

func showVal(v reflect.Value) string {
	if !v.IsValid() {
		return "<none>"
	}
	if v.Type() == tRaw {
		return fmt.Sprintf("%.80q", string(v.Bytes()))
	}
	if v.CanInterface() {
		if t, ok := v.Interface().(time.Time); ok {
			return t.Format(time.RFC3339Nano)
		}
		if s, ok := v.Interface().(fmt.Stringer); ok && v.Kind() != reflect.Struct && v.Kind() != reflect.Pointer {
			return fmt.Sprintf("%s(%v)", s.String(), reflect.ValueOf(v.Interface()).Convert(underlying(v.Type())).Interface())
		}
		if v.Type() == tWFN || v.Type() == tVersion {
			b, _ := json.Marshal(v.Interface())
			return string(b)
		}
	}
	s := fmt.Sprintf("%#v", v.Interface())
	if len(s) > 90 {
		s = s[:90] + "…"
	}
	return s
}

func underlying(t reflect.Type) reflect.Type {
	switch t.Kind() {
	case reflect.Int, reflect.Int8, reflect.Int16, reflect.Int32, reflect.Int64:
		return reflect.TypeOf(int64(0))
	case reflect.Uint, reflect.Uint8, reflect.Uint16, reflect.Uint32, reflect.Uint64:
		return reflect.TypeOf(uint64(0))
	}
	return t
}

type fieldInfo struct {
	idx      int
	name     string
	exported bool
	skip     bool // json:"-"
}

var fieldCache = map[reflect.Type][]fieldInfo{}

func fieldsOf(t reflect.Type) []fieldInfo {
	if fs, ok := fieldCache[t]; ok {
		return fs
	}
	fs := make([]fieldInfo, t.NumField())
	for i := range fs {
		f := t.Field(i)
		fs[i] = fieldInfo{idx: i, name: f.Name, exported: f.IsExported(), skip: f.Tag.Get("json") == "-"}
	}
	fieldCache[t] = fs
	return fs
}

func addDiff(out *[]string, path func() string, a, b reflect.Value) {
	*out = append(*out, fmt.Sprintf("%s: recorded %s, loaded %s", path(), showVal(a), showVal(b)))
}

// diffValues compares recorded and loaded field by field; it returns
// "path: recorded X, loaded Y" for every place they differ. (Only called from
// one goroutine: the field cache is not locked.)
func diffValues(a, b reflect.Value, path func() string, out *[]string) {
	if len(*out) > 8 {
		return
	}
	if a.Type() != b.Type() {
		addDiff(out, path, a, b)
		return
	}
	switch a.Type() {
	case tTime:
		ta, tb := a.Interface().(time.Time), b.Interface().(time.Time)
		_, oa := ta.Zone()
		_, ob := tb.Zone()
		if !ta.Equal(tb) || oa != ob {
			addDiff(out, path, a, b)
		}
		return
	case tWFN:
		wa, wb := a.Interface().(cpe.WFN), b.Interface().(cpe.WFN)
		if wa != wb && wa.String() != wb.String() {
			addDiff(out, path, a, b)
		}
		return
	case tRaw:
		// a nil RawMessage is written as null
		na, nb := a.Bytes(), b.Bytes()
		if bytes.Equal(na, nb) {
			return
		}
		if len(na) == 0 {
			na = []byte("null")
		}
		if len(nb) == 0 {
			nb = []byte("null")
		}
		if !sameJSON(na, nb) {
			addDiff(out, path, a, b)
		}
		return
	}
	switch a.Kind() {
	case reflect.String:
		if a.String() != b.String() {
			addDiff(out, path, a, b)
		}
	case reflect.Int, reflect.Int8, reflect.Int16, reflect.Int32, reflect.Int64:
		if a.Int() != b.Int() {
			addDiff(out, path, a, b)
		}
	case reflect.Uint, reflect.Uint8, reflect.Uint16, reflect.Uint32, reflect.Uint64:
		if a.Uint() != b.Uint() {
			addDiff(out, path, a, b)
		}
	case reflect.Bool:
		if a.Bool() != b.Bool() {
			addDiff(out, path, a, b)
		}
	case reflect.Pointer, reflect.Interface:
		if a.IsNil() || b.IsNil() {
			if a.IsNil() != b.IsNil() {
				addDiff(out, path, a, b)
			}
			return
		}
		diffValues(a.Elem(), b.Elem(), path, out)
	case reflect.Struct:
		for _, f := range fieldsOf(a.Type()) {
			if !f.exported {
				if !reflect.DeepEqual(fieldIface(a.Field(f.idx)), fieldIface(b.Field(f.idx))) {
					*out = append(*out, fmt.Sprintf("%s.%s (unexported) differs", path(), f.name))
				}
				continue
			}
			if f.skip {
				continue
			}
			name := f.name
			diffValues(a.Field(f.idx), b.Field(f.idx), func() string { return path() + "." + name }, out)
		}
	case reflect.Slice:
		if a.IsNil() != b.IsNil() || a.Len() != b.Len() {
			addDiff(out, path, a, b)
			return
		}
		for i := 0; i < a.Len(); i++ {
			i := i
			diffValues(a.Index(i), b.Index(i), func() string { return fmt.Sprintf("%s[%d]", path(), i) }, out)
		}
	case reflect.Array:
		for i := 0; i < a.Len(); i++ {
			i := i
			diffValues(a.Index(i), b.Index(i), func() string { return fmt.Sprintf("%s[%d]", path(), i) }, out)
		}
	case reflect.Map:
		if a.IsNil() != b.IsNil() || a.Len() != b.Len() {
			addDiff(out, path, a, b)
			return
		}
		for _, k := range a.MapKeys() {
			k := k
			bv := b.MapIndex(k)
			if !bv.IsValid() {
				*out = append(*out, fmt.Sprintf("%s[%v]: missing after loading", path(), k))
				continue
			}
			diffValues(a.MapIndex(k), bv, func() string { return fmt.Sprintf("%s[%v]", path(), k) }, out)
		}
	default:
		if !reflect.DeepEqual(a.Interface(), b.Interface()) {
			addDiff(out, path, a, b)
		}
	}
}

// fieldIface reads an unexported field for comparison only.
func fieldIface(v reflect.Value) any {
	if v.CanInterface() {
		return v.Interface()
	}
	switch v.Kind() {
	case reflect.String:
		return v.String()
	case reflect.Bool:
		return v.Bool()
	case reflect.Int, reflect.Int8, reflect.Int16, reflect.Int32, reflect.Int64:
		return v.Int()
	case reflect.Uint, reflect.Uint8, reflect.Uint16, reflect.Uint32, reflect.Uint64:
		return v.Uint()
	}
	return fmt.Sprintf("%v", v)
}

func diffRecords(recorded, loaded any) []string {
	var out []string
	a, b := reflect.ValueOf(recorded), reflect.ValueOf(loaded)
	for a.Kind() == reflect.Pointer && !a.IsNil() && b.Kind() == reflect.Pointer && !b.IsNil() {
		a, b = a.Elem(), b.Elem()
	}
	root := reflect.TypeOf(recorded).String()
	diffValues(a, b, func() string { return root }, &out)
	return out
}

// canonJSON is the JSON value of b with sorted keys: an index that does not go
// through claircore's decoders.
func canonJSON(b []byte) (string, bool) {
	d := json.NewDecoder(bytes.NewReader(b))
	d.UseNumber()
	var v any
	if d.Decode(&v) != nil {
		return "", false
	}
	out, err := json.Marshal(v)
	if err != nil {
		return "", false
	}
	return string(out), true
}

func sortedKeys(m map[string]bool) []string {
	ks := make([]string, 0, len(m))
	for k := range m {
		ks = append(ks, k)
	}
	sort.Strings(ks)
	return ks
}
