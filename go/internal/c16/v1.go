package c16

// Black-box round trip of the zip-of-zips export (updater/offline.go,
// updater/offline_v1.go): Updater.Fetch writes an export for a set of fake
// updaters, Updater.Parse of a second Updater instance imports it into a
// recording store; what reaches the store must be what the updaters produced
// (name, fingerprint, vulnerabilities, enrichment records, one ref per
// updater). The same scenarios are answered by the Lean model
// (Model/OfflineV1.lean) through the protocol ops v1export / v1import /
// v1header: the files of the real zip (paths, fingerprints, refs, the token
// lists of the inner zip) and the real store calls are compared line by line.

import (
	"archive/zip"
	"bytes"
	"context"
	"encoding/json"
	"fmt"
	"io"
	"io/fs"
	"net/http"
	"net/url"
	"os"
	"runtime"
	"sort"
	"strings"
	"sync"
	"time"

	"github.com/google/uuid"
	"github.com/quay/zlog"
	"github.com/rs/zerolog"

	"github.com/quay/claircore/updater"
	driver "github.com/quay/claircore/updater/driver/v1"
	"github.com/quay/claircore/verifharness/internal/hx"
)

type fakeData struct {
	name    string
	fp      string
	vulns   []string // names; nil + hasV=false: not a VulnerabilityParser
	enrich  []string // tags
	hasV    bool
	hasE    bool
	failing bool // Fetch returns an error: the updater is left out of the export
}

type fakeBase struct {
	d      *fakeData
	mu     *sync.Mutex
	prevFP *map[string]string
}

func (f *fakeBase) Name() string { return f.d.name }

func (f *fakeBase) Fetch(ctx context.Context, zw *zip.Writer, prev driver.Fingerprint, _ *http.Client) (driver.Fingerprint, error) {
	f.mu.Lock()
	(*f.prevFP)[f.d.name] = string(prev)
	f.mu.Unlock()
	if f.d.failing {
		return "", fmt.Errorf("fetch failed")
	}
	if prev != "" && string(prev) == f.d.fp {
		return prev, driver.ErrUnchanged
	}
	w, err := zw.Create("vulns.json")
	if err != nil {
		return "", err
	}
	if err := json.NewEncoder(w).Encode(f.d.vulns); err != nil {
		return "", err
	}
	w, err = zw.Create("enrich.json")
	if err != nil {
		return "", err
	}
	if err := json.NewEncoder(w).Encode(f.d.enrich); err != nil {
		return "", err
	}
	return driver.Fingerprint(f.d.fp), nil
}

func (f *fakeBase) parseV(_ context.Context, sys fs.FS) (*driver.ParsedVulnerabilities, error) {
	b, err := fs.ReadFile(sys, "vulns.json")
	if err != nil {
		return nil, err
	}
	var names []string
	if err := json.Unmarshal(b, &names); err != nil {
		return nil, err
	}
	pv := &driver.ParsedVulnerabilities{Updater: f.d.name, Package: []driver.Package{{Name: "pkg"}}}
	for _, n := range names {
		pv.Vulnerability = append(pv.Vulnerability, driver.Vulnerability{Name: n, Package: []int{0}, Distribution: -1, Repository: -1})
	}
	return pv, nil
}

func (f *fakeBase) parseE(_ context.Context, sys fs.FS) ([]driver.EnrichmentRecord, error) {
	b, err := fs.ReadFile(sys, "enrich.json")
	if err != nil {
		return nil, err
	}
	var tags []string
	if err := json.Unmarshal(b, &tags); err != nil {
		return nil, err
	}
	var es []driver.EnrichmentRecord
	for _, t := range tags {
		es = append(es, driver.EnrichmentRecord{Tags: []string{t}, Enrichment: json.RawMessage(`{"t":"` + t + `"}`)})
	}
	return es, nil
}

type fakeV struct{ *fakeBase }

func (f fakeV) ParseVulnerability(ctx context.Context, sys fs.FS) (*driver.ParsedVulnerabilities, error) {
	return f.parseV(ctx, sys)
}

// fakeN implements neither parser interface: parseOne reports "did nothing".
type fakeN struct{ *fakeBase }

type fakeE struct{ *fakeBase }

func (f fakeE) ParseEnrichment(ctx context.Context, sys fs.FS) ([]driver.EnrichmentRecord, error) {
	return f.parseE(ctx, sys)
}

type fakeVE struct{ *fakeBase }

func (f fakeVE) ParseVulnerability(ctx context.Context, sys fs.FS) (*driver.ParsedVulnerabilities, error) {
	return f.parseV(ctx, sys)
}
func (f fakeVE) ParseEnrichment(ctx context.Context, sys fs.FS) ([]driver.EnrichmentRecord, error) {
	return f.parseE(ctx, sys)
}

type fakeFactory struct {
	ds     []*fakeData
	mu     sync.Mutex
	prevFP map[string]string
}

func (f *fakeFactory) Name() string { return "fake" }
func (f *fakeFactory) Create(context.Context, driver.ConfigUnmarshaler) ([]driver.Updater, error) {
	var us []driver.Updater
	for _, d := range f.ds {
		b := &fakeBase{d: d, mu: &f.mu, prevFP: &f.prevFP}
		switch {
		case d.hasV && d.hasE:
			us = append(us, fakeVE{b})
		case d.hasV:
			us = append(us, fakeV{b})
		case d.hasE:
			us = append(us, fakeE{b})
		default:
			us = append(us, fakeN{b})
		}
	}
	return us, nil
}

type storeCall struct {
	kind  byte
	ref   uuid.UUID
	name  string
	fp    string
	items []string
}

type recStore struct {
	mu    sync.Mutex
	calls []storeCall
}

func (s *recStore) UpdateEnrichments(_ context.Context, ref uuid.UUID, kind string, fp driver.Fingerprint, es []driver.EnrichmentRecord) error {
	c := storeCall{kind: 'e', ref: ref, name: kind, fp: string(fp)}
	for _, e := range es {
		c.items = append(c.items, strings.Join(e.Tags, "+")+"="+string(e.Enrichment))
	}
	s.mu.Lock()
	s.calls = append(s.calls, c)
	s.mu.Unlock()
	return nil
}

func (s *recStore) UpdateVulnerabilities(_ context.Context, ref uuid.UUID, name string, fp driver.Fingerprint, vs *driver.ParsedVulnerabilities) error {
	c := storeCall{kind: 'v', ref: ref, name: name, fp: string(fp)}
	if vs != nil {
		for _, v := range vs.Vulnerability {
			c.items = append(c.items, v.Name)
		}
	}
	s.mu.Lock()
	s.calls = append(s.calls, c)
	s.mu.Unlock()
	return nil
}

func (s *recStore) GetLatestUpdateOperations(context.Context) ([]driver.UpdateOperation, error) {
	return nil, nil
}

// quiet turns off the updater package's logging for the run.
func quiet() {
	l := zerolog.Nop()
	zlog.Set(&l)
}

func genFakes(rnd *hx.Rand) []*fakeData {
	n := rnd.Intn(7)
	if rnd.Chance(1, 10) {
		n = 7 + rnd.Intn(20)
	}
	var ds []*fakeData
	used := map[string]bool{}
	for i := 0; i < n; i++ {
		name := rnd.Pick("rhel", "debian", "osv", "alpine", "u", "x.y", "a-b_c") + fmt.Sprint(rnd.Intn(40))
		if rnd.Chance(1, 25) {
			name = rnd.Pick("osv/pypi", "a/b", "/x", "y/") // refused by Updater.updaters
		}
		if used[name] && !rnd.Chance(1, 3) {
			continue // (one time in three a repeated name is kept: updaters drops all but the first)
		}
		used[name] = true
		d := &fakeData{name: name, fp: rnd.Pick("", "etag-1", `W/"x"`, "2024-01-01", "{\"a\":1}\n", genStr(rnd, 10))}
		switch c := rnd.Intn(40); {
		case c == 0:
			// implements neither parser
		case c < 8:
			d.hasE = true
		case c < 24:
			d.hasV = true
		default:
			d.hasV, d.hasE = true, true
		}
		// record names are tokens: v<n> / t<n>
		if d.hasV || rnd.Chance(1, 6) {
			d.vulns = []string{}
			for k := pickCount(rnd); k > 0; k-- {
				d.vulns = append(d.vulns, fmt.Sprintf("v%d", rnd.Intn(100000)))
			}
		}
		if d.hasE || rnd.Chance(1, 6) {
			d.enrich = []string{}
			for k := pickCount(rnd); k > 0; k-- {
				d.enrich = append(d.enrich, fmt.Sprintf("t%d", rnd.Intn(100000)))
			}
		}
		d.failing = rnd.Chance(1, 12)
		ds = append(ds, d)
	}
	return ds
}

func pickCount(rnd *hx.Rand) int {
	switch c := rnd.Intn(10); {
	case c < 2:
		return 0
	case c < 5:
		return 1
	case c < 9:
		return 2 + rnd.Intn(5)
	}
	return 10 + rnd.Intn(200)
}

func describeFakes(ds []*fakeData) string {
	var ss []string
	for _, d := range ds {
		k := ""
		if d.hasV {
			k += fmt.Sprintf("V%d", len(d.vulns))
		}
		if d.hasE {
			k += fmt.Sprintf("E%d", len(d.enrich))
		}
		if d.failing {
			k += "!fetch-error"
		}
		ss = append(ss, fmt.Sprintf("%s(fp=%q %s)", d.name, d.fp, k))
	}
	return "updaters=[" + strings.Join(ss, " ") + "]"
}

// v1Export runs Fetch; returns the export or "".
func v1Export(ctx context.Context, ds []*fakeData, prev io.ReaderAt) ([]byte, map[string]string, string) {
	fac := &fakeFactory{ds: ds, prevFP: map[string]string{}}
	u, err := updater.New(ctx, &updater.Options{Store: &recStore{}, Client: &http.Client{}, Factories: []driver.UpdaterFactory{fac}})
	if err != nil {
		return nil, nil, "new:" + err.Error()
	}
	defer u.Close()
	var buf bytes.Buffer
	res := make(chan string, 1)
	go func() {
		res <- hx.Guard(func() string {
			if err := u.Fetch(ctx, prev, &buf); err != nil {
				return "err:" + err.Error()
			}
			return ""
		})
	}()
	select {
	case out := <-res:
		if out != "" {
			return nil, fac.prevFP, out
		}
	case <-time.After(60 * time.Second):
		return nil, nil, "hang"
	}
	return buf.Bytes(), fac.prevFP, ""
}

// seekOnly hides every way of learning the size but Seek.
type seekOnly struct {
	io.ReaderAt
	io.Seeker
}

// readerFor offers the export to Parse through each of the three ways openZip
// knows to find its size: a Size method, a Stat method, Seek.
func readerFor(export []byte) io.ReaderAt {
	switch len(export) % 3 {
	case 0:
		return bytes.NewReader(export)
	case 1:
		f, err := os.CreateTemp("", "verif-c16-export.")
		if err != nil {
			return bytes.NewReader(export)
		}
		os.Remove(f.Name())
		f.Write(export)
		f.Seek(int64(len(export)/2), io.SeekStart) // the position must not matter
		runtime.SetFinalizer(f, func(f *os.File) { f.Close() })
		return f
	default:
		r := bytes.NewReader(export)
		r.Seek(int64(len(export)/3), io.SeekStart)
		return seekOnly{r, r}
	}
}

func v1Import(ctx context.Context, ds []*fakeData, export []byte) ([]storeCall, string) {
	fac := &fakeFactory{ds: ds, prevFP: map[string]string{}}
	st := &recStore{}
	u, err := updater.New(ctx, &updater.Options{Store: st, Client: &http.Client{}, Factories: []driver.UpdaterFactory{fac}})
	if err != nil {
		return nil, "new:" + err.Error()
	}
	defer u.Close()
	res := make(chan string, 1)
	go func() {
		res <- hx.Guard(func() string {
			if err := u.Parse(ctx, readerFor(export)); err != nil {
				return "err:" + err.Error()
			}
			return ""
		})
	}()
	select {
	case out := <-res:
		return st.calls, out
	case <-time.After(60 * time.Second):
		return nil, "hang"
	}
}

// v1Check compares what reached the store with what the exported updaters produced.
func v1Check(ds []*fakeData, exported map[string]bool, calls []storeCall) string {
	type key struct {
		kind byte
		name string
	}
	got := map[key][]storeCall{}
	for _, c := range calls {
		got[key{c.kind, c.name}] = append(got[key{c.kind, c.name}], c)
	}
	var problems []string
	for _, d := range ds {
		for _, kind := range []byte{'v', 'e'} {
			var want []string
			if kind == 'v' {
				if d.hasV {
					want = d.vulns
				}
			} else if d.hasE {
				for _, t := range d.enrich {
					want = append(want, t+`={"t":"`+t+`"}`)
				}
			}
			cs := got[key{kind, d.name}]
			delete(got, key{kind, d.name})
			// an update reaches the store iff the updater was exported and has records of that kind
			// (the online path, Updater.Run, also skips empty results)
			expect := exported[d.name] && len(want) > 0
			switch {
			case !expect && len(cs) == 0:
			case !expect:
				problems = append(problems, fmt.Sprintf("%s/%c: unexpected store call", d.name, kind))
			case len(cs) != 1:
				problems = append(problems, fmt.Sprintf("%s/%c: %d store calls, want 1", d.name, kind, len(cs)))
			case cs[0].fp != d.fp:
				problems = append(problems, fmt.Sprintf("%s/%c: fingerprint %q, want %q", d.name, kind, cs[0].fp, d.fp))
			case strings.Join(cs[0].items, "\x00") != strings.Join(want, "\x00"):
				problems = append(problems, fmt.Sprintf("%s/%c: %d records differ from the %d produced", d.name, kind, len(cs[0].items), len(want)))
			}
		}
	}
	for k := range got {
		problems = append(problems, fmt.Sprintf("%s/%c: store call for an unknown updater", k.name, k.kind))
	}
	// one ref per updater, shared by its two calls, different between updaters
	refOf := map[string]uuid.UUID{}
	seen := map[uuid.UUID]string{}
	for _, c := range calls {
		if r, ok := refOf[c.name]; ok && r != c.ref {
			problems = append(problems, c.name+": two refs for one updater")
		}
		refOf[c.name] = c.ref
		if n, ok := seen[c.ref]; ok && n != c.name {
			problems = append(problems, c.name+": ref shared with "+n)
		}
		seen[c.ref] = c.name
		if c.ref == uuid.Nil {
			problems = append(problems, c.name+": nil ref")
		}
	}
	sort.Strings(problems)
	return strings.Join(problems, "; ")
}

// ---------------------------------------------------------------------------
// protocol side

// effective is the harness's own reading of Updater.updaters: names with '/'
// are refused, the first updater of a repeated name is kept (the result is
// used by name, so the order does not matter here).
func effective(ds []*fakeData) []*fakeData {
	var r []*fakeData
	seen := map[string]bool{}
	for _, d := range ds {
		if strings.Contains(d.name, "/") || seen[d.name] {
			continue
		}
		seen[d.name] = true
		r = append(r, d)
	}
	return r
}

func toks(names []string) string {
	if len(names) == 0 {
		return "-"
	}
	ts := make([]string, len(names))
	for i, n := range names {
		if len(n) < 2 {
			ts[i] = "?"
			continue
		}
		ts[i] = n[1:]
	}
	return strings.Join(ts, ".")
}

// rawArg renders the updaters as the factory hands them out.
func rawArg(ds []*fakeData) string {
	if len(ds) == 0 {
		return "-"
	}
	ss := make([]string, len(ds))
	for i, d := range ds {
		fl := ""
		if d.hasV {
			fl += "V"
		}
		if d.hasE {
			fl += "E"
		}
		if d.failing {
			fl += "F"
		}
		if fl == "" {
			fl = "-"
		}
		ss[i] = fmt.Sprintf("%s:%s:%s:%s:%s", d.name, hx.Hex([]byte(d.fp)), fl, toks(d.vulns), toks(d.enrich))
	}
	return strings.Join(ss, ";")
}

// zipListing reads the export independently of the import code: every file
// of the outer zip in zip order, with what it holds.
func zipListing(export []byte) (listing string, order []string, header string) {
	zr, err := zip.NewReader(bytes.NewReader(export), int64(len(export)))
	if err != nil {
		return "unreadable-zip", nil, ""
	}
	header = zr.Comment
	var parts []string
	for _, f := range zr.File {
		name := f.Name
		read := func() []byte {
			rc, err := f.Open()
			if err != nil {
				return nil
			}
			defer rc.Close()
			b, _ := io.ReadAll(rc)
			return b
		}
		switch {
		case name == "config.json":
			parts = append(parts, "config.json")
		case strings.HasSuffix(name, "/"):
			parts = append(parts, name+"=d")
			order = append(order, strings.TrimSuffix(name, "/"))
		case strings.HasSuffix(name, "/fingerprint"):
			parts = append(parts, name+"="+hx.Hex(read()))
		case strings.HasSuffix(name, "/ref"):
			var u uuid.UUID
			if err := u.UnmarshalText(read()); err != nil {
				parts = append(parts, name+"=?")
			} else {
				parts = append(parts, fmt.Sprintf("%s=%d", name, canon(u)))
			}
		case strings.HasSuffix(name, "/data"):
			b := read()
			v, e := "?", "?"
			if in, err := zip.NewReader(bytes.NewReader(b), int64(len(b))); err == nil {
				get := func(n string) string {
					bs, err := fs.ReadFile(in, n)
					if err != nil {
						return "?"
					}
					var names []string
					if json.Unmarshal(bs, &names) != nil {
						return "?"
					}
					return toks(names)
				}
				v, e = get("vulns.json"), get("enrich.json")
			}
			parts = append(parts, name+"="+v+"|"+e)
		default:
			parts = append(parts, name+"=unexpected")
		}
	}
	return strings.Join(parts, ","), order, header
}

func callsLine(calls []storeCall, out string) string {
	var ss []string
	for _, c := range calls {
		k := "V"
		items := make([]string, len(c.items))
		copy(items, c.items)
		if c.kind == 'e' {
			k = "E"
			for i, it := range items { // tag={"t":"tag"}
				if j := strings.IndexByte(it, '='); j >= 0 {
					items[i] = it[:j]
				}
			}
		}
		ss = append(ss, fmt.Sprintf("%s/%d/%s/%s/%s", k, canon(c.ref), c.name, hx.Hex([]byte(c.fp)), toks(items)))
	}
	if out == "" {
		ss = append(ss, "ok")
	} else {
		ss = append(ss, "err")
	}
	return strings.Join(ss, " ")
}

// exportOp runs Fetch under a scripted uuid source and emits the v1export line.
func exportOp(r *hx.Run, ctx context.Context, ds []*fakeData, prev []byte) (export []byte, prevSeen map[string]string, out string) {
	src := &uuidSrc{}
	uuid.SetRand(src)
	defer uuid.SetRand(nil)
	var pr io.ReaderAt
	usePrev := "0"
	if prev != nil {
		pr = bytes.NewReader(prev)
		usePrev = "1"
	}
	export, prevSeen, out = v1Export(ctx, ds, pr)
	if out != "" {
		return nil, prevSeen, out
	}
	listing, order, header := zipListing(export)
	refs := make([]uint64, len(ds)+1)
	for i := range refs {
		refs[i] = uint64(i) + 1
	}
	ord := "-"
	if len(order) > 0 {
		ord = strings.Join(order, ",")
	}
	r.Op(fmt.Sprintf("v1export %s %s %s %s", rawArg(ds), usePrev, ord, joinU(refs)), listing, true)
	hv := ""
	if vals, err := url.ParseQuery(header); err == nil {
		hv = vals.Get("ClaircoreUpdaterExport")
	}
	if hv != "1" {
		r.Fail("", fmt.Sprintf("the export carries the header %q: %s", header, describeFakes(ds)))
	}
	return export, prevSeen, ""
}

func importOp(r *hx.Run, ctx context.Context, ds []*fakeData, export []byte) ([]storeCall, string) {
	calls, out := v1Import(ctx, ds, export)
	if out == "hang" || strings.HasPrefix(out, "new:") || out == "panic" {
		r.Op("v1import "+rawArg(ds), out, true)
		return calls, out
	}
	r.Op("v1import "+rawArg(ds), callsLine(calls, out), true)
	return calls, out
}

// v1Headers: Parse refuses a zip that is not an export, or of another version.
func v1Headers(r *hx.Run) {
	ctx := context.Background()
	for _, h := range []string{"", "1", "2", "01", "1x", "v1"} {
		var buf bytes.Buffer
		z := zip.NewWriter(&buf)
		w, _ := z.Create("config.json")
		w.Write([]byte("{}\n"))
		if h != "" {
			v := make(url.Values)
			v.Set("ClaircoreUpdaterExport", h)
			z.SetComment(v.Encode())
		}
		z.Close()
		_, out := v1Import(ctx, nil, buf.Bytes())
		got := "true"
		if out != "" {
			got = "false"
		}
		arg := h
		if arg == "" {
			arg = "-"
		}
		r.Op("v1header "+arg, got, false)
		if (got == "true") != (h == "1") {
			r.Fail("", fmt.Sprintf("Parse of a zip whose export header is %q: accepted=%s (only the version this code writes, \"1\", may be imported)", h, got))
		}
	}
}

// v1Witness is the history of the repaired defect: an updater that only
// parses enrichments made Parse panic (nil ParsedVulnerabilities).
func v1Witness(r *hx.Run) {
	ctx := context.Background()
	ds := []*fakeData{{name: "enrich-only", fp: "fp", hasE: true, enrich: []string{"t1", "t2"}}}
	export, _, out := exportOp(r, ctx, ds, nil)
	r.Case("v1-witness "+describeFakes(ds), true)
	if out != "" {
		r.Fail("", "v1 export failed ("+out+") "+describeFakes(ds))
		return
	}
	calls, out := importOp(r, ctx, ds, export)
	if out != "" {
		r.Fail("", "v1 import failed ("+out+") "+describeFakes(ds))
		return
	}
	if p := v1Check(ds, map[string]bool{"enrich-only": true}, calls); p != "" {
		r.Fail("", "v1 export/import round trip: "+p+" "+describeFakes(ds))
	}
	// the repaired export: an updater is handed the fingerprint the previous export recorded for it
	ds2 := []*fakeData{{name: "rhel", fp: "etag-1", hasV: true, vulns: []string{"v1"}}, {name: "osv", fp: "etag-2", hasV: true, vulns: []string{"v2"}}}
	first, _, out := exportOp(r, ctx, ds2, nil)
	if out != "" {
		r.Fail("", "v1 export failed ("+out+") "+describeFakes(ds2))
		return
	}
	ds2[1].fp, ds2[1].vulns = "etag-3", []string{"v2", "v3"}
	second, prevSeen, out := exportOp(r, ctx, ds2, first)
	if out != "" {
		r.Fail("", "v1 incremental export failed ("+out+") "+describeFakes(ds2))
		return
	}
	if prevSeen["rhel"] != "etag-1" || prevSeen["osv"] != "etag-2" {
		r.Fail("", fmt.Sprintf("export against a previous export: the updaters were handed the previous fingerprints %q, want rhel=etag-1 osv=etag-2", prevSeen))
	}
	calls, out = importOp(r, ctx, ds2, second)
	if p := v1Check(ds2, map[string]bool{"osv": true}, calls); out != "" || p != "" {
		r.Fail("", "v1 incremental export/import: "+out+" "+p+" "+describeFakes(ds2))
	}
}

// v1Big: updaters whose fetched data is far larger than one zstd block or
// window (real feeds are tens of MiB); oracle only, the lines would be too
// long for the protocol.
func v1Big(r *hx.Run, rnd *hx.Rand, n int) {
	ctx := context.Background()
	mk := func(name string, nv, ne int) *fakeData {
		d := &fakeData{name: name, fp: "big-" + name, hasV: nv > 0, hasE: ne > 0 || nv == 0}
		for i := 0; i < nv; i++ {
			d.vulns = append(d.vulns, fmt.Sprintf("v%d", rnd.Intn(1<<30)))
		}
		for i := 0; i < ne; i++ {
			d.enrich = append(d.enrich, fmt.Sprintf("t%d", rnd.Intn(1<<30)))
		}
		return d
	}
	ds := []*fakeData{mk("big-a", n, 0), mk("small", 3, 2), mk("big-b", n/2, n/2)}
	desc := fmt.Sprintf("updaters=[big-a(V%d) small(V3E2) big-b(V%dE%d)]", n, n/2, n/2)
	r.Case("v1-big "+desc, true)
	r.Count("v1:big-scenario")
	export, _, out := v1Export(ctx, ds, nil)
	if out != "" {
		r.Fail("", "v1 export failed ("+out+") "+desc)
		return
	}
	calls, out := v1Import(ctx, ds, export)
	if out != "" {
		r.Fail("", "v1 import failed ("+out+") "+desc)
		return
	}
	if p := v1Check(ds, map[string]bool{"big-a": true, "small": true, "big-b": true}, calls); p != "" {
		r.Fail("", "v1 export/import round trip: "+p+" "+desc)
	}
}

// ---------------------------------------------------------------------------
// faults during the export

// cutWriter accepts limit bytes and then fails (a full disk, a closed pipe).
type cutWriter struct {
	buf   bytes.Buffer
	limit int
}

func (w *cutWriter) Write(p []byte) (int, error) {
	room := w.limit - w.buf.Len()
	if room >= len(p) {
		return w.buf.Write(p)
	}
	if room > 0 {
		w.buf.Write(p[:room])
	} else {
		room = 0
	}
	return room, fmt.Errorf("write: no space left on device")
}

// cancelLocker cancels the export's context at the moment the lock of one
// updater is asked for (a shutdown or a deadline that arrives mid-export).
type cancelLocker struct {
	updater.Locker
	key    string
	cancel context.CancelFunc
}

func (l *cancelLocker) TryLock(ctx context.Context, key string) (context.Context, context.CancelFunc) {
	if key == l.key {
		l.cancel()
	}
	return l.Locker.TryLock(ctx, key)
}

// fetchTo runs Fetch into out with an optional Locker; "hang" if it does not return.
func fetchTo(ctx context.Context, ds []*fakeData, out io.Writer, locker updater.Locker) string {
	fac := &fakeFactory{ds: ds, prevFP: map[string]string{}}
	u, err := updater.New(ctx, &updater.Options{Store: &recStore{}, Client: &http.Client{}, Factories: []driver.UpdaterFactory{fac}, Locker: locker})
	if err != nil {
		return "new:" + err.Error()
	}
	defer u.Close()
	res := make(chan string, 1)
	go func() {
		res <- hx.Guard(func() string {
			if err := u.Fetch(ctx, nil, out); err != nil {
				return "err:" + err.Error()
			}
			return ""
		})
	}()
	select {
	case o := <-res:
		return o
	case <-time.After(20 * time.Second):
		return "hang"
	}
}

// v1Faults: an export that is interrupted -- its output writer fails after some
// bytes, or its context is cancelled while updaters are still being fetched --
// must say so (Fetch returns an error, and returns at all), and what it wrote
// must not be importable as if it were a complete export. If Fetch returns
// nil the export must be whole.
func v1Faults(r *hx.Run, rnd *hx.Rand) {
	var ds []*fakeData
	n := 2 + rnd.Intn(10)
	for i := 0; i < n; i++ {
		d := &fakeData{name: fmt.Sprintf("u%02d", i), fp: fmt.Sprintf("fp-%d", i), hasV: true, hasE: i%3 == 0}
		for k := 200 + rnd.Intn(3000); k > 0; k-- {
			d.vulns = append(d.vulns, fmt.Sprintf("v%d", rnd.Intn(1<<30)))
		}
		if d.hasE {
			d.enrich = []string{"t1", "t2"}
		}
		ds = append(ds, d)
	}
	all := map[string]bool{}
	for _, d := range ds {
		all[d.name] = true
	}
	check := func(what string, out string, written []byte, mustFail bool) {
		switch {
		case out == "hang":
			r.Fail("", "v1 export: "+what+": Fetch did not return within 20 s "+describeFakes(ds))
		case out == "panic" || strings.HasPrefix(out, "new:"):
			r.Fail("", "v1 export: "+what+": "+out+" "+describeFakes(ds))
		case out == "":
			if mustFail {
				r.Fail("", "v1 export: "+what+": Fetch returned nil "+describeFakes(ds))
				return
			}
			// reported as a success: then it must be a complete export
			calls, iout := v1Import(context.Background(), ds, written)
			if iout != "" {
				r.Fail("", "v1 export: "+what+": Fetch returned nil but the export does not import ("+iout+") "+describeFakes(ds))
			} else if p := v1Check(ds, all, calls); p != "" {
				r.Fail("", "v1 export: "+what+": Fetch returned nil but the export is not complete: "+p+" "+describeFakes(ds))
			}
		default:
			// reported as a failure: what was written must not import as a success
			calls, iout := v1Import(context.Background(), ds, written)
			if iout == "" {
				r.Fail("", fmt.Sprintf("v1 export: %s: Fetch failed (%s) but what it wrote imports without error (%d store calls) %s", what, out, len(calls), describeFakes(ds)))
			}
		}
	}
	// the size of the whole export
	var full bytes.Buffer
	if out := fetchTo(context.Background(), ds, &full, nil); out != "" {
		r.Fail("", "v1 export failed ("+out+") "+describeFakes(ds))
		return
	}
	if rnd.Chance(1, 2) {
		limit := rnd.Intn(full.Len())
		if rnd.Chance(1, 4) {
			limit = full.Len() - 1 - rnd.Intn(64) // inside the central directory
		}
		w := &cutWriter{limit: limit}
		out := fetchTo(context.Background(), ds, w, nil)
		what := fmt.Sprintf("output writer fails after %d of about %d bytes", limit, full.Len())
		r.Case("v1-fault "+what, true)
		r.Count("v1:fault-writer=" + strings.SplitN(out+":", ":", 2)[0])
		check(what, out, w.buf.Bytes(), true)
	} else {
		ctx, cancel := context.WithCancel(context.Background())
		defer cancel()
		key := ds[rnd.Intn(len(ds))].name
		if rnd.Chance(1, 3) {
			key = ds[len(ds)-1].name // the last updater handed out: the feeder has finished
		}
		var buf bytes.Buffer
		out := fetchTo(ctx, ds, &buf, &cancelLocker{Locker: updater.NewLocalLockerForVerif(), key: key, cancel: cancel})
		what := "context cancelled when the lock of " + key + " is requested"
		r.Case("v1-fault "+what, true)
		r.Count("v1:fault-cancel=" + strings.SplitN(out+":", ":", 2)[0])
		check(what, out, buf.Bytes(), false)
	}
}

func v1Scenario(r *hx.Run, rnd *hx.Rand) {
	ctx := context.Background()
	ds := genFakes(rnd)
	desc := describeFakes(ds)
	export, _, out := exportOp(r, ctx, ds, nil)
	r.Case("v1 "+desc, len(ds) > 1)
	r.Count("v1:updaters=" + sizeBucket(len(ds)))
	if len(effective(ds)) != len(ds) {
		r.Count("v1:refused-or-repeated-names")
	}
	if out != "" {
		r.Fail("", "v1 export failed ("+out+") "+desc)
		return
	}
	eff := effective(ds)
	exported := map[string]bool{}
	neither := false
	for _, d := range eff {
		exported[d.name] = !d.failing
		if exported[d.name] && !d.hasV && !d.hasE {
			neither = true
		}
	}
	// the importing side may be configured differently: updaters missing, other parser interfaces
	imp := ds
	varied := false
	if rnd.Chance(1, 5) && len(ds) > 0 {
		varied = true
		imp = nil
		for _, d := range ds {
			if rnd.Chance(1, 4) {
				continue
			}
			c := *d
			if rnd.Chance(1, 3) {
				c.hasV, c.hasE = rnd.Chance(1, 2), rnd.Chance(1, 2)
			}
			imp = append(imp, &c)
		}
		r.Count("v1:import-side-differs")
	}
	calls, out := importOp(r, ctx, imp, export)
	for _, d := range eff {
		if exported[d.name] && !d.hasV {
			r.Count("v1:enrichment-only-updater")
		}
	}
	if varied {
		return // judged by the model only
	}
	if neither {
		r.Count("v1:updater-with-no-parser")
		if out == "" {
			r.Fail("", "v1 import of an updater that implements no parser interface returned nil "+desc)
		}
		return
	}
	if out != "" {
		r.Count("v1:import=" + strings.SplitN(out, ":", 2)[0])
		r.Fail("", "v1 import failed ("+out+") "+desc)
		return
	}
	if p := v1Check(eff, exported, calls); p != "" {
		r.Fail("", "v1 export/import round trip: "+p+" "+desc)
		return
	}
	// incremental export against the previous one: unchanged updaters are left
	// out, changed ones are exported and imported as before
	if rnd.Chance(1, 2) && len(ds) > 0 {
		for _, d := range ds {
			d.failing = false
			if rnd.Chance(1, 2) {
				d.fp += "+1"
				if d.hasV {
					d.vulns = append(d.vulns, fmt.Sprintf("v%d", 100000+rnd.Intn(1000)))
				}
			}
		}
		export2, prevSeen, out := exportOp(r, ctx, ds, export)
		if out != "" {
			r.Fail("", "v1 incremental export failed ("+out+") "+desc)
			return
		}
		// the previous fingerprints, read from the first export by the harness itself
		prevFP := map[string]string{}
		if zr, err := zip.NewReader(bytes.NewReader(export), int64(len(export))); err == nil {
			for _, f := range zr.File {
				if strings.HasSuffix(f.Name, "/fingerprint") {
					if b, err := fs.ReadFile(zr, f.Name); err == nil {
						prevFP[strings.TrimSuffix(f.Name, "/fingerprint")] = string(b)
					}
				}
			}
		}
		exported2 := map[string]bool{}
		for _, d := range effective(ds) {
			if prevSeen[d.name] != prevFP[d.name] {
				r.Fail("", fmt.Sprintf("export against a previous export: updater %s was handed the previous fingerprint %q, the previous export holds %q; %s", d.name, prevSeen[d.name], prevFP[d.name], describeFakes(ds)))
				return
			}
			// exported unless the updater reported ErrUnchanged (it was given its own fingerprint back)
			exported2[d.name] = !(prevFP[d.name] != "" && prevFP[d.name] == d.fp)
			if prevSeen[d.name] != "" {
				r.Count("v1:prev-fingerprint-passed")
			} else {
				r.Count("v1:prev-fingerprint-empty")
			}
			if !exported2[d.name] {
				r.Count("v1:unchanged-left-out")
			}
		}
		calls2, out := importOp(r, ctx, ds, export2)
		for _, d := range effective(ds) {
			if exported2[d.name] && !d.hasV && !d.hasE {
				r.Count("v1:updater-with-no-parser")
				if out == "" {
					r.Fail("", "v1 import of an updater that implements no parser interface returned nil "+describeFakes(ds))
				}
				return
			}
		}
		if out != "" {
			r.Fail("", "v1 import of incremental export failed ("+out+") "+describeFakes(ds))
			return
		}
		if p := v1Check(effective(ds), exported2, calls2); p != "" {
			r.Fail("", "v1 incremental export/import round trip: "+p+" "+describeFakes(ds))
		}
		r.Case("v1-incremental "+describeFakes(ds), true)
	}
}
