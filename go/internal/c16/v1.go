package c16

// Black-box round trip of the zip-of-zips export (updater/offline.go,
// updater/offline_v1.go): Updater.Fetch writes an export for a set of fake
// updaters, Updater.Parse of a second Updater instance imports it into a
// recording store; what reaches the store must be what the updaters produced
// (name, fingerprint, vulnerabilities, enrichment records, one ref per
// updater). There is no Lean model of this path; these are oracle-only cases.

import (
	"archive/zip"
	"bytes"
	"context"
	"encoding/json"
	"fmt"
	"io"
	"io/fs"
	"net/http"
	"sort"
	"strings"
	"sync"
	"time"

	"github.com/google/uuid"
	"github.com/quay/zlog"
	"github.com/rs/zerolog"

	"github.com/quay/claircore/updater"
	driver "github.com/quay/claircore/updater/driver/v1"
	"github.com/quay/claircore/verifharness/internal/hx"
)

type fakeData struct {
	name    string
	fp      string
	vulns   []string // names; nil + hasV=false: not a VulnerabilityParser
	enrich  []string // tags
	hasV    bool
	hasE    bool
	failing bool // Fetch returns an error: the updater is left out of the export
}

type fakeBase struct {
	d      *fakeData
	mu     *sync.Mutex
	prevFP *map[string]string
}

func (f *fakeBase) Name() string { return f.d.name }

func (f *fakeBase) Fetch(ctx context.Context, zw *zip.Writer, prev driver.Fingerprint, _ *http.Client) (driver.Fingerprint, error) {
	f.mu.Lock()
	(*f.prevFP)[f.d.name] = string(prev)
	f.mu.Unlock()
	if f.d.failing {
		return "", fmt.Errorf("fetch failed")
	}
	if prev != "" && string(prev) == f.d.fp {
		return prev, driver.ErrUnchanged
	}
	w, err := zw.Create("vulns.json")
	if err != nil {
		return "", err
	}
	if err := json.NewEncoder(w).Encode(f.d.vulns); err != nil {
		return "", err
	}
	w, err = zw.Create("enrich.json")
	if err != nil {
		return "", err
	}
	if err := json.NewEncoder(w).Encode(f.d.enrich); err != nil {
		return "", err
	}
	return driver.Fingerprint(f.d.fp), nil
}

func (f *fakeBase) parseV(_ context.Context, sys fs.FS) (*driver.ParsedVulnerabilities, error) {
	b, err := fs.ReadFile(sys, "vulns.json")
	if err != nil {
		return nil, err
	}
	var names []string
	if err := json.Unmarshal(b, &names); err != nil {
		return nil, err
	}
	pv := &driver.ParsedVulnerabilities{Updater: f.d.name, Package: []driver.Package{{Name: "pkg"}}}
	for _, n := range names {
		pv.Vulnerability = append(pv.Vulnerability, driver.Vulnerability{Name: n, Package: []int{0}, Distribution: -1, Repository: -1})
	}
	return pv, nil
}

func (f *fakeBase) parseE(_ context.Context, sys fs.FS) ([]driver.EnrichmentRecord, error) {
	b, err := fs.ReadFile(sys, "enrich.json")
	if err != nil {
		return nil, err
	}
	var tags []string
	if err := json.Unmarshal(b, &tags); err != nil {
		return nil, err
	}
	var es []driver.EnrichmentRecord
	for _, t := range tags {
		es = append(es, driver.EnrichmentRecord{Tags: []string{t}, Enrichment: json.RawMessage(`{"t":"` + t + `"}`)})
	}
	return es, nil
}

type fakeV struct{ *fakeBase }

func (f fakeV) ParseVulnerability(ctx context.Context, sys fs.FS) (*driver.ParsedVulnerabilities, error) {
	return f.parseV(ctx, sys)
}

type fakeE struct{ *fakeBase }

func (f fakeE) ParseEnrichment(ctx context.Context, sys fs.FS) ([]driver.EnrichmentRecord, error) {
	return f.parseE(ctx, sys)
}

type fakeVE struct{ *fakeBase }

func (f fakeVE) ParseVulnerability(ctx context.Context, sys fs.FS) (*driver.ParsedVulnerabilities, error) {
	return f.parseV(ctx, sys)
}
func (f fakeVE) ParseEnrichment(ctx context.Context, sys fs.FS) ([]driver.EnrichmentRecord, error) {
	return f.parseE(ctx, sys)
}

type fakeFactory struct {
	ds     []*fakeData
	mu     sync.Mutex
	prevFP map[string]string
}

func (f *fakeFactory) Name() string { return "fake" }
func (f *fakeFactory) Create(context.Context, driver.ConfigUnmarshaler) ([]driver.Updater, error) {
	var us []driver.Updater
	for _, d := range f.ds {
		b := &fakeBase{d: d, mu: &f.mu, prevFP: &f.prevFP}
		switch {
		case d.hasV && d.hasE:
			us = append(us, fakeVE{b})
		case d.hasV:
			us = append(us, fakeV{b})
		default:
			us = append(us, fakeE{b})
		}
	}
	return us, nil
}

type storeCall struct {
	kind  byte
	ref   uuid.UUID
	name  string
	fp    string
	items []string
}

type recStore struct {
	mu    sync.Mutex
	calls []storeCall
}

func (s *recStore) UpdateEnrichments(_ context.Context, ref uuid.UUID, kind string, fp driver.Fingerprint, es []driver.EnrichmentRecord) error {
	c := storeCall{kind: 'e', ref: ref, name: kind, fp: string(fp)}
	for _, e := range es {
		c.items = append(c.items, strings.Join(e.Tags, "+")+"="+string(e.Enrichment))
	}
	s.mu.Lock()
	s.calls = append(s.calls, c)
	s.mu.Unlock()
	return nil
}

func (s *recStore) UpdateVulnerabilities(_ context.Context, ref uuid.UUID, name string, fp driver.Fingerprint, vs *driver.ParsedVulnerabilities) error {
	c := storeCall{kind: 'v', ref: ref, name: name, fp: string(fp)}
	if vs != nil {
		for _, v := range vs.Vulnerability {
			c.items = append(c.items, v.Name)
		}
	}
	s.mu.Lock()
	s.calls = append(s.calls, c)
	s.mu.Unlock()
	return nil
}

func (s *recStore) GetLatestUpdateOperations(context.Context) ([]driver.UpdateOperation, error) {
	return nil, nil
}

// quiet turns off the updater package's logging for the run.
func quiet() {
	l := zerolog.Nop()
	zlog.Set(&l)
}

func genFakes(rnd *hx.Rand) []*fakeData {
	n := rnd.Intn(7)
	if rnd.Chance(1, 10) {
		n = 7 + rnd.Intn(20)
	}
	var ds []*fakeData
	used := map[string]bool{}
	for i := 0; i < n; i++ {
		name := rnd.Pick("rhel", "debian", "osv", "alpine", "u", "x.y", "a-b_c") + fmt.Sprint(rnd.Intn(40))
		if used[name] {
			continue
		}
		used[name] = true
		d := &fakeData{name: name, fp: rnd.Pick("", "etag-1", `W/"x"`, "2024-01-01", "{\"a\":1}\n", genStr(rnd, 10))}
		switch rnd.Intn(5) {
		case 0:
			d.hasE = true
		case 1, 2:
			d.hasV = true
		default:
			d.hasV, d.hasE = true, true
		}
		if d.hasV {
			d.vulns = []string{}
			for k := pickCount(rnd); k > 0; k-- {
				d.vulns = append(d.vulns, fmt.Sprintf("CVE-%s-%d", name, k)+genStr(rnd, 4))
			}
		}
		if d.hasE {
			d.enrich = []string{}
			for k := pickCount(rnd); k > 0; k-- {
				d.enrich = append(d.enrich, fmt.Sprintf("tag-%s-%d", name, k))
			}
		}
		d.failing = rnd.Chance(1, 12)
		ds = append(ds, d)
	}
	return ds
}

func pickCount(rnd *hx.Rand) int {
	switch c := rnd.Intn(10); {
	case c < 2:
		return 0
	case c < 5:
		return 1
	case c < 9:
		return 2 + rnd.Intn(5)
	}
	return 10 + rnd.Intn(200)
}

func describeFakes(ds []*fakeData) string {
	var ss []string
	for _, d := range ds {
		k := ""
		if d.hasV {
			k += fmt.Sprintf("V%d", len(d.vulns))
		}
		if d.hasE {
			k += fmt.Sprintf("E%d", len(d.enrich))
		}
		if d.failing {
			k += "!fetch-error"
		}
		ss = append(ss, fmt.Sprintf("%s(fp=%q %s)", d.name, d.fp, k))
	}
	return "updaters=[" + strings.Join(ss, " ") + "]"
}

// v1Export runs Fetch; returns the export or "".
func v1Export(ctx context.Context, ds []*fakeData, prev io.ReaderAt) ([]byte, map[string]string, string) {
	fac := &fakeFactory{ds: ds, prevFP: map[string]string{}}
	u, err := updater.New(ctx, &updater.Options{Store: &recStore{}, Client: &http.Client{}, Factories: []driver.UpdaterFactory{fac}})
	if err != nil {
		return nil, nil, "new:" + err.Error()
	}
	defer u.Close()
	var buf bytes.Buffer
	res := make(chan string, 1)
	go func() {
		res <- hx.Guard(func() string {
			if err := u.Fetch(ctx, prev, &buf); err != nil {
				return "err:" + err.Error()
			}
			return ""
		})
	}()
	select {
	case out := <-res:
		if out != "" {
			return nil, fac.prevFP, out
		}
	case <-time.After(60 * time.Second):
		return nil, nil, "hang"
	}
	return buf.Bytes(), fac.prevFP, ""
}

func v1Import(ctx context.Context, ds []*fakeData, export []byte) ([]storeCall, string) {
	fac := &fakeFactory{ds: ds, prevFP: map[string]string{}}
	st := &recStore{}
	u, err := updater.New(ctx, &updater.Options{Store: st, Client: &http.Client{}, Factories: []driver.UpdaterFactory{fac}})
	if err != nil {
		return nil, "new:" + err.Error()
	}
	defer u.Close()
	res := make(chan string, 1)
	go func() {
		res <- hx.Guard(func() string {
			if err := u.Parse(ctx, bytes.NewReader(export)); err != nil {
				return "err:" + err.Error()
			}
			return ""
		})
	}()
	select {
	case out := <-res:
		return st.calls, out
	case <-time.After(60 * time.Second):
		return nil, "hang"
	}
}

// v1Check compares what reached the store with what the exported updaters produced.
func v1Check(ds []*fakeData, exported map[string]bool, calls []storeCall) string {
	type key struct {
		kind byte
		name string
	}
	got := map[key][]storeCall{}
	for _, c := range calls {
		got[key{c.kind, c.name}] = append(got[key{c.kind, c.name}], c)
	}
	var problems []string
	for _, d := range ds {
		for _, kind := range []byte{'v', 'e'} {
			var want []string
			if kind == 'v' {
				want = d.vulns
			} else {
				for _, t := range d.enrich {
					want = append(want, t+`={"t":"`+t+`"}`)
				}
			}
			cs := got[key{kind, d.name}]
			delete(got, key{kind, d.name})
			// an update reaches the store iff the updater was exported and has records of that kind
			// (the online path, Updater.Run, also skips empty results)
			expect := exported[d.name] && len(want) > 0
			switch {
			case !expect && len(cs) == 0:
			case !expect:
				problems = append(problems, fmt.Sprintf("%s/%c: unexpected store call", d.name, kind))
			case len(cs) != 1:
				problems = append(problems, fmt.Sprintf("%s/%c: %d store calls, want 1", d.name, kind, len(cs)))
			case cs[0].fp != d.fp:
				problems = append(problems, fmt.Sprintf("%s/%c: fingerprint %q, want %q", d.name, kind, cs[0].fp, d.fp))
			case strings.Join(cs[0].items, "\x00") != strings.Join(want, "\x00"):
				problems = append(problems, fmt.Sprintf("%s/%c: %d records differ from the %d produced", d.name, kind, len(cs[0].items), len(want)))
			}
		}
	}
	for k := range got {
		problems = append(problems, fmt.Sprintf("%s/%c: store call for an unknown updater", k.name, k.kind))
	}
	// one ref per updater, shared by its two calls, different between updaters
	refOf := map[string]uuid.UUID{}
	seen := map[uuid.UUID]string{}
	for _, c := range calls {
		if r, ok := refOf[c.name]; ok && r != c.ref {
			problems = append(problems, c.name+": two refs for one updater")
		}
		refOf[c.name] = c.ref
		if n, ok := seen[c.ref]; ok && n != c.name {
			problems = append(problems, c.name+": ref shared with "+n)
		}
		seen[c.ref] = c.name
		if c.ref == uuid.Nil {
			problems = append(problems, c.name+": nil ref")
		}
	}
	sort.Strings(problems)
	return strings.Join(problems, "; ")
}

// v1Witness is the history of the repaired defect: an updater that only
// parses enrichments made Parse panic (nil ParsedVulnerabilities).
func v1Witness(r *hx.Run) {
	ctx := context.Background()
	ds := []*fakeData{{name: "enrich-only", fp: "fp", hasE: true, enrich: []string{"t1", "t2"}}}
	export, _, out := v1Export(ctx, ds, nil)
	r.Case("v1-witness "+describeFakes(ds), true)
	if out != "" {
		r.Fail("", "v1 export failed ("+out+") "+describeFakes(ds))
		return
	}
	calls, out := v1Import(ctx, ds, export)
	if out != "" {
		r.Fail("", "v1 import failed ("+out+") "+describeFakes(ds))
		return
	}
	if p := v1Check(ds, map[string]bool{"enrich-only": true}, calls); p != "" {
		r.Fail("", "v1 export/import round trip: "+p+" "+describeFakes(ds))
	}
}

func v1Scenario(r *hx.Run, rnd *hx.Rand) {
	ctx := context.Background()
	ds := genFakes(rnd)
	desc := describeFakes(ds)
	export, _, out := v1Export(ctx, ds, nil)
	r.Case("v1 "+desc, len(ds) > 1)
	r.Count("v1:updaters=" + sizeBucket(len(ds)))
	if out != "" {
		r.Fail("", "v1 export failed ("+out+") "+desc)
		return
	}
	exported := map[string]bool{}
	for _, d := range ds {
		exported[d.name] = !d.failing
	}
	calls, out := v1Import(ctx, ds, export)
	for _, d := range ds {
		if exported[d.name] && !d.hasV {
			r.Count("v1:enrichment-only-updater")
		}
	}
	if out != "" {
		r.Count("v1:import=" + strings.SplitN(out, ":", 2)[0])
		r.Fail("", "v1 import failed ("+out+") "+desc)
		return
	}
	if p := v1Check(ds, exported, calls); p != "" {
		r.Fail("", "v1 export/import round trip: "+p+" "+desc)
		return
	}
	// incremental export against the previous one: unchanged updaters are left
	// out, changed ones are exported and imported as before
	if rnd.Chance(1, 2) && len(ds) > 0 {
		changed := map[string]bool{}
		for _, d := range ds {
			d.failing = false
			if rnd.Chance(1, 2) {
				d.fp += "+1"
				if d.hasV {
					d.vulns = append(d.vulns, "CVE-new-"+d.name)
				}
				changed[d.name] = true
			}
		}
		export2, prevSeen, out := v1Export(ctx, ds, bytes.NewReader(export))
		if out != "" {
			r.Fail("", "v1 incremental export failed ("+out+") "+desc)
			return
		}
		exported2 := map[string]bool{}
		for _, d := range ds {
			// exported unless the updater reported ErrUnchanged (it was given its own fingerprint back)
			exported2[d.name] = !(prevSeen[d.name] != "" && prevSeen[d.name] == d.fp)
			if prevSeen[d.name] != "" {
				r.Count("v1:prev-fingerprint-passed")
			} else {
				r.Count("v1:prev-fingerprint-empty")
			}
		}
		calls2, out := v1Import(ctx, ds, export2)
		if out != "" {
			r.Fail("", "v1 import of incremental export failed ("+out+") "+describeFakes(ds))
			return
		}
		if p := v1Check(ds, exported2, calls2); p != "" {
			r.Fail("", "v1 incremental export/import round trip: "+p+" "+describeFakes(ds))
		}
		r.Case("v1-incremental "+describeFakes(ds), true)
	}
}
