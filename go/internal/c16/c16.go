// Package c16 drives the real libvuln/jsonblob store and loader through
// generated recording histories (UpdateVulnerabilities / UpdateEnrichments /
// DeltaUpdateVulnerabilities, Store, Load + Next/Entry/Err), emits every
// operation in the line protocol of the Lean model (Model/JsonBlob.lean), and
// checks the statement of property C16 directly on the implementation:
// what was recorded is what is loaded, entry by entry.
//
// The random source of github.com/google/uuid is replaced (uuid.SetRand) by a
// scripted one, so update references are deterministic and the collision
// retry loop of the store can be exercised for real.
package c16

import (
	"bufio"
	"bytes"
	"context"
	"encoding/json"
	"errors"
	"fmt"
	"io"
	"os"
	"path/filepath"
	"reflect"
	"runtime"
	"sort"
	"strconv"
	"strings"
	"sync"
	"sync/atomic"
	"time"

	"github.com/google/uuid"

	"github.com/quay/claircore"
	"github.com/quay/claircore/internal/verifhook"
	"github.com/quay/claircore/libvuln/driver"
	"github.com/quay/claircore/libvuln/jsonblob"
	"github.com/quay/claircore/verifharness/internal/hx"
)

// ---------------------------------------------------------------------------
// scripted uuid source

type uuidSrc struct {
	mu    sync.Mutex
	q     []uint64 // values handed out first
	fresh uint64   // then a counter
	reads int
	// gate: the first gateN reads all get gateVal, and none of them returns
	// before all of them have arrived (concurrent callers draw the same uuid
	// at the same moment)
	gateN, gateArrived int
	gateVal            uint64
	gateCh             chan struct{}
	gateAwake          atomic.Int32
}

func fillUUID(p []byte, v uint64) {
	for i := range p {
		p[i] = 0
	}
	if len(p) >= 6 {
		for i := 0; i < 6; i++ {
			p[i] = byte(v >> (8 * (5 - i)))
		}
	}
}

func (s *uuidSrc) Read(p []byte) (int, error) {
	s.mu.Lock()
	if s.gateArrived < s.gateN {
		s.gateArrived++
		v, ch := s.gateVal, s.gateCh
		if s.gateArrived == s.gateN {
			close(ch)
		}
		s.reads++
		s.mu.Unlock()
		select {
		case <-ch:
		case <-time.After(2 * time.Second):
		}
		// second phase: spin until every caller is awake again, so that they
		// all return within a few nanoseconds of each other
		n := int32(s.gateN)
		s.gateAwake.Add(1)
		for spin := 0; s.gateAwake.Load() < n && spin < 20000000; spin++ {
		}
		fillUUID(p, v)
		return len(p), nil
	}
	defer s.mu.Unlock()
	var v uint64
	if len(s.q) > 0 {
		v, s.q = s.q[0], s.q[1:]
	} else {
		v = s.fresh
		s.fresh++
	}
	s.reads++
	for i := range p {
		p[i] = 0
	}
	if len(p) >= 6 {
		for i := 0; i < 6; i++ {
			p[i] = byte(v >> (8 * (5 - i)))
		}
	}
	return len(p), nil
}

// canon maps a uuid made from the scripted source to the model's number:
// uuid.Nil is 0, uuid.New() on random value n is n+1.
func canon(u uuid.UUID) uint64 {
	if u == uuid.Nil {
		return 0
	}
	var v uint64
	for i := 0; i < 6; i++ {
		v = v<<8 | uint64(u[i])
	}
	return v + 1
}

// uuidOf is the inverse of canon (used to hand-make files).
func uuidOf(n uint64) uuid.UUID {
	var u uuid.UUID
	if n == 0 {
		return u
	}
	v := n - 1
	for i := 0; i < 6; i++ {
		u[i] = byte(v >> (8 * (5 - i)))
	}
	u[6] = 0x40
	u[8] = 0x80
	return u
}

// ---------------------------------------------------------------------------
// record pool: token <-> concrete record

type item struct {
	kind byte // 'v' or 'e'
	v    *claircore.Vulnerability
	e    driver.EnrichmentRecord
	key  string // kind + canonical JSON line
	n    int    // length of the JSON line in the disk buffer, without newline
	big  bool   // made to measure by one scenario (sized / sizedEnrichment)
}

type pool struct {
	items   []item
	byKey   map[string]int // kind + the line the store's per-update encoder writes -> token
	byCanon map[string]int // kind + the line as a JSON value with sorted keys (no claircore decoder involved)
	vs      []int
	es      []int
	written map[string]string
	diffs   []string // field-level differences between loaded and recorded records, for the witness
	seen    map[string]bool
}

func (p *pool) noteDiff(s string) {
	for _, d := range p.diffs {
		if d == s {
			return
		}
	}
	if len(p.diffs) < 6 {
		p.diffs = append(p.diffs, s)
	}
}

// closest finds the recorded record of the kind that differs from the loaded
// one in the fewest places, and notes the differences.
func (p *pool) closest(kind byte, loaded any) {
	best, bestN := -1, 1<<30
	var bestDiff []string
	for t, it := range p.items {
		if it.kind != kind || it.big {
			continue
		}
		var d []string
		if kind == 'v' {
			d = diffRecords(it.v, loaded)
		} else {
			d = diffRecords(it.e, loaded)
		}
		if len(d) < bestN {
			best, bestN, bestDiff = t, len(d), d
		}
	}
	if best < 0 {
		p.noteDiff("a loaded record matches no recorded record")
		return
	}
	p.noteDiff(fmt.Sprintf("loaded record differs from recorded record %d: %s", best, strings.Join(bestDiff, "; ")))
}

// encLine is the line the store's per-update encoder writes for a record.
func encLine(v any) (string, error) {
	var b bytes.Buffer
	enc := json.NewEncoder(&b)
	enc.SetEscapeHTML(false)
	if err := enc.Encode(v); err != nil {
		return "", err
	}
	return strings.TrimSuffix(b.String(), "\n"), nil
}

var alphabet = []string{"a", "b", "c", "z", "0", "9", "-", "_", ".", "/", ":", " ", "\"", "\\", "<", ">", "&", "'", "\n", "\t", "\r",
	"é", "ß", " ", " ", "日本", "😀", "\u0000", "\u007f", "{", "}", "[", "]", ","}

func genStr(rnd *hx.Rand, max int) string {
	n := rnd.Intn(max + 1)
	var sb strings.Builder
	for i := 0; i < n; i++ {
		sb.WriteString(alphabet[rnd.Intn(len(alphabet))])
	}
	return sb.String()
}

// add registers a record under the line the store's per-update encoder writes
// for it. Nothing is filtered: whether the record survives Store and Load is
// what is being checked.
func (p *pool) add(it item) (int, bool) {
	var line string
	var err error
	if it.kind == 'v' {
		line, err = encLine(it.v)
	} else {
		line, err = encLine(it.e)
	}
	if err != nil {
		return 0, false
	}
	it.key = string(it.kind) + line
	it.n = len(line)
	it.big = it.n > 4096 && strings.Contains(line, "BIG-")
	if t, ok := p.byKey[it.key]; ok {
		return t, true
	}
	t := len(p.items)
	p.items = append(p.items, it)
	p.byKey[it.key] = t
	if c, ok := canonJSON([]byte(line)); ok {
		p.byCanon[string(it.kind)+c] = t
	}
	if it.big {
		// sized records are used only by the scenario that made them
		return t, true
	}
	if it.kind == 'v' {
		p.vs = append(p.vs, t)
	} else {
		p.es = append(p.es, t)
	}
	return t, true
}

// newPool builds the records by reflection over the two record types: for
// k = 0..15 a record with every pointer set and every enum at its k-th member,
// the zero value, the "empty" value, then random ones.
func newPool(rnd *hx.Rand, n int, r *hx.Run) *pool {
	p := &pool{byKey: map[string]int{}, byCanon: map[string]int{}, seen: map[string]bool{}}
	tv, te := reflect.TypeOf(claircore.Vulnerability{}), reflect.TypeOf(driver.EnrichmentRecord{})
	mk := func(g *recGen, kind byte) {
		g.seen = p.seen
		var ok bool
		if kind == 'v' {
			v := g.value(tv, 0).Interface().(claircore.Vulnerability)
			_, ok = p.add(item{kind: 'v', v: &v})
		} else {
			e := g.value(te, 0).Interface().(driver.EnrichmentRecord)
			_, ok = p.add(item{kind: 'e', e: e})
		}
		if !ok {
			r.Count("gen:record-does-not-encode")
		}
	}
	for _, kind := range []byte{'v', 'e'} {
		for k := 0; k < 16; k++ {
			mk(&recGen{rnd: rnd, mode: modeFull, k: k}, kind)
		}
		mk(&recGen{rnd: rnd, mode: modeZero}, kind)
		mk(&recGen{rnd: rnd, mode: modeEmpty}, kind)
	}
	for i := 0; len(p.items) < n && i < 4*n; i++ {
		kind := byte('v')
		if i%2 == 1 {
			kind = 'e'
		}
		mk(&recGen{rnd: rnd, mode: modeRandom}, kind)
	}
	for _, k := range sortedKeys(p.seen) {
		r.Count("pool:" + k)
	}
	return p
}

// sized makes a vulnerability whose JSON line is exactly n bytes long.
func (p *pool) sized(n int, tag int) int {
	v := &claircore.Vulnerability{Name: fmt.Sprintf("BIG-%d-%d", n, tag)}
	base, _ := encLine(v)
	if n < len(base) {
		n = len(base)
	}
	v.Description = strings.Repeat("d", n-len(base))
	t, _ := p.add(item{kind: 'v', v: v})
	return t
}

// sizedEnrichment makes an enrichment record whose JSON line is exactly n bytes long.
func (p *pool) sizedEnrichment(n int, tag int) int {
	e := driver.EnrichmentRecord{Tags: []string{fmt.Sprintf("BIG-%d-%d", n, tag)}, Enrichment: json.RawMessage(`""`)}
	base, _ := encLine(e)
	if n < len(base) {
		n = len(base)
	}
	e.Enrichment = json.RawMessage(`"` + strings.Repeat("e", n-len(base)) + `"`)
	t, _ := p.add(item{kind: 'e', e: e})
	return t
}

// tokOfVuln names the recorded vulnerability a loaded one is: the re-encoded
// line is the index, the decision is the field-by-field comparison of the
// decoded value with the recorded value.
func (p *pool) tokOfVuln(v *claircore.Vulnerability) string {
	if v == nil {
		return "nil"
	}
	if line, err := encLine(v); err == nil {
		if t, ok := p.byKey["v"+line]; ok {
			d := diffRecords(p.items[t].v, v)
			if len(d) == 0 {
				return strconv.Itoa(t)
			}
			p.noteDiff(fmt.Sprintf("loaded record re-encodes like recorded record %d but differs from it: %s", t, strings.Join(d, "; ")))
			return "?"
		}
	}
	p.closest('v', v)
	return "?"
}

func (p *pool) tokOfEnrichment(e driver.EnrichmentRecord) string {
	if line, err := encLine(e); err == nil {
		if t, ok := p.byKey["e"+line]; ok {
			d := diffRecords(p.items[t].e, e)
			if len(d) == 0 {
				return strconv.Itoa(t)
			}
			p.noteDiff(fmt.Sprintf("loaded record re-encodes like recorded record %d but differs from it: %s", t, strings.Join(d, "; ")))
			return "?"
		}
	}
	// white space inside a RawMessage is not kept: look the value up
	if line, err := encLine(e); err == nil {
		if c, ok := canonJSON([]byte(line)); ok {
			if t, ok := p.byCanon["e"+c]; ok && len(diffRecords(p.items[t].e, e)) == 0 {
				return strconv.Itoa(t)
			}
		}
	}
	p.closest('e', e)
	return "?"
}

// tokByLine is the index lookup alone (the later looks at an entry).
func (p *pool) tokByLine(kind byte, rec any) string {
	if v, ok := rec.(*claircore.Vulnerability); ok && v == nil {
		return "nil"
	}
	line, err := encLine(rec)
	if err != nil {
		return "?"
	}
	if t, ok := p.byKey[string(kind)+line]; ok {
		return strconv.Itoa(t)
	}
	if kind == 'e' {
		if c, ok := canonJSON([]byte(line)); ok {
			if t, ok := p.byCanon["e"+c]; ok {
				return strconv.Itoa(t)
			}
		}
	}
	return "?"
}

// tokOfWritten names the recorded record whose line a written payload is, by
// its JSON value alone.
func (p *pool) tokOfWritten(kind byte, payload []byte) string {
	if p.written == nil {
		p.written = map[string]string{}
	}
	mk := string(kind) + string(payload) // exact bytes: a payload written differently is looked up afresh
	if tok, ok := p.written[mk]; ok {
		return tok
	}
	tok := "?"
	if c, ok := canonJSON(payload); ok {
		if t, ok := p.byCanon[string(kind)+c]; ok {
			tok = strconv.Itoa(t)
		}
	}
	if len(p.written) < 1<<16 {
		p.written[mk] = tok
	}
	return tok
}

// ---------------------------------------------------------------------------
// one scenario

type update struct {
	kind    byte // 'v' (also delta) or 'e'
	updater string
	fp      string
	toks    []int
	ref     uint64
	desc    string
	cut     int // -1, or the number of records that reached the output when a Store call failed on this update
}

type world struct {
	r    *hx.Run
	p    *pool
	st   *jsonblob.Store
	src  *uuidSrc
	buf  bytes.Buffer       // the one writer every Store call of the scenario gets
	live map[uint64]*update // entries the map should hold
	all  []*update          // every completed recording call, in call order
	hist []string
	// what the oracle needs to know about the Store calls so far
	storeErrs     int
	tooLong       bool // some Store call failed with bufio.ErrTooLong
	unflushed     bool // some update was recorded after the last Store call
	reusedRef     bool // the scenario scripted a uuid that was already written out
	rawScenario   bool
	loaderProblem string // set by runLoader: retained entries changed, or a non-nil empty slice
	// fault injection
	damage    map[uint64]int // live ref -> number of lines its disk buffer still yields
	nextFail  string         // "", "disk" (diskBuf cannot create its file), "encode" (a record the encoder rejects)
	faultErrs int            // Store calls that failed on a damaged disk buffer
	cutSeen   int            // updates that were cut by a failed Store
	// the next Store call's writer fails after this many bytes (-1: it does not)
	writerLimit int
	damageAt    map[uint64]int
	archived    []loaded // entries loaded from outputs that were given up after a writer failure
}

// limitW is an io.Writer that takes limit bytes and then fails.
type limitW struct {
	buf    *bytes.Buffer
	limit  int
	failed bool
}

func (l *limitW) Write(p []byte) (int, error) {
	if l.failed {
		return 0, errors.New("write: no space left on device")
	}
	if l.limit >= len(p) {
		l.limit -= len(p)
		return l.buf.Write(p)
	}
	l.failed = true
	n := l.limit
	if n == len(p)-1 && n > 0 {
		// Only the newline would be missing: the line would still be a whole
		// diskEntry although Store stops here. That one fault point is not
		// injected (the model's failing entry always lacks a line).
		n--
	}
	l.buf.Write(p[:n])
	l.limit = 0
	return n, errors.New("write: no space left on device")
}

func newWorld(r *hx.Run, p *pool) *world {
	st, err := jsonblob.New()
	if err != nil {
		panic(err)
	}
	w := &world{r: r, p: p, st: st, src: &uuidSrc{}, live: map[uint64]*update{}, damage: map[uint64]int{}, writerLimit: -1}
	p.diffs = nil
	uuid.SetRand(w.src)
	r.Op("reset", "ok", false)
	return w
}

func (w *world) close() { uuid.SetRand(nil) }

func joinU(xs []uint64) string {
	if len(xs) == 0 {
		return "-"
	}
	ss := make([]string, len(xs))
	for i, x := range xs {
		ss[i] = strconv.FormatUint(x, 10)
	}
	return strings.Join(ss, ",")
}

func (w *world) recsArg(toks []int) string {
	if len(toks) == 0 {
		return "-"
	}
	ss := make([]string, len(toks))
	for i, t := range toks {
		ss[i] = fmt.Sprintf("%d:%d", t, w.p.items[t].n)
	}
	return strings.Join(ss, ",")
}

// toksDesc lists record tokens for a witness, with the line length of big ones.
func (w *world) toksDesc(toks []int) string {
	ss := make([]string, len(toks))
	for i, t := range toks {
		ss[i] = strconv.Itoa(t)
		if n := w.p.items[t].n; n > 4096 {
			ss[i] += fmt.Sprintf("(%dB)", n)
		}
	}
	return "[" + strings.Join(ss, " ") + "]"
}

func sizeBucket(n int) string {
	switch {
	case n == 0:
		return "0"
	case n == 1:
		return "1"
	case n <= 5:
		return "2-5"
	case n <= 20:
		return "6-20"
	}
	return ">20"
}

// record performs one recording call on the real store. op is 'v', 'e' or
// 'd' (delta). collide lists canonical refs whose uuids the random source
// returns first.
func (w *world) record(op byte, updater, fp string, toks []int, collide []uint64, ndel int) {
	var cands []uint64
	for _, c := range collide {
		cands = append(cands, c-1)
	}
	w.src.mu.Lock()
	w.src.q = append([]uint64(nil), cands...)
	cands = append(cands, w.src.fresh)
	before := w.src.reads
	w.src.mu.Unlock()

	ctx := context.Background()
	if len(w.hist)%3 == 1 {
		// the store does not look at the context (diskBuf ignores it): a cancelled one changes nothing
		c, cancel := context.WithCancel(ctx)
		cancel()
		ctx = c
		w.r.Count("rec:ctx-cancelled")
	}
	fail := w.nextFail
	w.nextFail = ""
	if fail == "encode" && op != 'e' {
		fail = "disk" // every claircore.Vulnerability encodes
	}
	if fail == "disk" {
		oldTmp, hadTmp := os.LookupEnv("TMPDIR")
		points := 0
		verifhook.Install(func(site, key string) {
			if site == "jsonblob.diskbuf" {
				points++
				os.Setenv("TMPDIR", "/nonexistent/verif-c16")
			}
		})
		defer func() {
			verifhook.Install(nil)
			if hadTmp {
				os.Setenv("TMPDIR", oldTmp)
			} else {
				os.Unsetenv("TMPDIR")
			}
			if points != 1 {
				w.r.Fail("", fmt.Sprintf("a recording call created %d disk buffers, want 1: %s", points, w.witness()))
			}
		}()
	}
	var ref uuid.UUID
	var err error
	out := hx.Guard(func() string {
		switch op {
		case 'e':
			es := make([]driver.EnrichmentRecord, len(toks))
			for i, t := range toks {
				es[i] = w.p.items[t].e
			}
			if len(toks) == 0 && len(w.all)%2 == 0 {
				es = nil
			}
			if fail == "encode" {
				// a record whose RawMessage is not JSON: the per-update encoder returns an error
				bad := driver.EnrichmentRecord{Tags: []string{"bad"}, Enrichment: json.RawMessage(`{"unterminated":`)}
				at := len(w.hist) % (len(es) + 1)
				es = append(es[:at:at], append([]driver.EnrichmentRecord{bad}, es[at:]...)...)
			}
			ref, err = w.st.UpdateEnrichments(ctx, updater, driver.Fingerprint(fp), es)
		default:
			vs := make([]*claircore.Vulnerability, len(toks))
			for i, t := range toks {
				vs[i] = w.p.items[t].v
			}
			if len(toks) == 0 && len(w.all)%2 == 0 {
				vs = nil
			}
			if op == 'd' {
				del := make([]string, ndel)
				for i := range del {
					del[i] = fmt.Sprintf("CVE-del-%d", i)
					if i < len(vs) && i%2 == 0 {
						// a name that is also being recorded: deletions are ignored, as coded
						del[i] = vs[i].Name
					}
				}
				ref, err = w.st.DeltaUpdateVulnerabilities(ctx, updater, driver.Fingerprint(fp), vs, del)
			} else {
				ref, err = w.st.UpdateVulnerabilities(ctx, updater, driver.Fingerprint(fp), vs)
			}
		}
		if err != nil {
			return "err"
		}
		return ""
	})
	w.src.mu.Lock()
	used := w.src.reads - before
	w.src.q = nil
	w.src.mu.Unlock()
	var line string
	uh, fh := hx.Hex([]byte(updater)), hx.Hex([]byte(fp))
	k := op
	if op == 'd' {
		k = 'v'
	}
	switch {
	case fail != "":
		line = fmt.Sprintf("recfail %c %s %s %s", k, uh, fh, w.recsArg(toks))
		w.r.Count("fault:record-" + fail)
	case op == 'd':
		line = fmt.Sprintf("delta %s %s %s %s %d", uh, fh, joinU(cands), w.recsArg(toks), ndel)
	default:
		line = fmt.Sprintf("rec %c %s %s %s %s", op, uh, fh, joinU(cands), w.recsArg(toks))
	}
	desc := fmt.Sprintf("%c(updater=%q fp=%q records=%s)", op, updater, fp, w.toksDesc(toks))
	if fail != "" {
		desc += "[fails:" + fail + "]"
	}
	w.hist = append(w.hist, desc)
	if out == "" {
		u := &update{kind: k, updater: updater, fp: fp, toks: toks, ref: canon(ref), desc: desc, cut: -1}
		if _, dup := w.live[u.ref]; dup {
			w.r.Fail("", "recording returned a ref that is already a key of the store: "+w.witness())
		}
		w.live[u.ref] = u
		w.all = append(w.all, u)
		w.unflushed = true
		out = fmt.Sprintf("ref %d used %d", u.ref, used)
	}
	w.r.Op(line, out, true)
	w.r.Count("rec:" + string(op) + ":n=" + sizeBucket(len(toks)))
	if len(collide) > 0 {
		w.r.Count("rec:uuid-collisions=" + sizeBucket(len(collide)))
	}
}

type diskLine struct {
	Updater     string
	Fingerprint string
	Date        time.Time
	Ref         uuid.UUID
	Vuln        json.RawMessage
	Enrichment  json.RawMessage
	Kind        string
}

// parseWritten splits what a Store call wrote into protocol lines
// `ref/k/tok/upd/fp`, independently of the loader.
func (w *world) parseWritten(b []byte) (lines []string, refs []uint64) {
	for len(b) > 0 {
		i := bytes.IndexByte(b, '\n')
		var ln []byte
		if i < 0 {
			ln, b = b, nil
		} else {
			ln, b = b[:i], b[i+1:]
		}
		var d diskLine
		if err := json.Unmarshal(ln, &d); err != nil {
			lines = append(lines, "unparsable")
			continue
		}
		k, tok := "o", "0"
		switch d.Kind {
		case string(driver.VulnerabilityKind):
			k = "v"
			tok = "?"
			// the payload is identified by its JSON value (not by its bytes, and
			// not through claircore's decoders)
			if d.Enrichment == nil && d.Vuln != nil {
				tok = w.p.tokOfWritten('v', d.Vuln)
			}
		case string(driver.EnrichmentKind):
			k = "e"
			tok = "?"
			if d.Vuln == nil && d.Enrichment != nil {
				tok = w.p.tokOfWritten('e', d.Enrichment)
			}
		}
		c := canon(d.Ref)
		lines = append(lines, fmt.Sprintf("%d/%s/%s/%s/%s", c, k, tok, hx.Hex([]byte(d.Updater)), hx.Hex([]byte(d.Fingerprint))))
		if len(refs) == 0 || refs[len(refs)-1] != c {
			refs = append(refs, c)
		}
	}
	return lines, refs
}

func sortedU(m map[uint64]bool) []uint64 {
	var xs []uint64
	for x := range m {
		xs = append(xs, x)
	}
	sort.Slice(xs, func(i, j int) bool { return xs[i] < xs[j] })
	return xs
}

// store calls Store on the scenario's writer and reconstructs a map-iteration
// order consistent with what was observed.
func (w *world) store() {
	var fs []string
	w.damageAt = map[uint64]int{}
	for _, c := range sortedU(keysOf(w.live)) {
		if k, ok := w.damage[c]; ok {
			fs = append(fs, fmt.Sprintf("%d:%d", c, k))
			w.damageAt[c] = k
		}
	}
	var cutRef uint64
	cutLines := 0
	before := w.buf.Len()
	var err error
	var lw *limitW
	var dst io.Writer = &w.buf
	if w.writerLimit >= 0 {
		lw = &limitW{buf: &w.buf, limit: w.writerLimit}
		dst = lw
		w.hist = append(w.hist, fmt.Sprintf("(the writer of the next Store fails after %d bytes)", w.writerLimit))
		w.writerLimit = -1
	}
	out := hx.Guard(func() string {
		err = w.st.Store(dst)
		if err != nil {
			return "err"
		}
		return "ok"
	})
	written := w.buf.Bytes()[before:]
	torn := false
	if lw != nil && lw.failed {
		// the last Write was taken in part: a line without its end
		// (if only the newline is missing the line is whole and the loader reads it)
		if i := bytes.LastIndexByte(written, '\n'); i+1 < len(written) && !json.Valid(written[i+1:]) {
			torn = true
			written = written[:i+1]
		}
		w.r.Count("fault:writer-failed")
		if err == nil && out == "ok" {
			w.r.Fail("", "Store returned nil although its writer failed: "+w.witness())
		}
	}
	lines, seen := w.parseWritten(written)
	remaining := map[uint64]bool{}
	if out != "panic" {
		for id := range w.st.Entries() {
			remaining[canon(id)] = true
		}
	}
	// order: deleted entries that wrote nothing and had nothing to write,
	// the entries visible in the output in output order, a deleted entry that
	// had something to write but is not visible (its first record failed),
	// then what is still in the map.
	visible := map[uint64]bool{}
	for _, c := range seen {
		visible[c] = true
	}
	var order []uint64
	var hidden []uint64
	for _, c := range sortedU(keysOf(w.live)) {
		if remaining[c] || visible[c] {
			continue
		}
		if len(w.live[c].toks) == 0 {
			order = append(order, c)
		} else {
			hidden = append(hidden, c)
		}
	}
	dupSeen := map[uint64]bool{}
	for _, c := range seen {
		if !dupSeen[c] {
			order = append(order, c)
		}
		dupSeen[c] = true
	}
	order = append(order, hidden...)
	left := sortedU(remaining)
	order = append(order, left...)
	writtenOf := map[uint64]int{}
	for _, ln := range lines {
		if i := strings.IndexByte(ln, '/'); i > 0 {
			if c, err := strconv.ParseUint(ln[:i], 10, 64); err == nil {
				writtenOf[c]++
			}
		}
	}
	cutNow := 0
	var notes []string
	for c, u := range w.live {
		if !remaining[c] {
			if writtenOf[c] < len(u.toks) {
				// deleted from the map without having been written completely
				u.cut = writtenOf[c]
				w.cutSeen++
				cutNow++
				cutRef, cutLines = c, u.cut
				notes = append(notes, fmt.Sprintf("(Store wrote %d of the %d records of %s)", u.cut, len(u.toks), u.desc))
			}
			delete(w.live, c)
			delete(w.damage, c)
		}
	}
	ls := "-"
	if len(lines) > 0 {
		ls = strings.Join(lines, ",")
	}
	if out != "panic" {
		out = fmt.Sprintf("%s lines=%s left=%s", out, ls, joinU(left))
	}
	if lw != nil && lw.failed && cutRef != 0 {
		// the writer failed while the entry cutRef was being written: for the map
		// and for the complete lines in the output this is the disk-buffer fault
		// "cutRef yields cutLines lines"
		w.damageAt[cutRef] = cutLines
		fs = fs[:0]
		ks := map[uint64]bool{}
		for c := range w.damageAt {
			ks[c] = true
		}
		for _, c := range sortedU(ks) {
			fs = append(fs, fmt.Sprintf("%d:%d", c, w.damageAt[c]))
		}
	}
	faultArg := "-"
	if len(fs) > 0 {
		faultArg = strings.Join(fs, ",")
	}
	w.r.Op("store "+joinU(order)+" "+faultArg, out, true)
	if torn {
		w.r.Op("tear", "ok", false)
	}
	w.hist = append(w.hist, "Store")
	sort.Strings(notes)
	w.hist = append(w.hist, notes...)
	if cutNow > 1 {
		w.r.Fail("", fmt.Sprintf("one Store call cut %d entries: %s", cutNow, w.witness()))
	}
	w.r.Count("store:entries=" + sizeBucket(len(order)))
	if err != nil {
		w.storeErrs++
		w.hist = append(w.hist, "(Store returned: "+err.Error()+")")
		w.r.Count("store:err")
		if errors.Is(err, bufio.ErrTooLong) {
			w.tooLong = true
			w.r.Count("store:err-too-long")
		} else if faultArg != "-" {
			w.faultErrs++
			w.r.Count("store:err-damaged-disk-buffer")
		}
	}
	// The Store call has been handed every update recorded so far; the
	// statement is judged on that, not on what the map still holds. A Store
	// error is itself a failure of the statement (see oracle).
	w.unflushed = false
	if lw != nil && lw.failed {
		// This output is given up: see what it loads as, then go on with a new one.
		outl, got, fin := w.runLoader(w.buf.Bytes())
		w.r.Op("load", outl, true)
		w.hist = append(w.hist, "Load")
		want := "F/ok"
		if torn {
			want = "F/err"
		}
		if fin != want {
			w.r.Fail("", fmt.Sprintf("the output of a Store whose writer failed (torn line: %v) loads with end %s, want %s: %s", torn, fin, want, w.witness()))
		}
		for _, g := range got {
			if g.nilEntry {
				w.r.Fail("", "Next reported true with a nil Entry: "+w.witness())
			}
		}
		w.archived = append(w.archived, got...)
		w.buf.Reset()
		w.r.Op("newfile", "ok", false)
		w.hist = append(w.hist, "(new output)")
	}
}

// damageBuf damages the disk buffer of the live entry ref so that it yields
// fewer lines than were recorded. mode: 'C' close the file; 'K' truncate after
// line k (k >= number of lines: nothing is cut); 'M' truncate inside line k;
// 'N' truncate just before the newline of line k (the line is still complete).
func (w *world) damageBuf(ref uint64, mode byte, k int, frac int) {
	u := w.live[ref]
	if u == nil {
		return
	}
	if _, done := w.damage[ref]; done {
		return
	}
	var f *os.File
	for id, e := range w.st.Entries() {
		if canon(id) == ref {
			f = e.DiskBufForVerif()
		}
	}
	if f == nil {
		w.r.Fail("", fmt.Sprintf("entry %d has no disk buffer: %s", ref, w.witness()))
		return
	}
	n := len(u.toks)
	off := func(i int) int64 { // start of line i
		var o int64
		for j := 0; j < i && j < n; j++ {
			o += int64(w.p.items[u.toks[j]].n) + 1
		}
		return o
	}
	yields := n
	what := ""
	switch mode {
	case 'C':
		f.Close()
		yields = 0
		if n == 0 {
			yields = 0
		}
		what = "closed"
	case 'K':
		if k < n {
			f.Truncate(off(k))
			yields = k
		} else {
			yields = k // nothing is cut: the fault is harmless
		}
		what = fmt.Sprintf("truncated after line %d", k)
	case 'M':
		if n == 0 {
			return
		}
		k %= n
		ln := int64(w.p.items[u.toks[k]].n)
		f.Truncate(off(k) + 1 + int64(frac)%(ln-1))
		yields = k
		what = fmt.Sprintf("truncated inside line %d", k)
	case 'N':
		if n == 0 {
			return
		}
		k %= n
		f.Truncate(off(k) + int64(w.p.items[u.toks[k]].n))
		yields = k + 1
		what = fmt.Sprintf("truncated before the newline of line %d", k)
	}
	w.damage[ref] = yields
	w.hist = append(w.hist, fmt.Sprintf("(disk buffer of %s %s)", u.desc, what))
	w.r.Count("fault:diskbuf-" + string(mode))
}

func keysOf(m map[uint64]*update) map[uint64]bool {
	r := map[uint64]bool{}
	for k := range m {
		r[k] = true
	}
	return r
}

type loaded struct {
	nilEntry bool
	updater  string
	fp       string
	v, e     []string
}

// runLoader iterates the real loader over b.
func (w *world) runLoader(b []byte) (string, []loaded, string) {
	var parts []string
	var got []loaded
	fin := ""
	w.loaderProblem = ""
	l, err := jsonblob.Load(context.Background(), bytes.NewReader(b))
	if err != nil {
		return "loaderr", nil, "loaderr"
	}
	// Every Entry is looked at twice: immediately after the Next call that
	// reported it, and again when the iteration is over -- through the *Entry
	// pointer and through the Vuln / Enrichment slice values kept from the
	// first look (a caller that gathers the entries sees the second view).
	type kept struct {
		ent   *jsonblob.Entry
		vuln  []*claircore.Vulnerability
		enr   []driver.EnrichmentRecord
		first string
	}
	var keep []kept
	// deep: every record is compared field by field with the recorded one (the
	// first look); the later looks only have to notice a change, for which the
	// re-encoded line is enough.
	deep := true
	view := func(updater, fp string, vs []*claircore.Vulnerability, es []driver.EnrichmentRecord) (loaded, string) {
		ld := loaded{updater: updater, fp: fp}
		for _, v := range vs {
			if deep {
				ld.v = append(ld.v, w.p.tokOfVuln(v))
			} else {
				ld.v = append(ld.v, w.p.tokByLine('v', v))
			}
		}
		for _, e := range es {
			if deep {
				ld.e = append(ld.e, w.p.tokOfEnrichment(e))
			} else {
				ld.e = append(ld.e, w.p.tokByLine('e', e))
			}
		}
		// a slice no record was appended to is nil in the code as it stands;
		// a non-nil empty one is shown as [] (OfflineImport tests `!= nil`)
		vt, et := joinS(ld.v), joinS(ld.e)
		if len(vs) == 0 && vs != nil {
			vt = "[]"
		}
		if len(es) == 0 && es != nil {
			et = "[]"
		}
		return ld, fmt.Sprintf("T/%s/%s/%s/%s", hx.Hex([]byte(updater)), hx.Hex([]byte(fp)), vt, et)
	}
	max := bytes.Count(b, []byte("\n")) + 5
	for i := 0; ; i++ {
		if i > max {
			fin = "runaway"
			break
		}
		var more bool
		var ent *jsonblob.Entry
		if hx.Guard(func() string { more = l.Next(); ent = l.Entry(); return "" }) == "panic" {
			fin = "P"
			break
		}
		if !more {
			if l.Err() == nil {
				fin = "F/ok"
			} else {
				fin = "F/err"
			}
			break
		}
		if ent == nil {
			parts = append(parts, "T/nil")
			got = append(got, loaded{nilEntry: true})
			continue
		}
		ld, txt := view(ent.Updater, string(ent.Fingerprint), ent.Vuln, ent.Enrichment)
		got = append(got, ld)
		parts = append(parts, txt)
		keep = append(keep, kept{ent: ent, vuln: ent.Vuln, enr: ent.Enrichment, first: txt})
		if (len(ent.Vuln) == 0 && ent.Vuln != nil) || (len(ent.Enrichment) == 0 && ent.Enrichment != nil) {
			if w.loaderProblem == "" {
				w.loaderProblem = fmt.Sprintf("entry %d (%s) reports a non-nil empty record slice of the kind it has no records of", len(keep)-1, txt)
			}
		}
	}
	deep = false
	for i, k := range keep {
		if w.loaderProblem != "" {
			break
		}
		if strings.Contains(k.first, "?") {
			continue // already reported as a record that differs from the recorded one
		}
		if _, again := view(k.ent.Updater, string(k.ent.Fingerprint), k.ent.Vuln, k.ent.Enrichment); again != k.first {
			w.loaderProblem = fmt.Sprintf("entry %d was %s when Next reported it and is %s after the iteration (the *Entry was modified by later Next calls)", i, k.first, again)
			break
		}
		if _, again := view(k.ent.Updater, string(k.ent.Fingerprint), k.vuln, k.enr); again != k.first {
			w.loaderProblem = fmt.Sprintf("the record slices of entry %d were %s when Next reported it and hold %s after the iteration (their backing arrays were reused)", i, k.first, again)
			break
		}
	}
	parts = append(parts, fin)
	return strings.Join(parts, " "), got, fin
}

func joinS(xs []string) string {
	if len(xs) == 0 {
		return "-"
	}
	return strings.Join(xs, ",")
}

func toksKey(kind byte, updater, fp string, v, e []string) string {
	return fmt.Sprintf("%c|%q|%q|%s|%s", kind, updater, fp, strings.Join(v, ","), strings.Join(e, ","))
}

func (u *update) key() string {
	ts := make([]string, len(u.toks))
	for i, t := range u.toks {
		ts[i] = strconv.Itoa(t)
	}
	if u.kind == 'v' {
		return toksKey('v', u.updater, u.fp, ts, nil)
	}
	return toksKey('e', u.updater, u.fp, nil, ts)
}

func (l loaded) key() string {
	k := byte('v')
	if len(l.e) > 0 && len(l.v) == 0 {
		k = 'e'
	}
	return toksKey(k, l.updater, l.fp, l.v, l.e)
}

// cutLoad loads what was written with the end of the file cut off inside its
// last line (a copy that was interrupted): the loader must not end cleanly.
// (Cut exactly between two lines the file is a shorter valid one: the format
// has no trailer that could tell.)
func (w *world) cutLoad(frac int) {
	b := w.buf.Bytes()
	if len(b) < 2 {
		return
	}
	last := bytes.LastIndexByte(b[:len(b)-1], '\n') + 1 // start of the last line
	n := len(b) - 1 - last                             // its length without the newline
	if n < 2 {
		return
	}
	cut := last + 1 + frac%(n-1) // strictly inside the last line
	_, _, fin := w.runLoader(b[:cut])
	w.r.Case(fmt.Sprintf("cutload %d/%d", cut-last, n), true)
	w.r.Count("cutload:end=" + fin)
	if fin != "F/err" {
		w.r.Fail("", fmt.Sprintf("a file cut inside its last line (%d of %d bytes of that line kept) loads with end %s, want an error: %s", cut-last, n, fin, w.witness()))
	}
}

func (w *world) witness() string {
	s := "history=[" + strings.Join(w.hist, " ") + "]"
	if len(w.p.diffs) > 0 {
		s = "FIELDS: " + strings.Join(w.p.diffs, " | ") + " -- " + s
	}
	return s
}

// load runs the loader over everything written so far and, when every
// recorded update has been handed to a Store call, checks the statement.
func (w *world) load() {
	out, got, fin := w.runLoader(w.buf.Bytes())
	w.r.Op("load", out, true)
	w.hist = append(w.hist, "Load")
	w.r.Count("load:entries=" + sizeBucket(len(got)))
	w.oracle(got, fin)
}

// oracle is the direct check of the statement on the implementation.
func (w *world) oracle(got []loaded, fin string) {
	got = append(append([]loaded(nil), w.archived...), got...)
	for _, g := range got {
		if g.nilEntry {
			w.r.Fail("", "Next reported true with a nil Entry: "+w.witness())
			return
		}
	}
	if w.loaderProblem != "" {
		w.r.Fail("", "loaded entries are not stable values: "+w.loaderProblem+": "+w.witness())
		return
	}
	if w.unflushed || w.reusedRef {
		return
	}
	want := map[string]int{}
	wantNonEmpty := map[string]int{}
	wantCut := map[string]int{} // what must come back when Store calls failed on damaged disk buffers
	zero := 0
	for _, u := range w.all {
		want[u.key()]++
		if len(u.toks) > 0 {
			wantNonEmpty[u.key()]++
		} else {
			zero++
		}
		switch {
		case u.cut < 0 && len(u.toks) > 0:
			wantCut[u.key()]++
		case u.cut > 0:
			c := *u
			c.toks = u.toks[:u.cut]
			wantCut[c.key()]++
		}
	}
	have := map[string]int{}
	for _, g := range got {
		have[g.key()]++
	}
	same := func(a, b map[string]int) bool {
		if len(a) != len(b) {
			return false
		}
		for k, v := range a {
			if b[k] != v {
				return false
			}
		}
		return true
	}
	okFin := fin == "F/ok" && w.storeErrs == 0
	if okFin && same(want, have) {
		return
	}
	if w.faultErrs > 0 && !w.tooLong {
		// Disk buffers were damaged on purpose. What the code promises then
		// (theorem failed_store_retry_load): every failed Store call cut exactly
		// one update, everything else comes back whole, the cut update comes back
		// as its written prefix, and the file loads without error.
		if len(w.live) > 0 {
			return // judged when later Store calls have flushed what the failed one did not reach
		}
		if fin == "F/ok" && w.storeErrs == w.faultErrs && w.cutSeen == w.faultErrs && same(wantCut, have) {
			w.r.Count("oracle:damaged-disk-buffer-loses-only-the-tail-of-one-update")
			return
		}
	}
	var gs []string
	for _, g := range got {
		gs = append(gs, g.key())
	}
	wit := fmt.Sprintf("%s store-errors=%d loader-end=%s loaded=%d:[%s] recorded=%d", w.witness(), w.storeErrs, fin, len(got), strings.Join(gs, " "), len(w.all))
	switch {
	case w.tooLong && w.hasOversize():
		// Store reported bufio.ErrTooLong for a record whose line is >= 1 MiB
		w.r.Fail("record-over-1MiB", wit)
	case okFin && zero > 0 && same(wantNonEmpty, have):
		w.r.Fail("zero-length-update-lost", wit)
	default:
		w.r.Fail("", wit)
	}
}

func (w *world) hasOversize() bool {
	for _, u := range w.all {
		for _, t := range u.toks {
			if w.p.items[t].n >= 1<<20 {
				return true
			}
		}
	}
	return false
}

// ---------------------------------------------------------------------------
// scripted histories (witnesses, corpus)

// script runs a history written as space separated words:
//
//	v<n> e<n> d<n>   record an update of n records (updater u<i>, fingerprint f<i>)
//	v<n>:U:F         the same with updater U and fingerprint F
//	c<k>             the next recording call first draws k colliding uuids
//	B<len> E<len>    record one vulnerability / enrichment record whose line is len bytes
//	X                the next recording call draws a uuid that was already written out
//	F G              the next recording call fails: diskBuf cannot create its file / the encoder rejects a record
//	C K<k> M<k> N<k> damage the disk buffer of the update recorded last: close it, truncate it after line k,
//	                 inside line k, just before the newline of line k
//	R                record a vulnerability update whose first two records are the same record
//	W<n>             the writer given to the next Store call fails after n bytes
//	T                load what was written with the file cut inside its last line
//	S                Store
//	L                Load
//	Q                query latest refs and Initialized
func script(r *hx.Run, p *pool, text string) {
	w := newWorld(r, p)
	defer w.close()
	collide := 0
	reuse := false
	var flushed []uint64
	for i, word := range strings.Fields(text) {
		if r.Stop() {
			return
		}
		head, rest := word[0], word[1:]
		switch head {
		case 'v', 'e', 'd':
			parts := strings.Split(rest, ":")
			n, _ := strconv.Atoi(parts[0])
			upd, fp := fmt.Sprintf("u%d", i), fmt.Sprintf("f%d", i)
			if len(parts) == 3 {
				upd, fp = parts[1], parts[2]
			}
			src := p.vs
			if head == 'e' {
				src = p.es
			}
			toks := make([]int, n)
			for j := range toks {
				toks[j] = src[(i*7+j)%len(src)]
			}
			w.record(head, upd, fp, toks, w.collisions(collide, reuse, flushed), 2)
			collide, reuse = 0, false
		case 'B', 'E':
			n, _ := strconv.Atoi(rest)
			if head == 'B' {
				w.record('v', "big", "fb", []int{p.vs[0], p.sized(n, i), p.vs[1]}, w.collisions(collide, reuse, flushed), 0)
			} else {
				w.record('e', "bigE", "fb", []int{p.sizedEnrichment(n, i), p.es[0]}, w.collisions(collide, reuse, flushed), 0)
			}
			collide, reuse = 0, false
		case 'K', 'M', 'N', 'C':
			// damage the disk buffer of the entry recorded last that is still in the map
			k, _ := strconv.Atoi(rest)
			if len(w.all) > 0 {
				w.damageBuf(w.all[len(w.all)-1].ref, head, k, 7)
			}
		case 'R':
			// the same record twice in a row, then another
			w.record('v', fmt.Sprintf("u%d", i), fmt.Sprintf("f%d", i), []int{p.vs[i%len(p.vs)], p.vs[i%len(p.vs)], p.vs[(i+1)%len(p.vs)]}, w.collisions(collide, reuse, flushed), 0)
			collide, reuse = 0, false
		case 'W':
			w.writerLimit, _ = strconv.Atoi(rest)
		case 'T':
			w.cutLoad(i * 37)
		case 'F':
			w.nextFail = "disk"
		case 'G':
			w.nextFail = "encode"
		case 'c':
			collide, _ = strconv.Atoi(rest)
		case 'X':
			reuse = true
		case 'S':
			for c := range w.live {
				flushed = append(flushed, c)
			}
			sort.Slice(flushed, func(i, j int) bool { return flushed[i] < flushed[j] })
			w.store()
		case 'L':
			w.load()
		case 'Q':
			w.query()
		}
	}
}

func (w *world) collisions(k int, reuse bool, flushed []uint64) []uint64 {
	var cs []uint64
	live := sortedU(keysOf(w.live))
	for i := 0; i < k && len(live) > 0; i++ {
		cs = append(cs, live[i%len(live)])
	}
	if reuse && len(flushed) > 0 {
		c := flushed[len(flushed)-1]
		if _, isLive := w.live[c]; !isLive {
			cs = append(cs, c)
			w.reusedRef = true
		}
	}
	return cs
}

func (w *world) query() {
	ctx := context.Background()
	for _, k := range []struct {
		n string
		k driver.UpdateKind
	}{{"v", driver.VulnerabilityKind}, {"e", driver.EnrichmentKind}} {
		ref, err := w.st.GetLatestUpdateRef(ctx, k.k)
		out := strconv.FormatUint(canon(ref), 10)
		if err != nil {
			out = "err"
		}
		w.r.Op("latest "+k.n, out, false)
	}
	ok, err := w.st.Initialized(ctx)
	out := strconv.FormatBool(ok)
	if err != nil {
		out = "err"
	}
	w.r.Op("init", out, false)
	// Entries(): the keys with the exported fields of their values
	var es []string
	m := w.st.Entries()
	ids := map[uint64]bool{}
	byRef := map[uint64]*jsonblob.Entry{}
	for id, e := range m {
		ids[canon(id)] = true
		byRef[canon(id)] = e
	}
	for _, c := range sortedU(ids) {
		e := byRef[c]
		if e == nil {
			es = append(es, fmt.Sprintf("%d/nil", c))
			continue
		}
		es = append(es, fmt.Sprintf("%d/%s/%s", c, hx.Hex([]byte(e.Updater)), hx.Hex([]byte(e.Fingerprint))))
	}
	w.r.Op("entries", joinS(es), len(es) > 1)
}

// Witnesses of the defects of DESIGN section 5 rows 12 and 13 and the other
// corner cases named in the property's quantifier.
var builtin = []string{
	"S L",                                  // empty recording (row 13, repaired): no entries
	"L",                                    // nothing written at all
	"v0 S L",                               // only a zero-length update (row 12)
	"e0 S L",                               //
	"v1 S L T",                             // single record; the same file cut short must not load cleanly
	"v3 e2 S T",                            //
	"e1 S L",                               //
	"v1 v2 v3 v2 v1 S L",                   // five entries of one kind: entries kept across Next calls must not change
	"e2 e1 e3 e1 S L",                      //
	"v2 v0 e3 S L",                         // zero-length update among others
	"v3:same:fp v2:same:fp e1:same:fp S L", // repeated updater and fingerprint
	"v2 c1 v1 c3 e2 S L Q",                 // uuid collisions in the retry loop
	"v2 S v3 S e1 S L",                     // several flushes to one writer
	"v1 S S L",                             // second Store writes nothing
	"v2 S L X v3 S L",                      // a uuid drawn again after its entry was written out
	"Q v1 Q e1 Q S Q",                      // latest refs, Initialized
	"d3 d0 S L",                            // delta updates
	"R S L",                                // a repeated record is two records
	"F v2 S L",                             // a recording call that fails creates nothing
	"v2 F v3 G e2 e1 Q S L",                // failed calls between successful ones
	"G e0 F e1 S L",                        //
	"v3 K1 S L",                            // disk buffer truncated after its first line: Store fails, one record is in the file
	"v3 C S L",                             // disk buffer closed: nothing of the entry is written
	"v2 v4 M2 e3 S L S L",                  // cut inside the third line; the second Store flushes what the first did not reach
	"e3 N1 v1 S L S L",                     // only the newline of the second line is missing: two lines are readable
	"v2 K2 S L",                            // nothing is missing: no failure
	"v2 K5 e0 C S L",                       // harmless faults (beyond the end; an update without records)
	"v3 K0 e2 K1 v1 S S S L",               // two damaged buffers: each Store call stops at one of them
	"v3 W700 S S L",                        // the writer fails inside a line: Store reports it; the torn output ends in an error
	"v2 e3 v1 W0 S S L",                    // nothing at all is accepted
	"e2 v2 W100000 S L",                    // a limit that is never reached
}

var builtinBig = []string{
	"B1048575 S L",        // largest line that fits the 1 MiB scanner buffer
	"B1048576 v2 S L S L", // one byte more: Store fails with ErrTooLong
	"E1048575 e1 S L",
	"E1048577 S L",
}

// ---------------------------------------------------------------------------
// generated histories

var updaters = []string{"rhel-8", "debian/bookworm", "osv", "alpine-main-v3.18", "clair.cvss", "", "üpd \"x\" <&>", "a b\tc\n"}
var fingerprints = []string{"", "etag-1", `"W/\"abc\""`, "2024-01-01T00:00:00Z", `{"k":[1,2]}`, "fp<&> "}

func pickStr(rnd *hx.Rand, xs []string) string {
	if rnd.Chance(1, 8) {
		return genStr(rnd, 12)
	}
	return xs[rnd.Intn(len(xs))]
}

func pickToks(rnd *hx.Rand, src []int) []int {
	var n int
	switch c := rnd.Intn(100); {
	case c < 15:
		n = 0
	case c < 40:
		n = 1
	case c < 85:
		n = 2 + rnd.Intn(4)
	case c < 97:
		n = 6 + rnd.Intn(15)
	default:
		n = 21 + rnd.Intn(40)
	}
	toks := make([]int, n)
	for i := range toks {
		toks[i] = src[rnd.Intn(len(src))]
	}
	if n >= 2 && rnd.Chance(1, 6) {
		toks[1] = toks[0] // the same record twice in one update
	}
	return toks
}

func history(r *hx.Run, rnd *hx.Rand, p *pool) {
	w := newWorld(r, p)
	defer w.close()
	var nops int
	switch c := rnd.Intn(10); {
	case c == 0:
		nops = 0
	case c < 4:
		nops = 1 + rnd.Intn(3)
	case c < 9:
		nops = 4 + rnd.Intn(16)
	default:
		nops = 20 + rnd.Intn(41)
	}
	r.Count("history:ops=" + sizeBucket(nops))
	faulty := rnd.Chance(1, 4)
	if faulty {
		r.Count("history:with-faults")
	}
	for i := 0; i < nops && !r.Stop(); i++ {
		var collide []uint64
		if len(w.live) > 0 && rnd.Chance(1, 8) {
			live := sortedU(keysOf(w.live))
			for k := 1 + rnd.Intn(3); k > 0; k-- {
				collide = append(collide, live[rnd.Intn(len(live))])
			}
		}
		if faulty && rnd.Chance(1, 6) {
			w.nextFail = rnd.Pick("disk", "encode")
		}
		if faulty && len(w.live) > 0 && rnd.Chance(1, 5) {
			live := sortedU(keysOf(w.live))
			ref := live[rnd.Intn(len(live))]
			n := len(w.live[ref].toks)
			w.damageBuf(ref, rnd.Pick("C", "K", "K", "M", "M", "N")[0], rnd.Intn(n+2), rnd.Intn(1<<16))
		}
		switch c := rnd.Intn(100); {
		case c < 40:
			w.record('v', pickStr(rnd, updaters), pickStr(rnd, fingerprints), pickToks(rnd, p.vs), collide, 0)
		case c < 55:
			w.record('d', pickStr(rnd, updaters), pickStr(rnd, fingerprints), pickToks(rnd, p.vs), collide, rnd.Intn(4))
		case c < 90:
			w.record('e', pickStr(rnd, updaters), pickStr(rnd, fingerprints), pickToks(rnd, p.es), collide, 0)
		case c < 94:
			w.store()
		case c < 96:
			w.store()
			w.load()
		default:
			w.query()
		}
	}
	if faulty && rnd.Chance(1, 4) {
		w.writerLimit = rnd.Intn(6000)
	}
	w.store()
	w.load()
	if rnd.Chance(1, 8) {
		w.cutLoad(rnd.Intn(1 << 20))
	}
	// a Store call that failed on a damaged buffer left the unvisited entries in the map
	for i := 0; len(w.live) > 0 && !r.Stop(); i++ {
		if i == 70 {
			r.Fail("", "70 Store calls did not empty the map: "+w.witness())
			break
		}
		w.store()
		if len(w.live) == 0 {
			w.load()
		}
	}
	if rnd.Chance(1, 10) {
		w.store()
		w.load()
	}
}

// concurrent lets several goroutines record at the same time; the protocol
// lines are emitted afterwards in the order of the refs that were handed out.
func concurrent(r *hx.Run, rnd *hx.Rand, p *pool) {
	w := newWorld(r, p)
	defer w.close()
	type call struct {
		op      byte
		updater string
		fp      string
		toks    []int
		ref     uuid.UUID
		err     error
		pan     bool
	}
	ng := 2 + rnd.Intn(7)
	calls := make([][]*call, ng)
	total := 0
	for g := range calls {
		for k := 1 + rnd.Intn(5); k > 0; k-- {
			c := &call{op: 'v', updater: pickStr(rnd, updaters), fp: pickStr(rnd, fingerprints)}
			if rnd.Chance(1, 2) {
				c.op = 'e'
				c.toks = pickToks(rnd, p.es)
			} else {
				c.toks = pickToks(rnd, p.vs)
			}
			calls[g] = append(calls[g], c)
			total++
		}
	}
	procs := 1 + rnd.Intn(16)
	old := runtime.GOMAXPROCS(procs)
	defer runtime.GOMAXPROCS(old)
	r.Count("concurrent:recorders=" + sizeBucket(ng))
	var wg sync.WaitGroup
	ctx := context.Background()
	for g := range calls {
		wg.Add(1)
		go func(cs []*call) {
			defer wg.Done()
			for _, c := range cs {
				func() {
					defer func() {
						if recover() != nil {
							c.pan = true
						}
					}()
					if c.op == 'e' {
						es := make([]driver.EnrichmentRecord, len(c.toks))
						for i, t := range c.toks {
							es[i] = p.items[t].e
						}
						c.ref, c.err = w.st.UpdateEnrichments(ctx, c.updater, driver.Fingerprint(c.fp), es)
					} else {
						vs := make([]*claircore.Vulnerability, len(c.toks))
						for i, t := range c.toks {
							vs[i] = p.items[t].v
						}
						c.ref, c.err = w.st.UpdateVulnerabilities(ctx, c.updater, driver.Fingerprint(c.fp), vs)
					}
				}()
				runtime.Gosched()
			}
		}(calls[g])
	}
	done := make(chan struct{})
	go func() { wg.Wait(); close(done) }()
	select {
	case <-done:
	case <-time.After(60 * time.Second):
		r.Fail("", "concurrent recorders made no progress for 60s")
		return
	}
	var flat []*call
	for _, cs := range calls {
		flat = append(flat, cs...)
	}
	sort.SliceStable(flat, func(i, j int) bool { return canon(flat[i].ref) < canon(flat[j].ref) })
	w.src.mu.Lock()
	reads := w.src.reads
	w.src.mu.Unlock()
	for _, c := range flat {
		desc := fmt.Sprintf("%c(updater=%q fp=%q records=%v)", c.op, c.updater, c.fp, c.toks)
		w.hist = append(w.hist, "concurrently:"+desc)
		line := fmt.Sprintf("rec %c %s %s %d %s", c.op, hx.Hex([]byte(c.updater)), hx.Hex([]byte(c.fp)), canon(c.ref)-1, w.recsArg(c.toks))
		switch {
		case c.pan:
			w.r.Op(line, "panic", true)
		case c.err != nil:
			w.r.Op(line, "err", true)
		default:
			used := "1"
			if reads != total {
				used = "?"
			}
			u := &update{kind: c.op, updater: c.updater, fp: c.fp, toks: c.toks, ref: canon(c.ref), desc: desc, cut: -1}
			if _, dup := w.live[u.ref]; dup {
				w.r.Fail("", "two concurrent recordings returned the same ref: "+w.witness())
			}
			w.live[u.ref] = u
			w.all = append(w.all, u)
			w.unflushed = true
			w.r.Op(line, fmt.Sprintf("ref %d used %s", u.ref, used), true)
		}
	}
	w.store()
	w.load()
}

// collideConcurrent: k goroutines record at the same time and all of them draw
// the same uuid at the same moment (the scripted source releases them
// together). The retry loop runs under the store's write lock, so exactly one
// keeps the value and the others draw again; every update must come back.
func collideConcurrent(r *hx.Run, rnd *hx.Rand, p *pool) {
	w := newWorld(r, p)
	defer w.close()
	k := 2 + rnd.Intn(4)
	old := runtime.GOMAXPROCS(k + 2 + rnd.Intn(8))
	defer runtime.GOMAXPROCS(old)
	type call struct {
		op      byte
		updater string
		fp      string
		toks    []int
		ref     uuid.UUID
		err     error
		pan     bool
	}
	// some entries first, so that the map is not empty
	for i := rnd.Intn(3); i > 0; i-- {
		w.record('v', pickStr(rnd, updaters), pickStr(rnd, fingerprints), pickToks(rnd, p.vs), nil, 0)
	}
	calls := make([]*call, k)
	for i := range calls {
		c := &call{op: 'e', updater: pickStr(rnd, updaters), fp: pickStr(rnd, fingerprints), toks: pickToks(rnd, p.es)}
		if rnd.Chance(1, 2) {
			c.op, c.toks = 'v', pickToks(rnd, p.vs)
		}
		calls[i] = c
	}
	w.src.mu.Lock()
	x := w.src.fresh + 1000
	w.src.fresh = x + 1
	w.src.gateN, w.src.gateArrived, w.src.gateVal, w.src.gateCh = k, 0, x, make(chan struct{})
	w.src.gateAwake.Store(0)
	before := w.src.reads
	w.src.mu.Unlock()
	r.Count("collide-concurrent:recorders=" + strconv.Itoa(k))
	var wg sync.WaitGroup
	ctx := context.Background()
	for _, c := range calls {
		wg.Add(1)
		go func(c *call) {
			defer wg.Done()
			defer func() {
				if recover() != nil {
					c.pan = true
				}
			}()
			if c.op == 'e' {
				es := make([]driver.EnrichmentRecord, len(c.toks))
				for i, t := range c.toks {
					es[i] = p.items[t].e
				}
				c.ref, c.err = w.st.UpdateEnrichments(ctx, c.updater, driver.Fingerprint(c.fp), es)
			} else {
				vs := make([]*claircore.Vulnerability, len(c.toks))
				for i, t := range c.toks {
					vs[i] = p.items[t].v
				}
				c.ref, c.err = w.st.UpdateVulnerabilities(ctx, c.updater, driver.Fingerprint(c.fp), vs)
			}
		}(c)
	}
	done := make(chan struct{})
	go func() { wg.Wait(); close(done) }()
	select {
	case <-done:
	case <-time.After(60 * time.Second):
		r.Fail("", "concurrent recorders made no progress for 60s")
		return
	}
	w.src.mu.Lock()
	reads := w.src.reads - before
	w.src.gateN, w.src.gateArrived = 0, 0
	w.src.mu.Unlock()
	// the call that kept x first, the others by the value they drew next
	sort.SliceStable(calls, func(i, j int) bool { return canon(calls[i].ref) < canon(calls[j].ref) })
	for i, c := range calls {
		desc := fmt.Sprintf("%c(updater=%q fp=%q records=%v)", c.op, c.updater, c.fp, c.toks)
		w.hist = append(w.hist, fmt.Sprintf("concurrently,all-draw-uuid-%d-first:%s", x+1, desc))
		cands := []uint64{x}
		used := "1"
		if canon(c.ref) != x+1 || i > 0 {
			cands = append(cands, canon(c.ref)-1)
			used = "2"
		}
		if reads != 2*k-1 {
			used = "?"
		}
		line := fmt.Sprintf("rec %c %s %s %s %s", c.op, hx.Hex([]byte(c.updater)), hx.Hex([]byte(c.fp)), joinU(cands), w.recsArg(c.toks))
		switch {
		case c.pan:
			w.r.Op(line, "panic", true)
		case c.err != nil:
			w.r.Op(line, "err", true)
		default:
			u := &update{kind: c.op, updater: c.updater, fp: c.fp, toks: c.toks, ref: canon(c.ref), desc: desc, cut: -1}
			if _, dup := w.live[u.ref]; dup {
				w.r.Fail("", fmt.Sprintf("two concurrent recordings that drew the same uuid both kept it (ref %d): one update replaced the other in the store: %s", u.ref, w.witness()))
			}
			w.live[u.ref] = u
			w.all = append(w.all, u)
			w.unflushed = true
			w.r.Op(line, fmt.Sprintf("ref %d used %s", u.ref, used), true)
		}
	}
	w.query()
	w.store()
	w.load()
}

// rawFile hand-makes a file (lines the store would never write included) and
// compares the real loader with the model on it.
func rawFile(r *hx.Run, rnd *hx.Rand, p *pool, items []string) {
	w := newWorld(r, p)
	defer w.close()
	w.rawScenario = true
	var file bytes.Buffer
	enc := json.NewEncoder(&file)
	enc.SetEscapeHTML(false)
	for idx, it := range items {
		f := strings.Split(it, "/")
		ref, _ := strconv.ParseUint(f[0], 10, 64)
		ub, _ := hx.Unhex(f[1])
		fb, _ := hx.Unhex(f[2])
		d := map[string]any{"Updater": string(ub), "Fingerprint": string(fb), "Date": time.Unix(1700000000, 0).UTC(), "Ref": uuidOf(ref)}
		body := f[3]
		switch body[0] {
		case 'v':
			t, _ := strconv.Atoi(body[1:])
			d["Kind"] = "vulnerability"
			d["Vuln"] = json.RawMessage(p.items[t].key[1:])
		case 'e':
			t, _ := strconv.Atoi(body[1:])
			d["Kind"] = "enrichment"
			d["Enrichment"] = json.RawMessage(p.items[t].key[1:])
		case 'o':
			d["Kind"] = "something-else"
		case 'b':
			if ref%2 == 0 {
				d["Kind"] = "vulnerability"
				d["Vuln"] = "not an object"
			} else {
				d["Kind"] = "enrichment"
				d["Enrichment"] = 17
			}
		case 'g':
			switch {
			case idx == len(items)-1 && ref%3 == 0:
				// the file ends inside a line (a copy that was cut short)
				file.WriteString("{\"Updater\":\"cut\",\"Fingerprint\":\"\",\"Ref\":\"0000")
				r.Count("raw:line=g-truncated-last-line")
			case ref%2 == 0:
				file.WriteString("{\"Ref\": 12, \"Kind\": \"vulnerability\"}\n")
			default:
				file.WriteString("this is not json\n")
			}
			continue
		}
		enc.Encode(d)
		r.Count("raw:line=" + body[:1])
	}
	out, got, fin := w.runLoader(file.Bytes())
	arg := "-"
	if len(items) > 0 {
		arg = strings.Join(items, ";")
	}
	r.Op("loadraw "+arg, out, true)
	r.Count("raw:end=" + fin)
	for _, g := range got {
		if g.nilEntry {
			r.Fail("", "Next reported true with a nil Entry on the hand-made file ["+arg+"]")
			break
		}
	}
	if w.loaderProblem != "" {
		r.Fail("", "loaded entries are not stable values: "+w.loaderProblem+" on the hand-made file ["+arg+"]")
	}
}

func genRaw(rnd *hx.Rand, p *pool) []string {
	n := rnd.Intn(12)
	if rnd.Chance(1, 10) {
		n = 12 + rnd.Intn(30)
	}
	nrefs := 1 + rnd.Intn(4)
	zeroOK := rnd.Chance(1, 6)
	bad := rnd.Chance(1, 4)
	ups := []string{hx.Hex([]byte(pickStr(rnd, updaters))), hx.Hex([]byte(pickStr(rnd, updaters)))}
	var items []string
	cur := uint64(1 + rnd.Intn(nrefs))
	for i := 0; i < n; i++ {
		if rnd.Chance(2, 5) {
			cur = uint64(1 + rnd.Intn(nrefs))
			if zeroOK && rnd.Chance(1, 4) {
				cur = 0
			}
		}
		var body string
		switch c := rnd.Intn(100); {
		case c < 45:
			body = "v" + strconv.Itoa(p.vs[rnd.Intn(len(p.vs))])
		case c < 85:
			body = "e" + strconv.Itoa(p.es[rnd.Intn(len(p.es))])
		case c < 92 || !bad:
			body = "o"
		case c < 96:
			body = "b"
		default:
			body = "g"
		}
		items = append(items, fmt.Sprintf("%d/%s/%s/%s", cur, ups[int(cur)%2], hx.Hex([]byte(fingerprints[int(cur)%len(fingerprints)])), body))
	}
	return items
}

// ---------------------------------------------------------------------------

// Run is the harness entry point for C16.
func Run(cfg hx.Config) error {
	r, err := hx.NewRun(cfg)
	if err != nil {
		return err
	}
	defer uuid.SetRand(nil)
	r.Rule = "recording histories of 0..60 calls on a real jsonblob.Store (vulnerability, delta and enrichment updates of 0..60 records, repeated updaters/fingerprints, scripted uuid collisions, intermediate flushes, concurrent recorders incl. recorders that draw one uuid at the same instant), a quarter of them with injected faults (diskBuf or encoder failing, disk buffers closed/truncated, Store's writer failing), each ended by Store and Load (and retries until the map is empty); hand-made files through the loader; zip-of-zips exports/imports of fake updaters (real zip listing and store calls), interrupted exports. One protocol line per call; every line except reset/latest/init/tear/newfile counts as non-trivial, distinct by text. Oracles: multiset of (updater, fingerprint, kind, records in order) recorded = loaded; after faults every failed Store cut exactly one update to its written prefix and nothing else is missing; a torn file does not load cleanly; an interrupted export returns, says so, and is not importable."
	rnd := hx.NewRand(cfg.Seed)
	p := newPool(rnd, cfg.N(300, 1200), r)

	// witnesses and corpus first
	for _, s := range builtin {
		script(r, p, s)
	}
	for _, s := range builtinBig {
		script(r, p, s)
	}
	if cfg.Corpus != "" {
		files, _ := filepath.Glob(filepath.Join(cfg.Corpus, "*.hist"))
		sort.Strings(files)
		for _, f := range files {
			b, err := os.ReadFile(f)
			if err != nil {
				continue
			}
			for _, ln := range strings.Split(string(b), "\n") {
				ln = strings.TrimSpace(ln)
				if ln == "" || strings.HasPrefix(ln, "#") {
					continue
				}
				if strings.HasPrefix(ln, "raw ") {
					// item bodies vN / eN name the N-th vulnerability / enrichment record of the pool
					items := strings.Fields(ln)[1:]
					for i, it := range items {
						f := strings.Split(it, "/")
						if len(f) != 4 || len(f[3]) < 2 {
							continue
						}
						n, err := strconv.Atoi(f[3][1:])
						if err != nil {
							continue
						}
						switch f[3][0] {
						case 'v':
							f[3] = "v" + strconv.Itoa(p.vs[n%len(p.vs)])
						case 'e':
							f[3] = "e" + strconv.Itoa(p.es[n%len(p.es)])
						}
						items[i] = strings.Join(f, "/")
					}
					rawFile(r, rnd, p, items)
				} else {
					script(r, p, ln)
				}
				r.Count("corpus:scenario")
			}
		}
	}
	reobserve(r, p)

	nh := cfg.N(2000, 70000)
	for i := 0; i < nh && !r.Stop(); i++ {
		history(r, rnd, p)
	}
	nc := cfg.N(150, 5000)
	for i := 0; i < nc && !r.Stop(); i++ {
		concurrent(r, rnd, p)
	}
	ncc := cfg.N(300, 10000)
	for i := 0; i < ncc && !r.Stop(); i++ {
		collideConcurrent(r, rnd, p)
	}
	r.Notes["concurrent_same_uuid_scenarios"] = ncc
	nr := cfg.N(1500, 60000)
	for i := 0; i < nr && !r.Stop(); i++ {
		rawFile(r, rnd, p, genRaw(rnd, p))
	}
	// a few histories with records around the scanner limit
	nb := cfg.N(6, 60)
	for i := 0; i < nb && !r.Stop(); i++ {
		n := 1<<20 - 3 + rnd.Intn(6)
		if rnd.Chance(1, 3) {
			n = 1<<19 + rnd.Intn(1<<20)
		}
		k := "B"
		if rnd.Chance(1, 3) {
			k = "E"
		}
		pre := rnd.Pick("", "v2 ", "e1 v0 ", "v1 S ")
		post := rnd.Pick("", " v3", " e2 S L")
		script(r, p, fmt.Sprintf("%s%s%d%s S L", pre, k, n, post))
		r.Count("big:scenario")
	}
	// the zip-of-zips export of updater/ (black box, oracle only)
	quiet()
	v1Witness(r)
	v1Headers(r)
	// 200 000 records: about 2.6 MiB of JSON per updater, more than a zstd window of 1 MiB
	for i := 0; i < cfg.N(1, 4) && !r.Stop(); i++ {
		v1Big(r, rnd, 200000<<uint(i%2))
	}
	nv := cfg.N(300, 6000)
	for i := 0; i < nv && !r.Stop(); i++ {
		v1Scenario(r, rnd)
	}
	nf := cfg.N(60, 1500)
	for i := 0; i < nf && !r.Stop(); i++ {
		v1Faults(r, rnd)
	}
	r.Notes["v1_interrupted_exports"] = nf
	r.Notes["v1_export_import_scenarios"] = nv
	r.Notes["histories"] = nh
	r.Notes["concurrent_scenarios"] = nc
	r.Notes["hand_made_files"] = nr
	r.Notes["record_pool"] = len(p.items)
	r.Notes["implementation"] = "libvuln/jsonblob (Store, Loader) in-process; uuid random source scripted through uuid.SetRand"
	return r.Close()
}

// reobserve replays the witnesses of the listed findings and reports them.
func reobserve(r *hx.Run, p *pool) {
	// zero-length update lost
	{
		w := newWorld(r, p)
		w.record('v', "a", "fa", []int{p.vs[0]}, nil, 0)
		w.record('v', "b", "fb", nil, nil, 0)
		w.store()
		out, got, _ := w.runLoader(w.buf.Bytes())
		w.r.Op("load", out, true)
		if len(got) == 1 && got[0].updater == "a" {
			r.KnownSeen("zero-length-update-lost", `UpdateVulnerabilities("a","fa",[x]); UpdateVulnerabilities("b","fb",[]); Store; Load yields only the entry of "a"`)
		}
		w.close()
	}
	// a record of 1 MiB cannot be exported
	{
		w := newWorld(r, p)
		w.record('v', "a", "fa", []int{p.sized(1<<20, 0)}, nil, 0)
		w.store()
		if w.tooLong {
			r.KnownSeen("record-over-1MiB", "UpdateVulnerabilities with one vulnerability whose JSON line is 1048576 bytes; Store returns bufio.ErrTooLong")
		}
		w.close()
	}
}
