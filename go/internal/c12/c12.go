// Package c12 is the correspondence and oracle harness of property C12:
// version orderings are total preorders and their normalised forms agree.
//
// Correspondence: every parse / compare / print / projection result of the
// real code is written as one protocol line; the Lean driver answers the same
// lines from the models.  Oracles: the order laws, print-parse, projection
// monotonicity and range membership are evaluated directly on the
// implementation over generated triples.
package c12

import (
	"bufio"
	"fmt"
	"os"
	"path/filepath"
	"sort"
	"strconv"
	"strings"

	"github.com/quay/claircore"
	"github.com/quay/claircore/pkg/pep440"
	tktypes "github.com/quay/claircore/toolkit/types"
	"github.com/quay/claircore/verifharness/internal/hx"
)

// item is one parsed version of some scheme.
type item struct {
	s   string // the input text
	ok  bool
	val any
}

// scheme bundles what the generic law checker needs.
type scheme struct {
	name    string
	parseOp string // protocol op of a single parse ("" = none)
	cmpOp   string // protocol op of a comparison of two texts
	gen     func(f *family) string
	parse   func(s string) (item, string)       // item + canonical parse answer
	cmp     func(a, b item) int                 // real comparison (both ok)
	class   func(law string, t [3]item) string  // known-finding class of a failed law, or ""
	spec    func(a, b item) (int, bool)         // the scheme's order stated independently of the code's normal form, where applicable
	proj    func(a item) claircore.Version      // the projection onto the generic version used for range filtering, if Compare must agree with it
}

var schemes = []*scheme{
	{
		name: "pep440", parseOp: "pep", cmpOp: "pepcmp",
		gen: func(f *family) string { return f.pep() },
		parse: func(s string) (item, string) {
			v, c := pepParse(s)
			return item{s, v.ok, v}, c
		},
		cmp: func(a, b item) int {
			x, y := a.val.(pepV).v, b.val.(pepV).v
			return x.Compare(&y)
		},
		spec: func(a, b item) (int, bool) { return pepSpecCmp(a.val.(pepV).v, b.val.(pepV).v) },
		proj: func(a item) claircore.Version { v := a.val.(pepV).v; return v.Version() },
	},
	{
		name: "gem", parseOp: "gem", cmpOp: "gemcmp",
		gen: func(f *family) string { return f.gem() },
		parse: func(s string) (item, string) {
			v, c := gemParse(s)
			return item{s, v.ok, v}, c
		},
		cmp: func(a, b item) int { return a.val.(gemV).v.Compare(b.val.(gemV).v) },
	},
	{
		name: "maven", parseOp: "mvn", cmpOp: "mvncmp",
		gen: func(f *family) string { return f.mvn() },
		parse: func(s string) (item, string) {
			v, c := mvnParse(s)
			return item{s, v.ok, v}, c
		},
		cmp:   func(a, b item) int { return a.val.(mvnV).v.Compare(b.val.(mvnV).v) },
		class: mavenClass,
	},
	{
		name: "rhctag", parseOp: "rhc", cmpOp: "rhccmp",
		gen: func(f *family) string { return f.rhc() },
		parse: func(s string) (item, string) {
			v, c := rhcParse(s)
			return item{s, v.ok, v}, c
		},
		cmp: func(a, b item) int {
			x, y := a.val.(rhcV).v, b.val.(rhcV).v
			return x.Compare(&y)
		},
	},
	{
		name: "rpm", parseOp: "", cmpOp: "rpmcmp",
		gen:   func(f *family) string { return f.rpm() },
		parse: func(s string) (item, string) { return item{s, true, s}, "" },
		cmp:   func(a, b item) int { return rpmCompare(a.s, b.s) },
	},
}

func schemeByName(n string) *scheme {
	for _, s := range schemes {
		if s.name == n {
			return s
		}
	}
	return nil
}

func q(s string) string { return strconv.Quote(s) }

// triple runs one triple of texts of a scheme: protocol lines for the parses
// and the pairwise comparisons, then the order laws on the implementation.
func triple(r *hx.Run, sc *scheme, strs [3]string) {
	var t [3]item
	for i, s := range strs {
		it, canon := sc.parse(s)
		t[i] = it
		if sc.parseOp != "" {
			r.Op(sc.parseOp+" "+hexs(s), canon, it.ok)
			if it.ok {
				r.Count(sc.name + ":parse:ok")
				for _, ft := range features(sc.name, s, canon) {
					r.Count(sc.name + ":feature:" + ft)
				}
			} else {
				r.Count(sc.name + ":parse:" + canon)
			}
		}
	}
	var m [3][3]int
	allok := true
	for i := 0; i < 3; i++ {
		for j := 0; j < 3; j++ {
			if !t[i].ok || !t[j].ok {
				allok = false
				m[i][j] = 98
				if i < j {
					r.Op(sc.cmpOp+" "+hexs(strs[i])+" "+hexs(strs[j]), "err", false)
				}
				continue
			}
			a, b := t[i], t[j]
			m[i][j] = cmpGuard(func() int { return sgn(sc.cmp(a, b)) })
			if i != j {
				r.Op(sc.cmpOp+" "+hexs(strs[i])+" "+hexs(strs[j]), cmpStr(m[i][j]), true)
				r.Count(fmt.Sprintf("%s:cmp:%s", sc.name, cmpStr(m[i][j])))
			}
		}
	}
	if sc.spec != nil && allok {
		for i := 0; i < 3; i++ {
			for j := 0; j < 3; j++ {
				if want, ok := sc.spec(t[i], t[j]); ok && i != j && m[i][j] != 99 {
					r.Count(sc.name + ":spec-order:checked")
					if want != m[i][j] {
						r.Fail("", fmt.Sprintf("%s order %s %s compare=%d, the scheme's rules say %d", sc.name, q(strs[i]), q(strs[j]), m[i][j], want))
					}
				}
			}
		}
	}
	if sc.proj != nil && allok {
		// the projection never inverts the scheme's own order, and a range over
		// projected bounds contains exactly the versions between the bounds
		var pv [3]claircore.Version
		for i := range pv {
			pv[i] = sc.proj(t[i])
		}
		for i := 0; i < 3; i++ {
			for j := 0; j < 3; j++ {
				if i == j || m[i][j] == 99 {
					continue
				}
				pc := pv[i].Compare(&pv[j])
				r.Count(fmt.Sprintf("%s:proj:cmp=%d,proj=%d", sc.name, m[i][j], pc))
				if m[i][j] != 0 && pc == -m[i][j] {
					r.Fail("", fmt.Sprintf("%s projection-inverts %s %s compare=%d projections=%v,%v", sc.name, q(strs[i]), q(strs[j]), m[i][j], pv[i].V, pv[j].V))
				}
			}
		}
		for _, p := range [][3]int{{0, 1, 2}, {0, 2, 1}, {1, 0, 2}, {1, 2, 0}, {2, 0, 1}, {2, 1, 0}} {
			lo, hi, v := p[0], p[1], p[2]
			if m[lo][v] == 99 || m[v][hi] == 99 {
				continue
			}
			rg := claircore.Range{Lower: pv[lo], Upper: pv[hi]}
			got, want := rg.Contains(&pv[v]), m[lo][v] <= 0 && m[v][hi] < 0
			if got != want {
				r.Fail("", fmt.Sprintf("%s projected-range-membership lower=%s upper=%s v=%s contains=%v, Compare says %v", sc.name, q(strs[lo]), q(strs[hi]), q(strs[v]), got, want))
			}
		}
	}
	if sc.name == "gem" {
		gemCanonical(r, strs[0])
	}
	if sc.name == "maven" && allok {
		// the fragment of the transitivity theorem, as the harness classifies it,
		// against the model's definition (Maven.compat)
		for i := 0; i < 3; i++ {
			for j := i + 1; j < 3; j++ {
				c := mavenCompat(t[i], t[j])
				r.Op("mvncompat "+hexs(strs[i])+" "+hexs(strs[j]), c, true)
				r.Count("maven:compat:" + c)
			}
		}
	}
	distinct := strs[0] != strs[1] && strs[1] != strs[2] && strs[0] != strs[2]
	r.Case(sc.name+" laws "+q(strs[0])+" "+q(strs[1])+" "+q(strs[2]), allok && distinct)
	if !allok {
		return
	}
	wit := func(law string, idx ...int) string {
		var b strings.Builder
		fmt.Fprintf(&b, "%s %s", sc.name, law)
		for _, i := range idx {
			fmt.Fprintf(&b, " %s", q(strs[i]))
		}
		b.WriteString(" cmp=")
		for i := 0; i < len(idx); i++ {
			for j := 0; j < len(idx); j++ {
				if i != j {
					fmt.Fprintf(&b, "%d", m[idx[i]][idx[j]]+1) // 0 1 2 for lt eq gt
				}
			}
		}
		return b.String()
	}
	fail := func(law string, idx ...int) {
		cls := ""
		if sc.class != nil {
			var sub [3]item
			for k := range sub {
				sub[k] = t[idx[k%len(idx)]]
			}
			cls = sc.class(law, sub)
		}
		r.Count(sc.name + ":lawfail:" + law + ":" + cls)
		failCapped(r, cls, wit(law, idx...))
	}
	for i := 0; i < 3; i++ {
		if m[i][i] == 99 {
			fail("panic", i)
			return
		}
		if m[i][i] != 0 {
			fail("reflexive", i)
		}
	}
	for i := 0; i < 3; i++ {
		for j := i + 1; j < 3; j++ {
			if m[i][j] == 99 || m[j][i] == 99 {
				fail("panic", i, j)
				return
			}
			if m[j][i] != -m[i][j] {
				fail("antisymmetric", i, j)
			}
		}
	}
	perms := [][3]int{{0, 1, 2}, {0, 2, 1}, {1, 0, 2}, {1, 2, 0}, {2, 0, 1}, {2, 1, 0}}
	for _, p := range perms {
		i, j, k := p[0], p[1], p[2]
		if m[i][j] <= 0 && m[j][k] <= 0 && m[i][k] > 0 {
			fail("transitive", i, j, k)
			break // one witness per triple
		}
	}
	for _, p := range perms {
		i, j, k := p[0], p[1], p[2]
		if m[i][j] == 0 && m[i][k] != m[j][k] {
			fail("congruent", i, j, k)
			break
		}
	}
}

// features names the model branches a parsed text exercises (for the
// evidence histogram).
func features(scheme, s, canon string) []string {
	var fs []string
	add := func(c bool, name string) {
		if c {
			fs = append(fs, name)
		}
	}
	switch scheme {
	case "pep440":
		first := strings.IndexAny(s, "0123456789")
		add(first > 0 && s[first-1] == 'v', "v-prefix")
		add(first > 1 || (first == 1 && s[0] != 'v'), "junk-before-match")
		add(strings.Contains(s, "!") && strings.HasPrefix(canon, "ok 0 "), "bang-without-epoch")
		add(strings.ContainsAny(s, "ABCDEFGHIJKLMNOPQRSTUVWXYZ"), "uppercase-ignored")
		add(strings.Contains(s, ".."), "double-dot-stops-release")
		add(strings.Contains(canon, "-2147483648") || strings.Contains(canon, "2147483647"), "int32-extreme-slot")
	case "gem":
		add(strings.Contains(canon, "s:"), "prerelease")
		add(strings.Contains(s, "-"), "dash-to-pre")
		add(strings.Count(canon, ":") < strings.Count(strings.TrimSpace(s), ".")+1, "segments-dropped")
		add(canon == "ok", "empty-canonical")
		add(s != strings.TrimSpace(s), "whitespace-trimmed")
	case "maven":
		tree, _ := hx.Unhex(strings.TrimPrefix(canon, "ok "))
		t := string(tree)
		depth, max := 0, 0
		for _, c := range t {
			if c == '[' {
				depth++
				if depth > max {
					max = depth
				}
			} else if c == ']' {
				depth--
			}
		}
		add(true, fmt.Sprintf("depth=%d", min(max, 5)))
		add(strings.Contains(t, "[]") && t != "[]", "kept-empty-sublist")
		add(strings.Contains(t, `"30"`), "string-zero-from-empty-token")
		add(strings.Contains(t, ",0,") || strings.Contains(t, "[0,"), "inner-zero")
	case "rhctag":
		add(strings.HasPrefix(s, "v"), "v-prefix")
		add(strings.Contains(s, "~"), "tilde")
		add(strings.Contains(s, ":"), "colon")
		add(!strings.Contains(s, "."), "major-only")
	}
	return fs
}

// Run is the harness entry point.
func Run(cfg hx.Config) error {
	r, err := hx.NewRun(cfg)
	if err != nil {
		return err
	}
	r.Rule = "per scheme (generic, pep440, gem, maven, rhctag, go-rpm-version, semver) grammar-directed version texts drawn in families that share a small pool of numbers and words; each triple gives 3 parse lines and 6 comparison lines (model vs implementation) and one evaluation of the order laws (reflexive, antisymmetric, transitive over all six arrangements, congruent) on the implementation; plus print-parse, projection monotonicity and range membership checks. A law evaluation is non-trivial when all three texts parse and are pairwise distinct; a protocol line is non-trivial when the parse succeeded / both sides parsed."
	// Fork: hx seeds k and k+1 give the same stream shifted by one draw; forking
	// makes the streams of different seeds unrelated.
	rnd := hx.NewRand(cfg.Seed).Fork()

	witnesses(r)
	if err := corpus(r, cfg.Corpus); err != nil {
		return err
	}

	n := cfg.N(1500, 50000)
	for _, sc := range schemes {
		for i := 0; i < n && !r.Stop(); i++ {
			f := newFamily(rnd)
			a := sc.gen(f)
			b, c := sc.gen(f), sc.gen(f)
			// half of the triples are one text and two small edits of it (or of each other)
			switch rnd.Intn(4) {
			case 0:
				b = f.mutate(a, sc.name)
				c = f.mutate(a, sc.name)
				r.Count(sc.name + ":triple:edits-of-one")
			case 1:
				b = f.mutate(a, sc.name)
				c = f.mutate(b, sc.name)
				r.Count(sc.name + ":triple:edit-chain")
			default:
				r.Count(sc.name + ":triple:family")
			}
			if rnd.Chance(1, 15) {
				c = f.nonASCIIEdit(c)
				r.Count(sc.name + ":triple:non-ascii")
			}
			triple(r, sc, [3]string{a, b, c})
		}
	}
	genericRun(r, rnd, cfg.N(3000, 100000))
	pepExtra(r, rnd, cfg.N(3000, 100000))
	pepRanges(r, rnd, cfg.N(3000, 100000))
	projections(r, rnd, cfg.N(4000, 120000))
	semverRun(r, rnd, cfg.N(3000, 100000))
	osvRun(r, rnd, cfg.N(3000, 80000))

	r.Notes["schemes"] = []string{"claircore.Version", "pkg/pep440", "ruby (gem)", "java (maven)", "pkg/rhctag", "go-rpm-version", "FromSemver"}
	r.Notes["triples_per_scheme"] = n
	return r.Close()
}

// corpus replays minimised witnesses: lines `<scheme> "a" "b" "c"`.
func corpus(r *hx.Run, dir string) error {
	if dir == "" {
		return nil
	}
	files, _ := filepath.Glob(filepath.Join(dir, "*.txt"))
	sort.Strings(files)
	for _, fn := range files {
		f, err := os.Open(fn)
		if err != nil {
			return err
		}
		sc := bufio.NewScanner(f)
		for sc.Scan() {
			line := strings.TrimSpace(sc.Text())
			if line == "" || strings.HasPrefix(line, "#") {
				continue
			}
			name, rest, _ := strings.Cut(line, " ")
			s := schemeByName(name)
			var strs []string
			for rest = strings.TrimSpace(rest); rest != ""; rest = strings.TrimSpace(rest) {
				qs, err := strconv.QuotedPrefix(rest)
				if err != nil {
					break
				}
				u, _ := strconv.Unquote(qs)
				strs = append(strs, u)
				rest = rest[len(qs):]
			}
			if s == nil || len(strs) != 3 {
				f.Close()
				return fmt.Errorf("corpus %s: bad line %q", fn, line)
			}
			triple(r, s, [3]string{strs[0], strs[1], strs[2]})
			r.Count("corpus:" + name)
		}
		f.Close()
	}
	return nil
}

// genericRun: claircore.Version Compare / Range.Contains / String.
func genericRun(r *hx.Run, rnd *hx.Rand, n int) {
	for i := 0; i < n && !r.Stop(); i++ {
		f := newFamily(rnd)
		a := f.generic(nil)
		b := f.generic(&a)
		c := f.generic(&a)
		if rnd.Chance(1, 4) {
			c = f.generic(&b)
		}
		vs := [3]claircore.Version{a, b, c}
		var m [3][3]int
		for i := 0; i < 3; i++ {
			for j := 0; j < 3; j++ {
				x, y := vs[i], vs[j]
				m[i][j] = cmpGuard(func() int { return sgn(x.Compare(&y)) })
				if i != j {
					r.Op("gcmp "+gline(&x)+" "+gline(&y), cmpStr(m[i][j]), true)
					r.Count("generic:cmp:" + cmpStr(m[i][j]))
				}
			}
		}
		key := fmt.Sprintf("generic laws %v %v %v", vs[0], vs[1], vs[2])
		r.Case(key, true)
		for i := 0; i < 3; i++ {
			if m[i][i] != 0 {
				r.Fail("", fmt.Sprintf("generic reflexive %v cmp=%d", vs[i], m[i][i]))
			}
			for j := i + 1; j < 3; j++ {
				if m[j][i] != -m[i][j] {
					r.Fail("", fmt.Sprintf("generic antisymmetric %v %v cmp=%d,%d", vs[i], vs[j], m[i][j], m[j][i]))
				}
				// antisymmetry in the strict sense: equal exactly when kind and all slots coincide
				if (m[i][j] == 0) != (vs[i] == vs[j]) {
					r.Fail("", fmt.Sprintf("generic equal-iff-identical %v %v cmp=%d", vs[i], vs[j], m[i][j]))
				}
			}
		}
		for _, p := range [][3]int{{0, 1, 2}, {0, 2, 1}, {1, 0, 2}, {1, 2, 0}, {2, 0, 1}, {2, 1, 0}} {
			i, j, k := p[0], p[1], p[2]
			if m[i][j] <= 0 && m[j][k] <= 0 && m[i][k] > 0 {
				r.Fail("", fmt.Sprintf("generic transitive %v %v %v", vs[i], vs[j], vs[k]))
				break
			}
			if m[i][j] == 0 && m[i][k] != m[j][k] {
				r.Fail("", fmt.Sprintf("generic congruent %v %v %v", vs[i], vs[j], vs[k]))
				break
			}
		}
		// range membership: every arrangement (lower, upper, v) of the triple
		for _, p := range [][3]int{{0, 1, 2}, {0, 2, 1}, {1, 0, 2}, {1, 2, 0}, {2, 0, 1}, {2, 1, 0}, {0, 0, 1}, {0, 1, 0}, {0, 1, 1}} {
			lo, hi, v := vs[p[0]], vs[p[1]], vs[p[2]]
			rg := claircore.Range{Lower: lo, Upper: hi}
			got := hx.Guard(func() string { return strconv.FormatBool(rg.Contains(&v)) })
			r.Op("gcon "+gline(&lo)+" "+gline(&hi)+" "+gline(&v), got, true)
			want := m[p[0]][p[2]] <= 0 && m[p[2]][p[1]] < 0
			r.Count("generic:contains:" + got)
			if got != strconv.FormatBool(want) {
				r.Fail("", fmt.Sprintf("generic range-membership lower=%v upper=%v v=%v contains=%s want=%v", lo, hi, v, got, want))
			}
		}
		x := vs[i%3]
		r.Op("gstr "+gline(&x), hx.Guard(func() string { return hexs(x.String()) }), true)
		// the copy in toolkit/types (same protocol lines, same model)
		if i%4 == 0 {
			toolkitCopy(r, vs)
		}
	}
	var nilRange *claircore.Range
	v := claircore.Version{}
	if nilRange.Contains(&v) {
		r.Fail("", "generic nil range contains a version")
	}
}

// pepRanges: pkg/pep440/range.go — ParseRange and Range.Match against the
// model, and on the implementation: (1) a range written ">=a,<b" matches
// exactly the versions v with a <= v < b; (2) a specifier built from known
// operators matches v exactly when every part does, each operator meaning
// what it says in terms of Compare ("~=V" being V <= v < U with U = V's
// release without its last segment, the new last one incremented).
func pepRanges(r *hx.Run, rnd *hx.Rand, n int) {
	ops := []string{"==", "!=", "<=", ">=", "<", ">", "~=", ">=", "<", "", "===", "=", "~", "=>", "==", "!="}
	for i := 0; i < n && !r.Stop(); i++ {
		f := newFamily(rnd)
		// plain versions mostly: the epoch separator '!' is read as an operator character
		ver := func() string {
			s := f.pep()
			if rnd.Chance(4, 5) {
				s = strings.NewReplacer("!", "", "~", "", "=", "", "<", "", ">", "", ",", "").Replace(s)
			}
			if rnd.Chance(1, 25) {
				s += f.pick(".*", "*", ".*.*")
			}
			return s
		}
		sp := func() string {
			if rnd.Chance(1, 12) {
				// Unicode white space is stripped as well; U+200B, U+FFFD and ill-formed bytes are not
				return f.pick("\u00a0", "\u2003", "\u0085", "\u3000", "\u200b", "\xa0", "\xc2", "\ufffd", "\xe2\x80")
			}
			return f.pick("", "", "", " ", "  ", "\t")
		}
		type part struct{ op, ver string }
		var parts []part
		halfOpen := false
		switch rnd.Intn(5) {
		case 0:
			parts = []part{{">=", ver()}, {"<", ver()}}
			halfOpen = true
		case 1:
			parts = []part{{ops[rnd.Intn(len(ops))], ver()}}
		case 2:
			parts = []part{{ops[rnd.Intn(len(ops))], ver()}, {ops[rnd.Intn(len(ops))], ver()}}
		case 3:
			for k := 1 + rnd.Intn(4); k > 0; k-- {
				parts = append(parts, part{ops[rnd.Intn(9)], ver()})
			}
		default:
			parts = []part{{"~=", ver()}}
		}
		var sb strings.Builder
		for k, p := range parts {
			if k != 0 {
				sb.WriteString(sp() + "," + sp())
			}
			sb.WriteString(sp() + p.op + sp() + p.ver + sp())
		}
		spec := sb.String()
		damaged := false
		if rnd.Chance(1, 30) {
			spec += f.pick(",", ",,", " ", ">")
			halfOpen, damaged = false, true
		}
		vt := ver()
		if rnd.Chance(1, 3) {
			vt = f.mutate(parts[0].ver, "pep440")
		}
		var rg pep440.Range
		var pv pepV
		out := hx.Guard(func() string {
			var err error
			rg, err = pep440.ParseRange(spec)
			if err != nil {
				return "err"
			}
			pv, _ = pepParse(vt)
			if !pv.ok {
				return "verr"
			}
			return strconv.FormatBool(rg.Match(&pv.v))
		})
		r.Op("peprange "+hexs(spec)+" "+hexs(vt), out, out == "true" || out == "false")
		r.Count("pep440:range:" + out)
		if out == "panic" {
			r.Fail("", fmt.Sprintf("pep440 range panics spec=%s version=%s", q(spec), q(vt)))
			continue
		}
		if halfOpen && (out == "true" || out == "false") && len(rg) == 2 {
			lo, hi := rg[0].V, rg[1].V
			want := lo.Compare(&pv.v) <= 0 && pv.v.Compare(&hi) < 0
			r.Case("pep440 half-open "+q(spec)+" "+q(vt), true)
			if out != strconv.FormatBool(want) {
				r.Fail("", fmt.Sprintf("pep440 range-membership spec=%s version=%s match=%s want=%v", q(spec), q(vt), out, want))
			}
		}
		// the specifier's meaning, computed from the parts as generated
		if damaged || (out != "true" && out != "false") {
			continue
		}
		want, known := true, true
		for _, p := range parts {
			if strings.ContainsAny(p.ver, "~=!<>,") {
				known = false // an operator character inside the version text moves the split
				break
			}
			cv, _ := pepParse(p.ver)
			if !cv.ok {
				known = false
				break
			}
			c := pv.v.Compare(&cv.v)
			switch p.op {
			case "==":
				want = want && c == 0
			case "!=":
				want = want && c != 0
			case "<=":
				want = want && c <= 0
			case ">=":
				want = want && c >= 0
			case "<":
				want = want && c < 0
			case ">":
				want = want && c > 0
			case "~=":
				rel := cv.v.Release
				if len(rel) < 2 {
					known = false
					break
				}
				up := pep440.Version{Epoch: cv.v.Epoch, Release: append([]int(nil), rel[:len(rel)-1]...)}
				up.Release[len(up.Release)-1]++
				want = want && c >= 0 && pv.v.Compare(&up) < 0
			default:
				known = false
			}
		}
		if !known {
			continue
		}
		r.Case("pep440 specifier "+q(spec)+" "+q(vt), true)
		r.Count("pep440:specifier:" + strconv.FormatBool(want))
		if out != strconv.FormatBool(want) {
			r.Fail("", fmt.Sprintf("pep440 specifier spec=%s version=%s match=%s, the operators say %v", q(spec), q(vt), out, want))
		}
	}
	// Range.AND: two conjunctions built from the same base are independent
	// values (repaired: they shared the base's spare capacity), and each is
	// the conjunction of its parts.
	for i := 0; i < n/4 && !r.Stop(); i++ {
		f := newFamily(rnd)
		simple := func() string {
			return strings.NewReplacer("!", "", "~", "", "=", "", "<", "", ">", "", ",", "").Replace(f.pep())
		}
		var parts []string
		for k := 1 + rnd.Intn(4); k > 0; k-- { // 3 parts leave spare capacity behind
			parts = append(parts, f.pick("==", "!=", "<=", ">=", "<", ">", "~=")+simple())
		}
		base := strings.Join(parts, ",")
		x := f.pick("==", "!=", "<=", ">=", "<", ">") + simple()
		y := f.pick("==", "!=", "<=", ">=", "<", ">") + simple()
		vt := simple()
		if rnd.Chance(1, 2) {
			vt = f.mutate(strings.TrimLeft(x, "=!<>"), "pep440")
		}
		var detail string
		out := hx.Guard(func() string {
			rb, err1 := pep440.ParseRange(base)
			rx, err2 := pep440.ParseRange(x)
			ry, err3 := pep440.ParseRange(y)
			if err1 != nil || err2 != nil || err3 != nil {
				return "err"
			}
			pv, _ := pepParse(vt)
			if !pv.ok {
				return "verr"
			}
			r1 := rb.AND(rx)
			s1 := r1.String()
			r2 := rb.AND(ry)
			mb, mx, my := rb.Match(&pv.v), rx.Match(&pv.v), ry.Match(&pv.v)
			m1, m2 := r1.Match(&pv.v), r2.Match(&pv.v)
			if s := r1.String(); s != s1 {
				detail = fmt.Sprintf("base.AND(x) changed from %s to %s after base.AND(y)", q(s1), q(s))
			} else if m1 != (mb && mx) || m2 != (mb && my) {
				detail = fmt.Sprintf("base=%v x=%v y=%v base.AND(x)=%v base.AND(y)=%v", mb, mx, my, m1, m2)
			}
			return fmt.Sprintf("%v %v %v", mb, m1, m2)
		})
		r.Op("pepand "+hexs(base)+" "+hexs(x)+" "+hexs(y)+" "+hexs(vt), out, out != "err" && out != "verr")
		r.Count("pep440:and:" + strings.Fields(out)[0])
		r.Case("pep440 AND "+q(base)+" "+q(x)+" "+q(y)+" "+q(vt), out != "err" && out != "verr")
		if detail != "" {
			r.Fail("", fmt.Sprintf("pep440 Range.AND base=%s x=%s y=%s version=%s: %s", q(base), q(x), q(y), q(vt), detail))
		}
	}
	// the repaired panic: "~=" with one release segment
	out := hx.Guard(func() string {
		if _, err := pep440.ParseRange("~=1"); err != nil {
			return "err"
		}
		return "ok"
	})
	r.Op("peprange "+hexs("~=1")+" "+hexs("1"), out, false)
	if out != "err" {
		r.Fail("", "pep440 ParseRange(\"~=1\") = "+out+", want an error")
	}
	// arbitrary equality is rejected
	for _, s := range []string{"===1.0", "=== 1.0", "===foo1"} {
		out := hx.Guard(func() string {
			if _, err := pep440.ParseRange(s); err != nil {
				return "err"
			}
			return "ok"
		})
		r.Op("peprange "+hexs(s)+" "+hexs("1.0"), out, false)
	}
}

// toolkitCopy drives toolkit/types.Version / Range, the copy of the root
// package's types, on one triple.
func toolkitCopy(r *hx.Run, vs [3]claircore.Version) {
	var ts [3]tktypes.Version
	for i, v := range vs {
		ts[i] = tktypes.Version{Kind: v.Kind, V: v.V}
	}
	for i := 0; i < 3; i++ {
		for j := 0; j < 3; j++ {
			if i == j {
				continue
			}
			x, y := ts[i], ts[j]
			c := cmpGuard(func() int { return sgn(x.Compare(&y)) })
			r.Op("gcmp "+gline(&vs[i])+" "+gline(&vs[j]), cmpStr(c), true)
			a, b := vs[i], vs[j]
			if want := sgn(a.Compare(&b)); c != want {
				r.Fail("", fmt.Sprintf("toolkit/types.Version.Compare differs from claircore.Version.Compare on %v %v: %d vs %d", a, b, c, want))
			}
		}
	}
	lo, hi, v := ts[0], ts[1], ts[2]
	rg := tktypes.Range{Lower: lo, Upper: hi}
	got := hx.Guard(func() string { return strconv.FormatBool(rg.Contains(&v)) })
	r.Op("gcon "+gline(&vs[0])+" "+gline(&vs[1])+" "+gline(&vs[2]), got, true)
	want := lo.Compare(&v) != 1 && v.Compare(&hi) == -1
	if got != strconv.FormatBool(want) {
		r.Fail("", fmt.Sprintf("toolkit range-membership lower=%v upper=%v v=%v contains=%s want=%v", lo, hi, v, got, want))
	}
	r.Op("gstr "+gline(&vs[2]), hx.Guard(func() string { return hexs(v.String()) }), true)
	r.Count("generic:toolkit-copy")
}

// pepExtra: print-parse on the implementation, single parses of a wider
// stream of texts.
func pepExtra(r *hx.Run, rnd *hx.Rand, n int) {
	for i := 0; i < n && !r.Stop(); i++ {
		f := newFamily(rnd)
		s := f.pep()
		pv, canon := pepParse(s)
		r.Op("pep "+hexs(s), canon, pv.ok)
		if !pv.ok {
			r.Count("pep440:single:" + canon)
			continue
		}
		v := pv.v
		shape := ""
		if v.Epoch != 0 {
			shape += "E"
		}
		if v.Pre.Label != "" {
			shape += "P"
		}
		if v.Post != 0 {
			shape += "O"
		}
		if v.Dev != 0 {
			shape += "D"
		}
		if len(v.Release) > 5 {
			shape += "L"
		}
		r.Count("pep440:shape:" + shape)
		printed := v.String()
		pv2, canon2 := pepParse(printed)
		r.Op("pep "+hexs(printed), canon2, pv2.ok)
		r.Case("pep440 print-parse "+q(s), true)
		if !pv2.ok {
			r.Fail("", fmt.Sprintf("pep440 print-parse %s printed=%s does not parse", q(s), q(printed)))
			continue
		}
		w := pv2.v
		if c := cmpGuard(func() int { return v.Compare(&w) }); c != 0 {
			r.Fail("", fmt.Sprintf("pep440 print-parse %s printed=%s compares %d with the original", q(s), q(printed), c))
		}
		if p2 := w.String(); p2 != printed {
			r.Fail("", fmt.Sprintf("pep440 print-parse %s printed=%s reprinted=%s", q(s), q(printed), q(p2)))
		}
	}
}
