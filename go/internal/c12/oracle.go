package c12

// Direct statement oracles that need more than the comparison matrix:
// projection monotonicity (rhctag, semver -> generic), classification of
// failures into the listed findings, and the replay of the findings'
// witnesses on every run.

import (
	"fmt"
	"math/big"
	"regexp"
	"strconv"
	"strings"

	"github.com/quay/claircore"
	"github.com/quay/claircore/pkg/pep440"
	"github.com/quay/claircore/verifharness/internal/hx"
)

// ---- Maven component trees (parsed back from (*component).String)

type mnode struct {
	kind int // 0 int, 1 string, 2 list
	zero bool
	list []mnode
}

func parseTree(s string) (n mnode, rest string, ok bool) {
	switch {
	case s == "":
		return n, s, false
	case s[0] == '[':
		n.kind = 2
		s = s[1:]
		if strings.HasPrefix(s, "]") {
			return n, s[1:], true
		}
		for {
			c, r, ok := parseTree(s)
			if !ok {
				return n, s, false
			}
			n.list = append(n.list, c)
			s = r
			if strings.HasPrefix(s, ",") {
				s = s[1:]
				continue
			}
			if strings.HasPrefix(s, "]") {
				return n, s[1:], true
			}
			return n, s, false
		}
	case s[0] == '"':
		qs, err := strconv.QuotedPrefix(s)
		if err != nil {
			return n, s, false
		}
		n.kind = 1
		return n, s[len(qs):], true
	default:
		i := 0
		for i < len(s) && s[i] >= '0' && s[i] <= '9' {
			i++
		}
		if i == 0 {
			return n, s, false
		}
		n.kind = 0
		n.zero = strings.Trim(s[:i], "0") == ""
		return n, s[i:], true
	}
}

type meets struct{ strList, zeroStr, zeroList bool }

// meet walks two lists position by position, as component.Compare aligns
// them, and records which unlike kinds stand at the same position.
func meet(a, b []mnode, m *meets) {
	for i := 0; i < len(a) && i < len(b); i++ {
		x, y := a[i], b[i]
		if x.kind > y.kind {
			x, y = y, x
		}
		switch {
		case x.kind == 1 && y.kind == 2:
			m.strList = true
		case x.kind == 0 && x.zero && y.kind == 1:
			m.zeroStr = true
		case x.kind == 0 && x.zero && y.kind == 2:
			m.zeroList = true
		case x.kind == 2 && y.kind == 2:
			meet(x.list, y.list, m)
		}
	}
}

// mavenCompat renders whether two parsed versions are free of such meetings.
func mavenCompat(a, b item) string {
	x, r1, ok1 := parseTree(a.val.(mvnV).tree)
	y, r2, ok2 := parseTree(b.val.(mvnV).tree)
	if !ok1 || !ok2 || r1 != "" || r2 != "" {
		return "tree-unreadable"
	}
	var m meets
	meet(x.list, y.list, &m)
	return strconv.FormatBool(!(m.strList || m.zeroStr || m.zeroList))
}

// mavenClass: a transitivity (or congruence) failure is of a listed class
// exactly when two of the three versions have, at the same position, a
// string against a list (maven-intransitive) or a zero number against a
// string or a list (maven-zero-intransitive).  Triples without such a meeting
// are proved transitive (Props.C12.maven_cmp_trans_partial), so a failure
// there stays unclassified.
func mavenClass(law string, t [3]item) string {
	if law != "transitive" && law != "congruent" {
		return ""
	}
	var trees [3]mnode
	for i := range t {
		n, rest, ok := parseTree(t[i].val.(mvnV).tree)
		if !ok || rest != "" {
			return ""
		}
		trees[i] = n
	}
	var m meets
	for i := 0; i < 3; i++ {
		for j := i + 1; j < 3; j++ {
			meet(trees[i].list, trees[j].list, &m)
		}
	}
	switch {
	case m.strList:
		return "maven-intransitive"
	case m.zeroStr || m.zeroList:
		return "maven-zero-intransitive"
	}
	return ""
}

// ---- PEP 440 order, stated on the parsed fields without going through Version()

// pepSpecCmp orders two parsed versions by PEP 440's rules (a field that is 0
// is an absent segment, as the parser reads it): epoch; release with missing
// components as 0; a lone dev release before every pre-release, pre-releases
// a < b < rc by number before the final release; a post release after it, by
// number; a dev release before the thing it is a dev release of.  ok = both
// have at most five release components and every number is below 2^31 (what
// the ten int32 slots can hold).
func pepSpecCmp(a, b pep440.Version) (int, bool) {
	small := func(v pep440.Version) bool {
		if len(v.Release) > 5 {
			return false
		}
		for _, n := range append([]int{v.Epoch, v.Pre.N, v.Post, v.Dev}, v.Release...) {
			if n < 0 || n >= 1<<31-1 {
				return false
			}
		}
		return true
	}
	if !small(a) || !small(b) {
		return 0, false
	}
	key := func(v pep440.Version) []int64 {
		k := []int64{int64(v.Epoch)}
		for i := 0; i < 5; i++ {
			if i < len(v.Release) {
				k = append(k, int64(v.Release[i]))
			} else {
				k = append(k, 0)
			}
		}
		switch {
		case v.Pre.Label == "" && v.Post == 0 && v.Dev != 0:
			k = append(k, -1, 0)
		case v.Pre.Label == "":
			k = append(k, 3, 0)
		default:
			k = append(k, int64(strings.Index("a b rc", v.Pre.Label)/2), int64(v.Pre.N))
		}
		k = append(k, int64(v.Post))
		if v.Dev == 0 {
			k = append(k, 1<<40)
		} else {
			k = append(k, int64(v.Dev))
		}
		return k
	}
	ka, kb := key(a), key(b)
	for i := range ka {
		if ka[i] != kb[i] {
			if ka[i] < kb[i] {
				return -1, true
			}
			return 1, true
		}
	}
	return 0, true
}

// ---- RubyGems: normalised forms agree

// gemCanonical: appending a zero segment does not change the canonical
// segments ("1.2" and "1.2.0"), nor does a zero segment directly before the
// first letter of a prerelease version ("1.0.a" and "1.a").
func gemCanonical(r *hx.Run, s string) {
	if s == "" || strings.TrimSpace(s) != s {
		return
	}
	v, canon := gemParse(s)
	if !v.ok {
		return
	}
	check := func(what, t string) {
		w, canon2 := gemParse(t)
		if !w.ok {
			return
		}
		r.Case("gem canonical "+what+" "+q(s)+" "+q(t), true)
		r.Count("gem:canonical:" + what)
		if canon != canon2 {
			r.Fail("", fmt.Sprintf("gem canonical %s: %s has segments [%s], %s has [%s]", what, q(s), canon, q(t), canon2))
		} else if c := cmpGuard(func() int { return v.v.Compare(w.v) }); c != 0 {
			r.Fail("", fmt.Sprintf("gem canonical %s: %s and %s compare %d", what, q(s), q(t), c))
		}
	}
	check("trailing-zero", s+".0")
	check("trailing-zeros", s+".0.00")
	// a zero segment in front of the first letter segment (no letter before it)
	parts := strings.Split(strings.ReplaceAll(s, "-", ".pre."), ".")
	for i, p := range parts {
		if p == "" {
			return
		}
		isNum := strings.Trim(p, "0123456789") == ""
		if !isNum {
			if i > 0 {
				withZero := strings.Join(append(append(append([]string{}, parts[:i]...), "0"), parts[i:]...), ".")
				check("zero-before-letter", withZero)
			}
			return
		}
	}
}

// ---- rhctag projection

var rpmTok = regexp.MustCompile("([a-zA-Z]+)|([0-9]+)|(~)")

// rhcPlain is the hypothesis of Props.C12.rhctag_projection_monotone_partial
// (Model/RhcTag.lean `plain`), evaluated on the parsed tag: no ':' in the
// text; the rpm tokens of the text before the first '-' are, after an
// optional "v" token, the number Major, then nothing (and Minor = 0) or the
// number Minor; both below 2^31.  Returns "v", "plain" or "no".
func rhcPlain(t rhcV) string {
	s := t.v.Original
	if strings.Contains(s, ":") {
		return "no"
	}
	ver, _, _ := strings.Cut(s, "-")
	toks := rpmTok.FindAllString(ver, -1)
	kind := "plain"
	if len(toks) > 0 && toks[0] == "v" {
		kind = "v"
		toks = toks[1:]
	}
	isNum := func(tok string, want int) bool {
		if tok[0] < '0' || tok[0] > '9' {
			return false
		}
		n, ok := new(big.Int).SetString(tok, 10)
		return ok && n.IsInt64() && n.Int64() == int64(want) && want < 1<<31
	}
	if len(toks) == 0 || !isNum(toks[0], t.v.Major) {
		return "no"
	}
	if len(toks) == 1 {
		if t.v.Minor != 0 {
			return "no"
		}
		return kind
	}
	if !isNum(toks[1], t.v.Minor) {
		return "no"
	}
	return kind
}

// rhcShape is the string-level fragment (Model/RhcTag.lean `shapeNums`,
// Props.C12.rhctag_shape_plain): evaluated on the TEXT alone, without looking
// at what Parse returned.  No ':'; an optional "v"; digits; then the end, a
// '-', or '.' followed by the end / '-' (no minor) or by digits and the end /
// '-' / '.'; both numbers below 2^31.
func rhcShape(s string) (v bool, major, minor int64, ok bool) {
	if strings.Contains(s, ":") {
		return
	}
	b := s
	if strings.HasPrefix(b, "v") {
		v, b = true, b[1:]
	}
	digits := func(t string) int {
		i := 0
		for i < len(t) && t[i] >= '0' && t[i] <= '9' {
			i++
		}
		return i
	}
	val := func(t string) (int64, bool) {
		n, good := new(big.Int).SetString(t, 10)
		if !good || !n.IsInt64() || n.Int64() >= 1<<31 {
			return 0, false
		}
		return n.Int64(), true
	}
	i := digits(b)
	if i == 0 {
		return
	}
	var good bool
	if major, good = val(b[:i]); !good {
		return
	}
	rest := b[i:]
	switch {
	case rest == "" || rest[0] == '-':
		return v, major, 0, true
	case rest[0] == '.':
		r1 := rest[1:]
		j := digits(r1)
		if j == 0 {
			return v, major, 0, r1 == "" || r1[0] == '-'
		}
		if minor, good = val(r1[:j]); !good {
			return
		}
		r2 := r1[j:]
		if r2 == "" || r2[0] == '-' || r2[0] == '.' {
			return v, major, minor, true
		}
	}
	return v, 0, 0, false
}

func rhcShapeStr(s string) string {
	v, M, m, ok := rhcShape(s)
	switch {
	case !ok:
		return "no"
	case v:
		return fmt.Sprintf("v %d %d", M, m)
	}
	return fmt.Sprintf("plain %d %d", M, m)
}

// rhcFragment: the prefix kind ("v" / "plain") of a tag inside a proved
// fragment — the string-level shape, or the token-level `plain` — else "no".
func rhcFragment(t rhcV) string {
	if v, _, _, ok := rhcShape(t.v.Original); ok {
		if v {
			return "v"
		}
		return "plain"
	}
	return rhcPlain(t)
}

// rhcWhy describes a tag outside the fragment, for the finding classes:
//   "wrap"       a leading number of the text is >= 2^31 (int32 conversion wraps / Atoi fails)
//   "nonnumeric" anything else (sign, letters, tilde, empty component, epoch colon)
func rhcWhy(s string) string {
	s = strings.TrimPrefix(s, "v")
	for k := 0; k < 2; k++ {
		i := 0
		for i < len(s) && s[i] >= '0' && s[i] <= '9' {
			i++
		}
		if i == 0 {
			return "nonnumeric"
		}
		d := strings.TrimLeft(s[:i], "0")
		if len(d) > 10 || (len(d) == 10 && d > "2147483647") {
			return "wrap"
		}
		s = s[i:]
		if k == 0 {
			if s == "" || s[0] != '.' {
				break
			}
			s = s[1:]
		}
	}
	return "nonnumeric"
}

// rhcClass names the listed finding a projection inversion belongs to; a
// pair inside a proved fragment (both of the string-level shape, or both
// plain, same prefix) stays unclassified.  The shape is decided on the text
// alone, so a Parse that returns the wrong numbers for a well-shaped tag
// cannot talk its way into a known class.
func rhcClass(a, b rhcV) string {
	pa, pb := rhcFragment(a), rhcFragment(b)
	switch {
	case pa != "no" && pb != "no" && pa == pb:
		return ""
	case pa != "no" && pb != "no":
		return "rhctag-projection-inverts" // mixed v prefix
	}
	why := "nonnumeric"
	for i, p := range []string{pa, pb} {
		if p == "no" && rhcWhy([]rhcV{a, b}[i].v.Original) == "wrap" {
			why = "wrap"
		}
	}
	if why == "wrap" {
		return "rhctag-projection-int32-wrap"
	}
	return "rhctag-projection-nonnumeric"
}

// failCapped reports a classified failure a few times per class only (the
// histogram keeps the full count); unclassified ones are always reported.
var classSeen = map[string]int{}

func failCapped(r *hx.Run, cls, wit string) {
	if cls != "" {
		classSeen[cls]++
		if classSeen[cls] > 3 {
			return
		}
	}
	r.Fail(cls, wit)
}

// rhcPair: Compare(a,b) < 0 must not come with projection(a) > projection(b)
// (either bound).  Returns false when a text does not parse.
func rhcPair(r *hx.Run, a, b string, how string) bool {
	ra, ca := rhcParse(a)
	rb, cb := rhcParse(b)
	if how != "random" {
		// derived texts: their parses are protocol lines too
		r.Op("rhc "+hexs(a), ca, ra.ok)
		r.Op("rhc "+hexs(b), cb, rb.ok)
	}
	if !ra.ok || !rb.ok {
		return false
	}
	x, y := ra.v, rb.v
	c := cmpGuard(func() int { return sgn(x.Compare(&y)) })
	if how != "random" {
		r.Op("rhccmp "+hexs(a)+" "+hexs(b), cmpStr(c), true)
	}
	r.Case("rhctag projection "+q(a)+" "+q(b), c != 0)
	if c == 99 {
		r.Fail("", fmt.Sprintf("rhctag compare panics %s %s", q(a), q(b)))
		return true
	}
	for _, min := range []bool{true, false} {
		px, py := x.Version(min), y.Version(min)
		pc := px.Compare(&py)
		if min {
			r.Count(fmt.Sprintf("rhctag:proj:%s:cmp=%d,proj=%d", how, c, pc))
		}
		if c != 0 && pc == -c {
			cls := rhcClass(ra, rb)
			r.Count("rhctag:proj:inverted:" + cls)
			failCapped(r, cls, fmt.Sprintf("rhctag projection-inverts %s %s compare=%d Version(%v)=%v,%v", q(a), q(b), c, min, px.V[:3], py.V[:3]))
			break
		}
	}
	return true
}

func projections(r *hx.Run, rnd *hx.Rand, n int) {
	for i := 0; i < n && !r.Stop(); i++ {
		f := newFamily(rnd)
		a, b := f.rhc(), f.rhc()
		if rnd.Chance(1, 3) {
			b = f.mutate(a, "rhctag")
		}
		for _, s := range []string{a, b} {
			// the string-level fragment, harness against model: decided on the text alone
			sh := rhcShapeStr(s)
			r.Op("rhcshape "+hexs(s), sh, sh != "no")
			r.Count("rhctag:shape:" + strings.Fields(sh)[0])
		}
		if !rhcPair(r, a, b, "random") {
			continue
		}
		ra, _ := rhcParse(a)
		rb, _ := rhcParse(b)
		// the token-level fragment of the projection theorem, harness against model
		for _, t := range []rhcV{ra, rb} {
			pl := rhcPlain(t)
			r.Op("rhcplain "+hexs(t.v.Original), pl, pl != "no")
			r.Count("rhctag:plain:" + pl)
		}
		// neighbours: a well-shaped tag against the bare tags one minor / one major
		// away (same prefix).  Whatever Parse makes of the tag's release part, its
		// projection must stay between theirs.
		if v, M, m, ok := rhcShape(a); ok && i%2 == 0 {
			pre := ""
			if v {
				pre = "v"
			}
			rel := f.pick("", "", "-1", "-"+f.rhcRelease())
			var nb []string
			if m > 0 {
				nb = append(nb, fmt.Sprintf("%s%d.%d%s", pre, M, m-1, rel))
			}
			if m+1 < 1<<31 {
				nb = append(nb, fmt.Sprintf("%s%d.%d%s", pre, M, m+1, rel))
			}
			if M > 0 {
				nb = append(nb, fmt.Sprintf("%s%d.%d%s", pre, M-1, m, rel))
			}
			if M+1 < 1<<31 {
				nb = append(nb, fmt.Sprintf("%s%d.%d%s", pre, M+1, m, rel))
			}
			for _, b := range nb {
				rhcPair(r, a, b, "neighbour")
			}
			r.Count("rhctag:neighbours")
		}
	}
	// semver -> generic: semver.Compare(a,b) < 0 must not come with FromSemver(a) > FromSemver(b)
	for i := 0; i < n && !r.Stop(); i++ {
		f := newFamily(rnd)
		a, b := f.sem(), f.sem()
		sa, sb := semParse(a), semParse(b)
		if !sa.ok || !sb.ok {
			r.Count("semver:parse:err")
			continue
		}
		r.Op(fmt.Sprintf("sem %d %d %d", sa.v.Major(), sa.v.Minor(), sa.v.Patch()), ints32(sa.c.V), true)
		c := sgn(sa.v.Compare(sb.v))
		pc := sa.c.Compare(&sb.c)
		r.Case("semver projection "+q(a)+" "+q(b), c != 0)
		r.Count(fmt.Sprintf("semver:proj:cmp=%d,proj=%d", c, pc))
		if sa.c.Kind != "semver" {
			r.Fail("", fmt.Sprintf("semver kind %s", q(sa.c.Kind)))
		}
		if c != 0 && pc == -c {
			r.Fail("", fmt.Sprintf("semver projection-inverts %s %s compare=%d projections=%v,%v", q(a), q(b), c, sa.c.V[1:4], sb.c.V[1:4]))
		}
		if semBig(sa) || semBig(sb) {
			r.Count("semver:proj:saturated")
		}
		// equal numeric cores must project equally
		if sa.v.Major() == sb.v.Major() && sa.v.Minor() == sb.v.Minor() && sa.v.Patch() == sb.v.Patch() && pc != 0 {
			r.Fail("", fmt.Sprintf("semver equal cores project differently %s %s", q(a), q(b)))
		}
	}
}

func semBig(s semV) bool {
	const lim = 1 << 31
	return s.v.Major() >= lim || s.v.Minor() >= lim || s.v.Patch() >= lim
}

// ---- witnesses of the listed findings, replayed on every run

func witnesses(r *hx.Run) {
	// maven-intransitive: "1.sp" > "1" > "1-alpha" but "1.sp" < "1-alpha"
	mv := schemeByName("maven")
	mcmp := func(a, b string) int {
		x, _ := mvnParse(a)
		y, _ := mvnParse(b)
		if !x.ok || !y.ok {
			return 98
		}
		return cmpGuard(func() int { return x.v.Compare(y.v) })
	}
	if mcmp("1.sp", "1") == 1 && mcmp("1", "1-alpha") == 1 && mcmp("1.sp", "1-alpha") == -1 {
		r.KnownSeen("maven-intransitive", `"1.sp" > "1" > "1-alpha" but "1.sp" < "1-alpha"`)
	}
	triple(r, mv, [3]string{"1.sp", "1", "1-alpha"})
	if mcmp("1.0.alpha", "1") == -1 && mcmp("1", "1.sp") == -1 && mcmp("1.0.alpha", "1.sp") == 1 {
		r.KnownSeen("maven-zero-intransitive", `"1.0.alpha" < "1" < "1.sp" but "1.0.alpha" > "1.sp"`)
	}
	triple(r, mv, [3]string{"1.0.alpha", "1", "1.sp"})
	triple(r, mv, [3]string{"1-sp", "1", "1.0.alpha"})

	// rhctag-projection-inverts: v4.9.0-1 < 4.8.0-1 by Compare, projections (4,9) > (4,8)
	a, _ := rhcParse("v4.9.0-1")
	b, _ := rhcParse("4.8.0-1")
	if a.ok && b.ok {
		pa, pb := a.v.Version(true), b.v.Version(true)
		if a.v.Compare(&b.v) == -1 && pa.Compare(&pb) == 1 {
			r.KnownSeen("rhctag-projection-inverts", `Compare("v4.9.0-1","4.8.0-1") = -1 but Version(true) gives (4,9) > (4,8)`)
		}
	}
	triple(r, schemeByName("rhctag"), [3]string{"v4.9.0-1", "4.8.0-1", "4.9.0-1"})
	rhcWitness := func(id, a, b string, what string) {
		x, _ := rhcParse(a)
		y, _ := rhcParse(b)
		if !x.ok || !y.ok {
			return
		}
		px, py := x.v.Version(true), y.v.Version(true)
		if c := x.v.Compare(&y.v); c != 0 && px.Compare(&py) == -c {
			r.KnownSeen(id, what)
		}
	}
	// regression inputs: tags with several dashes (the revision is cut at the first one)
	for _, p := range [][2]string{{"8.5-21.1645811927", "8.6-7-source"}, {"8.6-7", "8.6-7-source"}, {"v4.7.0-202112140553.p0.g091bb99.assembly.stream-source", "v4.6.0-1"}, {"4.010-1", "4.9-1"}} {
		rhcPair(r, p[0], p[1], "witness")
	}
	rhcWitness("rhctag-projection-nonnumeric", "4.5x", "4.3", `Compare("4.5x","4.3") = 1 but Version(true) gives (4,0) < (4,3)`)
	rhcWitness("rhctag-projection-int32-wrap", "2147483648.0", "1.0", `Compare("2147483648.0","1.0") = 1 but Version(true) gives (-2147483648,0) < (1,0)`)

	// repaired (fix: FromSemver saturates): 2147483648.0.0 used to project below 1.0.0,
	// and component-wise clamping alone still inverted 2147483653.9.0 / 2147483654.1.0
	for _, p := range [][2]string{{"2147483648.0.0", "1.0.0"}, {"2147483653.9.0", "2147483654.1.0"}, {"1.2147483648.7", "1.2147483649.3"}} {
		x, y := semParse(p[0]), semParse(p[1])
		if !x.ok || !y.ok {
			r.Fail("", "semver witness does not parse "+q(p[0])+" "+q(p[1]))
			continue
		}
		r.Op(fmt.Sprintf("sem %d %d %d", x.v.Major(), x.v.Minor(), x.v.Patch()), ints32(x.c.V), true)
		r.Op(fmt.Sprintf("sem %d %d %d", y.v.Major(), y.v.Minor(), y.v.Patch()), ints32(y.c.V), true)
		if c, pc := sgn(x.v.Compare(y.v)), x.c.Compare(&y.c); c != 0 && pc == -c {
			r.Fail("", fmt.Sprintf("semver projection-inverts %s %s compare=%d projections=%v,%v", q(p[0]), q(p[1]), c, x.c.V[1:4], y.c.V[1:4]))
		}
	}
	_ = claircore.Version{}
}
