package c12

// Calls into the real code, with the canonical (line-protocol) rendering of
// each answer.  Every call runs under hx.Guard: a panic is the observation
// "panic".

import (
	"fmt"
	"strconv"
	"strings"

	"github.com/Masterminds/semver"
	rpmVersion "github.com/knqyf263/go-rpm-version"

	"github.com/quay/claircore"
	"github.com/quay/claircore/java"
	"github.com/quay/claircore/pkg/pep440"
	"github.com/quay/claircore/pkg/rhctag"
	"github.com/quay/claircore/ruby"
	"github.com/quay/claircore/verifharness/internal/hx"
)

func hexs(s string) string { return hx.Hex([]byte(s)) }

func ints32(v [10]int32) string {
	var b strings.Builder
	for i, x := range v {
		if i != 0 {
			b.WriteByte(',')
		}
		b.WriteString(strconv.FormatInt(int64(x), 10))
	}
	return b.String()
}

func intsN(v []int) string {
	var b strings.Builder
	for i, x := range v {
		if i != 0 {
			b.WriteByte(',')
		}
		b.WriteString(strconv.Itoa(x))
	}
	return b.String()
}

// gline renders a claircore.Version as two protocol words.
func gline(v *claircore.Version) string { return hexs(v.Kind) + " " + ints32(v.V) }

func sgn(x int) int {
	switch {
	case x < 0:
		return -1
	case x > 0:
		return 1
	}
	return 0
}

// cmpGuard runs a comparison; 99 stands for a panic.
func cmpGuard(f func() int) (res int) {
	defer func() {
		if e := recover(); e != nil {
			res = 99
		}
	}()
	return f()
}

func cmpStr(c int) string {
	if c == 99 {
		return "panic"
	}
	return strconv.Itoa(c)
}

// ---- pep440

type pepV struct {
	ok bool
	v  pep440.Version
}

func pepParse(s string) (pv pepV, canon string) {
	canon = hx.Guard(func() string {
		v, err := pep440.Parse(s)
		if err != nil {
			return "err"
		}
		pv = pepV{true, v}
		label := v.Pre.Label
		if label == "" {
			label = "-"
		}
		c := v.Version()
		return fmt.Sprintf("ok %d %s %s %d %d %d | %s | %s", v.Epoch, intsN(v.Release), label, v.Pre.N, v.Post, v.Dev,
			ints32(c.V), hexs(v.String()))
	})
	return pv, canon
}

// ---- gem

type gemV struct {
	ok bool
	v  ruby.Version
}

func gemParse(s string) (gv gemV, canon string) {
	canon = hx.Guard(func() string {
		v, err := ruby.NewVersion(s)
		if err != nil {
			return "err"
		}
		gv = gemV{true, v}
		segs := v.SegmentsForVerif()
		if segs == "" {
			return "ok"
		}
		return "ok " + segs
	})
	return gv, canon
}

// ---- maven

type mvnV struct {
	ok   bool
	v    java.MavenVersionForVerif
	tree string
}

func mvnParse(s string) (mv mvnV, canon string) {
	canon = hx.Guard(func() string {
		v, err := java.ParseMavenVersionForVerif(s)
		if err != nil {
			return "err"
		}
		mv = mvnV{true, v, v.TreeHex()}
		return "ok " + hexs(mv.tree)
	})
	return mv, canon
}

// ---- rhctag

type rhcV struct {
	ok bool
	v  rhctag.Version
}

func rhcParse(s string) (rv rhcV, canon string) {
	canon = hx.Guard(func() string {
		v, err := rhctag.Parse(s)
		if err != nil {
			return "err"
		}
		rv = rhcV{true, v}
		lo, hi := v.Version(true), v.Version(false)
		return fmt.Sprintf("ok %d %d | %s | %s", v.Major, v.Minor, ints32(lo.V), ints32(hi.V))
	})
	return rv, canon
}

func rpmCompare(a, b string) int {
	return cmpGuard(func() int {
		x, y := rpmVersion.NewVersion(a), rpmVersion.NewVersion(b)
		return sgn(x.Compare(y))
	})
}

// ---- semver

type semV struct {
	ok bool
	v  *semver.Version
	c  claircore.Version
}

func semParse(s string) (sv semV) {
	defer func() {
		if e := recover(); e != nil {
			sv = semV{}
		}
	}()
	v, err := semver.NewVersion(s)
	if err != nil {
		return semV{}
	}
	return semV{true, v, claircore.FromSemver(v)}
}
