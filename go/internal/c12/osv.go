package c12

// Semantic versions in front of claircore.Version: Masterminds/semver
// (NewVersion, Compare, IncPatch) and claircore.FromSemver, gobin.ParseVersion,
// and the SEMVER branch of the OSV updater's (*ecs).Insert (events -> ranges).
//
// Correspondence: `semparse`, `semcmp`, `seminc`, `gobin`, `osv`, `osvhit`
// lines against Model/Semver.lean and Model/OsvRange.lean.  Oracles on the
// implementation: the ranges Insert produces for a list of intervals cover
// exactly (clean inputs) / at most (all inputs) the versions the intervals
// describe; gobin.ParseVersion and FromSemver(NewVersion) never order two
// versions in opposite ways.

import (
	"context"
	"fmt"
	"sort"
	"strconv"
	"strings"

	"github.com/Masterminds/semver"

	"github.com/quay/claircore"
	"github.com/quay/claircore/gobin"
	"github.com/quay/claircore/updater/osv"
	"github.com/quay/claircore/verifharness/internal/hx"
)

// ---- single versions

func semParseLine(s string) string {
	return hx.Guard(func() string {
		v, err := semver.NewVersion(s)
		if err != nil {
			return "err"
		}
		c := claircore.FromSemver(v)
		return fmt.Sprintf("ok %d %d %d %s %s | %s %s", v.Major(), v.Minor(), v.Patch(), hexs(v.Prerelease()), hexs(v.Metadata()),
			hexs(c.Kind), ints32(c.V))
	})
}

func semIncLine(s string) string {
	return hx.Guard(func() string {
		v, err := semver.NewVersion(s)
		if err != nil {
			return "err"
		}
		n := v.IncPatch()
		c := claircore.FromSemver(&n)
		return fmt.Sprintf("ok %d %d %d %s %s | %s", n.Major(), n.Minor(), n.Patch(), hexs(n.Prerelease()), hexs(n.Metadata()), ints32(c.V))
	})
}

func gobinLine(s string) (claircore.Version, bool, string) {
	var c claircore.Version
	ok := false
	out := hx.Guard(func() string {
		v, err := gobin.ParseVersion(s)
		if err != nil {
			return "err"
		}
		c, ok = v, true
		return hexs(v.Kind) + " " + ints32(v.V)
	})
	return c, ok, out
}

// digitsAtMost9 reports whether every number of the version text has at most
// nine digits (then fitInt32 does not cut anything).
func numsAtMost9(s string) bool {
	core := strings.TrimPrefix(s, "v")
	if i := strings.IndexAny(core, "-+"); i >= 0 {
		core = core[:i]
	}
	for _, p := range strings.Split(core, ".") {
		if len(p) > 9 {
			return false
		}
	}
	return true
}

// semverRun: parse / compare / IncPatch lines, gobin.ParseVersion against
// FromSemver(NewVersion), and the order oracle for the gobin projection.
func semverRun(r *hx.Run, rnd *hx.Rand, n int) {
	// finding gobin-parseversion-truncates, replayed
	{
		a, aok, _ := gobinLine("1.0.1000000000")
		b, bok, _ := gobinLine("1.0.999999999")
		sa, sb := semParse("1.0.1000000000"), semParse("1.0.999999999")
		if aok && bok && sa.ok && sb.ok && sa.v.Compare(sb.v) == 1 && a.Compare(&b) == -1 {
			r.KnownSeen("gobin-parseversion-truncates", `semver "1.0.1000000000" > "1.0.999999999" but gobin.ParseVersion gives (1,0,100000000) < (1,0,999999999)`)
		}
	}
	for i := 0; i < n && !r.Stop(); i++ {
		f := newFamily(rnd)
		a, b := f.sem(), f.sem()
		if rnd.Chance(1, 3) {
			b = f.mutate(a, "semver")
		}
		if rnd.Chance(1, 12) {
			a = f.pick("", "v", "1.", "1..2", "1.2.3.4", "1.2-", "1.2+", "1.2-a..b", "1.2-a+b+c", "01.002.0003", "1.2.3-01", "1.2.3-1", "1.2.3-a_b",
				"V1", "vv1", " 1", "1 ", "1.2.3-ä", "1.2.3-\xff", "9223372036854775807.0.0", "9223372036854775808.0.0", "1.0.9223372036854775807",
				"1.2.3-99999999999999999999", "1.2.3-18446744073709551615", "1.2.3--1", "1.2.3-+b", "1.-2")
		}
		for _, s := range []string{a, b} {
			out := semParseLine(s)
			r.Op("semparse "+hexs(s), out, out != "err")
			r.Count("semver:parse:" + strings.Fields(out)[0])
			r.Op("seminc "+hexs(s), semIncLine(s), out != "err")
			gv, gok, gout := gobinLine(s)
			r.Op("gobin "+hexs(s), gout, gok)
			sv := semParse(s)
			// gobin.ParseVersion is the matcher-side normalisation of what the OSV
			// updater normalises with FromSemver(NewVersion): on texts both accept,
			// with numbers of at most nine digits, they must be the same value.
			if gok && sv.ok {
				r.Case("gobin agrees "+q(s), true)
				if numsAtMost9(s) {
					r.Count("gobin:agree:checked")
					if gv != sv.c {
						r.Fail("", fmt.Sprintf("gobin.ParseVersion(%s)=%v differs from FromSemver(NewVersion)=%v", q(s), gv.V[1:4], sv.c.V[1:4]))
					}
				} else {
					r.Count("gobin:agree:long-number")
				}
			}
			// the two expressions are the same text; NewVersion additionally fails on numbers >= 2^63
			if (sv.ok && !gok) || (gok && !sv.ok && !gobinOnly(s)) {
				r.Fail("", fmt.Sprintf("gobin.ParseVersion and semver.NewVersion accept different texts: %s gobin=%v semver=%v", q(s), gok, sv.ok))
			}
		}
		sa, sb := semParse(a), semParse(b)
		if sa.ok && sb.ok {
			c := cmpGuard(func() int { return sgn(sa.v.Compare(sb.v)) })
			r.Op("semcmp "+hexs(a)+" "+hexs(b), cmpStr(c), true)
			r.Count("semver:cmp:" + cmpStr(c))
			// order oracle for the gobin projection
			ga, aok, _ := gobinLine(a)
			gb, bok, _ := gobinLine(b)
			if aok && bok {
				pc := ga.Compare(&gb)
				r.Case("gobin projection "+q(a)+" "+q(b), c != 0)
				if c != 0 && pc == -c {
					cls := ""
					if !numsAtMost9(a) || !numsAtMost9(b) {
						cls = "gobin-parseversion-truncates"
					}
					r.Count("gobin:proj:inverted:" + cls)
					failCapped(r, cls, fmt.Sprintf("gobin projection-inverts %s %s compare=%d projections=%v,%v", q(a), q(b), c, ga.V[1:4], gb.V[1:4]))
				}
			}
		} else {
			r.Op("semcmp "+hexs(a)+" "+hexs(b), "err", false)
		}
	}
}

// gobinOnly: texts gobin.ParseVersion accepts and NewVersion rejects — a
// number that does not fit an int64.
func gobinOnly(s string) bool {
	core := strings.TrimPrefix(s, "v")
	if i := strings.IndexAny(core, "-+"); i >= 0 {
		core = core[:i]
	}
	for _, p := range strings.Split(core, ".") {
		if _, err := strconv.ParseInt(p, 10, 64); err != nil && p != "" {
			return true
		}
	}
	return false
}

// ---- OSV events

type osvEv struct{ i, f, l, m string }

func evsWord(evs []osvEv) string {
	if len(evs) == 0 {
		return "none"
	}
	var parts []string
	for _, e := range evs {
		var fs []string
		for _, p := range [][2]string{{"i", e.i}, {"f", e.f}, {"l", e.l}, {"m", e.m}} {
			if p[1] != "" {
				fs = append(fs, p[0]+":"+hexs(p[1]))
			}
		}
		if len(fs) == 0 {
			parts = append(parts, "e")
		} else {
			parts = append(parts, strings.Join(fs, "+"))
		}
	}
	return strings.Join(parts, ";")
}

func evsText(evs []osvEv) string {
	var parts []string
	for _, e := range evs {
		var fs []string
		for _, p := range [][2]string{{"introduced", e.i}, {"fixed", e.f}, {"last_affected", e.l}, {"limit", e.m}} {
			if p[1] != "" {
				fs = append(fs, p[0]+"="+p[1])
			}
		}
		parts = append(parts, "{"+strings.Join(fs, ",")+"}")
	}
	return "[" + strings.Join(parts, " ") + "]"
}

type osvOut struct {
	ranges  []claircore.Range
	removed int
	line    string
}

func osvInsert(hv bool, evs []osvEv) osvOut {
	var o osvOut
	o.line = hx.Guard(func() string {
		in := make([]osv.EventForC12, len(evs))
		for i, e := range evs {
			in[i] = osv.EventForC12{Introduced: e.i, Fixed: e.f, LastAffected: e.l, Limit: e.m}
		}
		var versions []string
		if hv {
			versions = []string{"1.0.0"}
		}
		vs, ignored, err := osv.InsertRangeForC12(context.Background(), "Go", "SEMVER", versions, in)
		if err != nil {
			return "err"
		}
		var b strings.Builder
		fmt.Fprintf(&b, "removed=%d", len(ignored))
		o.removed = len(ignored)
		for _, v := range vs {
			if v.Range == nil {
				b.WriteString(" | nil")
				continue
			}
			o.ranges = append(o.ranges, *v.Range)
			fmt.Fprintf(&b, " | %s %s %s %s %s", hexs(v.Range.Lower.Kind), ints32(v.Range.Lower.V), hexs(v.Range.Upper.Kind), ints32(v.Range.Upper.V), hexs(v.FixedInVersion))
		}
		return b.String()
	})
	return o
}

func (o osvOut) covers(v *claircore.Version) bool {
	for i := range o.ranges {
		if o.ranges[i].Contains(v) {
			return true
		}
	}
	return false
}

// interval: `introduced` then at most one closing event.
type osvIv struct {
	intro string
	kind  byte // 0 none, 'f' fixed, 'l' last_affected, '*' limit *
	ver   string
}

func ivEvents(ivs []osvIv) []osvEv {
	var evs []osvEv
	for _, iv := range ivs {
		evs = append(evs, osvEv{i: iv.intro})
		switch iv.kind {
		case 'f':
			evs = append(evs, osvEv{f: iv.ver})
		case 'l':
			evs = append(evs, osvEv{l: iv.ver})
		case '*':
			evs = append(evs, osvEv{m: "*"})
		}
	}
	return evs
}

const smallLim = 1<<31 - 1

func semSmall(v *semver.Version) bool {
	return v.Major() < smallLim && v.Minor() < smallLim && v.Patch() < smallLim
}

// ivSpec evaluates the intervals on a version the way the OSV schema states
// them (introduced <= v, v < fixed, v <= last_affected), with Masterminds'
// Compare as the order.  clean = every bound parses, has no pre-release and
// small numbers.
func ivSpec(ivs []osvIv, v *semver.Version) (affected, clean bool) {
	clean = v.Prerelease() == "" && semSmall(v)
	for _, iv := range ivs {
		lower := true
		if iv.intro != "0" {
			a, err := semver.NewVersion(iv.intro)
			if err != nil {
				clean = false
				continue
			}
			if a.Prerelease() != "" || !semSmall(a) {
				clean = false
			}
			lower = a.Compare(v) <= 0
		}
		upper := true
		if iv.kind == 'f' || iv.kind == 'l' {
			b, err := semver.NewVersion(iv.ver)
			if err != nil {
				clean = false
				continue
			}
			if b.Prerelease() != "" || !semSmall(b) {
				clean = false
			}
			if iv.kind == 'f' {
				upper = v.Compare(b) < 0
			} else {
				upper = v.Compare(b) <= 0
			}
		}
		if lower && upper {
			affected = true
		}
	}
	return affected, clean
}

func (f *family) cleanSem() string {
	return fmt.Sprintf("%s%d.%d.%d", f.pick("", "", "", "v"), f.r.Intn(3), f.r.Intn(3), f.r.Intn(4))
}

func osvRun(r *hx.Run, rnd *hx.Rand, n int) {
	for i := 0; i < n && !r.Stop(); i++ {
		f := newFamily(rnd)
		cleanMode := rnd.Chance(3, 5)
		ver := func() string {
			if cleanMode {
				return f.cleanSem()
			}
			if rnd.Chance(1, 15) {
				return f.pick("x", "1.2.3.4", "", "1.x", "*")
			}
			return f.sem()
		}
		hv := rnd.Chance(1, 5)
		var evs []osvEv
		var ivs []osvIv
		grouped := rnd.Chance(3, 4)
		if grouped {
			k := 1 + rnd.Intn(3)
			for j := 0; j < k; j++ {
				iv := osvIv{intro: ver()}
				if rnd.Chance(1, 4) || iv.intro == "" {
					iv.intro = "0" // (an empty string would not be an `introduced` event at all)
				}
				switch c := rnd.Intn(10); {
				case c < 5:
					iv.kind, iv.ver = 'f', ver()
				case c < 7:
					iv.kind, iv.ver = 'l', ver()
				case c < 8:
					iv.kind = '*'
				case j == k-1 || rnd.Chance(1, 4):
					// no closing event: normally only the last interval
				default:
					iv.kind, iv.ver = 'f', ver()
				}
				ivs = append(ivs, iv)
			}
			if rnd.Chance(1, 2) {
				// sorted by introduced (the usual shape of the data); otherwise as drawn
				sort.SliceStable(ivs, func(a, b int) bool {
					x, ex := semver.NewVersion(ivs[a].intro)
					y, ey := semver.NewVersion(ivs[b].intro)
					if ex != nil || ey != nil {
						return ex != nil && ey == nil
					}
					return x.Compare(y) < 0
				})
				r.Count("osv:list:grouped-sorted")
			} else {
				r.Count("osv:list:grouped-unsorted")
			}
			evs = ivEvents(ivs)
		} else {
			// arbitrary event lists: several fields per event, empty events, closing
			// events first, several closing events per interval, arbitrary limits
			k := rnd.Intn(6)
			for j := 0; j < k; j++ {
				var e osvEv
				for fld := 1 + rnd.Intn(8)/7; fld > 0; fld-- {
					switch rnd.Intn(9) {
					case 0, 1, 2:
						e.i = ver()
						if rnd.Chance(1, 4) {
							e.i = "0"
						}
					case 3, 4, 5:
						e.f = ver()
					case 6:
						e.l = ver()
					case 7:
						e.m = f.pick("*", "*", ver())
					}
				}
				evs = append(evs, e)
			}
			r.Count("osv:list:arbitrary")
		}
		word := evsWord(evs)
		hvw := "0"
		if hv {
			hvw = "1"
		}
		out := osvInsert(hv, evs)
		r.Op("osv "+hvw+" "+word, out.line, len(out.ranges) > 0)
		r.Count(fmt.Sprintf("osv:ranges=%d,removed=%d", min(len(out.ranges), 4), min(out.removed, 2)))
		if out.line == "panic" || out.line == "err" {
			r.Fail("", fmt.Sprintf("osv Insert %s on SEMVER events %s", out.line, evsText(evs)))
			continue
		}
		// probes: the bounds, their neighbours, and fresh versions
		var probes []string
		for _, e := range evs {
			for _, s := range []string{e.i, e.f, e.l} {
				if s == "" || s == "0" {
					continue
				}
				probes = append(probes, s)
				if v, err := semver.NewVersion(s); err == nil {
					n := v.IncPatch()
					probes = append(probes, n.String())
					if v.Patch() > 0 {
						probes = append(probes, fmt.Sprintf("%d.%d.%d", v.Major(), v.Minor(), v.Patch()-1))
					} else if v.Minor() > 0 {
						probes = append(probes, fmt.Sprintf("%d.%d.%d", v.Major(), v.Minor()-1, 7))
					}
				}
			}
		}
		probes = append(probes, ver(), "0.0.0")
		if len(probes) > 8 {
			rnd2 := rnd.Intn(len(probes))
			probes = append(probes[rnd2:], probes[:rnd2]...)[:8]
		}
		wellShaped := grouped
		hasLast := false
		for j, iv := range ivs {
			if iv.kind == 0 && j != len(ivs)-1 {
				wellShaped = false
			}
			if iv.kind == 'l' {
				hasLast = true
			}
		}
		for _, p := range probes {
			pv := semParse(p)
			if !pv.ok {
				r.Op("osvhit "+hvw+" "+word+" "+hexs(p), "verr", false)
				continue
			}
			got := out.covers(&pv.c)
			r.Op("osvhit "+hvw+" "+word+" "+hexs(p), strconv.FormatBool(got), true)
			r.Count("osv:hit:" + strconv.FormatBool(got))
			if !grouped || (hv && hasLast) {
				continue
			}
			want, clean := ivSpec(ivs, pv.v)
			key := fmt.Sprintf("osv coverage hasVersions=%v events=%s version=%s", hv, evsText(evs), q(p))
			switch {
			case clean && wellShaped:
				// exactly the versions the intervals describe
				r.Case(key, true)
				r.Count(fmt.Sprintf("osv:exact:affected=%v", want))
				if got != want {
					r.Fail("", fmt.Sprintf("osv range-membership events=%s version=%s covered=%v affected=%v ranges=%s", evsText(evs), q(p), got, want, out.line))
				}
			default:
				// pre-releases / saturated numbers / an unclosed interval before
				// another one: the ranges may miss affected versions, but never
				// reach past an upper bound
				r.Case(key, false)
				r.Count(fmt.Sprintf("osv:sound:covered=%v,affected=%v", got, want))
				if got && !osvWithinUpper(ivs, pv.v) {
					r.Fail("", fmt.Sprintf("osv range-membership events=%s version=%s is covered but at or above every upper bound; ranges=%s", evsText(evs), q(p), out.line))
				}
			}
		}
	}
}

// osvWithinUpper: for some interval the projection of the lower bound is at
// most v's projection (FromSemver is monotone but not injective: pre-releases
// and numbers above MaxInt32 collapse, so nothing more can be said about the
// lower side) and v is below the upper bound in Masterminds' order (strictly
// below `fixed`, at most `last_affected`) — the projection never moves a
// version from at-or-above the upper bound to below it.
func osvWithinUpper(ivs []osvIv, v *semver.Version) bool {
	pv := claircore.FromSemver(v)
	for _, iv := range ivs {
		if iv.intro != "0" {
			if a, err := semver.NewVersion(iv.intro); err == nil {
				if pa := claircore.FromSemver(a); pa.Compare(&pv) > 0 {
					continue
				}
			}
		}
		switch iv.kind {
		case 'f', 'l':
			b, err := semver.NewVersion(iv.ver)
			if err != nil {
				return true // the bound is ignored: unbounded
			}
			if c := v.Compare(b); c < 0 || (c == 0 && iv.kind == 'l') {
				return true
			}
		default:
			return true
		}
	}
	return false
}
