package c12

// Grammar-directed generators, one per version scheme.  A "family" shares a
// small pool of numbers / words, so that the strings of one triple have long
// common prefixes and differ in the places the comparators branch on.

import (
	"strings"

	"github.com/quay/claircore"
	"github.com/quay/claircore/verifharness/internal/hx"
)

type family struct {
	r    *hx.Rand
	nums []string
	wide bool // allow huge numbers
}

var boundaryNums = []string{
	"2147483647", "2147483648", "2147483649", "4294967295", "4294967296", "4294967297", "4294967299",
	"6442450944", "9223372036854775807", "9223372036854775808", "18446744073709551616", "99999999999999999999",
}

func newFamily(r *hx.Rand) *family {
	f := &family{r: r, wide: r.Chance(1, 4)}
	n := 2 + r.Intn(3)
	for i := 0; i < n; i++ {
		f.nums = append(f.nums, f.freshNum())
	}
	return f
}

func (f *family) freshNum() string {
	r := f.r
	switch k := r.Intn(100); {
	case k < 18:
		return "0"
	case k < 55:
		return itoa(1 + r.Intn(12))
	case k < 63:
		return strings.Repeat("0", 1+r.Intn(3)) + itoa(r.Intn(12))
	case k < 75:
		return itoa(r.Intn(100000))
	case k < 80:
		return "00"
	case k < 92 && f.wide:
		return boundaryNums[r.Intn(len(boundaryNums))]
	case k < 96 && f.wide:
		n := 11 + r.Intn(15)
		var b strings.Builder
		b.WriteByte(byte('1' + r.Intn(9)))
		for i := 1; i < n; i++ {
			b.WriteByte(byte('0' + r.Intn(10)))
		}
		return b.String()
	default:
		return itoa(r.Intn(300))
	}
}

func itoa(n int) string {
	if n == 0 {
		return "0"
	}
	var b [20]byte
	i := len(b)
	for n > 0 {
		i--
		b[i] = byte('0' + n%10)
		n /= 10
	}
	return string(b[i:])
}

// num draws from the family pool most of the time.
func (f *family) num() string {
	if f.r.Chance(4, 5) {
		return f.nums[f.r.Intn(len(f.nums))]
	}
	return f.freshNum()
}

func (f *family) pick(xs ...string) string { return xs[f.r.Intn(len(xs))] }

// ---- generic claircore.Version

var slotVals = []int32{0, 0, 0, 1, 2, 3, 5, 10, -1, -2, -3, 65535, 2147483647, -2147483648, -2147483647, 2147483646}

func (f *family) gslot() int32 {
	if f.r.Chance(1, 12) {
		return int32(f.r.U64())
	}
	return slotVals[f.r.Intn(len(slotVals))]
}

func (f *family) generic(base *claircore.Version) claircore.Version {
	var v claircore.Version
	if base != nil {
		v = *base
		// mutate one to three slots
		for n := 1 + f.r.Intn(3); n > 0; n-- {
			v.V[f.r.Intn(10)] = f.gslot()
		}
		if f.r.Chance(1, 10) {
			v.Kind = f.pick("", "semver", "pep440", "rhctag", "a", "b", "semver2")
		}
		return v
	}
	v.Kind = f.pick("", "semver", "semver", "pep440", "rhctag", "a", "b")
	nz := f.r.Intn(6)
	for i := 0; i < nz; i++ {
		v.V[f.r.Intn(10)] = f.gslot()
	}
	return v
}

// ---- pep440

var seps = []string{"", "", ".", "-", "_"}

func (f *family) optNum() string {
	if f.r.Chance(1, 5) {
		return ""
	}
	return f.num()
}

func (f *family) pep() string {
	r := f.r
	var b strings.Builder
	switch k := r.Intn(100); {
	case k < 7:
		b.WriteString("v")
	case k < 10:
		b.WriteString(f.pick("foo ", "x", "==", "V", "vv", "v.", " ", "a1b"))
	}
	if r.Chance(1, 5) {
		b.WriteString(f.num())
		b.WriteString(f.pick("!", "!", "!", "!!", "!v"))
	}
	n := 1 + r.Intn(3)
	if r.Chance(1, 8) {
		n = 4 + r.Intn(4)
	}
	for i := 0; i < n; i++ {
		if i != 0 {
			b.WriteString(f.pick(".", ".", ".", ".", ".", ".", ".."))
		}
		b.WriteString(f.num())
	}
	if r.Chance(45, 100) {
		b.WriteString(f.pick(seps...))
		b.WriteString(f.pick("a", "b", "c", "rc", "alpha", "beta", "pre", "preview", "a", "b", "rc", "A", "RC", "Alpha", "x", "al"))
		b.WriteString(f.pick(seps...))
		b.WriteString(f.optNum())
	}
	if r.Chance(35, 100) {
		if r.Chance(1, 3) {
			b.WriteString("-")
			b.WriteString(f.optNum())
		} else {
			b.WriteString(f.pick(seps...))
			b.WriteString(f.pick("post", "rev", "r", "post", "POST", "po"))
			b.WriteString(f.pick(seps...))
			b.WriteString(f.optNum())
		}
	}
	if r.Chance(35, 100) {
		b.WriteString(f.pick(seps...))
		b.WriteString(f.pick("dev", "dev", "dev", "DEV", "de"))
		b.WriteString(f.pick(seps...))
		b.WriteString(f.optNum())
	}
	if r.Chance(1, 10) {
		b.WriteString("+")
		b.WriteString(f.pick("abc", "1", "ubuntu.1", "x-y_z", "A"))
	}
	if r.Chance(1, 20) {
		b.WriteString(f.pick(" ", "~", ".", "-", ".1", "junk", "!"))
	}
	return b.String()
}

// ---- gem

func (f *family) gemWord() string {
	return f.pick("a", "b", "rc", "pre", "beta", "x", "Z", "alpha", "A", "1a", "a1", "0a", "rc1", "B")
}

func (f *family) gemSeg(dashOK bool) string {
	k := f.r.Intn(100)
	switch {
	case k < 60:
		return f.num()
	case k < 92 || !dashOK:
		return f.gemWord()
	default:
		return f.pick("-", "a-b", "1-", "-1")
	}
}

func (f *family) gem() string {
	r := f.r
	if r.Chance(1, 40) {
		return f.pick("", " ", "\n", "\t \r")
	}
	var b strings.Builder
	if r.Chance(1, 15) {
		b.WriteString(f.pick(" ", "\t", "\n", "  ", "\f", "\r\n", "\v"))
	}
	b.WriteString(f.num())
	for n := r.Intn(5); n > 0; n-- {
		b.WriteString(".")
		b.WriteString(f.gemSeg(false))
	}
	if r.Chance(1, 4) {
		b.WriteString("-")
		b.WriteString(f.gemSeg(true))
		for n := r.Intn(3); n > 0; n-- {
			b.WriteString(".")
			b.WriteString(f.gemSeg(true))
		}
	}
	if r.Chance(1, 15) {
		b.WriteString(f.pick(" ", "\t", "\n", "  ", "\v", " "))
	}
	s := b.String()
	if r.Chance(1, 12) {
		// damage: most of these are invalid
		i := r.Intn(len(s) + 1)
		s = s[:i] + f.pick(".", "..", "_", "+", " ", "a", "-", "--", "!") + s[i:]
	}
	return s
}

// ---- maven

var mvnWords = []string{"alpha", "a", "beta", "b", "milestone", "m", "rc", "cr", "snapshot", "ga", "final", "release", "sp",
	"xyz", "abc", "SNAPSHOT", "Alpha", "RC", "Final", "GA", "SP", "x", "jre", "RELEASE", "z",
	// letters with a case mapping outside ASCII (ordString lower-cases with the Unicode tables)
	"\u00c9clair", "\u00e9clair", "\u03a3\u0391", "\u03c3\u03b1", "\u01c5", "\u01c6", "\u0130", "Stra\u00dfe", "\u212a", "k"}

// nonASCIISeqs: white space, letters, digits of other scripts; ill-formed,
// truncated, overlong, surrogate and out-of-range byte sequences.
var nonASCIISeqs = []string{"\u00a0", "\u0085", "\u1680", "\u2003", "\u2028", "\u202f", "\u3000", "\u200b", "\ufffd",
	"\u00e9", "\u00c9", "\u00fc", "\u0663", "\uff11", "\u00b2", "\U0001d7d8", "\u0969",
	"\xc2", "\x85", "\xa0", "\xe2\x80", "\xc0\xa0", "\xe0\x80\xa0", "\xff", "\xed\xa0\x80", "\xf4\x90\x80\x80", "\xe1\x9a"}

// nonASCIIEdit inserts one or two such sequences (or replaces a digit by a
// decimal digit of another script).
func (f *family) nonASCIIEdit(s string) string {
	for k := 1 + f.r.Intn(2); k > 0; k-- {
		seq := nonASCIISeqs[f.r.Intn(len(nonASCIISeqs))]
		i := f.r.Intn(len(s) + 1)
		if f.r.Chance(1, 4) {
			i = 0
		} else if f.r.Chance(1, 4) {
			i = len(s)
		}
		if f.r.Chance(1, 5) && i < len(s) && s[i] >= '0' && s[i] <= '9' {
			s = s[:i] + string(rune(0x0660+int(s[i]-'0'))) + s[i+1:]
			continue
		}
		s = s[:i] + seq + s[i:]
	}
	return s
}

func (f *family) mvnTok() string {
	if f.r.Chance(1, 2) {
		return f.num()
	}
	return mvnWords[f.r.Intn(len(mvnWords))]
}

func (f *family) mvn() string {
	r := f.r
	if r.Chance(1, 60) {
		return f.pick("", ".", "-", "..", "--", ".-", "-.")
	}
	var b strings.Builder
	n := 1 + r.Intn(5)
	if r.Chance(3, 4) {
		b.WriteString(f.num())
	} else {
		b.WriteString(f.mvnTok())
	}
	for i := 1; i < n; i++ {
		switch k := r.Intn(100); {
		case k < 45:
			b.WriteString(".")
		case k < 80:
			b.WriteString("-")
		case k < 93:
			// no separator: digit/letter transition (or concatenation)
		case k < 97:
			b.WriteString(f.pick("_", "+", "~", " "))
		default:
			b.WriteString(f.pick("..", "--", ".-", "-."))
		}
		b.WriteString(f.mvnTok())
	}
	if r.Chance(1, 15) {
		b.WriteString(f.pick(".", "-", ".0", "-0", ".0.0", "-ga", ".final", "-"))
	}
	return b.String()
}

// ---- rhctag / rpm

func (f *family) rhcRelease() string {
	r := f.r
	var b strings.Builder
	b.WriteString(f.pick("1", "2", "140", "167", "202112140546", "202112140553", f.num()))
	for n := r.Intn(4); n > 0; n-- {
		b.WriteString(f.pick(".", ".", ".", "_", "~", "-"))
		b.WriteString(f.pick("p0", "g8b9da97", "49a6fcf", "release_4.7", "assembly", "stream", "el8", f.num(), "1", "rc1", "source"))
	}
	return b.String()
}

func (f *family) rhc() string {
	r := f.r
	var b strings.Builder
	if r.Chance(1, 4) {
		b.WriteString("v")
	} else if r.Chance(1, 30) {
		b.WriteString(f.pick("V", "vv", "-", "+", "1:", " ", "~", "."))
	}
	b.WriteString(f.num())
	if r.Chance(9, 10) {
		b.WriteString(".")
		if r.Chance(9, 10) {
			b.WriteString(f.num())
		} else {
			b.WriteString(f.pick("x", "5x", "", "a", "~1", "1~", "1_2", "-1", "+3"))
		}
		if r.Chance(1, 2) {
			b.WriteString(".")
			b.WriteString(f.pick(f.num(), "0", "x", "1~rc1", ""))
		}
	}
	if r.Chance(2, 3) {
		b.WriteString("-")
		b.WriteString(f.rhcRelease())
	}
	return b.String()
}

const rpmAlphabet = "0123456789012abcxyzABZ..--~~:_+ ^"

func (f *family) rpm() string {
	r := f.r
	if r.Chance(1, 3) {
		return f.rhc()
	}
	n := r.Intn(12)
	var b strings.Builder
	if r.Chance(1, 6) {
		b.WriteString(f.pick("", " ", "-", "+", "x", "\t"))
		b.WriteString(f.num())
		b.WriteString(":")
	}
	for i := 0; i < n; i++ {
		if r.Chance(1, 4) {
			b.WriteString(f.num())
		} else {
			b.WriteByte(rpmAlphabet[r.Intn(len(rpmAlphabet))])
		}
	}
	return b.String()
}

// ---- semver

func (f *family) sem() string {
	r := f.r
	var b strings.Builder
	if r.Chance(1, 10) {
		b.WriteString("v")
	}
	n := 3
	if r.Chance(1, 6) {
		n = 1 + r.Intn(2)
	}
	for i := 0; i < n; i++ {
		if i != 0 {
			b.WriteString(".")
		}
		s := strings.TrimLeft(f.num(), "0")
		if s == "" {
			s = "0"
		}
		b.WriteString(s)
	}
	if r.Chance(1, 4) {
		b.WriteString("-")
		b.WriteString(f.pick("alpha", "alpha.1", "beta", "rc.1", "1", "0.3.7", "x.7.z.92"))
	}
	if r.Chance(1, 10) {
		b.WriteString("+")
		b.WriteString(f.pick("build", "001", "exp.sha.5114f85"))
	}
	return b.String()
}

// ---- related texts: small edits that often land in the same equivalence
// class (or right next to it) under the scheme's normalisation

var aliasPairs = [][2]string{{"alpha", "a"}, {"beta", "b"}, {"milestone", "m"}, {"rc", "cr"}, {"ga", "final"}, {"final", "release"},
	{"rc", "c"}, {"rc", "pre"}, {"pre", "preview"}, {"post", "rev"}, {"rev", "r"}, {"-", ".pre."}, {".", "-"}, {"-", "."}, {".0", ""}, {"0", "00"}}

func (f *family) mutate(s string, scheme string) string {
	r := f.r
	switch k := r.Intn(13); {
	case k == 12:
		return f.nonASCIIEdit(s)
	case k < 3:
		suffixes := []string{".0", "-0", ".0.0", "0", ".00"}
		switch scheme {
		case "maven":
			suffixes = append(suffixes, "-ga", ".final", "-release", "-", ".", "-0.0", ".0-0", "-sp", "-alpha", ".alpha", ".sp", "-1")
		case "gem":
			suffixes = append(suffixes, ".a", ".0.a", "-a", ".pre", " ", ".0.0.0")
		case "pep440":
			suffixes = append(suffixes, ".post0", ".dev0", "a0", "rc0", ".post1", ".dev1", "+local", "-1", "a1", ".0a1")
		case "rhctag", "rpm":
			suffixes = append(suffixes, "-1", "~rc1", "-0", ".x", "~", "-1.el8")
		}
		return s + suffixes[r.Intn(len(suffixes))]
	case k < 5:
		// swap an alias / separator
		p := aliasPairs[r.Intn(len(aliasPairs))]
		if r.Chance(1, 2) {
			p[0], p[1] = p[1], p[0]
		}
		if p[0] != "" && strings.Contains(s, p[0]) {
			return strings.Replace(s, p[0], p[1], 1)
		}
		return s + "." + f.num()
	case k < 7:
		// change the case of one letter
		b := []byte(s)
		for tries := 0; tries < 8 && len(b) > 0; tries++ {
			i := r.Intn(len(b))
			switch {
			case b[i] >= 'a' && b[i] <= 'z':
				b[i] -= 32
				return string(b)
			case b[i] >= 'A' && b[i] <= 'Z':
				b[i] += 32
				return string(b)
			}
		}
		return s + "0"
	case k < 9:
		// leading zero on, or +1 to, some digit run
		b := []byte(s)
		for tries := 0; tries < 8 && len(b) > 0; tries++ {
			i := r.Intn(len(b))
			if b[i] >= '0' && b[i] <= '9' {
				if r.Chance(1, 2) {
					return s[:i] + "0" + s[i:]
				}
				if b[i] < '9' {
					b[i]++
				} else {
					b[i] = '0'
				}
				return string(b)
			}
		}
		return "0" + s
	case k < 10:
		if len(s) > 1 {
			return s[:len(s)-1]
		}
		return s + "1"
	case k < 11:
		if scheme == "rhctag" || scheme == "rpm" || scheme == "pep440" {
			if strings.HasPrefix(s, "v") {
				return s[1:]
			}
			return "v" + s
		}
		return " " + s
	default:
		if len(s) > 2 {
			i := 1 + r.Intn(len(s)-1)
			return s[:i] + f.pick(".", "-", ".0.", "-0-", ".0", "0") + s[i:]
		}
		return s + ".1"
	}
}
