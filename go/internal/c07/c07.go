// Package c07 is the harness of property C07 (indexing never claims success
// it did not achieve, under any fault): systematic fault enumeration over the
// call sequence of the real indexer (libindex -> controller -> LayerScanner)
// on the in-memory store. For every generated (configuration, earlier history,
// manifest) the fault-free call sequence is recorded, then re-run with a fault
// of every kind at every call position (pairs of positions are sampled), each
// followed by a clean retry on the same store. Every run is a line of the
// protocol the Lean model answers too, and the property statement is checked
// directly on what the real code returned and stored.
package c07

import (
	"encoding/json"
	"fmt"
	"os"
	"strings"

	"github.com/quay/claircore/verifharness/internal/ctrl"
	"github.com/quay/claircore/verifharness/internal/hx"
)

const (
	FindingDeadline = "deadline-swallowed"
	FindingClobber  = "report-clobbered"
)

var kinds = []byte{ctrl.FErr, ctrl.FCanceled, ctrl.FDeadline, ctrl.FCancelCtx, ctrl.FCancelAfter, ctrl.FCrash, ctrl.FCommitErr}

type scenario struct {
	// Cfg0 / Pre0: an earlier deployment on the same store — a non-empty proper
	// subset of Cfg's scanners (not a prefix in general), under which the
	// manifests Pre0 were indexed. The store then says "scanned by some of the
	// configured scanners" for them, so the one Libindex built for Cfg — which
	// serves Pre, the attempts under test and the retries, as a deployment does —
	// has to filter its scanner list per manifest.
	Cfg0    ctrl.Config
	Pre0    [][]int
	Cfg     ctrl.Config
	Pre     [][]int
	M       []int
	NetDown bool // scanners flagged N cannot reach the network (from the start)
}

func (sc scenario) String() string {
	p := ""
	for _, m := range sc.Pre {
		p += ctrl.LayersString(m) + ";"
	}
	n := ""
	if sc.NetDown {
		n = " net=down"
	}
	e := ""
	if len(sc.Cfg0) > 0 {
		p0 := ""
		for _, m := range sc.Pre0 {
			p0 += ctrl.LayersString(m) + ";"
		}
		e = fmt.Sprintf("earlier-config=%s earlier=[%s] ", sc.Cfg0, p0)
	}
	return fmt.Sprintf("%sconfig=%s%s pre=[%s] manifest=%s", e, sc.Cfg, n, p, ctrl.LayersString(sc.M))
}

// withEarlier gives the scenario an earlier deployment (see scenario.Cfg0).
func withEarlier(rnd *hx.Rand, sc *scenario) {
	names := map[string]bool{}
	var order []string
	for _, s := range sc.Cfg {
		k := string(s.Kind) + "/" + s.Name
		if !names[k] {
			names[k] = true
			order = append(order, k)
		}
	}
	if len(order) < 2 {
		return
	}
	// a scanner listed by two ecosystems stays or goes as a whole
	keep := map[string]bool{}
	nkeep := 0
	for _, k := range order {
		if rnd.Chance(1, 2) {
			keep[k] = true
			nkeep++
		}
	}
	if nkeep == 0 {
		keep[order[len(order)-1]] = true // the last one alone: never a prefix
	} else if nkeep == len(order) {
		delete(keep, order[0])
	}
	for _, s := range sc.Cfg {
		if keep[string(s.Kind)+"/"+s.Name] {
			sc.Cfg0 = append(sc.Cfg0, s)
		}
	}
	for i := 1 + rnd.Intn(2); i > 0; i-- {
		switch {
		case rnd.Chance(1, 3):
			sc.Pre0 = append(sc.Pre0, sc.M)
		case len(sc.Pre) > 0 && rnd.Chance(1, 2):
			sc.Pre0 = append(sc.Pre0, sc.Pre[rnd.Intn(len(sc.Pre))])
		default:
			// indexed before, and again by the deployment under test
			m := GenManifest(rnd, 3)
			sc.Pre0 = append(sc.Pre0, m)
			sc.Pre = append([][]int{m}, sc.Pre...)
		}
	}
}

func hasFlag(cfg ctrl.Config, f byte) bool {
	for _, s := range cfg {
		if s.Has(f) {
			return true
		}
	}
	return false
}

var namePool = []string{"a", "b", "ab", "c", "rh", "bc", "a1"}
var verPool = []string{"1", "2", "v1", "c"}

// GenFlags draws the implementation flags of a stub scanner: most have none;
// N needs the network, C / R implement ConfigurableScanner / RPCScanner, V the
// deployment has a configuration function for it, X its Configure fails.
//
// The flags are a function of (salt, kind, name, version): within one world a
// scanner version always is the same implementation, whichever configuration
// lists it (a scanner that changed behaviour without a version bump is outside
// the property's assumptions).
func GenFlags(salt uint64, kind byte, name, version string) string {
	rnd := hx.NewRand(salt ^ uint64(kind)<<40 ^ strHash(name)<<8 ^ strHash(version)<<24 | 1)
	f := ""
	if rnd.Chance(1, 6) {
		f += "N"
	}
	switch rnd.Intn(6) {
	case 0:
		f += "C"
	case 1:
		f += "R"
	}
	if rnd.Chance(1, 4) {
		f += "V"
	}
	if strings.ContainsAny(f, "CR") && rnd.Chance(1, 4) {
		f += "X"
	}
	return f
}

func strHash(s string) uint64 {
	h := uint64(1469598103934665603)
	for i := 0; i < len(s); i++ {
		h = (h ^ uint64(s[i])) * 1099511628211
	}
	return h & 0xffff
}

// GenConfig draws 1..4 stub scanners over 1..2 ecosystems, unique by (kind,
// name) except that with two ecosystems one scanner is sometimes listed by
// both (as rpm is by the rhel and the rpm ecosystem).
func GenConfig(rnd *hx.Rand, salt uint64) ctrl.Config {
	n := 1 + rnd.Intn(4)
	necos := 1 + rnd.Intn(2)
	var cfg ctrl.Config
	seen := map[string]bool{}
	for len(cfg) < n {
		s := ctrl.ScannerSpec{Eco: rnd.Intn(necos), Kind: "pdr"[rnd.Intn(3)], Name: namePool[rnd.Intn(len(namePool))], Version: verPool[rnd.Intn(len(verPool))]}
		s.Flags = GenFlags(salt, s.Kind, s.Name, s.Version)
		k := string(s.Kind) + "/" + s.Name
		if seen[k] {
			continue
		}
		seen[k] = true
		cfg = append(cfg, s)
	}
	if necos == 2 && rnd.Chance(1, 3) {
		s := cfg[rnd.Intn(len(cfg))]
		s.Eco = 1 - s.Eco
		cfg = append(cfg, s)
	}
	// ecosystems are numbered densely
	used := map[int]bool{}
	for _, s := range cfg {
		used[s.Eco] = true
	}
	if !used[0] {
		for i := range cfg {
			cfg[i].Eco = 0
		}
	}
	return cfg
}

// GenManifest draws 1..maxLayers layers from a small pool, sometimes repeating one.
func GenManifest(rnd *hx.Rand, maxLayers int) []int {
	n := 1 + rnd.Intn(maxLayers)
	m := make([]int, n)
	for i := range m {
		if i > 0 && rnd.Chance(1, 5) {
			m[i] = m[rnd.Intn(i)]
		} else {
			m[i] = 1 + rnd.Intn(6)
		}
	}
	return m
}

func genScenario(rnd *hx.Rand) scenario {
	sc := scenario{Cfg: GenConfig(rnd, rnd.U64()), M: GenManifest(rnd, 3)}
	for i := rnd.Intn(3); i > 0; i-- {
		if rnd.Chance(1, 3) {
			sc.Pre = append(sc.Pre, sc.M)
		} else {
			sc.Pre = append(sc.Pre, GenManifest(rnd, 3))
		}
	}
	sc.NetDown = hasFlag(sc.Cfg, 'N') && rnd.Chance(1, 2)
	if rnd.Chance(1, 2) {
		withEarlier(rnd, &sc)
	}
	return sc
}

type checker struct {
	r *hx.Run
	s *ctrl.Session

	nfaulty int
}

// setup brings a fresh world to the state before the attempt under test.
func (c *checker) setup(sc scenario) {
	c.s.Reset()
	if sc.NetDown {
		c.s.Net(true)
	}
	if len(sc.Cfg0) > 0 {
		c.s.Config(sc.Cfg0)
		for _, m := range sc.Pre0 {
			c.s.Index(m, ctrl.Script{}, false)
		}
	}
	// from here on one Libindex (one Options value) serves everything
	c.s.Config(sc.Cfg)
	for _, m := range sc.Pre {
		c.s.Index(m, ctrl.Script{}, false)
	}
}

func (c *checker) scannedNow(m []int) bool {
	for _, k := range c.s.W.Keys() {
		if !c.s.W.Store.HasManifestScanned(ctrl.ManifestDigest(m).String(), k) {
			return false
		}
	}
	return true
}

// attempt runs one (possibly faulty) Index call and checks the statement on it.
func (c *checker) attempt(sc scenario, script ctrl.Script, dead bool) ctrl.Result {
	res := c.s.Index(sc.M, script, dead)
	wit := fmt.Sprintf("%s faults=%s %s => %s", sc, script, map[bool]string{false: "live", true: "dead"}[dead], res.Line())
	if res.Hang || res.Panic {
		c.r.Fail("", "index did not return normally: "+wit)
		return res
	}
	first := ctrl.FirstFault(res, script)
	if res.SchedFirst != 0 {
		first = res.SchedFirst
	}
	if c.s.Quiet && c.s.Concurrency > 1 {
		// unscheduled goroutines: the numbering of calls is not the order in which
		// the errgroup saw the errors; any DeadlineExceeded fault that was reached
		// may be the one g.Wait returned
		for p, k := range script {
			if k == ctrl.FDeadline && p < len(res.Trace) && res.Trace != "-" && res.Trace[p] >= 'a' && res.Trace[p] <= 'z' {
				first = ctrl.FDeadline
			}
		}
	}
	cls := ""
	if first == ctrl.FDeadline {
		cls = FindingDeadline
	}
	if !res.Crashed {
		// A failed attempt is reported to the caller.
		if res.Failed && res.ErrClass == "nil" && !(!res.Success && res.ErrSet) {
			c.r.Fail(cls, "a call failed but Index returned a nil error and a report that does not carry an error: "+wit)
		}
		// A cancelled call either completed everything before the cancellation or says so.
		// (the three-call lookup of an indexed manifest returns what is stored, whatever it is)
		if res.Cancelled && res.ErrClass == "nil" && !(res.Success && res.Scanned) && !strings.HasPrefix(res.Trace, "MG") {
			c.r.Fail(cls, "the caller's context was cancelled during Index, which returned a nil error and an unfinished report: "+wit)
		}
		// Success is claimed only if it was achieved and persisted.
		if res.ErrClass == "nil" && res.Success {
			cold := c.s.Cold(sc.Cfg, sc.M)
			want := "1,IndexFinished,0," + cold.Body
			switch {
			case !res.Scanned:
				c.r.Fail(cls, "Index returned success but the manifest is not recorded as scanned: "+wit)
			case res.Stored != want || res.Body != cold.Body:
				c.r.Fail("", "Index returned success but the stored/returned report is not the fault-free one ("+want+"): "+wit)
			}
		}
	}
	for _, b := range c.s.CheckStore() {
		c.r.Fail(b.Class, b.Msg+": "+wit)
	}
	return res
}

// retry runs the clean attempt after faulty ones and checks convergence.
func (c *checker) retry(sc scenario, history string, scannedBefore bool, commitErrAtFinish bool) bool {
	res := c.s.Index(sc.M, ctrl.Script{}, false)
	cold := c.s.Cold(sc.Cfg, sc.M)
	wit := fmt.Sprintf("%s after [%s] clean retry => %s ; fault-free run on a fresh store => %s", sc, history, res.Line(), cold.Line())
	if res.Hang || res.Panic {
		c.r.Fail("", "retry did not return normally: "+wit)
		return false
	}
	ok := res.ErrClass == "nil" && res.Success && res.State == "IndexFinished" && !res.ErrSet && res.Body == cold.Body &&
		res.Scanned && res.Stored == "1,IndexFinished,0,"+cold.Body
	if !ok {
		cls := ""
		if res.Trace == "MGR" && (scannedBefore || commitErrAtFinish) {
			// the short-circuit returned a stored report that a failed attempt had overwritten
			cls = FindingClobber
		}
		c.r.Fail(cls, "retry after a failure does not complete with the fault-free report: "+wit)
	}
	for _, b := range c.s.CheckStore() {
		c.r.Fail(b.Class, b.Msg+": "+wit)
	}
	return ok
}

// deleteRetry deletes the manifest and indexes it again: whatever the faulty
// attempts left behind (the state of finding report-clobbered included), the
// result must be the fault-free report, with no exception.
func (c *checker) deleteRetry(sc scenario, history string) {
	out := c.s.Delete([][]int{sc.M})
	res := c.s.Index(sc.M, ctrl.Script{}, false)
	cold := c.s.Cold(sc.Cfg, sc.M)
	wit := fmt.Sprintf("%s after [%s] DeleteManifests => %s ; clean index => %s ; fault-free run on a fresh store => %s", sc, history, out, res.Line(), cold.Line())
	c.r.Case("delete-retry "+sc.String()+" "+history, true)
	c.r.Count("delete-retry")
	if res.Hang || res.Panic {
		c.r.Fail("", "index after delete did not return normally: "+wit)
		return
	}
	if !strings.HasPrefix(out, "del="+ctrl.LayersString(sc.M)+" ") {
		c.r.Fail("", "DeleteManifests did not report the manifest as deleted: "+wit)
	}
	ok := res.ErrClass == "nil" && res.Success && res.State == "IndexFinished" && !res.ErrSet && res.Body == cold.Body &&
		res.Scanned && res.Stored == "1,IndexFinished,0,"+cold.Body && res.Trace != "MGR"
	if !ok {
		c.r.Fail("", "index after DeleteManifests does not complete with the fault-free report: "+wit)
	}
	for _, b := range c.s.CheckStore() {
		c.r.Fail(b.Class, b.Msg+": "+wit)
	}
}

// run one scenario with the given scripts applied to consecutive attempts, then a clean retry.
func (c *checker) faulty(sc scenario, scripts []ctrl.Script, dead bool) {
	c.setup(sc)
	if c.s.Lost {
		return
	}
	// the shape of finding report-clobbered: an attempt on a manifest that is
	// already recorded as scanned fails (and persists its report), or the
	// reply of a committed SetIndexFinished is lost
	scannedBefore := false
	hist := ""
	commitAtFinish := false
	for i, script := range scripts {
		was := c.scannedNow(sc.M)
		res := c.attempt(sc, script, dead && i == 0)
		if res.Hang {
			return
		}
		if was && res.Failed {
			scannedBefore = true
		}
		hist += script.String() + " "
		for p, k := range script {
			if k == ctrl.FCommitErr && ctrl.FaultAt(res, p) == 'Y' {
				commitAtFinish = true
			}
		}
		c.r.Case("attempt "+sc.String()+" "+script.String(), true)
	}
	ok := c.retry(sc, hist, scannedBefore, commitAtFinish)
	if !c.s.Lost {
		// once more: the result of a completed index is stable
		c.retry(sc, hist+"+retry", scannedBefore, commitAtFinish)
	}
	c.nfaulty++
	if !c.s.Lost && (!ok || c.nfaulty%5 == 0) {
		c.deleteRetry(sc, hist+"+retries")
	}
}

// newFaults: libindex.New with each required argument missing, with
// RegisterScanners failing, with each scanner-constructor call failing — it must
// return an error and no Libindex — and the deployment that was in place keeps
// indexing as before.
func (c *checker) newFaults(sc scenario, rnd *hx.Rand) {
	c.setup(sc)
	if c.s.Lost {
		return
	}
	necos := 0
	for _, s := range sc.Cfg {
		necos = max(necos, s.Eco+1)
	}
	var all []ctrl.NewFaults
	for i := 0; i < 5; i++ {
		nf := ctrl.NewFaults{CtorFailAt: -1}
		switch i {
		case 0:
			nf.NoLocker = true
		case 1:
			nf.NoStore = true
		case 2:
			nf.NoArena = true
		case 3:
			nf.NoClient = true
		case 4:
			nf.RegisterFails = true
		}
		all = append(all, nf)
	}
	for k := 0; k < 6*necos; k++ {
		all = append(all, ctrl.NewFaults{CtorFailAt: k})
	}
	lib := c.s.W.Lib
	for _, nf := range all {
		out := c.s.New(nf, sc.Cfg)
		wit := fmt.Sprintf("%s: %s => %s", sc, ctrl.NewOp(nf, sc.Cfg), out)
		c.r.Case("new "+wit, true)
		if !strings.HasPrefix(out, "err ") || c.s.W.Lib != lib {
			c.r.Fail("", "libindex.New did not fail (error and no Libindex) although its arguments / environment were faulty: "+wit)
		}
	}
	// a constructor call beyond the two walks is never made: New succeeds
	if out := c.s.New(ctrl.NewFaults{CtorFailAt: 6 * necos}, sc.Cfg); !strings.HasPrefix(out, "tok ") {
		c.r.Fail("", fmt.Sprintf("libindex.New failed although nothing was wrong: %s => %s", sc, out))
	}
	res := c.attempt(sc, ctrl.Script{}, false)
	if res.ErrClass != "nil" || !res.Success {
		c.r.Fail("", "after failed libindex.New calls a fault-free Index fails: "+sc.String()+" => "+res.Line())
	}
	c.retry(sc, "failed New calls; index", false, false)
}

// known replays the witnesses of the listed findings.
func (c *checker) known() {
	sc := scenario{Cfg: ctrl.Config{{Eco: 0, Kind: 'p', Name: "a", Version: "1"}}, M: []int{1, 2}}
	// fault-free trace, to find call positions by letter
	c.setup(sc)
	clean := c.s.Index(sc.M, ctrl.Script{}, false)
	posOf := func(letter byte) int {
		for i := 0; i < len(clean.Trace); i++ {
			if clean.Trace[i] == letter {
				return i
			}
		}
		return -1
	}
	// 1. layer fetch fails with a deadline error while the context is live
	if p := posOf('Z'); p >= 0 {
		c.setup(sc)
		res := c.s.Index(sc.M, ctrl.Script{p: ctrl.FDeadline}, false)
		if res.ErrClass == "nil" && !res.Success && !res.ErrSet {
			c.r.KnownSeen(FindingDeadline, fmt.Sprintf("%s faults=%d:d (Realize returns DeadlineExceeded, context live) => %s", sc, p, res.Line()))
		}
	}
	// 1b. SetIndexFinished fails with a deadline error: success is returned, nothing is marked
	if p := posOf('Y'); p >= 0 {
		c.setup(sc)
		res := c.s.Index(sc.M, ctrl.Script{p: ctrl.FDeadline}, false)
		if res.ErrClass == "nil" && res.Success && !res.Scanned {
			c.r.KnownSeen(FindingDeadline, fmt.Sprintf("%s faults=%d:d (SetIndexFinished returns DeadlineExceeded) => %s", sc, p, res.Line()))
		}
	}
	// 2. an indexed manifest; ManifestScanned fails once; the stored report is overwritten
	c.setup(sc)
	c.s.Index(sc.M, ctrl.Script{}, false)
	c.s.Index(sc.M, ctrl.Script{0: ctrl.FErr}, false)
	res := c.s.Index(sc.M, ctrl.Script{}, false)
	if res.ErrClass == "nil" && !res.Success && res.Scanned {
		c.r.KnownSeen(FindingClobber, fmt.Sprintf("%s: index (ok); index with faults=0:e (ManifestScanned fails once); index again => %s", sc, res.Line()))
	}
}

// knownUnconfigured replays the witness of finding unconfigured-scanner-marked.
func (c *checker) knownUnconfigured() {
	sc := scenario{Cfg: ctrl.Config{{Eco: 0, Kind: 'p', Name: "a", Version: "1", Flags: "CX"}, {Eco: 0, Kind: 'd', Name: "b", Version: "1"}}, M: []int{1, 2}}
	c.setup(sc)
	res := c.s.Index(sc.M, ctrl.Script{}, false)
	for _, b := range c.s.CheckStore() {
		if b.Class == ctrl.FindingUnconfigured && res.ErrClass == "nil" && res.Success && res.Scanned {
			c.r.KnownSeen(ctrl.FindingUnconfigured, fmt.Sprintf("%s (a's Configure returns an error) => %s ; %s ; scans by a: %d", sc, res.Line(), b.Msg, c.scansBy("a")))
			return
		}
	}
}

func (c *checker) scansBy(name string) int {
	n := 0
	for _, ev := range c.s.W.Scans {
		if ev.Scanner.Name == name {
			n++
		}
	}
	return n
}

// genRun draws a script for controller.run: 1..6 scripted state-function calls
// returning any state with no error / an ordinary / Canceled / DeadlineExceeded
// error, sometimes cancelling the context, sometimes followed by a failing
// SetIndexReport. Every DeadlineExceeded result but the first cancels the
// context when the retry branch starts to wait, so no generated run sleeps.
func genRun(rnd *hx.Rand) []ctrl.RunIter {
	n := 1 + rnd.Intn(6)
	script := make([]ctrl.RunIter, n)
	seenDl := false
	for i := range script {
		it := ctrl.RunIter{Next: ctrl.StateNames[rnd.Intn(len(ctrl.StateNames))], Err: '-'}
		if i < n-1 && rnd.Chance(2, 3) {
			// mostly keep going
			it.Next = ctrl.StateNames[1+rnd.Intn(len(ctrl.StateNames)-1)]
		}
		switch x := rnd.Intn(20); {
		case x < 7:
			it.Err = 'd'
		case x < 10:
			it.Err = 'g'
		case x < 12:
			it.Err = 'c'
		}
		if it.Err != '-' && rnd.Chance(1, 2) {
			it.Next = "Terminal" // what every in-tree state function does
		}
		it.Cancel = rnd.Chance(1, 12)
		it.PersistFails = rnd.Chance(1, 10)
		if it.Err == 'd' {
			it.CancelInWait = seenDl || rnd.Chance(1, 6)
			seenDl = true
		}
		script[i] = it
	}
	return script
}

// runScript performs one scripted run and checks the statement on it: a state
// function's error is reported, SetIndexReport's failure is reported, the retry
// branch waits only after a DeadlineExceeded result, first for a zero duration
// and then for jitter.
func (c *checker) runScript(script []ctrl.RunIter) {
	out := c.s.Run(script)
	wit := ctrl.RunOp(script) + " => " + out
	c.r.Case(wit, true)
	if !strings.HasPrefix(out, "ev=") {
		c.r.Fail("", "controller.run did not return normally: "+wit)
		return
	}
	f := strings.Fields(out)
	called, waits, ndl := 0, 0, 0
	failedPersist := false
	for _, e := range f {
		switch {
		case strings.HasPrefix(e, "ev=c:"), strings.HasPrefix(e, "c:"):
			called++
		case strings.HasPrefix(e, "w:"):
			want := "w:j"
			if waits == 0 {
				want = "w:0"
			}
			if e != want && e != "ev="+want {
				c.r.Fail("", "retry branch waits for an unexpected duration (the first wait is zero, later ones 1..5 s): "+wit)
			}
			waits++
		case strings.HasPrefix(e, "p:") && strings.HasSuffix(e, ",0"):
			failedPersist = true
		}
	}
	errReturned := !strings.Contains(out, " e=nil ")
	hard, dl := false, false
	for i := 0; i < called && i < len(script); i++ {
		switch script[i].Err {
		case 'g', 'c':
			hard = true
		case 'd':
			dl = true
			ndl++
		}
	}
	if waits > ndl {
		c.r.Fail("", "retry branch waited more often than a state function returned DeadlineExceeded: "+wit)
	}
	switch {
	case (hard || failedPersist) && !errReturned:
		c.r.Fail("", "a state function / SetIndexReport failed but run returned a nil error: "+wit)
	case dl && !errReturned && !strings.Contains(out, " er=1"):
		c.r.Fail(FindingDeadline, "a state function returned DeadlineExceeded but run returned a nil error and a report without an error: "+wit)
	}
}

type replayFile struct {
	Seed uint64 `json:"seed"`
	Tier string `json:"tier"`
}

// Run is the entry point of the C07 harness.
func Run(cfg hx.Config) error {
	r, err := hx.NewRun(cfg)
	if err != nil {
		return err
	}
	defer r.Close()
	r.Rule = "each case = libindex.New + Libindex.Index calls of the real code over the in-memory store; for every generated (scanner configuration, earlier manifests, manifest) the fault-free call sequence of N datastore/realizer/scanner calls is recorded, then re-run with each of 7 fault kinds (error, Canceled error, DeadlineExceeded error, context cancelled during / after the call, crash, effect-then-error) at every position 0..N-1 and at sampled pairs of positions, each followed by two clean retries; non-trivial = the op carries a fault script, failed, or did real work (trace other than the 3-call lookup)"
	if cfg.Replay != "" {
		if b, e := os.ReadFile(cfg.Replay); e == nil {
			var rf replayFile
			if json.Unmarshal(b, &rf) == nil && rf.Seed != 0 {
				cfg.Seed = rf.Seed
			}
		}
	}
	rnd := hx.NewRand(cfg.Seed)
	c := &checker{r: r, s: ctrl.NewSession(r)}
	c.s.ReplayCorpus(cfg.Corpus)
	c.known()
	c.knownUnconfigured()

	nScen := cfg.N(26, 200)
	nPairs := cfg.N(40, 300)
	for i := 0; i < nScen && !r.Stop() && !c.s.Lost; i++ {
		sc := genScenario(rnd)
		// fault-free run: the call sequence and its length
		c.setup(sc)
		scannedBefore := c.scannedNow(sc.M)
		clean := c.attempt(sc, ctrl.Script{}, false)
		if clean.Hang {
			break
		}
		if clean.ErrClass != "nil" || !clean.Success {
			r.Fail("", "fault-free index failed: "+sc.String()+" => "+clean.Line())
			continue
		}
		_ = scannedBefore
		n := clean.Calls
		r.Count(fmt.Sprintf("scenario.layers=%d", len(sc.M)))
		r.Count(fmt.Sprintf("scenario.pre=%d", len(sc.Pre)))
		// libindex.New itself
		if i%3 == 0 {
			c.newFaults(sc, rnd)
		}
		// the caller's context is dead before the call
		c.faulty(sc, []ctrl.Script{{}}, true)
		// every single fault
		for p := 0; p < n && !r.Stop() && !c.s.Lost; p++ {
			for _, k := range kinds {
				c.faulty(sc, []ctrl.Script{{p: k}}, false)
			}
		}
		// pairs of positions, and two faulty attempts in a row
		for j := 0; j < nPairs && !r.Stop() && !c.s.Lost; j++ {
			p, q := rnd.Intn(n+2), rnd.Intn(n+2)
			k1, k2 := kinds[rnd.Intn(len(kinds))], kinds[rnd.Intn(len(kinds))]
			if rnd.Chance(1, 2) {
				c.faulty(sc, []ctrl.Script{{p: k1, q: k2}}, false)
			} else {
				c.faulty(sc, []ctrl.Script{{p: k1}, {q: k2}}, false)
			}
		}
	}
	// Exhaustive pairs on small configurations: a fault at every position of a
	// first attempt followed by a fault at every position of a second attempt
	// (then clean retries), and every pair of positions within one attempt.
	small := []scenario{
		{Cfg: ctrl.Config{{Eco: 0, Kind: 'p', Name: "a", Version: "1"}}, M: []int{1}},
	}
	firstKinds, secondKinds := []byte{ctrl.FCommitErr, ctrl.FCrash}, []byte{ctrl.FErr}
	if cfg.Thorough() {
		small = append(small, scenario{Cfg: ctrl.Config{{Eco: 0, Kind: 'p', Name: "ab", Version: "1"}, {Eco: 1, Kind: 'd', Name: "b", Version: "1"}}, M: []int{1, 2}})
		firstKinds, secondKinds = kinds, []byte{ctrl.FErr, ctrl.FCommitErr, ctrl.FDeadline, ctrl.FCancelAfter}
	}
	for _, sc := range small {
		c.setup(sc)
		clean := c.attempt(sc, ctrl.Script{}, false)
		n := clean.Calls
		npairs := 0
		for p := 0; p < n && !r.Stop() && !c.s.Lost; p++ {
			for q := 0; q < n && !r.Stop() && !c.s.Lost; q++ {
				for _, k1 := range firstKinds {
					for _, k2 := range secondKinds {
						c.faulty(sc, []ctrl.Script{{p: k1}, {q: k2}}, false)
						npairs++
						if q > p && (k1 == ctrl.FCommitErr || cfg.Thorough()) {
							c.faulty(sc, []ctrl.Script{{p: k1, q: k2}}, false)
							npairs++
						}
					}
				}
			}
		}
		r.Notes["exhaustive pairs "+sc.String()] = fmt.Sprintf("%d call positions; every (p, q) x first-attempt kinds %q x second-attempt kinds %q over two attempts, and within one attempt for q > p: %d fault scenarios, each followed by two clean retries", n, firstKinds, secondKinds, npairs)
	}
	// controller.run over scripted state functions: every arm of its switch and
	// the retry / backoff path
	c.runScript([]ctrl.RunIter{{Next: "Terminal", Err: 'd'}})                                                        // the shape of every in-tree deadline failure
	c.runScript([]ctrl.RunIter{{Next: "FetchLayers", Err: 'd'}, {Next: "ScanLayers", Err: 'd', CancelInWait: true}}) // second wait is jitter
	c.runScript([]ctrl.RunIter{{Next: "FetchLayers", Err: 'g'}, {Next: "ScanLayers", Err: '-'}})                     // an error with a non-Terminal next state
	c.runScript([]ctrl.RunIter{{Next: "FetchLayers", Err: '-', PersistFails: true}})
	if cfg.Thorough() {
		// one run that really sleeps through a jitter wait (1..5 s)
		c.runScript([]ctrl.RunIter{{Next: "FetchLayers", Err: 'd'}, {Next: "ScanLayers", Err: 'd'}, {Next: "Terminal", Err: '-'}})
	}
	for i, n := 0, cfg.N(1500, 20000); i < n && !r.Stop(); i++ {
		c.runScript(genRun(rnd))
	}
	// LayerScanner.Scan with several scanner goroutines, run one step at a time
	// under a seeded scheduler (hook points layerscanner.*): the same checks, and
	// every call is a protocol line (`pindex`, carrying the schedule) that the
	// model of the errgroup machine has to reproduce
	for _, limit := range []int{1, 2, 3, 64} {
		ss := ctrl.NewSession(r)
		ss.Concurrency, ss.SchedRnd, ss.FaultRate = limit, rnd.Fork(), 9
		sc := &checker{r: r, s: ss}
		for i, n := 0, cfg.N(60, 600); i < n && !r.Stop() && !ss.Lost; i++ {
			scn := scenario{Cfg: GenConfig(rnd, rnd.U64()), M: GenManifest(rnd, 4)}
			if rnd.Chance(1, 2) {
				scn.Pre = append(scn.Pre, GenManifest(rnd, 3))
			}
			scn.NetDown = hasFlag(scn.Cfg, 'N') && rnd.Chance(1, 2)
			if rnd.Chance(1, 2) {
				withEarlier(rnd, &scn)
			}
			r.Count(fmt.Sprintf("sched.scenario limit=%d", limit))
			faulty := ctrl.Script{}
			if rnd.Chance(3, 4) {
				faulty = ctrl.Script{0: ctrl.FErr} // "with faults": the scheduler decides which
			}
			sc.faulty(scn, []ctrl.Script{faulty}, false)
		}
	}
	// An ecosystem's scanner constructor failing while coalesce runs (repaired
	// defect: the error was ignored and a report without that kind of artifact
	// was returned as a success). Constructors are not numbered calls, so these
	// runs are direct checks only.
	qs := ctrl.NewSession(r)
	qs.Quiet = true
	qc := &checker{r: r, s: qs}
	for i, n := 0, cfg.N(40, 400); i < n && !r.Stop() && !qs.Lost; i++ {
		sc := scenario{Cfg: GenConfig(rnd, rnd.U64()), M: GenManifest(rnd, 3)}
		if i == 0 {
			sc = scenario{Cfg: ctrl.Config{{Eco: 0, Kind: 'p', Name: "a", Version: "1"}, {Eco: 0, Kind: 'd', Name: "b", Version: "1"}}, M: []int{1, 2}}
		}
		k := 1 + rnd.Intn(7)
		if i == 0 {
			k = 1
		}
		qc.setup(sc)
		qs.W.CtorFailInIndex = k
		res := qc.attempt(sc, ctrl.Script{}, false)
		qs.W.CtorFailInIndex = 0
		if res.Failed {
			r.Count("ctor-failure-in-coalesce.reached")
		} else {
			r.Count("ctor-failure-in-coalesce.not-reached")
		}
		qc.retry(sc, fmt.Sprintf("constructor call %d of coalesce fails", k), false, false)
	}
	// Interleavings: the same direct checks with four scanner goroutines
	// (LayerScanConcurrency = 4). Call numbering then depends on the schedule,
	// so these runs are not part of the line protocol; the statement is about
	// every schedule, so whichever one happens must satisfy it.
	cs := ctrl.NewSession(r)
	cs.Quiet, cs.Concurrency = true, 4
	cc := &checker{r: r, s: cs}
	nConc := cfg.N(600, 8000)
	for i := 0; i < nConc && !r.Stop() && !cs.Lost; i++ {
		sc := scenario{Cfg: GenConfig(rnd, rnd.U64()), M: GenManifest(rnd, 4)}
		if rnd.Chance(1, 3) {
			sc.Pre = append(sc.Pre, GenManifest(rnd, 3))
		}
		sc.NetDown = hasFlag(sc.Cfg, 'N') && rnd.Chance(1, 2)
		if rnd.Chance(1, 2) {
			withEarlier(rnd, &sc)
		}
		script := ctrl.Script{rnd.Intn(110): kinds[rnd.Intn(len(kinds))]}
		if rnd.Chance(1, 4) {
			script[rnd.Intn(110)] = kinds[rnd.Intn(len(kinds))]
		}
		r.Count("concurrent.scenario")
		cc.faulty(sc, []ctrl.Script{script}, false)
	}
	r.Notes["store"] = "in-memory indexer.Store (go/internal/memstore) following datastore/postgres method by method; every method atomic (every multi-statement method of datastore/postgres runs in one transaction)"
	r.Notes["exhaustive singles"] = "for every generated scenario: the fault-free run has N numbered calls (datastore, realizer, stub scanner, stub coalescer); each of the 7 fault kinds is injected at every position 0..N-1 (histogram buckets fault.<kind>@<call letter> give the positions x kinds table by call type), plus the context dead at entry"
	r.Notes["concurrency"] = "protocol lines: LayerScanConcurrency=1 (the call sequence must be deterministic for position-indexed faults); plus direct checks only with LayerScanConcurrency=4"
	return nil
}
