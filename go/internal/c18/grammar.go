package c18

// The vector grammars of the three specifications, written independently of
// the ragel parsers under test as regular expressions plus the side
// conditions a regular expression cannot say (v3: no metric twice, all base
// metrics present).
//
//	v2 guide 2.4: base metrics in the order AV/AC/Au/C/I/A, optionally
//	   followed by the temporal group E/RL/RC and/or the environmental group
//	   CDP/TD/CR/IR/AR, each group complete and in order;
//	v3.x spec section 6: "CVSS:3.0"/"CVSS:3.1", metrics in any order, each
//	   at most once, all base metrics present;
//	v4.0 spec section 7: "CVSS:4.0", metrics in the fixed order of table 23,
//	   base metrics mandatory, every other metric optional.

import (
	"regexp"
	"strings"
)

var v4Names = []string{"AV", "AC", "AT", "PR", "UI", "VC", "VI", "VA", "SC", "SI", "SA", "E", "CR", "IR", "AR",
	"MAV", "MAC", "MAT", "MPR", "MUI", "MVC", "MVI", "MVA", "MSC", "MSI", "MSA", "S", "AU", "R", "V", "RE", "U"}

var v4Values = [][]string{
	{"N", "A", "L", "P"}, {"L", "H"}, {"N", "P"}, {"N", "L", "H"}, {"N", "P", "A"},
	{"H", "L", "N"}, {"H", "L", "N"}, {"H", "L", "N"}, {"H", "L", "N"}, {"H", "L", "N"}, {"H", "L", "N"},
	{"X", "A", "P", "U"}, {"X", "H", "M", "L"}, {"X", "H", "M", "L"}, {"X", "H", "M", "L"},
	{"X", "N", "A", "L", "P"}, {"X", "L", "H"}, {"X", "N", "P"}, {"X", "N", "L", "H"}, {"X", "N", "P", "A"},
	{"X", "H", "L", "N"}, {"X", "H", "L", "N"}, {"X", "H", "L", "N"}, {"X", "H", "L", "N"},
	{"X", "H", "L", "N", "S"}, {"X", "H", "L", "N", "S"},
	{"X", "N", "P"}, {"X", "N", "Y"}, {"X", "A", "U", "I"}, {"X", "D", "C"}, {"X", "L", "M", "H"},
	{"X", "Clear", "Green", "Amber", "Red"},
}

func alt(xs []string) string { return "(?:" + strings.Join(xs, "|") + ")" }

var reV2 = func() *regexp.Regexp {
	m := func(i int) string { return v2Names[i] + ":" + alt(v2Values[i]) }
	join := func(lo, hi int) string {
		var p []string
		for i := lo; i < hi; i++ {
			p = append(p, m(i))
		}
		return strings.Join(p, "/")
	}
	return regexp.MustCompile("^" + join(0, 6) + "(?:/" + join(6, 9) + ")?(?:/" + join(9, 14) + ")?$")
}()

var reV3 = func() *regexp.Regexp {
	var p []string
	for i, n := range v3Names {
		p = append(p, n+":["+v3Values[i]+"]")
	}
	return regexp.MustCompile(`^CVSS:3\.[01](?:/` + alt(p) + ")+$")
}()

var reV4 = func() *regexp.Regexp {
	s := `^CVSS:4\.0`
	for i, n := range v4Names {
		if i < 11 {
			s += "/" + n + ":" + alt(v4Values[i])
		} else {
			s += "(?:/" + n + ":" + alt(v4Values[i]) + ")?"
		}
	}
	return regexp.MustCompile(s + "$")
}()

func toVec(parts []string) (vec, bool) {
	v := vec{}
	for _, p := range parts {
		n, x, ok := strings.Cut(p, ":")
		if !ok {
			return nil, false
		}
		if _, dup := v[n]; dup {
			return nil, false
		}
		v[n] = x
	}
	return v, true
}

// grammarV2 reports whether s is a v2 vector and returns its metrics.
func grammarV2(s string) (vec, bool) {
	if !reV2.MatchString(s) {
		return nil, false
	}
	return toVec(strings.Split(s, "/"))
}

// grammarV3 reports whether s is a v3.0/v3.1 vector; minor is 0 or 1.
func grammarV3(s string) (int, vec, bool) {
	if !reV3.MatchString(s) {
		return 0, nil, false
	}
	parts := strings.Split(s, "/")
	v, ok := toVec(parts[1:])
	if !ok {
		return 0, nil, false
	}
	for _, n := range v3Names[:8] {
		if _, ok := v[n]; !ok {
			return 0, nil, false
		}
	}
	return int(parts[0][7] - '0'), v, true
}

// grammarV4 reports whether s is a v4.0 vector.
func grammarV4(s string) (vec, bool) {
	if !reV4.MatchString(s) {
		return nil, false
	}
	return toVec(strings.Split(s, "/")[1:])
}
