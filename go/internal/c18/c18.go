// Package c18 drives the real CVSS code (toolkit/types/cvss: ParseV2/V3/V4,
// Score, QualitativeScore, String; updater/osv: fromCVSS2/fromCVSS3) on
// exhaustive base spaces, sampled or complete extensions, near-valid and
// arbitrary strings, writes the line protocol of the Lean model
// (lean/Driver/C18.lean) and checks the statement of property C18 directly
// with independent oracles: an exact-rational evaluation of the published
// equations (spec.go), the vector grammars as regular expressions
// (grammar.go) and the documented OSV severity tables.
package c18

import (
	"bufio"
	"context"
	"fmt"
	"math"
	"os"
	"path/filepath"
	"sort"
	"strings"
	"sync"

	"github.com/rs/zerolog"

	"github.com/quay/claircore/toolkit/types/cvss"
	"github.com/quay/claircore/updater/osv"
	"github.com/quay/claircore/verifharness/internal/hx"
)

// Known finding classes (findings/C18.txt).
const (
	kV2Tie      = "v2-float-tie"
	kV30Round   = "v30-float-roundup"
	kV4Mod      = "v4-modified-metrics-ignored"
	witV2Tie    = "AV:L/AC:M/Au:S/C:N/I:P/A:P/E:F/RL:U/RC:C"
	witV30      = "CVSS:3.0/AV:N/AC:L/PR:N/UI:N/S:C/C:H/I:H/A:H/RC:U"
	witV4Mod    = "CVSS:4.0/AV:N/AC:L/AT:N/PR:N/UI:N/VC:H/VI:H/VA:H/SC:H/SI:H/SA:H/MVC:N/MVI:N/MVA:N/MSC:N/MSI:N/MSA:N"
	witOSVPanic = "CVSS:3/AV:N/AC:L/PR:N/UI:N/S:U/C:H/I:H/A:H"
	// fromCVSS3 accepts more than vectors (listed finding): a metric twice
	// (the last one wins, so the order of the pieces matters), no base metric
	kOsvLax      = "osv-accepts-non-vectors"
	witOsvDupA   = "CVSS:3.1/AV:P/AC:L/PR:N/UI:N/S:U/C:H/I:H/A:H/AV:N"
	witOsvDupB   = "CVSS:3.1/AV:N/AC:L/PR:N/UI:N/S:U/C:H/I:H/A:H/AV:P"
	witOsvNoBase = "CVSS:3.1/E:X/RL:X/RC:X/CR:X/IR:X/AR:X/MAV:X/MAC:X"
)

type harness struct {
	r    *hx.Run
	rnd  *hx.Rand
	ctx  context.Context
	kept []keptVec // parsed vectors kept for the multi-step printing checks
	seen int
}

// marshaler is what V2, V3 and V4 share.
type marshaler interface {
	MarshalText() ([]byte, error)
	String() string
}

// keptVec is one successfully parsed vector: version, input text, the value.
type keptVec struct {
	ver int
	s   string
	m   marshaler
}

// keep remembers a parsed vector (reservoir of 512, seeded choice).
func (h *harness) keep(ver int, s string, m marshaler) {
	h.seen++
	if len(h.kept) < 512 {
		h.kept = append(h.kept, keptVec{ver, s, m})
		return
	}
	if i := h.rnd.Intn(h.seen); i < len(h.kept) {
		h.kept[i] = keptVec{ver, s, m}
	}
}

func hexOf(s string) string { return hx.Hex([]byte(s)) }

func inInts(xs []int, k int) bool {
	for _, x := range xs {
		if x == k {
			return true
		}
	}
	return false
}

// score10 renders a float score as the integer score*10 ("nan" for NaN /
// out-of-range garbage) and reports whether it is a one-decimal number.
func score10(f float64) (string, int, bool) {
	if math.IsNaN(f) || math.IsInf(f, 0) || math.Abs(f) > 1e6 {
		return "nan", 0, false
	}
	k := math.Round(f * 10)
	return fmt.Sprintf("%d", int(k)), int(k), math.Abs(f*10-k) < 1e-9
}

var sevOfRating = map[string]int{"None": 1, "Low": 2, "Medium": 3, "High": 4, "Critical": 5}

func (h *harness) fail(class, what, s string) {
	h.r.Fail(class, fmt.Sprintf("%s input=%q", what, s))
}

// ---------------------------------------------------------------- v2

func (h *harness) v2(s string, near bool) {
	r := h.r
	var pv cvss.V2
	var perr error
	var sc float64
	var printed string
	var q cvss.Qualitative
	out := hx.Guard(func() string {
		pv, perr = cvss.ParseV2(s)
		if perr != nil {
			return "err"
		}
		sc = pv.Score()
		printed = pv.String()
		q = cvss.QualitativeScore(&pv)
		ks, _, _ := score10(sc)
		return fmt.Sprintf("ok %s %s %d", printed, ks, int(q))
	})
	v, valid := grammarV2(s)
	r.Count("v2:" + strings.SplitN(out, " ", 2)[0])
	if out == "panic" {
		h.fail("", "v2 parse/score/print panicked", s)
	}
	// statement: parsing accepts exactly the vectors the specification allows
	if (out != "err") != valid && out != "panic" {
		h.fail("", fmt.Sprintf("v2 parser accepts=%v but the v2 vector grammar says %v", out != "err", valid), s)
	}
	emit := true
	if valid && strings.HasPrefix(out, "ok") {
		sp := specV2(v)
		_, k, oneDec := score10(sc)
		if !oneDec {
			h.fail("", fmt.Sprintf("v2 score %v is not a one-decimal number", sc), s)
		}
		switch {
		case k == sp.Score10:
		case k == sp.Score10-1 && inInts(sp.Alt, k):
			// listed finding: an exact half-way argument of round_to_1_decimal
			// is rounded down because the float64 product falls short of it.
			r.KnownSeen(kV2Tie, fmt.Sprintf("input=%q implementation=%d/10 published-equations=%d/10", s, k, sp.Score10))
			r.Count("known:" + kV2Tie)
			r.Op("d2 "+hexOf(s)+" "+fmt.Sprint(k), fmt.Sprintf("tie %d", sp.Score10), true)
			emit = false
		default:
			h.fail("", fmt.Sprintf("v2 score: implementation %d/10, published equations %d/10 (tie=%v)", k, sp.Score10, sp.Tie), s)
		}
		if sp.Tie {
			r.Count("v2:round-argument-exactly-half")
		}
		if want := rating(k); q.String() != want {
			h.fail("", fmt.Sprintf("v2 qualitative rating %v for score %d/10, bands say %s", q, k, want), s)
		}
		h.printOracle("v2", s, printed, v, v2Names, func(t string) (string, bool) {
			p2, err := cvss.ParseV2(t)
			if err != nil {
				return "", false
			}
			return p2.String(), p2 == pv
		})
		r.Count("v2:groups:" + groupsOf(v, []string{"E"}, []string{"CDP"}))
		kv := pv
		h.keep(2, s, &kv)
	}
	if emit {
		r.Op("v2 "+hexOf(s), out, out != "err" || near)
	}
}

// printOracle: printing a parsed vector gives an equivalent canonical vector.
func (h *harness) printOracle(ver, s, printed string, v vec, order []string, reparse func(string) (string, bool)) {
	again, same := reparse(printed)
	if again == "" && !same {
		h.fail("", ver+" printed vector "+printed+" does not parse", s)
		return
	}
	if !same {
		h.fail("", ver+" printed vector "+printed+" parses to a different vector", s)
	}
	if again != printed {
		h.fail("", ver+" printing is not canonical: "+printed+" prints again as "+again, s)
	}
	// same metrics, same values, specification order
	body := printed
	if i := strings.Index(body, "/"); ver != "v2" && i >= 0 {
		body = body[i+1:]
	}
	pos := map[string]int{}
	for i, n := range order {
		pos[n] = i
	}
	last := -1
	seen := 0
	for _, p := range strings.Split(body, "/") {
		n, val, _ := strings.Cut(p, ":")
		if v[n] != val {
			h.fail("", fmt.Sprintf("%s printed vector %s has %s:%s, the input has %q", ver, printed, n, val, v[n]), s)
		}
		if pos[n] <= last {
			h.fail("", ver+" printed vector "+printed+" is not in specification order", s)
		}
		last = pos[n]
		seen++
	}
	if seen != len(v) {
		h.fail("", fmt.Sprintf("%s printed vector %s has %d metrics, the input has %d", ver, printed, seen, len(v)), s)
	}
}

func groupsOf(v vec, temporal, env []string) string {
	g := "base"
	if v.has(temporal...) {
		g += "+t"
	}
	if v.has(env...) {
		g += "+e"
	}
	return g
}

// ---------------------------------------------------------------- v3

var v3EnvNames = []string{"CR", "IR", "AR", "MAV", "MAC", "MPR", "MUI", "MS", "MC", "MI", "MA"}

func (h *harness) v3(s string, near bool) {
	r := h.r
	var pv cvss.V3
	var perr error
	var sc float64
	var printed string
	var q cvss.Qualitative
	out := hx.Guard(func() string {
		pv, perr = cvss.ParseV3(s)
		if perr != nil {
			return "err"
		}
		sc = pv.Score()
		printed = pv.String()
		q = cvss.QualitativeScore(&pv)
		ks, _, _ := score10(sc)
		return fmt.Sprintf("ok %s %s %d", printed, ks, int(q))
	})
	minor, v, valid := grammarV3(s)
	r.Count("v3:" + strings.SplitN(out, " ", 2)[0])
	if out == "panic" {
		h.fail("", "v3 parse/score/print panicked", s)
	}
	if (out != "err") != valid && out != "panic" {
		h.fail("", fmt.Sprintf("v3 parser accepts=%v but the v3 vector grammar says %v", out != "err", valid), s)
	}
	emit := true
	if valid && strings.HasPrefix(out, "ok") {
		sp := specV3(minor, v)
		ks, k, oneDec := score10(sc)
		if ks == "nan" {
			h.fail("", fmt.Sprintf("v3 score is %v", sc), s)
		} else if !oneDec {
			h.fail("", fmt.Sprintf("v3 score %v is not a one-decimal number", sc), s)
		}
		switch {
		case ks == "nan":
		case k == sp.Score10:
		case minor == 0 && k == sp.Score10+1 && inInts(sp.Alt, k):
			// listed finding: Roundup of an exact one-decimal argument goes
			// one tenth up because the float64 product lands above it.
			r.KnownSeen(kV30Round, fmt.Sprintf("input=%q implementation=%d/10 published-equations=%d/10", s, k, sp.Score10))
			r.Count("known:" + kV30Round)
			r.Op("d3 "+hexOf(s)+" "+fmt.Sprint(k), fmt.Sprintf("tie %d", sp.Score10), true)
			emit = false
		default:
			h.fail("", fmt.Sprintf("v3.%d score: implementation %d/10, published equations %d/10 (edge=%v)", minor, k, sp.Score10, sp.Tie), s)
		}
		if minor == 1 && sp.Tie {
			r.Count("v3.1:truncation-vs-rounding-edge")
		}
		if k < 0 || k > 100 {
			h.fail("", fmt.Sprintf("v3 score %d/10 outside [0,10]", k), s)
		}
		if v["C"] == "N" && v["I"] == "N" && v["A"] == "N" && !v.has(v3EnvNames...) && k != 0 {
			h.fail("", fmt.Sprintf("v3 score %d/10 for a vector without impact", k), s)
		}
		if want := rating(k); ks != "nan" && q.String() != want {
			h.fail("", fmt.Sprintf("v3 qualitative rating %v for score %d/10, bands say %s", q, k, want), s)
		}
		h.printOracle("v3", s, printed, v, v3Names, func(t string) (string, bool) {
			p2, err := cvss.ParseV3(t)
			if err != nil {
				return "", false
			}
			return p2.String(), p2 == pv
		})
		r.Count(fmt.Sprintf("v3.%d:groups:%s", minor, groupsOf(v, []string{"E", "RL", "RC"}, v3EnvNames)))
		kv := pv
		h.keep(3, s, &kv)
		r.Count("v3:rating:" + rating(sp.Score10))
		if v.mod3("S") == "C" {
			r.Count("v3:scope-changed")
		}
		for _, n := range v3EnvNames[3:] {
			if v[n] == "X" {
				r.Count("v3:explicit-X-modified")
				break
			}
		}
	}
	if emit {
		r.Op("v3 "+hexOf(s), out, out != "err" || near)
	}
}

// ---------------------------------------------------------------- v4

var v4Impact = []string{"VC", "VI", "VA", "SC", "SI", "SA"}

func (h *harness) v4(s string, near bool) {
	r := h.r
	var pv cvss.V4
	var sc float64
	var printed string
	var q cvss.Qualitative
	out := hx.Guard(func() string {
		var err error
		pv, err = cvss.ParseV4(s)
		if err != nil {
			return "err"
		}
		sc = pv.Score()
		printed = pv.String()
		q = cvss.QualitativeScore(&pv)
		mv := pv.MacrovectorForVerif()
		ms := "-"
		if x, ok := cvss.V4MacrovectorScoreForVerif(mv); ok {
			ms = fmt.Sprint(int(math.Round(x * 10)))
		}
		z := 0
		if sc == 0 {
			z = 1
		}
		return fmt.Sprintf("ok %s %d%d%d%d%d%d %s %d", printed, mv[0], mv[1], mv[2], mv[3], mv[4], mv[5], ms, z)
	})
	v, valid := grammarV4(s)
	r.Count("v4:" + strings.SplitN(out, " ", 2)[0])
	if out == "panic" {
		h.fail("", "v4 parse/score/print panicked", s)
	}
	if (out != "err") != valid && out != "panic" {
		h.fail("", fmt.Sprintf("v4 parser accepts=%v but the v4 vector grammar says %v", out != "err", valid), s)
	}
	if valid && strings.HasPrefix(out, "ok") {
		ks, k, oneDec := score10(sc)
		switch {
		case ks == "nan":
			h.fail("", fmt.Sprintf("v4 score is %v", sc), s)
		case !oneDec:
			h.fail("", fmt.Sprintf("v4 score %v is not a one-decimal number", sc), s)
		case k < 0 || k > 100:
			h.fail("", fmt.Sprintf("v4 score %d/10 outside [0,10]", k), s)
		}
		// no impact: every effective impact metric (Modified value unless
		// absent or X, else the Base value) is N
		effNone, baseNone := true, true
		for _, n := range v4Impact {
			e := v[n]
			if m, ok := v["M"+n]; ok && m != "X" {
				e = m
			}
			if e != "N" {
				effNone = false
			}
			if v[n] != "N" {
				baseNone = false
			}
		}
		if effNone && k != 0 {
			if !baseNone {
				r.KnownSeen(kV4Mod, fmt.Sprintf("input=%q scores %d/10 although every Modified impact metric is N", s, k))
				r.Count("known:" + kV4Mod)
			} else {
				h.fail("", fmt.Sprintf("v4 score %d/10 for a vector without impact", k), s)
			}
		}
		if baseNone {
			r.Count("v4:no-base-impact")
		}
		// the score by the FIRST algorithm (independent exact evaluation)
		if ks != "nan" {
			sp, lib := specV4(v, true), specV4(v, false)
			same := func(i spec4Info) bool { return k == i.Score10 || (i.Tie && k == i.Score10-1) }
			switch {
			case same(sp):
			case same(lib):
				// listed finding: the Modified Base metrics are not read
				r.KnownSeen(kV4Mod, fmt.Sprintf("input=%q scores %d/10, the FIRST algorithm gives %d/10 (macrovector %s); %d/10 is what it gives when the Modified metrics are left out", s, k, sp.Score10, sp.Macro, lib.Score10))
				r.Count("known:" + kV4Mod + ":score")
			default:
				h.fail("", fmt.Sprintf("v4 score: implementation %d/10, FIRST algorithm %d/10 (macrovector %s, tie=%v; without the Modified metrics %d/10)", k, sp.Score10, sp.Macro, sp.Tie, lib.Score10), s)
			}
			if sp.Tie {
				r.Count("v4:rounding-tie")
			}
		}
		if want := rating(k); ks != "nan" && q.String() != want {
			h.fail("", fmt.Sprintf("v4 qualitative rating %v for score %d/10, bands say %s", q, k, want), s)
		}
		h.printOracle("v4", s, printed, v, v4Names, func(t string) (string, bool) {
			p2, err := cvss.ParseV4(t)
			if err != nil {
				return "", false
			}
			return p2.String(), p2 == pv
		})
		g := "base"
		if v.has("E") {
			g += "+t"
		}
		if v.has(v4Names[12:26]...) {
			g += "+e"
		}
		if v.has(v4Names[26:]...) {
			g += "+s"
		}
		r.Count("v4:groups:" + g)
		kv := pv
		h.keep(4, s, &kv)
		r.Count("v4:rating:" + rating(k))
		if ks != "nan" {
			// the model decides whether k is the rounding of its exact value
			r.Op("s4 "+hexOf(s)+" "+ks, "ok", true)
		}
	}
	r.Op("v4 "+hexOf(s), out, out != "err" || near)
}

// ---------------------------------------------------------------- OSV

func (h *harness) osv3(s string, near bool) {
	r := h.r
	out := hx.Guard(func() string {
		sev, err := osv.FromCVSS3ForVerif(h.ctx, s)
		if err != nil {
			return "err"
		}
		return fmt.Sprint(int(sev))
	})
	r.Count("osv3:" + out)
	if out == "panic" {
		h.fail("", "osv fromCVSS3 panicked", s)
	}
	if minor, v, valid := grammarV3(s); valid {
		base := vec{}
		for _, n := range v3Names[:8] {
			base[n] = v[n]
		}
		want := sevOfRating[rating(specV3(minor, base).Score10)]
		if out != fmt.Sprint(want) {
			h.fail("", fmt.Sprintf("osv fromCVSS3 gives %s, the rating of the base score (published equations) is severity %d", out, want), s)
		}
		// ... and the same vector through the vector library
		if pv, err := cvss.ParseV3(str3(minor, base)); err == nil {
			if lib := int(cvss.QualitativeScore(&pv)); out != fmt.Sprint(lib) {
				h.fail("", fmt.Sprintf("osv fromCVSS3 gives %s, the vector library rates the base vector %d", out, lib), s)
			}
		}
	}
	// a string with fewer than eight metrics cannot hold the eight base metrics
	if n := len(strings.Split(strings.TrimRight(s, "/"), "/")); n < 9 && out != "err" && out != "panic" {
		h.fail("", fmt.Sprintf("osv fromCVSS3 derives severity %s from a string with %d metrics", out, n-1), s)
	}
	r.Op("o3 "+hexOf(s), out, out != "err" || near)
}

func (h *harness) osv2(s string, near bool) {
	r := h.r
	out := hx.Guard(func() string {
		sev, err := osv.FromCVSS2ForVerif(s)
		if err != nil {
			return "err"
		}
		return fmt.Sprint(int(sev))
	})
	r.Count("osv2:" + out)
	if out == "panic" {
		h.fail("", "osv fromCVSS2 panicked", s)
	}
	if v, valid := grammarV2(s); valid {
		base := vec{}
		for _, n := range v2Names[:6] {
			base[n] = v[n]
		}
		band := func(k int) int {
			switch {
			case k < 40:
				return 2
			case k < 70:
				return 3
			}
			return 4
		}
		want := band(specV2(base).Score10)
		if out != fmt.Sprint(want) {
			h.fail("", fmt.Sprintf("osv fromCVSS2 gives %s, the documented band of the base score (published equations) is severity %d", out, want), s)
		}
		if pv, err := cvss.ParseV2(str2(base)); err == nil {
			if _, k, _ := score10(pv.Score()); out != fmt.Sprint(band(k)) {
				h.fail("", fmt.Sprintf("osv fromCVSS2 gives %s, the vector library scores the base vector %d/10 (severity %d)", out, k, band(k)), s)
			}
		}
	}
	r.Op("o2 "+hexOf(s), out, out != "err" || near)
}

// ---------------------------------------------------------------- multi-step printing

// retained: "printing a parsed vector gives an equivalent canonical vector"
// must hold for the value the caller holds.  The []byte MarshalText returned
// for vector A is kept while other vectors (other versions too) are
// marshalled and printed, then compared with A's text and parsed again.
// Protocol: `rt <verA> <hexA> <verB> <hexB>` -> `ok <text of A> <text of B>`,
// the implementation side printing the RETAINED bytes of A.
func (h *harness) retained(n int) {
	r := h.r
	if len(h.kept) < 2 {
		return
	}
	for i := 0; i < n && !r.Stop(); i++ {
		a := h.kept[h.rnd.Intn(len(h.kept))]
		b := h.kept[h.rnd.Intn(len(h.kept))]
		for k := 0; k < 4 && b.ver == a.ver; k++ { // prefer another version
			b = h.kept[h.rnd.Intn(len(h.kept))]
		}
		extra := h.rnd.Intn(3)
		out := hx.Guard(func() string {
			sa := a.m.String()
			ta, err := a.m.MarshalText() // kept
			if err != nil {
				return "err"
			}
			tb, err := b.m.MarshalText() // kept as well
			if err != nil {
				return "err"
			}
			sb := b.m.String()
			for k := 0; k < extra; k++ { // a few more users of the package in between
				c := h.kept[h.rnd.Intn(len(h.kept))]
				_ = c.m.String()
				_, _ = c.m.MarshalText()
			}
			if string(ta) != sa {
				h.fail("", fmt.Sprintf("the bytes MarshalText returned for %q read %q after marshalling %q (String() gave %q)", a.s, ta, b.s, sa), a.s)
			} else if !h.reparses(a, string(ta)) {
				h.fail("", fmt.Sprintf("the retained MarshalText bytes %q of %q no longer parse to the same vector", ta, a.s), a.s)
			}
			if string(tb) != sb {
				h.fail("", fmt.Sprintf("the bytes MarshalText returned for %q read %q after later marshalling (String() gave %q)", b.s, tb, sb), b.s)
			}
			return fmt.Sprintf("ok %s %s", ta, tb)
		})
		if out == "panic" {
			h.fail("", "MarshalText/String panicked", a.s)
		}
		r.Count(fmt.Sprintf("retained:v%d-then-v%d", a.ver, b.ver))
		r.Op(fmt.Sprintf("rt %d %s %d %s", a.ver, hexOf(a.s), b.ver, hexOf(b.s)), out, true)
	}
}

// reparses: the text parses (by a's version) to the value a holds.
func (h *harness) reparses(a keptVec, text string) bool {
	switch a.ver {
	case 2:
		p, err := cvss.ParseV2(text)
		return err == nil && p == *a.m.(*cvss.V2)
	case 3:
		p, err := cvss.ParseV3(text)
		return err == nil && p == *a.m.(*cvss.V3)
	default:
		p, err := cvss.ParseV4(text)
		return err == nil && p == *a.m.(*cvss.V4)
	}
}

// concurrent: String / MarshalText of different vectors from several
// goroutines at once; every goroutine owns its vector and knows its text.
func (h *harness) concurrent(workers, iters int) {
	r := h.r
	if len(h.kept) < workers {
		return
	}
	type job struct {
		v    keptVec
		want string
	}
	jobs := make([]job, workers)
	for i := range jobs {
		v := h.kept[h.rnd.Intn(len(h.kept))]
		jobs[i] = job{v, v.m.String()}
	}
	bad := make([]string, workers)
	var wg sync.WaitGroup
	for i := range jobs {
		wg.Add(1)
		go func(i int) {
			defer wg.Done()
			defer func() {
				if e := recover(); e != nil {
					bad[i] = fmt.Sprintf("panic: %v", e)
				}
			}()
			j := jobs[i]
			for k := 0; k < iters; k++ {
				t, err := j.v.m.MarshalText()
				s := j.v.m.String()
				if err != nil || s != j.want {
					bad[i] = fmt.Sprintf("String() gave %q", s)
					return
				}
				if string(t) != j.want {
					bad[i] = fmt.Sprintf("MarshalText gave %q", t)
					return
				}
			}
		}(i)
	}
	wg.Wait()
	for i, b := range bad {
		r.Case(fmt.Sprintf("concurrent v%d %s", jobs[i].v.ver, jobs[i].v.s), true)
		if b != "" {
			h.fail("", fmt.Sprintf("concurrent printing (%d goroutines): %s, want %q", workers, b, jobs[i].want), jobs[i].v.s)
		}
	}
	r.Count("concurrent:rounds")
}

// ---------------------------------------------------------------- v4 monotonicity, OSV order

// v4Order lists, for the metrics the v4 score depends on, the values from the
// most to the least severe (specification section 2; X of E / CR / IR / AR is
// the most severe value's equal and is left out).
var v4Order = map[string][]string{
	"AV": {"N", "A", "L", "P"}, "AC": {"L", "H"}, "AT": {"N", "P"}, "PR": {"N", "L", "H"}, "UI": {"N", "P", "A"},
	"VC": {"H", "L", "N"}, "VI": {"H", "L", "N"}, "VA": {"H", "L", "N"}, "SC": {"H", "L", "N"}, "SI": {"H", "L", "N"}, "SA": {"H", "L", "N"},
	"E": {"A", "P", "U"}, "CR": {"H", "M", "L"}, "IR": {"H", "M", "L"}, "AR": {"H", "M", "L"},
}
var v4OrderNames = []string{"AV", "AC", "AT", "PR", "UI", "VC", "VI", "VA", "SC", "SI", "SA", "E", "CR", "IR", "AR"}

func (h *harness) score4(s string) (int, bool) {
	k, ok := 0, false
	hx.Guard(func() string {
		pv, err := cvss.ParseV4(s)
		if err != nil {
			return "err"
		}
		_, k, ok = score10(pv.Score())
		return "ok"
	})
	return k, ok
}

// mono4: a vector that differs from v in one metric, by one step toward the
// more severe value, never scores lower (checked on the complete space of the
// metrics the score depends on — 17 006 112 vectors x their neighbours — when
// this oracle was written: 0 violations on the unchanged code).
func (h *harness) mono4(v vec) {
	r := h.r
	s := str4(v)
	k, ok := h.score4(s)
	if !ok {
		return
	}
	for _, n := range v4OrderNames {
		cur, present := v[n]
		if !present || cur == "X" {
			cur = v4Order[n][0] // Not Defined counts as the most severe value
			continue
		}
		idx := -1
		for i, x := range v4Order[n] {
			if x == cur {
				idx = i
			}
		}
		if idx <= 0 {
			continue
		}
		w := vec{}
		for a, b := range v {
			w[a] = b
		}
		w[n] = v4Order[n][idx-1]
		t := str4(w)
		k2, ok2 := h.score4(t)
		r.Case("mono4 "+s+" "+n, true)
		if ok2 && k2 < k {
			h.fail("", fmt.Sprintf("v4: %s:%s -> %s:%s makes the vector more severe, the score drops from %d/10 to %d/10 (other vector %q)", n, cur, n, w[n], k, k2, t), s)
		}
	}
	r.Count("v4:monotonicity-checked")
}

// randV4score: a vector over the metrics the v4 score depends on (no Modified
// metrics except, sometimes, MSI:S / MSA:S which the implementation reads).
func (h *harness) randV4score() vec {
	v := vec{}
	for i := 0; i < 11; i++ {
		v[v4Names[i]] = h.pick(v4Values[i])
	}
	if h.rnd.Chance(2, 3) {
		v["E"] = h.pick([]string{"A", "P", "U", "X"})
	}
	for _, n := range []string{"CR", "IR", "AR"} {
		if h.rnd.Chance(1, 2) {
			v[n] = h.pick([]string{"H", "M", "L", "X"})
		}
	}
	switch h.rnd.Intn(8) {
	case 0:
		v["MSI"] = "S"
	case 1:
		v["MSA"] = "S"
	}
	return v
}

// osvOrder: the OSV severity of a valid v3 vector does not depend on the
// order in which the string lists its metrics.
func (h *harness) osvOrder(minor int, v vec) {
	canon := str3(minor, v)
	shuf := h.shuffled3(minor, v)
	sev := func(s string) string {
		return hx.Guard(func() string {
			x, err := osv.FromCVSS3ForVerif(h.ctx, s)
			if err != nil {
				return "err"
			}
			return fmt.Sprint(int(x))
		})
	}
	a, b := sev(canon), sev(shuf)
	h.r.Case("osv-order "+shuf, true)
	if a != b {
		h.fail("", fmt.Sprintf("osv fromCVSS3 gives %s for %q and %s for the same metrics in another order", a, canon, b), shuf)
	}
	h.r.Count("osv3:order-checked")
}

// osvLax replays the listed finding: fromCVSS3 derives a severity from a
// string that is not a vector.
func (h *harness) osvLax() {
	sev := func(s string) string {
		return hx.Guard(func() string {
			x, err := osv.FromCVSS3ForVerif(h.ctx, s)
			if err != nil {
				return "err"
			}
			return fmt.Sprint(int(x))
		})
	}
	_, errA := cvss.ParseV3(witOsvDupA)
	_, errB := cvss.ParseV3(witOsvDupB)
	_, errC := cvss.ParseV3(witOsvNoBase)
	a, b, c := sev(witOsvDupA), sev(witOsvDupB), sev(witOsvNoBase)
	if errA != nil && errB != nil && a != "err" && b != "err" && a != b {
		h.r.KnownSeen(kOsvLax, fmt.Sprintf("input=%q severity=%s; the same pieces, first and last exchanged, %q severity=%s; ParseV3 rejects both", witOsvDupA, a, witOsvDupB, b))
		h.r.Count("known:" + kOsvLax)
	}
	if errC != nil && c != "err" {
		h.r.KnownSeen(kOsvLax, fmt.Sprintf("input=%q (no base metric) severity=%s; ParseV3 rejects it", witOsvNoBase, c))
	}
	h.osv3(witOsvDupA, true)
	h.osv3(witOsvDupB, true)
	h.osv3(witOsvNoBase, true)
	h.v3(witOsvDupA, true)
	h.v3(witOsvNoBase, true)
}

// ---------------------------------------------------------------- rendering / generation

func str2(v vec) string {
	var b []string
	for _, n := range v2Names {
		if x, ok := v[n]; ok {
			b = append(b, n+":"+x)
		}
	}
	return strings.Join(b, "/")
}

func str3(minor int, v vec) string {
	b := []string{fmt.Sprintf("CVSS:3.%d", minor)}
	for _, n := range v3Names {
		if x, ok := v[n]; ok {
			b = append(b, n+":"+x)
		}
	}
	return strings.Join(b, "/")
}

func str4(v vec) string {
	b := []string{"CVSS:4.0"}
	for _, n := range v4Names {
		if x, ok := v[n]; ok {
			b = append(b, n+":"+x)
		}
	}
	return strings.Join(b, "/")
}

// enum calls f with every assignment of vals[i] to names[i] (f must not keep v).
func enum(names []string, vals [][]string, f func(vec) bool) {
	v := vec{}
	stop := false
	var rec func(i int)
	rec = func(i int) {
		if stop {
			return
		}
		if i == len(names) {
			if !f(v) {
				stop = true
			}
			return
		}
		for _, x := range vals[i] {
			v[names[i]] = x
			rec(i + 1)
		}
		delete(v, names[i])
	}
	rec(0)
}

func splitChars(s string) []string {
	r := make([]string, 0, len(s))
	for _, c := range s {
		r = append(r, string(c))
	}
	return r
}

var v3Vals = func() [][]string {
	r := make([][]string, len(v3Values))
	for i, s := range v3Values {
		r[i] = splitChars(s)
	}
	return r
}()

func (h *harness) pick(xs []string) string { return xs[h.rnd.Intn(len(xs))] }

func (h *harness) randV2(full bool) vec {
	v := vec{}
	for i := 0; i < 6; i++ {
		v[v2Names[i]] = h.pick(v2Values[i])
	}
	if full || h.rnd.Chance(1, 2) {
		for i := 6; i < 9; i++ {
			v[v2Names[i]] = h.pick(v2Values[i])
		}
	}
	if full || h.rnd.Chance(2, 3) {
		for i := 9; i < 14; i++ {
			v[v2Names[i]] = h.pick(v2Values[i])
		}
	}
	return v
}

func (h *harness) randV3() vec {
	v := vec{}
	for i := 0; i < 8; i++ {
		v[v3Names[i]] = h.pick(v3Vals[i])
	}
	pT, pE := h.rnd.Intn(4), h.rnd.Intn(4) // 0: none .. 3: dense
	for i := 8; i < 11; i++ {
		if h.rnd.Intn(3) < pT {
			v[v3Names[i]] = h.pick(v3Vals[i])
		}
	}
	for i := 11; i < len(v3Names); i++ {
		if h.rnd.Intn(3) < pE {
			v[v3Names[i]] = h.pick(v3Vals[i])
		}
	}
	return v
}

func (h *harness) randV4() vec {
	v := vec{}
	for i := 0; i < 11; i++ {
		v[v4Names[i]] = h.pick(v4Values[i])
	}
	switch h.rnd.Intn(16) {
	case 0: // no impact at all
		for _, n := range v4Impact {
			v[n] = "N"
		}
	case 1: // one impact metric only
		for _, n := range v4Impact {
			v[n] = "N"
		}
		v[h.pick(v4Impact)] = h.pick([]string{"L", "H"})
	}
	if h.rnd.Chance(1, 2) {
		v["E"] = h.pick(v4Values[11])
	}
	pE, pS := h.rnd.Intn(4), h.rnd.Intn(4)
	for i := 12; i < 26; i++ {
		if h.rnd.Intn(3) < pE {
			v[v4Names[i]] = h.pick(v4Values[i])
		}
	}
	for i := 26; i < 32; i++ {
		if h.rnd.Intn(3) < pS {
			v[v4Names[i]] = h.pick(v4Values[i])
		}
	}
	if h.rnd.Chance(1, 24) { // every Modified impact metric N: no impact by the specification
		for _, n := range v4Impact {
			v["M"+n] = "N"
		}
	}
	return v
}

// shuffled renders a v3 vector with its metrics in random order (v3 allows any order).
func (h *harness) shuffled3(minor int, v vec) string {
	var ps []string
	for _, n := range v3Names {
		if x, ok := v[n]; ok {
			ps = append(ps, n+":"+x)
		}
	}
	for i := len(ps) - 1; i > 0; i-- {
		j := h.rnd.Intn(i + 1)
		ps[i], ps[j] = ps[j], ps[i]
	}
	return fmt.Sprintf("CVSS:3.%d/", minor) + strings.Join(ps, "/")
}

const alphabet = "CVSS:0123.4/ACDEFGHILMNOPRSTUVWXYabcdeglmnru-? "

// mutate applies one edit to a (valid) vector string.
func (h *harness) mutate(s string) (string, string) {
	rnd := h.rnd
	parts := strings.Split(s, "/")
	switch k := rnd.Intn(12); k {
	case 0: // delete a byte
		if len(s) > 0 {
			i := rnd.Intn(len(s))
			return s[:i] + s[i+1:], "del-byte"
		}
	case 1: // insert a byte
		i := rnd.Intn(len(s) + 1)
		return s[:i] + string(alphabet[rnd.Intn(len(alphabet))]) + s[i:], "ins-byte"
	case 2: // replace a byte
		if len(s) > 0 {
			i := rnd.Intn(len(s))
			return s[:i] + string(alphabet[rnd.Intn(len(alphabet))]) + s[i+1:], "rep-byte"
		}
	case 3: // swap two metrics
		if len(parts) > 2 {
			i, j := rnd.Intn(len(parts)), rnd.Intn(len(parts))
			parts[i], parts[j] = parts[j], parts[i]
			return strings.Join(parts, "/"), "swap-metrics"
		}
	case 4: // duplicate a metric
		i := rnd.Intn(len(parts))
		j := rnd.Intn(len(parts) + 1)
		p := append(append(append([]string{}, parts[:j]...), parts[i]), parts[j:]...)
		return strings.Join(p, "/"), "dup-metric"
	case 5: // drop a metric
		if len(parts) > 1 {
			i := rnd.Intn(len(parts))
			p := append(append([]string{}, parts[:i]...), parts[i+1:]...)
			return strings.Join(p, "/"), "drop-metric"
		}
	case 6: // truncate
		return s[:rnd.Intn(len(s)+1)], "truncate"
	case 7: // trailing / leading separators
		return rnd.Pick(s+"/", "/"+s, s+"//", strings.Replace(s, "/", "//", 1)), "extra-slash"
	case 8: // another value from a different metric
		i := rnd.Intn(len(parts))
		if n, _, ok := strings.Cut(parts[i], ":"); ok {
			parts[i] = n + ":" + rnd.Pick("N", "L", "H", "X", "A", "P", "C", "U", "ND", "POC", "S", "M", "Clear", "Red", "R", "")
			return strings.Join(parts, "/"), "foreign-value"
		}
	case 9: // change the label
		return rnd.Pick("CVSS:3.0", "CVSS:3.1", "CVSS:3.2", "CVSS:3", "CVSS:3.", "CVSS:4.0", "CVSS:4.1", "CVSS:2.0", "cvss:3.1", "CVSS:3.10", "CVSS:31", "CVSS:3.-1", "CVSS:3.+1", "CVSS:3x1") + s[strings.IndexAny(s+"/", "/"):], "label"
	case 10: // lower-case / case flip of one letter
		if len(s) > 0 {
			i := rnd.Intn(len(s))
			c := s[i]
			if c >= 'A' && c <= 'Z' {
				c += 'a' - 'A'
			} else if c >= 'a' && c <= 'z' {
				c -= 'a' - 'A'
			}
			return s[:i] + string(c) + s[i+1:], "case-flip"
		}
	case 11: // a metric of another version
		return s + "/" + rnd.Pick("Au:N", "PR:N", "AT:N", "E:ND", "E:X", "RL:U", "MS:X", "MSI:S", "U:Amber", "CDP:LM", "TD:ND", "S:X", "RC:UR"), "foreign-metric"
	}
	return s + "/", "extra-slash"
}

func (h *harness) randomString() string {
	n := h.rnd.Intn(40)
	b := make([]byte, n)
	for i := range b {
		if h.rnd.Chance(1, 30) {
			b[i] = byte(h.rnd.Intn(256))
		} else {
			b[i] = alphabet[h.rnd.Intn(len(alphabet))]
		}
	}
	return string(b)
}

// all feeds one string to every entry point.
func (h *harness) all(s string, near bool) {
	h.v2(s, near)
	h.v3(s, near)
	h.v4(s, near)
	h.osv2(s, near)
	h.osv3(s, near)
}

func repoDir() string {
	if d := os.Getenv("VERIF_REPO"); d != "" {
		return d
	}
	return "/repo"
}

// corpusLines: the vectors of the repository's own fixtures and of corpus/C18.
func corpusLines(cfg hx.Config) []string {
	var out []string
	files, _ := filepath.Glob(filepath.Join(repoDir(), "toolkit/types/cvss/testdata/*.list"))
	more, _ := filepath.Glob(filepath.Join(cfg.Corpus, "*.txt"))
	files = append(files, more...)
	sort.Strings(files)
	for _, fn := range files {
		f, err := os.Open(fn)
		if err != nil {
			continue
		}
		sc := bufio.NewScanner(f)
		for sc.Scan() {
			l := sc.Text()
			if i := strings.Index(l, "#"); i >= 0 {
				l = l[:i]
			}
			fs := strings.Fields(l)
			if len(fs) > 0 {
				out = append(out, fs[0])
			}
		}
		f.Close()
	}
	return out
}

func Run(cfg hx.Config) error {
	r, err := hx.NewRun(cfg)
	if err != nil {
		return err
	}
	defer r.Close()
	zerolog.SetGlobalLevel(zerolog.Disabled) // fromCVSS3 warns about unknown minor versions
	h := &harness{r: r, rnd: hx.NewRand(cfg.Seed), ctx: context.Background()}
	r.Rule = "Every v2 base vector (729) and every v3.0 / v3.1 base vector (2592 each) goes through Parse, Score, QualitativeScore, String and the OSV scorer; " +
		"base x temporal is complete in the thorough tier and sampled in the quick tier; environmental extensions, v3 metric orders, explicit X values and v4 vectors " +
		"(all metric groups; the 104976 base combinations completely in the thorough tier) are sampled; every entry point also gets one-edit neighbours of valid vectors, " +
		"vectors of the other versions, the repository's fixture lists and random strings. Multi-step printing: the bytes MarshalText returned for one vector are kept while vectors of any version are marshalled, then compared and re-parsed; String/MarshalText from 8 goroutines at once. An evaluation is non-trivial when the implementation accepted the input or " +
		"the input is a one-edit neighbour of a valid vector."
	r.Notes["toolkit"] = "the harness links " + repoDir() + "/toolkit (working tree), not toolkit v1.2.4 from the module cache"
	r.Notes["oracles"] = "exact-rational evaluation of the v2/v3.0/v3.1 equations (math/big.Rat, own weight tables); vector grammars as regular expressions; OSV severity = documented band of the base score"

	// known witnesses first
	h.v2(witV2Tie, true)
	h.v3(witV30, true)
	h.v4(witV4Mod, true)
	h.osv3(witOSVPanic, true)
	h.osv3("CVSS:3", true)
	h.v2("AV:L/AC:L/Au:N/C:C/I:C/A:C", true)
	h.v3("CVSS:3.1/AV:N/AC:L/PR:N/UI:N/S:U/C:H/I:H/A:H/MAV:X", true)
	h.v3("CVSS:3.0/AV:N/AC:L/PR:L/UI:N/S:C/C:H/I:H/A:H/MS:X/MC:X", true)
	h.v3("CVSS:3.1/AV:N/AC:L/PR:N/UI:N/S:U/C:H/I:H/A:H/E:F/RC:U/CR:H", true)
	h.osvLax()
	h.osv2("E:ND/RL:ND/RC:ND/CDP:ND/TD:ND/CR:ND", true) // six non-base pieces: accepted by fromCVSS2, rated Low
	h.osv2("A:C/I:C/C:C/Au:N/AC:L/AV:N", true)          // any order
	for _, s := range corpusLines(cfg) {
		h.all(s, true)
	}
	// multi-step printing on the vectors seen so far (all three versions)
	h.retained(cfg.N(300, 3000))
	h.concurrent(8, cfg.N(300, 3000))

	// 1. exhaustive base spaces
	enum(v2Names[:6], v2Values[:6], func(v vec) bool {
		s := str2(v)
		h.v2(s, true)
		h.osv2(s, true)
		return !r.Stop()
	})
	for minor := 0; minor <= 1; minor++ {
		enum(v3Names[:8], v3Vals[:8], func(v vec) bool {
			s := str3(minor, v)
			h.v3(s, true)
			h.osv3(s, true)
			return !r.Stop()
		})
	}
	r.Count("sweep:v2-base-complete")
	r.Count("sweep:v3.0-base-complete")
	r.Count("sweep:v3.1-base-complete")

	// 2. base x temporal
	if cfg.Thorough() {
		enum(v2Names[:9], v2Values[:9], func(v vec) bool { h.v2(str2(v), true); return !r.Stop() })
		for minor := 0; minor <= 1; minor++ {
			enum(v3Names[:11], v3Vals[:11], func(v vec) bool { h.v3(str3(minor, v), true); return !r.Stop() })
		}
		r.Count("sweep:base-x-temporal-complete")
	}
	// 3. sampled extensions
	for i := 0; i < cfg.N(6000, 400000) && !r.Stop(); i++ {
		v := h.randV2(h.rnd.Chance(1, 3))
		s := str2(v)
		h.v2(s, true)
		if i%8 == 0 {
			h.osv2(s, true)
		}
	}
	for i := 0; i < cfg.N(12000, 800000) && !r.Stop(); i++ {
		v := h.randV3()
		minor := h.rnd.Intn(2)
		s := str3(minor, v)
		if h.rnd.Chance(1, 4) {
			s = h.shuffled3(minor, v)
		}
		h.v3(s, true)
		if i%8 == 0 {
			h.osv3(s, true)
		}
	}
	// 3b. environmental metrics systematically: every combination of the
	// requirement letters (incl. X) over every effective Modified vector
	// (thorough: complete, 2 x 2592 x 64; quick: sampled), the Modified metrics
	// spelled out over an unrelated Base vector, sometimes left to the Base value
	envCase := func(minor int, eff vec, cr, ir, ar string) {
		v := vec{}
		for i := 0; i < 8; i++ {
			n := v3Names[i]
			switch h.rnd.Intn(3) {
			case 0: // the Base value is the effective one, Modified absent
				v[n] = eff[n]
			case 1: // ... or explicitly Not Defined
				v[n] = eff[n]
				v["M"+n] = "X"
			default: // another Base value, overridden
				v[n] = h.pick(v3Vals[i])
				v["M"+n] = eff[n]
			}
		}
		v["CR"], v["IR"], v["AR"] = cr, ir, ar
		if h.rnd.Chance(1, 3) {
			for i := 8; i < 11; i++ {
				v[v3Names[i]] = h.pick(v3Vals[i])
			}
		}
		s := str3(minor, v)
		if h.rnd.Chance(1, 5) {
			s = h.shuffled3(minor, v)
		}
		r.Count("v3:env-effective-space")
		h.v3(s, true)
	}
	if cfg.Thorough() {
		for minor := 0; minor <= 1; minor++ {
			enum(v3Names[:8], v3Vals[:8], func(eff vec) bool {
				e := vec{}
				for a, b := range eff {
					e[a] = b
				}
				for _, cr := range v3Vals[11] {
					for _, ir := range v3Vals[12] {
						for _, ar := range v3Vals[13] {
							envCase(minor, e, cr, ir, ar)
						}
					}
				}
				return !r.Stop()
			})
		}
		r.Count("sweep:v3-environmental-effective-space-complete")
	} else {
		for i := 0; i < 6000 && !r.Stop(); i++ {
			eff := vec{}
			for k := 0; k < 8; k++ {
				eff[v3Names[k]] = h.pick(v3Vals[k])
			}
			envCase(h.rnd.Intn(2), eff, h.pick(v3Vals[11]), h.pick(v3Vals[12]), h.pick(v3Vals[13]))
		}
	}
	// 3c. OSV: the order of the metrics does not matter
	for i := 0; i < cfg.N(1500, 40000) && !r.Stop(); i++ {
		h.osvOrder(h.rnd.Intn(2), h.randV3())
	}
	// 4. v4
	for i := 0; i < cfg.N(4000, 250000) && !r.Stop(); i++ {
		v := h.randV4score()
		h.mono4(v)
		if i%4 == 0 {
			h.v4(str4(v), true)
		}
	}
	if cfg.Thorough() {
		enum(v4Names[:11], v4Values[:11], func(v vec) bool { h.v4(str4(v), true); return !r.Stop() })
		r.Count("sweep:v4-base-complete")
	}
	for i := 0; i < cfg.N(8000, 300000) && !r.Stop(); i++ {
		h.v4(str4(h.randV4()), true)
	}
	// 5. near-valid and arbitrary strings into every entry point
	for i := 0; i < cfg.N(3000, 60000) && !r.Stop(); i++ {
		var s string
		switch h.rnd.Intn(3) {
		case 0:
			s = str2(h.randV2(false))
		case 1:
			s = str3(h.rnd.Intn(2), h.randV3())
		default:
			s = str4(h.randV4())
		}
		m, kind := h.mutate(s)
		if h.rnd.Chance(1, 6) {
			m, _ = h.mutate(m)
			kind = "two-edits"
		}
		r.Count("mutation:" + kind)
		h.all(m, true)
	}
	for i := 0; i < cfg.N(1500, 30000) && !r.Stop(); i++ {
		h.all(h.randomString(), false)
	}
	// 5b. the enricher: CVE ids in free text, what Enrich forwards, which feed items are selected
	for i := 0; i < cfg.N(2500, 50000) && !r.Stop(); i++ {
		t, planted := h.cveText()
		h.cve(t, planted)
	}
	for i := 0; i < cfg.N(500, 10000) && !r.Stop(); i++ {
		m, _ := h.mutate(cvePool[h.rnd.Intn(len(cvePool))] + " " + cvePool[h.rnd.Intn(len(cvePool))])
		h.cve(m, nil)
	}
	for i := 0; i < cfg.N(800, 16000) && !r.Stop(); i++ {
		h.randEnrich()
	}
	for i := 0; i < cfg.N(400, 8000) && !r.Stop(); i++ {
		h.randFeed()
	}
	// 6. multi-step printing over the sampled vectors
	h.retained(cfg.N(3000, 60000))
	for i := 0; i < cfg.N(4, 40) && !r.Stop(); i++ {
		h.concurrent(8, cfg.N(500, 2000))
	}
	return nil
}
