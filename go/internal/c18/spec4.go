package c18

// An independent evaluation of the CVSS v4.0 scoring algorithm (specification
// section 8.2, as the FIRST reference calculator implements it), in exact
// arithmetic (math/big.Rat), written from the specification's tables: the
// MacroVector conditions (tables 24-29), the highest-severity vectors of
// every equivalence-class level, the level depths, the severity steps of the
// metric values, the lookup table of section 8.3 (spec4_table.go).  It shares
// nothing with the library under test.
//
// modified = true evaluates what the specification says: a Modified Base
// metric that is defined replaces the Base metric.  modified = false leaves
// the Modified metrics out (except MSI:S / MSA:S, which the library reads):
// the library's behaviour under the listed finding v4-modified-metrics-ignored.

import (
	"fmt"
	"math/big"
)

// severity steps of the metric values, most severe = 0
var v4Steps = map[string]map[string]int{
	"AV": {"N": 0, "A": 1, "L": 2, "P": 3}, "PR": {"N": 0, "L": 1, "H": 2}, "UI": {"N": 0, "P": 1, "A": 2},
	"AC": {"L": 0, "H": 1}, "AT": {"N": 0, "P": 1},
	"VC": {"H": 0, "L": 1, "N": 2}, "VI": {"H": 0, "L": 1, "N": 2}, "VA": {"H": 0, "L": 1, "N": 2},
	"SC": {"H": 1, "L": 2, "N": 3}, "SI": {"S": 0, "H": 1, "L": 2, "N": 3}, "SA": {"S": 0, "H": 1, "L": 2, "N": 3},
	"CR": {"H": 0, "M": 1, "L": 2}, "IR": {"H": 0, "M": 1, "L": 2}, "AR": {"H": 0, "M": 1, "L": 2},
	"E": {"A": 0, "P": 1, "U": 2},
}

// the highest-severity vectors of each level
var v4MaxEQ1 = [][]vec{
	{{"AV": "N", "PR": "N", "UI": "N"}},
	{{"AV": "A", "PR": "N", "UI": "N"}, {"AV": "N", "PR": "L", "UI": "N"}, {"AV": "N", "PR": "N", "UI": "P"}},
	{{"AV": "P", "PR": "N", "UI": "N"}, {"AV": "A", "PR": "L", "UI": "P"}},
}
var v4MaxEQ2 = [][]vec{
	{{"AC": "L", "AT": "N"}},
	{{"AC": "H", "AT": "N"}, {"AC": "L", "AT": "P"}},
}
var v4MaxEQ4 = [][]vec{
	{{"SC": "H", "SI": "S", "SA": "S"}},
	{{"SC": "H", "SI": "H", "SA": "H"}},
	{{"SC": "L", "SI": "L", "SA": "L"}},
}
var v4MaxEQ5 = [][]vec{{{"E": "A"}}, {{"E": "P"}}, {{"E": "U"}}}

func v36(vc, vi, va, cr, ir, ar string) vec {
	return vec{"VC": vc, "VI": vi, "VA": va, "CR": cr, "IR": ir, "AR": ar}
}

// [eq3][eq6]
var v4MaxEQ36 = map[[2]int][]vec{
	{0, 0}: {v36("H", "H", "H", "H", "H", "H")},
	{0, 1}: {v36("H", "H", "L", "M", "M", "H"), v36("H", "H", "H", "M", "M", "M")},
	{1, 0}: {v36("L", "H", "H", "H", "H", "H"), v36("H", "L", "H", "H", "H", "H")},
	{1, 1}: {v36("L", "H", "L", "H", "M", "H"), v36("L", "H", "H", "H", "M", "M"), v36("H", "L", "H", "M", "H", "M"),
		v36("H", "L", "L", "M", "H", "H"), v36("L", "L", "H", "H", "H", "M")},
	{2, 1}: {v36("L", "L", "L", "H", "H", "H")},
}

// depth of the levels (the reference calculator's maxSeverity, in steps)
var (
	v4DepthEQ1  = []int{1, 4, 5}
	v4DepthEQ2  = []int{1, 2}
	v4DepthEQ4  = []int{6, 5, 4}
	v4DepthEQ5  = []int{1, 1, 1}
	v4DepthEQ36 = map[[2]int]int{{0, 0}: 7, {0, 1}: 6, {1, 0}: 8, {1, 1}: 8, {2, 1}: 10}
)

type spec4Info struct {
	Score10 int  // the score*10 (ties of the final rounding go up)
	Tie     bool // the value before the final rounding lies exactly between two tenths
	Macro   string
}

// specV4 scores the vector v (metric name -> value, absent = not in the vector).
func specV4(v vec, modified bool) spec4Info {
	m := func(n string) string {
		if modified {
			if x, ok := v["M"+n]; ok && x != "X" {
				return x
			}
		}
		// (modified = false: of the Modified metrics the library reads the Safety
		// value only, and only to put the vector into EQ4 level 0; the distance
		// is taken from the Base metric)
		x, ok := v[n]
		if !ok || x == "X" {
			switch n {
			case "E":
				return "A"
			case "CR", "IR", "AR":
				return "H"
			}
		}
		return x
	}
	safety := v["MSI"] == "S" || v["MSA"] == "S"
	var info spec4Info
	if m("VC") == "N" && m("VI") == "N" && m("VA") == "N" && m("SC") == "N" && m("SI") == "N" && m("SA") == "N" {
		return info
	}
	var eq [6]int
	switch {
	case m("AV") == "N" && m("PR") == "N" && m("UI") == "N":
		eq[0] = 0
	case (m("AV") == "N" || m("PR") == "N" || m("UI") == "N") && m("AV") != "P":
		eq[0] = 1
	default:
		eq[0] = 2
	}
	if !(m("AC") == "L" && m("AT") == "N") {
		eq[1] = 1
	}
	switch {
	case m("VC") == "H" && m("VI") == "H":
		eq[2] = 0
	case m("VC") == "H" || m("VI") == "H" || m("VA") == "H":
		eq[2] = 1
	default:
		eq[2] = 2
	}
	switch {
	case safety:
		eq[3] = 0
	case m("SC") == "H" || m("SI") == "H" || m("SA") == "H":
		eq[3] = 1
	default:
		eq[3] = 2
	}
	eq[4] = map[string]int{"A": 0, "P": 1, "U": 2}[m("E")]
	if !((m("CR") == "H" && m("VC") == "H") || (m("IR") == "H" && m("VI") == "H") || (m("AR") == "H" && m("VA") == "H")) {
		eq[5] = 1
	}
	key := func(e [6]int) string { return fmt.Sprintf("%d%d%d%d%d%d", e[0], e[1], e[2], e[3], e[4], e[5]) }
	info.Macro = key(eq)
	value, ok := v4Lookup[info.Macro]
	if !ok {
		info.Score10 = -1
		return info
	}
	lower := func(f func(e *[6]int)) (int, bool) {
		e := eq
		f(&e)
		s, ok := v4Lookup[key(e)]
		return s, ok
	}
	type avail struct {
		d  int // value - next lower (score*10)
		ok bool
	}
	var av [5]avail // eq1, eq2, eq3+6, eq4, eq5
	set := func(i int, s int, ok bool) { av[i] = avail{value - s, ok} }
	s, ok := lower(func(e *[6]int) { e[0]++ })
	set(0, s, ok)
	s, ok = lower(func(e *[6]int) { e[1]++ })
	set(1, s, ok)
	s, ok = lower(func(e *[6]int) { e[3]++ })
	set(3, s, ok)
	s, ok = lower(func(e *[6]int) { e[4]++ })
	set(4, s, ok)
	switch {
	case eq[2] == 1 && eq[5] == 1, eq[2] == 0 && eq[5] == 1:
		s, ok = lower(func(e *[6]int) { e[2]++ })
	case eq[2] == 1 && eq[5] == 0:
		s, ok = lower(func(e *[6]int) { e[5]++ })
	case eq[2] == 0 && eq[5] == 0:
		l, lok := lower(func(e *[6]int) { e[5]++ })
		r, rok := lower(func(e *[6]int) { e[2]++ })
		switch {
		case lok && rok:
			s, ok = max(l, r), true
		case rok:
			s, ok = r, true
		default:
			s, ok = l, lok
		}
	default:
		s, ok = lower(func(e *[6]int) { e[2]++; e[5]++ })
	}
	set(2, s, ok)

	// the first highest-severity vector of the MacroVector that the vector does not exceed in any metric
	dist := func(n string, mx vec) int {
		return v4Steps[n][m(n)] - v4Steps[n][mx[n]]
	}
	pick := func(cands []vec, names ...string) ([]int, bool) {
		for _, c := range cands {
			ds := make([]int, len(names))
			good := true
			for i, n := range names {
				ds[i] = dist(n, c)
				if ds[i] < 0 {
					good = false
				}
			}
			if good {
				return ds, true
			}
		}
		return nil, false
	}
	sum := func(xs []int) int {
		t := 0
		for _, x := range xs {
			t += x
		}
		return t
	}
	d1, ok1 := pick(v4MaxEQ1[eq[0]], "AV", "PR", "UI")
	d2, ok2 := pick(v4MaxEQ2[eq[1]], "AC", "AT")
	d36, ok36 := pick(v4MaxEQ36[[2]int{eq[2], eq[5]}], "VC", "VI", "VA", "CR", "IR", "AR")
	d4, ok4 := pick(v4MaxEQ4[eq[3]], "SC", "SI", "SA")
	_, ok5 := pick(v4MaxEQ5[eq[4]], "E")
	cur := [5]int{}
	if ok1 && ok2 && ok36 && ok4 && ok5 {
		cur = [5]int{sum(d1), sum(d2), sum(d36), sum(d4), 0}
	}
	depth := [5]int{v4DepthEQ1[eq[0]], v4DepthEQ2[eq[1]], v4DepthEQ36[[2]int{eq[2], eq[5]}], v4DepthEQ4[eq[3]], v4DepthEQ5[eq[4]]}
	total := new(big.Rat)
	n := 0
	for i := 0; i < 5; i++ {
		if !av[i].ok {
			continue
		}
		n++
		total.Add(total, new(big.Rat).Mul(big.NewRat(int64(av[i].d), 1), big.NewRat(int64(cur[i]), int64(depth[i]))))
	}
	x := big.NewRat(int64(value), 1) // score*10
	if n > 0 {
		x.Sub(x, total.Quo(total, big.NewRat(int64(n), 1)))
	}
	if x.Sign() < 0 {
		x.SetInt64(0)
	}
	if x.Cmp(big.NewRat(100, 1)) > 0 {
		x.SetInt64(100)
	}
	k, tie := roundHalfUp10(new(big.Rat).Quo(x, big.NewRat(10, 1)))
	info.Score10, info.Tie = k, tie
	return info
}
