package c18

// An independent, exact-arithmetic (math/big.Rat) evaluation of the FIRST
// CVSS v2.0, v3.0 and v3.1 equations, written from the specification
// documents and sharing nothing with the library under test: weights are typed in
// here as decimal strings, every operation is exact, the only rounding is
// the specification's own.  It is the direct oracle of the statement "the
// computed score equals the score defined by the published equations".

import (
	"math/big"
)

func rat(s string) *big.Rat {
	r, ok := new(big.Rat).SetString(s)
	if !ok {
		panic("bad rational " + s)
	}
	return r
}

func mul(xs ...*big.Rat) *big.Rat {
	r := big.NewRat(1, 1)
	for _, x := range xs {
		r.Mul(r, x)
	}
	return r
}
func add(a, b *big.Rat) *big.Rat { return new(big.Rat).Add(a, b) }
func sub(a, b *big.Rat) *big.Rat { return new(big.Rat).Sub(a, b) }
func minr(a, b *big.Rat) *big.Rat {
	if a.Cmp(b) <= 0 {
		return a
	}
	return b
}
func powr(a *big.Rat, n int) *big.Rat {
	r := big.NewRat(1, 1)
	for i := 0; i < n; i++ {
		r.Mul(r, a)
	}
	return r
}

var one = big.NewRat(1, 1)

// floorR is the floor of a rational as an integer.
func floorR(x *big.Rat) *big.Int {
	q := new(big.Int)
	m := new(big.Int)
	q.DivMod(x.Num(), x.Denom(), m) // Euclidean: m >= 0, so q is the floor
	return q
}

func isInt(x *big.Rat) bool { return x.IsInt() }

// roundHalfUp10 is the v2 round_to_1_decimal: nearest tenth, halves away
// from zero (the environmental equations can go slightly below zero).
// Returns score*10.  tie reports that x lies exactly on a rounding boundary
// (k/10 + 0.05).
func roundHalfUp10(x *big.Rat) (k int, tie bool) {
	t := mul(x, big.NewRat(10, 1))
	neg := t.Sign() < 0
	if neg {
		t = new(big.Rat).Neg(t)
	}
	t2 := add(t, big.NewRat(1, 2))
	k = int(floorR(t2).Int64())
	if neg {
		k = -k
	}
	return k, isInt(t2)
}

// roundup30 is the v3.0 Roundup: smallest number with one decimal >= x.
// edge reports that x is itself a one-decimal number (where a float
// evaluation that lands a hair above it is pushed to the next tenth).
func roundup30(x *big.Rat) (k int, edge bool) {
	t := mul(x, big.NewRat(10, 1))
	f := floorR(t)
	if isInt(t) {
		return int(f.Int64()), true
	}
	return int(f.Int64()) + 1, false
}

// roundup31 is the v3.1 Roundup of Appendix A:
//
//	int_input = round_to_nearest_integer(input * 100000)
//	if int_input % 10000 == 0: return int_input / 100000.0
//	else: return (floor(int_input / 10000) + 1) / 10.0
//
// edge reports that truncation instead of round-to-nearest of input*100000
// would give a different result.
func roundup31(x *big.Rat) (k int, edge bool) {
	t := mul(x, big.NewRat(100000, 1))
	ii := floorR(add(t, big.NewRat(1, 2))).Int64()
	tr := floorR(t).Int64()
	f := func(i int64) int {
		if i%10000 == 0 {
			return int(i / 10000)
		}
		return int(i/10000) + 1
	}
	return f(ii), f(ii) != f(tr)
}

// ---- v2 ----

var specV2W = map[string]map[string]string{
	"AV":  {"L": "0.395", "A": "0.646", "N": "1.0"},
	"AC":  {"H": "0.35", "M": "0.61", "L": "0.71"},
	"Au":  {"M": "0.45", "S": "0.56", "N": "0.704"},
	"C":   {"N": "0", "P": "0.275", "C": "0.660"},
	"I":   {"N": "0", "P": "0.275", "C": "0.660"},
	"A":   {"N": "0", "P": "0.275", "C": "0.660"},
	"E":   {"U": "0.85", "POC": "0.9", "F": "0.95", "H": "1.00", "ND": "1.00"},
	"RL":  {"OF": "0.87", "TF": "0.90", "W": "0.95", "U": "1.00", "ND": "1.00"},
	"RC":  {"UC": "0.90", "UR": "0.95", "C": "1.00", "ND": "1.00"},
	"CDP": {"N": "0", "L": "0.1", "LM": "0.3", "MH": "0.4", "H": "0.5", "ND": "0"},
	"TD":  {"N": "0", "L": "0.25", "M": "0.75", "H": "1.00", "ND": "1.00"},
	"CR":  {"L": "0.5", "M": "1.0", "H": "1.51", "ND": "1.0"},
	"IR":  {"L": "0.5", "M": "1.0", "H": "1.51", "ND": "1.0"},
	"AR":  {"L": "0.5", "M": "1.0", "H": "1.51", "ND": "1.0"},
}

var v2Names = []string{"AV", "AC", "Au", "C", "I", "A", "E", "RL", "RC", "CDP", "TD", "CR", "IR", "AR"}
var v2Values = [][]string{
	{"L", "A", "N"}, {"H", "M", "L"}, {"M", "S", "N"}, {"N", "P", "C"}, {"N", "P", "C"}, {"N", "P", "C"},
	{"U", "POC", "F", "H", "ND"}, {"OF", "TF", "W", "U", "ND"}, {"UC", "UR", "C", "ND"},
	{"N", "L", "LM", "MH", "H", "ND"}, {"N", "L", "M", "H", "ND"}, {"L", "M", "H", "ND"}, {"L", "M", "H", "ND"}, {"L", "M", "H", "ND"},
}

// vec is a vector as metric name -> value abbreviation (absent = not in the vector).
type vec map[string]string

func (v vec) w2(name string) *big.Rat {
	x, ok := v[name]
	if !ok {
		x = "ND"
	}
	return rat(specV2W[name][x])
}

func (v vec) has(names ...string) bool {
	for _, n := range names {
		if _, ok := v[n]; ok {
			return true
		}
	}
	return false
}

type specInfo struct {
	Score10 int  // score * 10
	Tie     bool // some rounding step had its argument exactly on a boundary
	// Alt lists the scores (*10) that result when exactly one rounding step
	// whose argument lies exactly on a boundary goes the other way (v2: half
	// rounded down; v3.0: a one-decimal argument rounded up; v3.1: truncation
	// instead of round-to-nearest) and the later steps follow the
	// published equations from there.
	Alt []int
}

// specV2 is the score of the vector by the v2 guide: the environmental score
// when environmental metrics are present, else the temporal score when
// temporal metrics are present, else the base score.
func specV2(v vec) specInfo {
	expl := mul(rat("20"), v.w2("AV"), v.w2("AC"), v.w2("Au"))
	env := v.has("CDP", "TD", "CR", "IR", "AR")
	temporal := env || v.has("E", "RL", "RC")
	var impact *big.Rat
	if env {
		impact = minr(rat("10"), mul(rat("10.41"), sub(one, mul(
			sub(one, mul(v.w2("C"), v.w2("CR"))),
			sub(one, mul(v.w2("I"), v.w2("IR"))),
			sub(one, mul(v.w2("A"), v.w2("AR")))))))
	} else {
		impact = mul(rat("10.41"), sub(one, mul(sub(one, v.w2("C")), sub(one, v.w2("I")), sub(one, v.w2("A")))))
	}
	f := rat("1.176")
	if impact.Sign() == 0 {
		f = rat("0")
	}
	tenths := func(k int) *big.Rat { return big.NewRat(int64(k), 10) }
	stepT := func(base10 int) (int, bool) {
		if !temporal {
			return base10, false
		}
		return roundHalfUp10(mul(tenths(base10), v.w2("E"), v.w2("RL"), v.w2("RC")))
	}
	stepE := func(t10 int) (int, bool) {
		if !env {
			return t10, false
		}
		at := tenths(t10)
		return roundHalfUp10(mul(add(at, mul(sub(rat("10"), at), v.w2("CDP"))), v.w2("TD")))
	}
	var info specInfo
	base10, tb := roundHalfUp10(mul(sub(add(mul(rat("0.6"), impact), mul(rat("0.4"), expl)), rat("1.5")), f))
	t10, tt := stepT(base10)
	e10, te := stepE(t10)
	info.Score10 = e10
	info.Tie = tb || tt || te
	down := func(k int) int { // a half-way value rounded toward zero instead of away
		if k > 0 {
			return k - 1
		}
		return k + 1
	}
	if tb {
		a, _ := stepT(down(base10))
		a, _ = stepE(a)
		info.Alt = append(info.Alt, a)
	}
	if tt {
		a, _ := stepE(down(t10))
		info.Alt = append(info.Alt, a)
	}
	if te {
		info.Alt = append(info.Alt, down(e10))
	}
	return info
}

// ---- v3 ----

var specV3W = map[string]map[string]string{
	"AV": {"N": "0.85", "A": "0.62", "L": "0.55", "P": "0.2"},
	"AC": {"L": "0.77", "H": "0.44"},
	"UI": {"N": "0.85", "R": "0.62"},
	"C":  {"H": "0.56", "L": "0.22", "N": "0"},
	"I":  {"H": "0.56", "L": "0.22", "N": "0"},
	"A":  {"H": "0.56", "L": "0.22", "N": "0"},
	"E":  {"X": "1", "H": "1", "F": "0.97", "P": "0.94", "U": "0.91"},
	"RL": {"X": "1", "U": "1", "W": "0.97", "T": "0.96", "O": "0.95"},
	"RC": {"X": "1", "C": "1", "R": "0.96", "U": "0.92"},
	"CR": {"X": "1", "H": "1.5", "M": "1", "L": "0.5"},
	"IR": {"X": "1", "H": "1.5", "M": "1", "L": "0.5"},
	"AR": {"X": "1", "H": "1.5", "M": "1", "L": "0.5"},
}

// PR depends on scope.
var specV3PR = map[bool]map[string]string{
	false: {"N": "0.85", "L": "0.62", "H": "0.27"},
	true:  {"N": "0.85", "L": "0.68", "H": "0.5"},
}

var v3Names = []string{"AV", "AC", "PR", "UI", "S", "C", "I", "A", "E", "RL", "RC", "CR", "IR", "AR", "MAV", "MAC", "MPR", "MUI", "MS", "MC", "MI", "MA"}
var v3Values = []string{"NALP", "LH", "NLH", "NR", "UC", "HLN", "HLN", "HLN", "XHFPU", "XUWTO", "XCRU", "XHML", "XHML", "XHML", "XNALP", "XLH", "XNLH", "XNR", "XUC", "XHLN", "XHLN", "XHLN"}

func (v vec) get3(name string) string {
	x, ok := v[name]
	if !ok {
		return "X"
	}
	return x
}

// mod3 is the effective value of a base metric in the environmental
// equations: the Modified metric unless it is absent or Not Defined (X).
func (v vec) mod3(name string) string {
	if x, ok := v["M"+name]; ok && x != "X" {
		return x
	}
	return v[name]
}

// specV3 is the score by the v3.0 (minor 0) / v3.1 (minor 1) specification:
// the environmental score when an environmental metric is present in the
// vector, else the temporal score (equal to the base score when no temporal
// metric is defined).
func specV3(minor int, v vec) specInfo {
	var info specInfo
	roundup := roundup30
	if minor == 1 {
		roundup = roundup31
	}
	env := v.has("CR", "IR", "AR", "MAV", "MAC", "MPR", "MUI", "MS", "MC", "MI", "MA")
	temporal := mul(rat(specV3W["E"][v.get3("E")]), rat(specV3W["RL"][v.get3("RL")]), rat(specV3W["RC"][v.get3("RC")]))
	var impact, expl *big.Rat
	var changed bool
	if !env {
		changed = v["S"] == "C"
		iss := sub(one, mul(sub(one, rat(specV3W["C"][v["C"]])), sub(one, rat(specV3W["I"][v["I"]])), sub(one, rat(specV3W["A"][v["A"]]))))
		if changed {
			impact = sub(mul(rat("7.52"), sub(iss, rat("0.029"))), mul(rat("3.25"), powr(sub(iss, rat("0.02")), 15)))
		} else {
			impact = mul(rat("6.42"), iss)
		}
		expl = mul(rat("8.22"), rat(specV3W["AV"][v["AV"]]), rat(specV3W["AC"][v["AC"]]), rat(specV3PR[changed][v["PR"]]), rat(specV3W["UI"][v["UI"]]))
	} else {
		changed = v.mod3("S") == "C"
		miss := minr(sub(one, mul(
			sub(one, mul(rat(specV3W["CR"][v.get3("CR")]), rat(specV3W["C"][v.mod3("C")]))),
			sub(one, mul(rat(specV3W["IR"][v.get3("IR")]), rat(specV3W["I"][v.mod3("I")]))),
			sub(one, mul(rat(specV3W["AR"][v.get3("AR")]), rat(specV3W["A"][v.mod3("A")]))))), rat("0.915"))
		if !changed {
			impact = mul(rat("6.42"), miss)
		} else if minor == 1 {
			impact = sub(mul(rat("7.52"), sub(miss, rat("0.029"))), mul(rat("3.25"), powr(sub(mul(miss, rat("0.9731")), rat("0.02")), 13)))
		} else {
			impact = sub(mul(rat("7.52"), sub(miss, rat("0.029"))), mul(rat("3.25"), powr(sub(miss, rat("0.02")), 15)))
		}
		expl = mul(rat("8.22"), rat(specV3W["AV"][v.mod3("AV")]), rat(specV3W["AC"][v.mod3("AC")]), rat(specV3PR[changed][v.mod3("PR")]), rat(specV3W["UI"][v.mod3("UI")]))
	}
	if impact.Sign() <= 0 {
		return info
	}
	s := add(impact, expl)
	if changed {
		s = mul(rat("1.08"), s)
	}
	stepT := func(base10 int) (int, bool) { return roundup(mul(big.NewRat(int64(base10), 10), temporal)) }
	base10, eb := roundup(minr(s, rat("10")))
	score10, et := stepT(base10)
	info.Tie = eb || et
	info.Score10 = score10
	// the other outcome of a step on an exact boundary: v3.0 one tenth up,
	// v3.1 (truncation vs round-to-nearest) one tenth down
	other := func(k int) int {
		if minor == 0 {
			return k + 1
		}
		return k - 1
	}
	if eb {
		a, _ := stepT(other(base10))
		info.Alt = append(info.Alt, a)
	}
	if et {
		info.Alt = append(info.Alt, other(score10))
	}
	return info
}

// rating is the qualitative severity rating scale of v3.x/v4.0 (section 5 of
// the v3.1 specification) on score*10.
func rating(score10 int) string {
	switch {
	case score10 == 0:
		return "None"
	case score10 <= 39:
		return "Low"
	case score10 <= 69:
		return "Medium"
	case score10 <= 89:
		return "High"
	default:
		return "Critical"
	}
}
