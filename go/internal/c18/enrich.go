package c18

// enricher/cvss contains no vector logic; this part of the harness checks
// what it forwards: which CVE ids Enrich finds in a vulnerability's free-form
// text (enricher.CVERegexp), what it asks the EnrichmentGetter for, which
// records land under which vulnerability id, and which items of an NVD year
// feed WriteCVSS selects (those with a cvssV3 member; v2-only items are
// skipped).  Protocol ops cv / en / fd (lean/Driver/C18.lean); the direct
// oracles use what the generator planted, not the regular expression.

import (
	"bytes"
	"context"
	"encoding/json"
	"errors"
	"fmt"
	"sort"
	"strings"

	"github.com/quay/claircore"
	"github.com/quay/claircore/enricher"
	enrichcvss "github.com/quay/claircore/enricher/cvss"
	"github.com/quay/claircore/libvuln/driver"
	"github.com/quay/claircore/verifharness/internal/hx"
)

// the ids the generator plants and the fake store knows
var cvePool = []string{
	"CVE-2021-12345", "CVE-2021-1234", "CVE-2021-123456", "CVE-1999-0001", "CVE-2014-0160", "CVE-2022-22965",
	"CVE-2024-3094", "CVE-2017-5638", "CVE-2020-1472", "CVE-2019-0708", "CVE-2023-44487", "CVE-2016-5195",
}

const poisonTag = "CVE-1111-1111"

// things that are not ids (or not the id they look like)
var cveNear = []string{
	"CVE-2021-123", "CVE-202-12345", "CVE 2021 12345", "CVE-2021:12345", "CVE--2021-12345", "CV-2021-12345",
	"CVE2021-12345", "CVE-20211-2345", "GHSA-xxxx-yyyy-zzzz", "RHSA-2021:1234", "CVE-", "CVE-2021-", "cve", "-2021-12345",
	"CVE-2021-١٢٣٤٥", "СVE-2021-12345", // Arabic-Indic digits; Cyrillic С
}

// cveText builds a free-form text; planted are the ids (exactly as written)
// that stand as separate tokens in it, in order.
func (h *harness) cveText() (text string, planted []string) {
	rnd := h.rnd
	var b strings.Builder
	n := rnd.Intn(5)
	if rnd.Chance(1, 8) {
		n = 0
	}
	for i := 0; i < n+rnd.Intn(3); i++ {
		if i > 0 {
			b.WriteString(rnd.Pick(" ", ", ", "\n", " (", ") ", ": ", " https://nvd.nist.gov/vuln/detail/", "; "))
		}
		switch k := rnd.Intn(10); {
		case k < 5: // an id of the pool, perhaps re-spelled in a way the pattern still admits
			id := cvePool[rnd.Intn(len(cvePool))]
			switch rnd.Intn(8) {
			case 0:
				id = strings.ToLower(id)
			case 1:
				id = strings.ReplaceAll(id, "-", "_")
			case 2:
				id = "Cve" + id[3:]
			case 3:
				id = id[:8] + "_" + id[9:]
			}
			b.WriteString(id)
			planted = append(planted, id)
			h.r.Count("cve:planted")
		case k < 7:
			b.WriteString(cveNear[rnd.Intn(len(cveNear))])
			h.r.Count("cve:near-miss")
		case k == 7: // glued: the second id starts right after the digits of the first
			a, c := cvePool[rnd.Intn(len(cvePool))], cvePool[rnd.Intn(len(cvePool))]
			b.WriteString(a + c)
			planted = append(planted, a, c)
			h.r.Count("cve:glued")
		case k == 8: // a prefix that restarts: CVECVE-…, CVE-CVE-…
			id := cvePool[rnd.Intn(len(cvePool))]
			b.WriteString(rnd.Pick("CVE", "CVE-", "CVE-2021-CVE", "xCVE-20") + id)
			planted = append(planted, id)
			h.r.Count("cve:restart")
		default:
			b.WriteString(rnd.Pick("kernel", "a flaw was found in", "openssl", "1.2.3-4.el8", "buffer overflow", "\xff\xfe", "é", ""))
		}
	}
	if rnd.Chance(1, 30) {
		b.WriteString(" " + poisonTag)
		planted = append(planted, poisonTag)
	}
	return b.String(), planted
}

func (h *harness) cve(text string, planted []string) {
	r := h.r
	var ms []string
	out := hx.Guard(func() string {
		ms = enricher.CVERegexp.FindAllString(text, -1)
		if len(ms) == 0 {
			return "ok -"
		}
		hs := make([]string, len(ms))
		for i, m := range ms {
			hs[i] = hexOf(m)
		}
		return "ok " + strings.Join(hs, ",")
	})
	if out == "panic" {
		h.fail("", "CVERegexp.FindAllString panicked", text)
	}
	// what the generator planted as separate tokens must be found, in order
	if planted != nil {
		j := 0
		for _, m := range ms {
			if j < len(planted) && m == planted[j] {
				j++
			}
		}
		if j != len(planted) {
			h.fail("", fmt.Sprintf("the CVE ids %q stand in the text, FindAllString reports %q", planted, ms), text)
		}
	}
	for _, m := range ms {
		if !strings.Contains(text, m) || len(m) < 13 || !strings.EqualFold(m[:3], "cve") {
			h.fail("", fmt.Sprintf("reported match %q is not a CVE id of the text", m), text)
		}
	}
	r.Count(fmt.Sprintf("cve:matches:%d", min(len(ms), 4)))
	r.Op("cv "+hexOf(text), out, len(ms) > 0)
}

type dbRec struct {
	tags []string
	blob string
}

type vulnIn struct {
	id, desc, name, links string
	planted               []string
}

// fakeGetter: the records (store order) that carry one of the queried tags;
// a query that holds the poison tag fails.
type fakeGetter struct {
	db    []dbRec
	calls []string
}

var errPoison = errors.New("store unavailable")

func (g *fakeGetter) GetEnrichment(_ context.Context, tags []string) ([]driver.EnrichmentRecord, error) {
	g.calls = append(g.calls, strings.Join(tags, "_"))
	var out []driver.EnrichmentRecord
	for _, t := range tags {
		if t == poisonTag {
			return nil, errPoison
		}
	}
	for _, r := range g.db {
		hit := false
		for _, t := range r.tags {
			for _, q := range tags {
				if t == q {
					hit = true
				}
			}
		}
		if hit {
			out = append(out, driver.EnrichmentRecord{Tags: r.tags, Enrichment: json.RawMessage(r.blob)})
		}
	}
	return out, nil
}

func (h *harness) enrich(db []dbRec, vulns []vulnIn) {
	r := h.r
	g := &fakeGetter{db: db}
	rep := &claircore.VulnerabilityReport{Vulnerabilities: map[string]*claircore.Vulnerability{}}
	for _, v := range vulns {
		rep.Vulnerabilities[v.id] = &claircore.Vulnerability{ID: v.id, Description: v.desc, Name: v.name, Links: v.links}
	}
	var got map[string][]json.RawMessage
	out := hx.Guard(func() string {
		var e enrichcvss.Enricher
		typ, msgs, err := e.Enrich(h.ctx, g, rep)
		if err != nil {
			return "err"
		}
		if typ != enrichcvss.Type {
			return "badtype"
		}
		got = map[string][]json.RawMessage{}
		switch len(msgs) {
		case 0:
		case 1:
			if err := json.Unmarshal(msgs[0], &got); err != nil {
				return "badjson"
			}
		default:
			return "manyblobs"
		}
		var ents []string
		for id, bs := range got {
			hs := make([]string, len(bs))
			for i, b := range bs {
				hs[i] = hexOf(string(b))
			}
			ents = append(ents, id+"="+strings.Join(hs, ","))
		}
		sort.Strings(ents)
		calls := append([]string{}, g.calls...)
		sort.Strings(calls)
		e1, c1 := "-", "-"
		if len(ents) > 0 {
			e1 = strings.Join(ents, ";")
		}
		if len(calls) > 0 {
			c1 = strings.Join(calls, "/")
		}
		return "ok " + e1 + " | " + c1
	})
	switch {
	case out == "panic":
		h.fail("", "Enrich panicked", fmt.Sprint(vulns))
	case strings.HasPrefix(out, "bad"), out == "manyblobs":
		h.fail("", "Enrich returned "+out, fmt.Sprint(vulns))
	}
	r.Count("enrich:" + strings.SplitN(out, " ", 2)[0])
	// direct oracle from what was planted: a record is forwarded to a
	// vulnerability iff one of its tags stands in the vulnerability's text
	if strings.HasPrefix(out, "ok") {
		for _, v := range vulns {
			want := []string{}
			for _, rec := range db {
				hit := false
				for _, t := range rec.tags {
					for _, p := range v.planted {
						if t == p {
							hit = true
						}
					}
				}
				if hit {
					want = append(want, rec.blob)
				}
			}
			have := []string{}
			for _, b := range got[v.id] {
				have = append(have, string(b))
			}
			if strings.Join(want, "\x00") != strings.Join(have, "\x00") {
				h.fail("", fmt.Sprintf("vulnerability %s mentions %q: the store holds the enrichments %q for these ids, Enrich forwarded %q",
					v.id, v.planted, want, have), v.desc+" | "+v.name+" | "+v.links)
			}
			if len(have) > 0 {
				r.Count("enrich:vuln-enriched")
			} else if len(v.planted) > 0 {
				r.Count("enrich:vuln-ids-unknown-to-store")
			} else {
				r.Count("enrich:vuln-without-id")
			}
		}
		// one query per distinct id set
		seen := map[string]bool{}
		for _, c := range g.calls {
			if seen[c] {
				h.fail("", fmt.Sprintf("the getter was asked twice for %q within one Enrich call", c), fmt.Sprint(vulns))
			}
			seen[c] = true
		}
	}
	// protocol line
	var recs, vs []string
	for _, rec := range db {
		recs = append(recs, strings.Join(rec.tags, "+")+":"+hexOf(rec.blob))
	}
	for _, v := range vulns {
		vs = append(vs, v.id+":"+hexOf(v.desc)+":"+hexOf(v.name)+":"+hexOf(v.links))
	}
	d, w := "-", "-"
	if len(recs) > 0 {
		d = strings.Join(recs, ";")
	}
	if len(vs) > 0 {
		w = strings.Join(vs, ";")
	}
	r.Op("en "+d+" "+w, out, true)
}

func (h *harness) randEnrich() {
	rnd := h.rnd
	var db []dbRec
	for i, n := 0, rnd.Intn(8); i < n; i++ {
		rec := dbRec{blob: fmt.Sprintf(`{"version":"3.%d","baseScore":%d.%d,"n":%d}`, rnd.Intn(2), rnd.Intn(10), rnd.Intn(10), i)}
		if rnd.Chance(1, 6) {
			rec.blob = fmt.Sprintf(`"e%d"`, i)
		}
		for k, m := 0, 1+rnd.Intn(2); k < m; k++ {
			t := cvePool[rnd.Intn(len(cvePool))]
			if rnd.Chance(1, 10) {
				t = strings.ToLower(t) // a tag the upper-case id does not equal
			}
			rec.tags = append(rec.tags, t)
		}
		db = append(db, rec)
	}
	var vulns []vulnIn
	for i, n := 0, rnd.Intn(6); i < n; i++ {
		v := vulnIn{id: fmt.Sprint(100 + i)}
		var p []string
		v.desc, p = h.cveText()
		v.planted = append(v.planted, p...)
		if rnd.Chance(1, 2) {
			v.name = cvePool[rnd.Intn(len(cvePool))]
			v.planted = append(v.planted, v.name)
		} else {
			v.name = rnd.Pick("RHSA-2021:1234", "openssl", "", "GHSA-aaaa-bbbb-cccc")
		}
		if rnd.Chance(1, 2) {
			v.links, p = h.cveText()
			v.planted = append(v.planted, p...)
		}
		if i > 0 && rnd.Chance(1, 3) { // the same id set as another vulnerability: the per-call cache
			o := vulns[rnd.Intn(len(vulns))]
			v.desc, v.name, v.links, v.planted = o.links, o.name, o.desc, o.planted
		}
		vulns = append(vulns, v)
	}
	h.enrich(db, vulns)
}

type feedItem struct {
	id   string
	kind byte // 'a' no cvssV3 member, 'n' null, 'o' object
	raw  string
	v2   bool
}

func (h *harness) feed(items []feedItem) {
	r := h.r
	var doc bytes.Buffer
	fmt.Fprintf(&doc, `{"CVE_data_type":"CVE","CVE_data_numberOfCVEs":"%d","CVE_Items":[`, len(items))
	for i, it := range items {
		if i > 0 {
			doc.WriteByte(',')
		}
		fmt.Fprintf(&doc, `{"cve":{"CVE_data_meta":{"ID":%q,"ASSIGNER":"x"}},"impact":{`, it.id)
		sep := ""
		if it.v2 {
			doc.WriteString(`"baseMetricV2":{"cvssV2":{"version":"2.0","vectorString":"AV:N/AC:L/Au:N/C:P/I:P/A:P","baseScore":7.5}}`)
			sep = ","
		}
		switch it.kind {
		case 'n':
			doc.WriteString(sep + `"baseMetricV3":{"cvssV3":null}`)
		case 'o':
			doc.WriteString(sep + `"baseMetricV3":{"cvssV3":` + it.raw + `,"exploitabilityScore":3.9}`)
		case 'a':
			if it.raw == "empty" {
				doc.WriteString(sep + `"baseMetricV3":{"exploitabilityScore":3.9}`)
			}
		}
		doc.WriteString(`}}`)
	}
	doc.WriteString(`]}`)
	type rec struct {
		Tags       []string
		Enrichment json.RawMessage
	}
	var got []rec
	out := hx.Guard(func() string {
		var w bytes.Buffer
		if err := enrichcvss.FeedForVerif(h.ctx, 2024, &doc, &w); err != nil {
			return "err"
		}
		dec := json.NewDecoder(&w)
		for dec.More() {
			var x rec
			if err := dec.Decode(&x); err != nil {
				return "badjson"
			}
			got = append(got, x)
		}
		if len(got) == 0 {
			return "ok -"
		}
		var es []string
		for _, x := range got {
			es = append(es, strings.Join(x.Tags, "+")+"="+hexOf(string(x.Enrichment)))
		}
		return "ok " + strings.Join(es, ";")
	})
	if out == "panic" || out == "badjson" || out == "err" {
		h.fail("", "feed ingestion answered "+out, fmt.Sprint(items))
	}
	// direct: exactly the items with a cvssV3 object are forwarded, unchanged, in order, tagged with their id
	if strings.HasPrefix(out, "ok") {
		k := 0
		for _, it := range items {
			switch it.kind {
			case 'o':
				if k >= len(got) || len(got[k].Tags) != 1 || got[k].Tags[0] != it.id || string(got[k].Enrichment) != it.raw {
					h.fail("", fmt.Sprintf("item %s carries cvssV3 %s; record %d of the enrichment file is not it", it.id, it.raw, k), fmt.Sprint(items))
				}
				k++
			case 'n':
				k++ // a JSON null is a member too (the model says so; NVD feeds do not contain it)
			}
		}
		if k != len(got) {
			h.fail("", fmt.Sprintf("%d records written for %d items with a cvssV3 member", len(got), k), fmt.Sprint(items))
		}
	}
	r.Count("feed:" + strings.SplitN(out, " ", 2)[0])
	var ps []string
	for _, it := range items {
		switch it.kind {
		case 'o':
			ps = append(ps, it.id+":o"+hexOf(it.raw))
		default:
			ps = append(ps, it.id+":"+string(it.kind))
		}
		r.Count("feed:item:" + string(it.kind) + map[bool]string{true: "+v2", false: ""}[it.v2])
	}
	p := "-"
	if len(ps) > 0 {
		p = strings.Join(ps, ";")
	}
	r.Op("fd "+p, out, true)
}

func (h *harness) randFeed() {
	rnd := h.rnd
	var items []feedItem
	for i, n := 0, rnd.Intn(7); i < n; i++ {
		it := feedItem{id: fmt.Sprintf("CVE-20%02d-%04d", rnd.Intn(25), rnd.Intn(10000)), v2: rnd.Chance(1, 2)}
		switch k := rnd.Intn(10); {
		case k < 5:
			it.kind = 'o'
			v := h.randV3()
			base := vec{}
			for _, n := range v3Names[:8] {
				base[n] = v[n]
			}
			it.raw = fmt.Sprintf(`{"version":"3.1","vectorString":%q,"baseScore":%d.%d,"baseSeverity":"HIGH"}`, str3(1, base), rnd.Intn(10), rnd.Intn(10))
		case k < 8:
			it.kind = 'a'
			if rnd.Chance(1, 2) {
				it.raw = "empty"
			}
		case k == 8:
			it.kind = 'n'
		default:
			it.kind = 'o'
			it.raw = `{}`
		}
		items = append(items, it)
	}
	h.feed(items)
}
