package c05

import (
	"bytes"
	"fmt"
	"os"
	"os/exec"
	"path/filepath"
	"sort"
	"runtime"
	"strings"

	"github.com/quay/zlog"
	"github.com/rs/zerolog"

	"github.com/quay/claircore/verifharness/internal/hx"
)

// Run is the harness entry point for C05. The scenarios run in a child
// process: a send on a closed channel, a second close or a concurrent map
// write inside the code under test kills the process that runs it, and the
// parent then reports the scenario that was in flight as the failing input.
func Run(cfg hx.Config) error {
	if os.Getenv("C05_CHILD") != "" {
		return runChild(cfg)
	}
	cmd := exec.Command(os.Args[0], os.Args[1:]...)
	cmd.Env = append(os.Environ(), "C05_CHILD=1")
	var errb bytes.Buffer
	cmd.Stdout = os.Stdout
	cmd.Stderr = &errb
	err := cmd.Run()
	if err == nil {
		os.Stderr.Write(errb.Bytes())
		return nil
	}
	inflight, _ := os.ReadFile(filepath.Join(cfg.OutDir, inflightName))
	r, err2 := hx.NewRun(cfg)
	if err2 != nil {
		return err2
	}
	r.Rule = "the scenario process crashed; only the scenario in flight is reported"
	what := "exit: " + err.Error()
	for _, l := range strings.Split(errb.String(), "\n") {
		if strings.HasPrefix(l, "panic:") || strings.HasPrefix(l, "fatal error:") {
			what = l
			break
		}
	}
	tail := errb.String()
	if len(tail) > 2500 {
		tail = tail[:2500]
	}
	r.Notes["crash_output"] = tail
	r.Case("crash", true)
	r.Fail("", fmt.Sprintf("process-crashed (%s) while running %s", what, strings.TrimSpace(string(inflight))))
	return r.Close()
}

const inflightName = "inflight.txt"

var inflightFile *os.File

// inflight records the call about to be made, for the parent to report if
// the process dies in it.
func inflight(s string) {
	if inflightFile == nil {
		return
	}
	inflightFile.Truncate(0)
	inflightFile.WriteAt([]byte(s), 0)
}

func runChild(cfg hx.Config) error {
	nop := zerolog.Nop()
	zlog.Set(&nop)
	r, err := hx.NewRun(cfg)
	if err != nil {
		return err
	}
	r.Rule = "one scenario = an index report (packages, environments, distributions, repositories), a stub store table, 0..64 scripted matchers (plain / version-filter / authoritative / remote; filter sets, query constraints, acceptance hash, scripted failures in Get / Vulnerable / remote call, context cancellation from inside Get) and 0..34 scripted enrichers, run through EnrichedMatch, Libvuln.Scan or Match on the real code under two or more GOMAXPROCS values with seeded yields/spins/sleeps inside every scripted call; the canonical outcome (sorted report | err) is one protocol line answered by the Lean model; a scenario is non-trivial by its distinct scan line (the scenario text is part of the evidence key)"
	rnd := hx.NewRand(cfg.Seed)
	registerScripted()
	startGoroutines := runtime.NumGoroutine()
	if f, err := os.Create(filepath.Join(cfg.OutDir, inflightName)); err == nil {
		inflightFile = f
		defer f.Close()
	}

	// witnesses first: the repaired defect and the listed finding
	if os.Getenv("C05_SKIP_WITNESSES") == "" { // (mutation experiments: see what the generators alone find)
		replayCancelledContext(r, rnd)
		replayRemoteSwallowed(r, rnd)
		replayNonFunctionalIds(r, rnd)
		if err := runCorpus(r, rnd, cfg.Corpus); err != nil {
			return err
		}
	}

	nscen := cfg.N(12000, 120000)
	extra := cfg.N(1, 2)
	for i := 0; i < nscen && !r.Stop() && !tooManyHangs(); i++ {
		sc := genScenario(rnd, r.Count)
		procs := []int{1 + rnd.Intn(16)}
		for k := 0; k < extra; k++ {
			procs = append(procs, 1+rnd.Intn(16))
		}
		if i%3 == 0 {
			procs[len(procs)-1] = 1
		}
		runScenario(r, rnd, sc, procs, "")
	}
	// cancellation from inside an enricher (outcome not determined: oracle only)
	ncancel := cfg.N(800, 6000)
	for i := 0; i < ncancel && !r.Stop() && !tooManyHangs(); i++ {
		runCancelDuringEnrichment(r, rnd, genScenario(rnd, func(string) {}))
	}
	r.Notes["cancel_during_enrichment_scenarios"] = ncancel
	// controlled schedules: the protocol machine must reproduce every transition
	nproto := cfg.N(3000, 30000)
	for i := 0; i < nproto && !r.Stop() && !tooManyHangs() && !tooManyStucks(); i++ {
		sc := protoScenario(rnd, r.Count)
		var lim int
		switch c := rnd.Intn(10); {
		case c < 6:
			lim = 1 + rnd.Intn(4)
		case c < 9:
			lim = 5 + rnd.Intn(4)
		default:
			lim = 9 + rnd.Intn(8)
		}
		controlled(r, rnd, sc, lim, i%4 == 3)
	}
	nenrich := cfg.N(2000, 15000)
	for i := 0; i < nenrich && !r.Stop() && !tooManyHangs() && !tooManyStucks(); i++ {
		sc := enrichScenario(rnd, r.Count)
		lim := 1 + rnd.Intn(4)
		if rnd.Chance(1, 4) {
			lim = 5 + rnd.Intn(12)
		}
		controlledEnrich(r, rnd, sc, lim, i%4 == 3)
	}
	r.Notes["controlled_schedules_enrichment"] = nenrich
	// Match under controlled schedules (machine MatchFan); every fifth run
	// cancels the caller's Context at a random step
	nfan := cfg.N(2500, 25000)
	for i := 0; i < nfan && !r.Stop() && !tooManyHangs() && !tooManyStucks(); i++ {
		sc := fanScenario(rnd, r.Count)
		lim := 1 + rnd.Intn(4)
		if rnd.Chance(1, 4) {
			lim = 5 + rnd.Intn(12)
		}
		cancelAt := -1
		if i%5 == 4 {
			cancelAt = rnd.Intn(40)
		}
		controlledMatch(r, rnd, sc, lim, cancelAt)
	}
	r.Notes["controlled_schedules_match"] = nfan
	// the caller's cancellation swept over every step of one seeded schedule,
	// matching phase and enrichment phase
	nsweep := cfg.N(30, 300)
	swept := 0
	for i := 0; i < nsweep && !r.Stop() && !tooManyHangs() && !tooManyStucks(); i++ {
		sc := protoScenario(rnd, func(string) {})
		if len(sc.matchers) > 5 {
			sc.matchers = sc.matchers[:2+rnd.Intn(4)]
		}
		lim := 1 + rnd.Intn(3)
		seed := rnd.U64()
		n := controlledAt(r, hx.NewRand(seed), sc, lim, false, -1)
		for k := 0; k <= n && !r.Stop() && !tooManyHangs() && !tooManyStucks(); k++ {
			controlledAt(r, hx.NewRand(seed), sc, lim, false, k)
			swept++
		}
		sf := *sc
		sf.api = "match"
		seed = rnd.U64()
		n = controlledMatch(r, hx.NewRand(seed), &sf, lim, -1)
		for k := 0; k <= n && !r.Stop() && !tooManyHangs() && !tooManyStucks(); k++ {
			controlledMatch(r, hx.NewRand(seed), &sf, lim, k)
			swept++
		}
		se := enrichScenario(rnd, func(string) {})
		if len(se.enrichers) > 5 {
			se.enrichers = se.enrichers[:2+rnd.Intn(4)]
		}
		seed = rnd.U64()
		n = controlledEnrichAt(r, hx.NewRand(seed), se, lim, false, -1)
		for k := 0; k <= n && !r.Stop() && !tooManyHangs() && !tooManyStucks(); k++ {
			controlledEnrichAt(r, hx.NewRand(seed), se, lim, false, k)
			swept++
		}
	}
	r.Notes["cancellation_sweep_runs"] = swept
	// a matcher fault of every error class (incl. context / deadline / timeout
	// class errors produced while the caller's Context is live) at every position
	// of the matcher list, in the store query and in Vulnerable, through
	// EnrichedMatch, Scan and Match
	nmfault := cfg.N(6, 50)
	for i := 0; i < nmfault && !r.Stop() && !tooManyHangs() && !tooManyStucks(); i++ {
		matcherFaultSweep(r, rnd)
	}
	// an enricher error / an empty answer at every position of the enricher list
	nerrpos := cfg.N(25, 250)
	for i := 0; i < nerrpos && !r.Stop() && !tooManyHangs() && !tooManyStucks(); i++ {
		enricherFaultSweep(r, rnd)
	}
	if n := runtime.NumGoroutine(); n > startGoroutines+2 {
		r.Fail("", fmt.Sprintf("goroutines-left-at-end-of-run before=%d after=%d", startGoroutines, n))
	}
	r.Notes["controlled_schedules"] = nproto
	r.Notes["scenarios"] = nscen
	r.Notes["runs_per_scenario"] = 1 + extra
	r.Notes["entry_points"] = []string{"internal/matcher.EnrichedMatch", "internal/matcher.Match", "libvuln.(*Libvuln).Scan"}
	r.Notes["store"] = "stub datastore.MatcherStore (go/internal/c05/script.go); postgres is not involved"
	return r.Close()
}

// replayCancelledContext is the witness of the defect repaired by the fix
// commit in internal/matcher/match.go: with an already cancelled Context
// EnrichedMatch used to return an empty report and a nil error in about half
// of the runs (the sender stopped before handing out a matcher, the idle
// workers returned nil).
func replayCancelledContext(r *hx.Run, rnd *hx.Rand) {
	sc := &scenario{api: "enriched", ctx: "cancelled",
		pkgs: []pkgS{{1, 1, 1}, {2, 2, 2}},
		envs: []envS{{pkg: 1}, {pkg: 2}},
		rows: []rowS{{v: vulnS{1, 101}, name: 1}, {v: vulnS{2, 102}, name: 2}},
	}
	for i := 0; i < 3; i++ {
		sc.matchers = append(sc.matchers, matcherS{kind: "plain", thresh: 8, verr: 16, q: []int{cMatcherIndexOffset + i}})
	}
	for _, api := range []string{"enriched", "scan"} {
		sc.api = api
		runScenario(r, rnd, sc, []int{1, 4}, "witness=cancelled-context")
		bad := 0
		for i := 0; i < 150 && bad == 0 && !tooManyHangs(); i++ {
			w := newWorld(sc, rnd.Fork())
			res := call(w, 1+i%4)
			r.Case(fmt.Sprintf("cancelled-context %s #%d", api, i), i == 0)
			if canon(sc, res) != "err" {
				bad++
				r.Fail("", fmt.Sprintf("context-already-cancelled-but-%s-returned %s", api, canon(sc, res)))
			}
		}
	}
}

// replayRemoteSwallowed is the witness of finding remote-error-swallowed.
func replayRemoteSwallowed(r *hx.Run, rnd *hx.Rand) {
	sc := &scenario{api: "enriched", ctx: "live",
		pkgs: []pkgS{{1, 1, 1}},
		envs: []envS{{pkg: 1}},
		rows: []rowS{{v: vulnS{1, 101}, name: 1}},
		matchers: []matcherS{
			{kind: "plain", thresh: 8, verr: 16, q: []int{cMatcherIndexOffset}},
			{kind: "remote", thresh: 8, verr: 16, q: []int{cMatcherIndexOffset + 1}, remoteErr: true},
		},
	}
	w := newWorld(sc, rnd.Fork())
	res := call(w, 2)
	obs := canon(sc, res)
	ls := sc.lines("witness=remote-error-swallowed")
	for _, l := range ls[:len(ls)-1] {
		r.Op(l, "ok", false)
	}
	r.Op(ls[len(ls)-1], obs, true)
	if w.remoteKO[1] && res.err == nil && res.vr != nil {
		r.KnownSeen("remote-error-swallowed", "matchers=[plain, remote(QueryRemoteMatcher fails)] => "+obs+" (nil error; the remote matcher's share is silently absent) scenario=["+strings.Join(ls[1:], " | ")+"]")
	}
}

// runCorpus runs every corpus/C05/*.ops scenario (minimised past
// disagreements and witnesses, in the line protocol) under several GOMAXPROCS
// values, free-running and — for EnrichedMatch scenarios — under controlled
// schedules too.
func runCorpus(r *hx.Run, rnd *hx.Rand, dir string) error {
	if dir == "" {
		return nil
	}
	files, _ := filepath.Glob(filepath.Join(dir, "*.ops"))
	sort.Strings(files)
	for _, f := range files {
		if r.Stop() || tooManyHangs() {
			break
		}
		b, err := os.ReadFile(f)
		if err != nil {
			return err
		}
		sc, err := parseScenario(strings.Split(string(b), "\n"))
		if err != nil {
			return fmt.Errorf("corpus file %s: %w", f, err)
		}
		name := strings.TrimSuffix(filepath.Base(f), ".ops")
		r.Count("corpus-scenarios")
		for rep := 0; rep < 4; rep++ {
			runScenario(r, rnd, sc, []int{1, 2 + rnd.Intn(3), 5 + rnd.Intn(12)}, "corpus="+name)
		}
		if sc.api == "match" && sc.ctx == "live" {
			for _, lim := range []int{1, 2, 3, 8} {
				if !tooManyStucks() && !tooManyHangs() {
					controlledMatch(r, rnd, sc, lim, -1)
				}
			}
		}
		if sc.api != "match" && sc.api != "new" && sc.ctx == "live" && len(sc.enrichers) == 0 {
			cancels := false
			for _, m := range sc.matchers {
				cancels = cancels || m.cancel
			}
			if !cancels {
				for _, lim := range []int{1, 2, 3, 8} {
					if !tooManyStucks() && !tooManyHangs() {
						controlled(r, rnd, sc, lim, false)
					}
				}
			}
		}
	}
	return nil
}

// replayNonFunctionalIds replays, on the real code, the counterexample of
// theorem collect_perm_needs_functional_ids_counterexample: two matchers
// return different objects under one id; which one the table keeps depends on
// the schedule. It is not a defect (a store hands out one object per id); the
// run records that both outcomes occur and that nothing else does.
func replayNonFunctionalIds(r *hx.Run, rnd *hx.Rand) {
	sc := &scenario{api: "enriched", ctx: "live",
		pkgs: []pkgS{{1, 1, 1}},
		envs: []envS{{pkg: 1}},
		matchers: []matcherS{
			{kind: "remote", thresh: 8, verr: 16, q: []int{cMatcherIndexOffset}, remote: []remoteEnt{{1, []vulnS{{7, 10}}}}},
			{kind: "remote", thresh: 8, verr: 16, q: []int{cMatcherIndexOffset + 1}, remote: []remoteEnt{{1, []vulnS{{7, 20}}}}},
		},
	}
	seen := map[string]int{}
	for i := 0; i < 200 && !tooManyHangs(); i++ {
		w := newWorld(sc, rnd.Fork())
		res := call(w, 1+i%8)
		r.Case(fmt.Sprintf("non-functional-ids #%d", i), i == 0)
		obs := canon(sc, res)
		seen[obs]++
		if obs != "ok V=7.10 P=1:7+7 E=-" && obs != "ok V=7.20 P=1:7+7 E=-" {
			what := "two objects under one id: the report is neither of the two possible ones: "
			if res.hang {
				what = "call-did-not-return within 10s: "
			}
			r.Fail("", fmt.Sprintf("%s%s gomaxprocs=%d scenario=[%s]", what, obs, 1+i%8, strings.Join(sc.lines("witness=two-objects-one-id")[1:], " | ")))
			break
		}
	}
	r.Notes["two_objects_one_id_outcomes"] = seen
}

// enricherFaultSweep: one scenario with 2..6 well-behaved enrichers; for every
// position i a variant in which enricher i fails and one in which it answers
// nothing, plus the variant in which all fail — each run freely (differential
// + oracles) and under a controlled schedule of the enrichment phase.
func enricherFaultSweep(r *hx.Run, rnd *hx.Rand) {
	base := enrichScenario(rnd, func(string) {})
	ne := 2 + rnd.Intn(5)
	base.enrichers = nil
	for i := 0; i < ne; i++ {
		base.enrichers = append(base.enrichers, enricherS{kind: 1 + rnd.Intn(3), msgs: []int{1 + rnd.Intn(40), 50 + i}, sees: rnd.Chance(1, 2)})
	}
	variant := func(name string, mod func(es []enricherS)) {
		if r.Stop() || tooManyHangs() || tooManyStucks() {
			return
		}
		sc := *base
		sc.enrichers = append([]enricherS(nil), base.enrichers...)
		mod(sc.enrichers)
		r.Count("enricher-fault-sweep:" + name)
		runScenario(r, rnd, &sc, []int{1, 1 + rnd.Intn(8)}, "")
		controlledEnrich(r, rnd, &sc, 1+rnd.Intn(3), false)
	}
	variant("none", func([]enricherS) {})
	for i := 0; i < ne; i++ {
		i := i
		variant("error-at-position", func(es []enricherS) { es[i].fail = true })
		variant("empty-at-position", func(es []enricherS) { es[i].msgs = nil })
	}
	variant("all-fail", func(es []enricherS) {
		for i := range es {
			es[i].fail = true
		}
	})
}

// matcherFaultSweep: one scenario with 2..6 matchers that all succeed and
// accept something; for every position, every error class and both fault sites
// (store.Get, Vulnerable) the variant in which exactly that matcher fails, the
// caller's Context live. The statement's oracle decides: a failing matcher
// yields an error (EnrichedMatch / Scan: no report; Match: one joined error and
// the others' union), never a silently partial report; the call returns.
func matcherFaultSweep(r *hx.Run, rnd *hx.Rand) {
	nm := 2 + rnd.Intn(5)
	base := &scenario{ctx: "live",
		pkgs: []pkgS{{1, 1, 1}, {2, 2, 2}},
		envs: []envS{{pkg: 1}, {pkg: 2, dist: 0, repos: []int{9}}},
	}
	for id := 1; id <= 4; id++ {
		base.rows = append(base.rows, rowS{v: vulnS{id, payloadOf(id)}, name: 1 + id%2, fixed: true, inRange: true})
	}
	for i := 0; i < nm; i++ {
		kind := []string{"plain", "plain", "vf", "plain"}[rnd.Intn(4)]
		base.matchers = append(base.matchers, matcherS{kind: kind, salt: rnd.Intn(16), thresh: 8, verr: 16, q: []int{cMatcherIndexOffset + i}})
	}
	ne := rnd.Intn(3)
	for i := 0; i < ne; i++ {
		base.enrichers = append(base.enrichers, enricherS{kind: 1 + i, msgs: []int{i + 1}})
	}
	run := func(sc *scenario, api string, ctl bool) {
		if r.Stop() || tooManyHangs() {
			return
		}
		v := *sc
		v.api = api
		if api == "match" {
			v.enrichers = nil
		}
		runScenario(r, rnd, &v, []int{1, 1 + rnd.Intn(8)}, "")
		if !ctl || tooManyStucks() {
			return
		}
		lim := 1 + rnd.Intn(3)
		if api == "match" {
			controlledMatch(r, rnd, &v, lim, -1)
		} else if len(v.enrichers) == 0 {
			controlled(r, rnd, &v, lim, false)
		}
	}
	for pos := 0; pos < nm; pos++ {
		for class := 0; class < nErrClasses; class++ {
			for site := 0; site < 2; site++ {
				sc := *base
				sc.matchers = append([]matcherS(nil), base.matchers...)
				m := &sc.matchers[pos]
				m.ec = class
				if site == 0 {
					m.q = append([]int{cGetFails}, m.q...)
					r.Count("matcher-fault-sweep:store.Get/" + errClassName[class])
				} else {
					// the hash of (package 1, vulnerability 2), a pair the store answers (rows 2
					// and 4 carry package 1's name): Vulnerable fails there
					m.verr = (m.salt + 3*1 + 11*2) % 16
					m.names = nil
					r.Count("matcher-fault-sweep:Vulnerable/" + errClassName[class])
				}
				api := []string{"enriched", "match", "scan"}[(pos+class+site)%3]
				run(&sc, api, class%2 == 1)
				if api != "enriched" && class > 0 {
					run(&sc, "enriched", false)
				}
			}
		}
	}
}
