package c05

import (
	"context"
	"fmt"
	"net/http"
	"runtime"
	"sort"
	"strconv"
	"strings"
	"sync/atomic"
	"time"

	"github.com/quay/claircore"
	"github.com/quay/claircore/internal/matcher"
	"github.com/quay/claircore/libvuln"
	"github.com/quay/claircore/libvuln/driver"
	"github.com/quay/claircore/verifharness/internal/hx"
)

const callTimeout = 10 * time.Second

// hangs counts calls that did not return; after two the run stops generating
// (every further hang would cost the full timeout).
var hangs atomic.Int32

func tooManyHangs() bool { return hangs.Load() >= 2 }

// result of one call into the real code
type result struct {
	vr      *claircore.VulnerabilityReport
	err     error
	hang    bool
	panic   bool
	leak    int // goroutines still alive after the call returned
	nerrs   int // Match: number of joined errors
	newErr  bool     // api "new": libvuln.New failed
	built   []string // api "new": names of the matchers New constructed
	elapsed time.Duration
}

func joinedErrors(err error) int {
	if err == nil {
		return 0
	}
	if j, ok := err.(interface{ Unwrap() []error }); ok {
		return len(j.Unwrap())
	}
	return 1
}

// call runs the scenario's API on the real code with the given GOMAXPROCS.
func call(w *world, procs int) result {
	old := runtime.GOMAXPROCS(procs)
	defer runtime.GOMAXPROCS(old)
	base := context.Background()
	ctx, cancel := context.WithCancel(base)
	defer cancel()
	w.cancel = cancel
	if w.sc.ctx == "cancelled" {
		cancel()
	}
	var lv *libvuln.Libvuln
	var built []string
	if w.sc.api == "new" {
		var err error
		if lv, built, err = newLibvuln(w, base); err != nil {
			return result{newErr: true}
		}
	}
	if w.sc.api == "scan" {
		var err error
		lv, err = libvuln.New(base, &libvuln.Options{
			Store:                    w.store,
			Client:                   http.DefaultClient,
			MatcherNames:             []string{},
			UpdaterSets:              []string{},
			Matchers:                 w.matchers,
			Enrichers:                w.enrichers,
			DisableBackgroundUpdates: true,
			UpdateRetention:          2,
		})
		if err != nil {
			return result{err: fmt.Errorf("libvuln.New: %w", err), panic: true}
		}
	}
	before := runtime.NumGoroutine()
	done := make(chan result, 1)
	t0 := time.Now()
	go func() {
		var res result
		defer func() {
			if e := recover(); e != nil {
				res = result{panic: true}
			}
			done <- res
		}()
		switch w.sc.api {
		case "enriched":
			res.vr, res.err = matcher.EnrichedMatch(ctx, w.ir, w.matchers, w.enrichers, w.store)
		case "scan", "new":
			res.vr, res.err = lv.Scan(ctx, w.ir)
		case "match":
			res.vr, res.err = matcher.Match(ctx, w.ir, w.matchers, w.store)
			res.nerrs = joinedErrors(res.err)
		}
	}()
	var res result
	select {
	case res = <-done:
	case <-time.After(callTimeout):
		hangs.Add(1)
		return result{hang: true}
	}
	res.elapsed = time.Since(t0)
	res.built = built
	// "the call always terminates without leaking goroutines": everything the
	// call started must be gone shortly after it returned.
	deadline := time.Now().Add(3 * time.Second)
	for {
		n := runtime.NumGoroutine()
		if n <= before {
			break
		}
		if time.Now().After(deadline) {
			res.leak = n - before
			break
		}
		runtime.Gosched()
		time.Sleep(20 * time.Microsecond)
	}
	return res
}

// newLibvuln calls the real libvuln.New with the scenario's options and the
// scripted registry content.
func newLibvuln(w *world, base context.Context) (*libvuln.Libvuln, []string, error) {
	sc := w.sc
	st := &setupState{factories: map[string]*factoryS{}, matchers: w.matchers, configured: map[string]bool{}}
	for i := range sc.factories {
		st.factories[sc.factories[i].name] = &sc.factories[i]
	}
	setSetup(st)
	defer setSetup(nil)
	opts := &libvuln.Options{
		UpdaterSets:              []string{},
		Enrichers:                w.enrichers,
		DisableBackgroundUpdates: true,
		UpdateRetention:          sc.nw.ret,
		MatcherConfigs:           map[string]driver.MatcherConfigUnmarshaler{},
	}
	if sc.nw.store {
		opts.Store = w.store
	}
	if sc.nw.client {
		opts.Client = http.DefaultClient
	}
	if !sc.nw.namesNil {
		opts.MatcherNames = append([]string{}, sc.nw.names...)
	}
	for _, n := range sc.nw.cfgs {
		n := n
		opts.MatcherConfigs[n] = func(v any) error {
			if n == "rhel" && !sc.nw.rhelCfgOK {
				return errScripted
			}
			return nil
		}
	}
	opts.Matchers = make([]driver.Matcher, 0, len(sc.oot)+80) // spare capacity is the caller's business
	for _, i := range sc.oot {
		opts.Matchers = append(opts.Matchers, w.matchers[i])
	}
	lv, err := libvuln.New(base, opts)
	if err != nil {
		return nil, nil, err
	}
	if sc.nw.twin {
		// a second instance from the same Options value, every factory enabled,
		// nothing configured; it is not used, the first one must be unaffected
		o2 := *opts
		o2.MatcherNames = nil
		o2.MatcherConfigs = nil
		st.mu.Lock()
		st.configured = map[string]bool{}
		st.mu.Unlock()
		_, _ = libvuln.New(base, &o2)
	}
	var names []string
	for _, m := range lv.MatchersForVerif() {
		names = append(names, labelOf(m.Name()))
	}
	return lv, names, nil
}

func orDash(s string) string {
	if s == "" {
		return "-"
	}
	return s
}

func canonReport(vr *claircore.VulnerabilityReport) string {
	var ids []int
	for k := range vr.Vulnerabilities {
		ids = append(ids, atoi(k))
	}
	sort.Ints(ids)
	var vs []string
	for _, id := range ids {
		v := vr.Vulnerabilities[strconv.Itoa(id)]
		vs = append(vs, fmt.Sprintf("%d.%s", id, v.Name))
	}
	var pks []int
	for k := range vr.PackageVulnerabilities {
		pks = append(pks, atoi(k))
	}
	sort.Ints(pks)
	var ps []string
	for _, p := range pks {
		var l []int
		for _, id := range vr.PackageVulnerabilities[strconv.Itoa(p)] {
			l = append(l, atoi(id))
		}
		sort.Ints(l)
		ss := make([]string, len(l))
		for i, x := range l {
			ss[i] = strconv.Itoa(x)
		}
		ps = append(ps, fmt.Sprintf("%d:%s", p, strings.Join(ss, "+")))
	}
	return fmt.Sprintf("V=%s P=%s", orDash(strings.Join(vs, ",")), orDash(strings.Join(ps, ";")))
}

func canonEnrichments(vr *claircore.VulnerabilityReport) string {
	var ks []int
	for k := range vr.Enrichments {
		ks = append(ks, atoi(k))
	}
	sort.Ints(ks)
	var es []string
	for _, k := range ks {
		var l []int
		for _, m := range vr.Enrichments[strconv.Itoa(k)] {
			l = append(l, atoi(string(m)))
		}
		sort.Ints(l)
		ss := make([]string, len(l))
		for i, x := range l {
			ss[i] = strconv.Itoa(x)
		}
		es = append(es, fmt.Sprintf("%d:%s", k, strings.Join(ss, "+")))
	}
	return orDash(strings.Join(es, ";"))
}

// canon is the observation compared with the model.
func canon(sc *scenario, res result) string {
	switch {
	case res.hang:
		return "hang"
	case res.panic:
		return "panic"
	case res.newErr:
		return "new-err"
	}
	if sc.api == "match" {
		if res.vr == nil {
			return "nil-report"
		}
		return fmt.Sprintf("ok %s errs=%d", canonReport(res.vr), res.nerrs)
	}
	if res.err != nil {
		if res.vr != nil {
			return "err-with-report"
		}
		return "err"
	}
	if res.vr == nil {
		return "nil-nil"
	}
	return fmt.Sprintf("ok %s E=%s", canonReport(res.vr), canonEnrichments(res.vr))
}

func setOf(xs []int) map[int]bool {
	m := map[int]bool{}
	for _, x := range xs {
		m[x] = true
	}
	return m
}

// oracle checks the property statement directly on what the real code
// returned, using only what the scripted matchers recorded (no model).
// It returns (class, message) pairs; class "" is an unlisted violation.
func oracle(w *world, res result) [][2]string {
	var out [][2]string
	bad := func(class, f string, a ...any) { out = append(out, [2]string{class, fmt.Sprintf(f, a...)}) }
	sc := w.sc
	if res.hang {
		bad("", "call-did-not-return within %s", callTimeout)
		return out
	}
	if res.panic {
		bad("", "call-panicked")
		return out
	}
	if res.leak > 0 {
		bad("", "goroutines-leaked n=%d", res.leak)
	}
	w.mu.Lock()
	defer w.mu.Unlock()
	runs := sc.runSet()
	if sc.api == "new" {
		// libvuln.New: fails exactly when the options / a Configure demand it,
		// and constructs exactly the enabled factories' matchers plus the
		// out-of-tree ones
		mustFail, idx, defaults := refConstructed(sc)
		switch {
		case mustFail && !res.newErr:
			bad("", "libvuln.New-succeeded-although-its-options-or-a-factory's-Configure-must-make-it-fail")
		case !mustFail && res.newErr:
			bad("", "libvuln.New-failed-on-valid-options")
		case !mustFail:
			var want []string
			for _, i := range idx {
				want = append(want, fmt.Sprintf("m%d", i))
			}
			for _, d := range defaults {
				want = append(want, "d:"+d)
			}
			if canonNames(want) != canonNames(res.built) {
				bad("", "libvuln.New-constructed-matchers=[%s] want=[%s]", canonNames(res.built)[3:], canonNames(want)[3:])
			}
		}
		if res.newErr {
			return out
		}
		for i := range sc.matchers {
			if !runs[i] && len(w.shown[i]) > 0 {
				bad("", "matcher-%d-ran-although-no-enabled-factory-builds-it-and-it-is-not-out-of-tree", i)
			}
		}
	}
	anyFailed, anyRemoteKO := false, false
	for i := range sc.matchers {
		anyFailed = anyFailed || w.failed[i]
		anyRemoteKO = anyRemoteKO || w.remoteKO[i]
	}
	enriched := sc.api != "match"
	// every matcher that ran was shown exactly the records the index report
	// stands for (one per environment / repository mention); after an error
	// some matchers never ran
	wantRecs := recMultiset(wantRecords(sc))
	allRan := !enriched || res.err == nil
	for i := range sc.matchers {
		if !runs[i] || (len(w.shown[i]) == 0 && (len(wantRecs) == 0 || !allRan)) {
			continue
		}
		if d := diffRecords(wantRecs, recMultiset(w.shown[i])); d != "" {
			bad("", "matcher-%d-was-not-shown-the-index-report's-records: %s", i, d)
			break
		}
	}
	if enriched {
		if res.err != nil && res.vr != nil {
			bad("", "error-returned-together-with-a-report")
		}
		if res.err == nil && res.vr == nil {
			bad("", "nil-report-and-nil-error")
		}
		if anyFailed && res.err == nil {
			bad("", "a-matcher-failed-but-a-report-was-returned-without-error")
		}
		if sc.ctx == "cancelled" && res.err == nil {
			bad("", "context-already-cancelled-but-a-report-was-returned-without-error")
		}
		if res.err != nil {
			return out
		}
	} else {
		if res.vr == nil {
			bad("", "Match-returned-no-report")
			return out
		}
		nf := 0
		for i := range sc.matchers {
			if w.failed[i] {
				nf++
			}
		}
		if nf != res.nerrs {
			bad("", "Match-joined-%d-errors-but-%d-matchers-failed", res.nerrs, nf)
		}
	}
	vr := res.vr
	// the reference union, computed from the scenario alone
	if nf := refCheck(sc, runs, vr, sc.ctx == "cancelled", enriched, bad); !enriched && nf != res.nerrs {
		bad("", "Match-joined-%d-errors-but-%d-matchers-must-fail", res.nerrs, nf)
	}
	// ids resolve
	for pk, ids := range vr.PackageVulnerabilities {
		for _, id := range ids {
			v, ok := vr.Vulnerabilities[id]
			if !ok || v == nil {
				bad("", "dangling-id package=%s id=%s", pk, id)
			} else if v.ID != id {
				bad("", "id-resolves-to-other-vulnerability package=%s id=%s got=%s", pk, id, v.ID)
			}
		}
	}
	// well-formedness (vulnerabilityreport.go): no orphan table entry, no package
	// key with an empty list, table key = vulnerability id; the enrichment map
	// exists, is keyed by the kind of an enricher that reported something, and
	// holds no empty list
	listed := map[string]bool{}
	for pk, ids := range vr.PackageVulnerabilities {
		if len(ids) == 0 {
			bad("", "package-key-with-empty-list package=%s", pk)
		}
		for _, id := range ids {
			listed[id] = true
		}
	}
	for id, v := range vr.Vulnerabilities {
		if !listed[id] {
			bad("", "table-entry-not-listed-under-any-package id=%s", id)
		}
		if v != nil && v.ID != id {
			bad("", "table-key-differs-from-vulnerability-id key=%s id=%s", id, v.ID)
		}
	}
	if vr.Vulnerabilities == nil || vr.PackageVulnerabilities == nil {
		bad("", "report-with-a-nil-table")
	}
	if enriched {
		if vr.Enrichments == nil {
			bad("", "report-without-enrichment-map")
		}
		kinds := map[string]bool{}
		for i, e := range sc.enrichers {
			if !e.fail && len(e.msgs) > 0 && (w.enrichRan[i] || sc.cancelAtEnricher == 0) {
				kinds[strconv.Itoa(e.kind)] = true
			}
		}
		for k, ms := range vr.Enrichments {
			if !kinds[k] {
				bad("", "enrichment-key-is-not-the-kind-of-an-enricher-that-reported kind=%s", k)
			}
			if len(ms) == 0 {
				bad("", "enrichment-key-with-empty-list kind=%s", k)
			}
		}
		if sc.cancelAtEnricher == 0 {
			for k := range kinds {
				if _, ok := vr.Enrichments[k]; !ok {
					bad("", "enrichment-kind-missing kind=%s", k)
				}
			}
		}
	} else if vr.Enrichments != nil {
		bad("", "Match-returned-enrichments")
	}
	// exact union of what the matchers accepted
	want := map[int]map[int]bool{}
	wantV := map[int]bool{}
	rogue := false
	for i := range sc.matchers {
		if w.failed[i] {
			continue
		}
		for pkg, ids := range w.accepted[i] {
			if want[pkg] == nil {
				want[pkg] = map[int]bool{}
			}
			for _, id := range ids {
				want[pkg][id] = true
				wantV[id] = true
			}
		}
		for _, e := range sc.matchers[i].remote {
			if e.pkg == 77 {
				rogue = true
			}
		}
	}
	for pkg, ids := range want {
		got := setOf(nil)
		for _, id := range vr.PackageVulnerabilities[strconv.Itoa(pkg)] {
			got[atoi(id)] = true
		}
		for id := range ids {
			if !got[id] {
				class := ""
				bad(class, "accepted-vulnerability-missing package=%d id=%d", pkg, id)
			}
		}
	}
	for pk, ids := range vr.PackageVulnerabilities {
		for _, id := range ids {
			if !want[atoi(pk)][atoi(id)] {
				bad("", "vulnerability-nobody-accepted package=%s id=%s", pk, id)
			}
		}
	}
	for id := range vr.Vulnerabilities {
		if !wantV[atoi(id)] {
			bad("", "table-holds-vulnerability-nobody-accepted id=%s", id)
		}
	}
	// package keys exist in the report (for a report whose packages are filed
	// under their own ids, and unless a remote service named a foreign package)
	wellKeyed := true
	for _, p := range sc.pkgs {
		if p.key != p.id {
			wellKeyed = false
		}
	}
	if wellKeyed && !rogue {
		for pk := range vr.PackageVulnerabilities {
			if _, ok := vr.Packages[pk]; !ok {
				bad("", "package-key-not-in-report key=%s", pk)
			}
		}
	}
	if len(vr.Packages) != len(w.ir.Packages) || vr.Hash.String() != w.ir.Hash.String() || len(vr.Environments) != len(w.ir.Environments) ||
		len(vr.Distributions) != len(w.ir.Distributions) || len(vr.Repositories) != len(w.ir.Repositories) ||
		(vr.Distributions == nil) != (w.ir.Distributions == nil) || (vr.Repositories == nil) != (w.ir.Repositories == nil) {
		bad("", "report-does-not-carry-the-index-report's-packages")
	}
	// a swallowed remote failure: the report silently lacks that matcher
	if anyRemoteKO && enriched && res.err == nil {
		bad("remote-error-swallowed", "QueryRemoteMatcher failed, yet EnrichedMatch returned a report and a nil error")
	}
	if enriched && sc.cancelAtEnricher > 0 {
		// cancelled during enrichment: whatever came back must stem from an
		// enricher that succeeded, and every enricher that ran saw the finished report
		want := map[string]map[string]int{}
		for i, e := range sc.enrichers {
			if e.fail || !w.enrichRan[i] {
				continue
			}
			k := strconv.Itoa(e.kind)
			if want[k] == nil {
				want[k] = map[string]int{}
			}
			for _, m := range e.msgs {
				if e.sees {
					m += 1000 * len(vr.Vulnerabilities)
				}
				want[k][strconv.Itoa(m)]++
			}
		}
		for k, ms := range vr.Enrichments {
			for _, m := range ms {
				if want[k][string(m)] == 0 {
					bad("", "enrichment-message-nobody-produced kind=%s msg=%s", k, string(m))
				} else {
					want[k][string(m)]--
				}
			}
		}
		for i := range sc.enrichers {
			if w.enrichRan[i] && (w.seenVulns[i] != len(vr.Vulnerabilities) || w.seenPkgs[i] != len(vr.PackageVulnerabilities)) {
				bad("", "enricher-%d-saw-an-unfinished-report vulns=%d/%d", i, w.seenVulns[i], len(vr.Vulnerabilities))
			}
		}
	} else if enriched {
		// enrichers ran on the finished report, each with a getter bound to its own name
		for i := range sc.enrichers {
			if w.getterName[i] != "" && w.getterName[i] != "e"+strconv.Itoa(i) {
				bad("", "enricher-%d-was-handed-the-enrichment-getter-of-%s", i, w.getterName[i])
			}
			if w.enrichRan[i] && (w.seenVulns[i] != len(vr.Vulnerabilities) || w.seenPkgs[i] != len(vr.PackageVulnerabilities)) {
				bad("", "enricher-%d-saw-an-unfinished-report vulns=%d/%d", i, w.seenVulns[i], len(vr.Vulnerabilities))
			}
			if !w.enrichRan[i] {
				bad("", "enricher-%d-never-ran", i)
			}
		}
	}
	return out
}

// runScenario instantiates and runs one scenario under each GOMAXPROCS value,
// emits one protocol scenario (observation of the first run), requires the
// other runs to agree with the first, and applies the oracle to each.
func runScenario(r *hx.Run, rnd *hx.Rand, sc *scenario, procs []int, tag string) {
	var first string
	for i, p := range procs {
		if tooManyHangs() {
			return
		}
		w := newWorld(sc, rnd.Fork())
		inflight(fmt.Sprintf("gomaxprocs=%d scenario=[%s]", p, strings.Join(sc.lines(tag)[1:], " | ")))
		res := call(w, p)
		obs := canon(sc, res)
		r.Count(fmt.Sprintf("gomaxprocs=%d", p))
		for _, f := range oracle(w, res) {
			r.Fail(f[0], fmt.Sprintf("%s gomaxprocs=%d scenario=[%s]", f[1], p, strings.Join(sc.lines(tag)[1:], " | ")))
		}
		if i == 0 {
			first = obs
			ls := sc.lines(tag)
			for _, l := range ls[:len(ls)-1] {
				switch {
				case strings.HasPrefix(l, "new "):
					no := "err"
					if !res.newErr {
						no = canonNames(res.built)
					}
					r.Op(l, no, true)
				default:
					r.Op(l, "ok", false)
				}
			}
			// IndexRecords itself, against the model and against the reference
			got := recsOfReal(w.ir.IndexRecords())
			r.Op("records", canonRecs(got), len(got) > 1)
			if d := diffRecords(recMultiset(wantRecords(sc)), recMultiset(got)); d != "" {
				r.Fail("", fmt.Sprintf("IndexRecords: %s scenario=[%s]", d, strings.Join(sc.lines(tag)[1:], " | ")))
			}
			r.Op(ls[len(ls)-1], obs, true)
			classify(r, sc, w, res, obs)
		} else {
			r.Case(fmt.Sprintf("%s @%d", ls0(sc, tag), p), true)
			if obs != first {
				r.Fail("", fmt.Sprintf("result-depends-on-schedule gomaxprocs=%d:%s gomaxprocs=%d:%s scenario=[%s]", procs[0], first, p, obs, strings.Join(sc.lines(tag)[1:], " | ")))
			}
		}
	}
}

func ls0(sc *scenario, tag string) string {
	ls := sc.lines(tag)
	return strings.Join(ls[1:], "|")
}

// classify feeds the evidence histogram: which branches a scenario reached.
func classify(r *hx.Run, sc *scenario, w *world, res result, obs string) {
	r.Count("api=" + sc.api)
	r.Count("ctx=" + sc.ctx)
	if sc.api == "new" {
		fails, idx, defaults := refConstructed(sc)
		switch {
		case fails:
			r.Count("new:must-fail")
		default:
			r.Count("new:constructed-scripted=" + bucket(len(idx)))
			r.Count("new:constructed-defaults=" + bucket(len(defaults)))
		}
		for _, f := range sc.factories {
			enabled := sc.nw.namesNil || hasStr(sc.nw.names, f.name)
			switch {
			case !enabled:
				r.Count("new:factory-not-enabled")
			case f.cfgable && hasStr(sc.nw.cfgs, f.name) && !f.cfgok:
				r.Count("new:factory-configure-fails")
			case f.cfgable && hasStr(sc.nw.cfgs, f.name) && f.cfgdErr, !(f.cfgable && hasStr(sc.nw.cfgs, f.name)) && f.plainErr:
				r.Count("new:factory-build-fails(left-out)")
			case f.cfgable && hasStr(sc.nw.cfgs, f.name):
				r.Count("new:factory-built-configured")
			default:
				r.Count("new:factory-built")
			}
		}
	}
	switch {
	case strings.HasPrefix(obs, "ok"):
		r.Count("outcome=report")
		if res.vr != nil {
			r.Count("report-vulns=" + bucket(len(res.vr.Vulnerabilities)))
			dup := false
			for _, ids := range res.vr.PackageVulnerabilities {
				s := map[string]bool{}
				for _, id := range ids {
					if s[id] {
						dup = true
					}
					s[id] = true
				}
			}
			if dup {
				r.Count("report:id-listed-twice-under-a-package")
			}
			if len(res.vr.Enrichments) > 0 {
				r.Count("report:has-enrichments")
			}
		}
	default:
		r.Count("outcome=" + obs)
	}
	w.mu.Lock()
	defer w.mu.Unlock()
	for i, m := range sc.matchers {
		r.Count("matcher-kind=" + m.kind)
		switch {
		case w.failed[i]:
			r.Count("matcher:failed")
			r.Count("matcher:failed-with-error-class=" + errClassName[m.ec%nErrClasses] + "/ctx=" + sc.ctx)
		case w.remoteKO[i]:
			r.Count("matcher:remote-error-swallowed")
		case len(w.accepted[i]) > 0:
			r.Count("matcher:accepted-something")
		default:
			r.Count("matcher:accepted-nothing")
		}
		if m.cancel {
			r.Count("matcher:cancels-context-in-get")
		}
	}
	for _, e := range sc.enrichers {
		switch {
		case e.fail:
			r.Count("enricher:fails")
		case len(e.msgs) == 0:
			r.Count("enricher:empty")
		default:
			r.Count("enricher:messages")
		}
	}
	multi := map[int]int{}
	for _, e := range sc.envs {
		multi[e.pkg]++
	}
	for _, n := range multi {
		if n > 1 {
			r.Count("package:several-environments")
			break
		}
	}
}

// runCancelDuringEnrichment: oracle-only scenarios in which an enricher
// cancels the caller's Context. Either an error or a report may come back
// (the workers' select chooses); the call must return, leak nothing, and a
// report must hold the complete vulnerabilities and only genuine messages.
func runCancelDuringEnrichment(r *hx.Run, rnd *hx.Rand, sc *scenario) {
	sc.ctx = "live"
	if sc.api == "match" {
		sc.api = "enriched"
	}
	for i := range sc.matchers {
		m := &sc.matchers[i]
		m.cancel = false
		var q []int
		for _, c := range m.q {
			if c != cCancelParent {
				q = append(q, c)
			}
		}
		m.q = q
	}
	if len(sc.enrichers) == 0 {
		sc.enrichers = []enricherS{{kind: 1, msgs: []int{1}}, {kind: 2, msgs: []int{2, 3}}, {kind: 1, msgs: []int{4}}}
	}
	sc.cancelAtEnricher = 1 + rnd.Intn(len(sc.enrichers))
	for _, p := range []int{1 + rnd.Intn(3), 1 + rnd.Intn(16)} {
		if tooManyHangs() {
			return
		}
		w := newWorld(sc, rnd.Fork())
		key := fmt.Sprintf("cancel-at-enricher=%d gomaxprocs=%d scenario=[%s]", sc.cancelAtEnricher-1, p, strings.Join(sc.lines("")[1:], " | "))
		inflight(key)
		res := call(w, p)
		r.Case(key, true)
		switch {
		case res.hang:
		case res.err != nil:
			r.Count("cancel-during-enrichment:error")
		default:
			r.Count("cancel-during-enrichment:report")
		}
		for _, f := range oracle(w, res) {
			r.Fail(f[0], f[1]+" "+key)
		}
	}
}
