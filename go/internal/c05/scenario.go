// Package c05 drives internal/matcher (Match, EnrichedMatch, Controller) and
// libvuln.Scan with scripted matchers, enrichers and a stub store, under many
// GOMAXPROCS values and seeded delays, and emits each scenario in the line
// protocol of the Lean model (lean/Driver/C05.lean).
package c05

import (
	"fmt"
	"sort"
	"strconv"
	"strings"

	"github.com/quay/claircore/verifharness/internal/hx"
)

// Marker constraints a scripted matcher puts into Query() to script the stub store.
const (
	cDistributionDID    = 4
	cRepositoryName     = 12
	cHasFixedInVersion  = 14
	cCancelParent       = 97  // the store cancels the caller's Context when it sees this
	cRespectCtx         = 98  // the store returns ctx.Err() when the Context is done
	cGetFails           = 99  // the store fails
	cMatcherIndexOffset = 100 // 100+i identifies matcher i to the store (bookkeeping only)
)

type pkgS struct{ key, id, name int }

type envS struct {
	pkg, dist int
	repos     []int
	// emptyNotNil: RepositoryIDs is an empty slice that is not nil (what a JSON
	// document with "repository_ids": [] decodes to); rendered `_`
	emptyNotNil bool
}

type vulnS struct{ id, payload int }

type rowS struct {
	v                vulnS
	name, dist, repo int
	fixed, inRange   bool
}

type remoteEnt struct {
	pkg   int
	vulns []vulnS
}

type matcherS struct {
	kind                string // plain | vf | auth | remote
	names, dists, repos []int
	q                   []int
	salt, thresh, verr  int
	cancel              bool
	remoteErr           bool
	// ec: class of the error this matcher's scripted faults (store.Get,
	// Vulnerable, remote call) return — see scriptedErr; not an input of the model
	ec int
	remote              []remoteEnt
}

type enricherS struct {
	kind       int
	msgs       []int
	fail, sees bool
	ec         int // class of the error a failing enricher returns
}

type scenario struct {
	pkgs      []pkgS
	envs      []envS
	dists     []int
	repos     []int
	rows      []rowS
	matchers  []matcherS
	enrichers []enricherS
	api       string // enriched | scan | match | new
	// api "new": libvuln.New builds the matcher set from the registry (scripted
	// factories), MatcherNames / MatcherConfigs and the out-of-tree matchers oot
	factories []factoryS
	oot       []int
	nw        *newS
	ctx       string // live | cancelled
	// cancelAtEnricher > 0: enricher number cancelAtEnricher-1 cancels the caller's
	// Context from inside Enrich (oracle-only scenarios: the outcome is not determined)
	cancelAtEnricher int
}

func ints(xs []int) string {
	if len(xs) == 0 {
		return "-"
	}
	s := make([]string, len(xs))
	for i, x := range xs {
		s[i] = strconv.Itoa(x)
	}
	return strings.Join(s, ",")
}

func b2i(b bool) int {
	if b {
		return 1
	}
	return 0
}

func (m matcherS) remoteSpec() string {
	if m.remoteErr {
		return "err"
	}
	if len(m.remote) == 0 {
		return "-"
	}
	var ents []string
	for _, e := range m.remote {
		var vs []string
		for _, v := range e.vulns {
			vs = append(vs, fmt.Sprintf("%d.%d", v.id, v.payload))
		}
		ents = append(ents, fmt.Sprintf("%d:%s", e.pkg, strings.Join(vs, "+")))
	}
	return strings.Join(ents, ";")
}

// lines renders the scenario in the protocol of the model driver; the last
// line is the scan.
func (s *scenario) lines(tag string) []string {
	out := []string{"reset"}
	for _, d := range s.dists {
		out = append(out, fmt.Sprintf("dist %d", d))
	}
	for _, d := range s.repos {
		out = append(out, fmt.Sprintf("repo %d", d))
	}
	for _, p := range s.pkgs {
		out = append(out, fmt.Sprintf("pkg %d %d %d", p.key, p.id, p.name))
	}
	for _, e := range s.envs {
		rs := ints(e.repos)
		if len(e.repos) == 0 && e.emptyNotNil {
			rs = "_"
		}
		out = append(out, fmt.Sprintf("env %d %d %s", e.pkg, e.dist, rs))
	}
	for _, r := range s.rows {
		out = append(out, fmt.Sprintf("row %d %d %d %d %d %d %d", r.v.id, r.v.payload, r.name, r.dist, r.repo, b2i(r.fixed), b2i(r.inRange)))
	}
	for _, m := range s.matchers {
		out = append(out, fmt.Sprintf("matcher kind=%s names=%s dists=%s repos=%s q=%s salt=%d thresh=%d verr=%d cancel=%d remote=%s ec=%d",
			m.kind, ints(m.names), ints(m.dists), ints(m.repos), ints(m.q), m.salt, m.thresh, m.verr, b2i(m.cancel), m.remoteSpec(), m.ec))
	}
	for _, e := range s.enrichers {
		out = append(out, fmt.Sprintf("enricher kind=%d msgs=%s fail=%d sees=%d ec=%d", e.kind, ints(e.msgs), b2i(e.fail), b2i(e.sees), e.ec))
	}
	if s.api == "new" {
		out = append(out, s.setupLines()...)
	}
	scan := fmt.Sprintf("scan %s %s", s.api, s.ctx)
	if tag != "" {
		scan += " " + tag
	}
	return append(out, scan)
}

func payloadOf(id int) int { return 100 + id }

func subset(r *hx.Rand, pool []int, p int) []int {
	var out []int
	for _, x := range pool {
		if r.Chance(p, 100) {
			out = append(out, x)
		}
	}
	return out
}

// genScenario draws a scenario. Vulnerability ids are functional (one payload
// per id) so that the canonical report does not depend on which of two equal
// objects the collector stored last.
func genScenario(r *hx.Rand, count func(string)) *scenario {
	s := &scenario{}
	ndist := r.Intn(3)
	for i := 1; i <= ndist; i++ {
		s.dists = append(s.dists, i)
	}
	nrepo := r.Intn(4)
	for i := 1; i <= nrepo; i++ {
		s.repos = append(s.repos, i)
	}
	distPool := append([]int{0, 9}, s.dists...) // 0 = no id, 9 = id missing from Distributions
	repoPool := append([]int{9}, s.repos...)
	namePool := []int{1, 2, 3, 4}
	npk := r.Intn(7)
	if r.Chance(1, 20) {
		npk = 7 + r.Intn(20)
	}
	count(fmt.Sprintf("packages=%s", bucket(npk)))
	for i := 1; i <= npk; i++ {
		p := pkgS{key: i, id: i, name: namePool[r.Intn(len(namePool))]}
		s.pkgs = append(s.pkgs, p)
		nenv := 1 + r.Intn(3)
		if r.Chance(1, 8) {
			nenv = 0
		}
		count(fmt.Sprintf("envs-per-package=%d", nenv))
		for e := 0; e < nenv; e++ {
			ev := envS{pkg: i, dist: distPool[r.Intn(len(distPool))]}
			for k := r.Intn(3); k > 0; k-- {
				ev.repos = append(ev.repos, repoPool[r.Intn(len(repoPool))])
			}
			if len(ev.repos) == 0 && r.Chance(1, 2) {
				ev.emptyNotNil = true
				count("environment:repository-list-empty-but-not-nil")
			}
			s.envs = append(s.envs, ev)
		}
	}
	if npk > 0 && r.Chance(1, 25) {
		// a package filed under a key that is not its id
		i := r.Intn(npk)
		s.pkgs[i].key = 50 + s.pkgs[i].id
		count("index-report:package-key-differs-from-id")
	}
	nrows := r.Intn(4)
	if r.Chance(3, 4) {
		nrows = 4 + r.Intn(20)
	}
	count("store-rows=" + bucket(nrows))
	// rows carry the pointer values a record can have: 0 (nil) or a known id
	rowDist := append([]int{0}, s.dists...)
	rowRepo := append([]int{0}, s.repos...)
	for i := 0; i < nrows; i++ {
		id := 1 + r.Intn(8)
		s.rows = append(s.rows, rowS{v: vulnS{id, payloadOf(id)}, name: namePool[r.Intn(len(namePool))],
			dist: rowDist[r.Intn(len(rowDist))], repo: rowRepo[r.Intn(len(rowRepo))],
			fixed: r.Chance(2, 3), inRange: r.Chance(2, 3)})
	}
	var nm int
	switch c := r.Intn(100); {
	case c < 5:
		nm = 0
	case c < 65:
		nm = 1 + r.Intn(4)
	case c < 90:
		nm = 5 + r.Intn(12)
	default:
		nm = 17 + r.Intn(48)
	}
	count("matchers=" + bucket(nm))
	switch c := r.Intn(100); {
	case c < 40:
		s.api = "enriched"
	case c < 58:
		s.api = "scan"
	case c < 80:
		s.api = "match"
	default:
		s.api = "new"
	}
	s.ctx = "live"
	if r.Chance(1, 10) {
		s.ctx = "cancelled"
	}
	// scenarios without any fault are wanted as often as faulty ones
	faulty := r.Chance(1, 2)
	for i := 0; i < nm; i++ {
		m := matcherS{salt: r.Intn(16), thresh: 8, verr: 16}
		switch c := r.Intn(100); {
		case c < 50:
			m.kind = "plain"
		case c < 65:
			m.kind = "vf"
		case c < 80:
			m.kind = "auth"
		default:
			m.kind = "remote"
		}
		switch c := r.Intn(10); {
		case c < 4:
		case c < 9:
			m.names = subset(r, namePool, 50)
		default:
			m.names = []int{99}
		}
		if r.Chance(1, 4) {
			m.dists = subset(r, distPool, 50)
		}
		if r.Chance(1, 4) {
			m.repos = subset(r, append([]int{0}, repoPool...), 50)
		}
		m.q = subset(r, []int{cDistributionDID, cRepositoryName, cHasFixedInVersion}, 35)
		if r.Chance(1, 3) {
			m.thresh = r.Intn(9)
		}
		if faulty {
			if r.Chance(1, 2) {
				m.ec = 1 + r.Intn(nErrClasses-1)
			}
			if r.Chance(1, 8) {
				m.verr = r.Intn(16)
			}
			if r.Chance(1, 12) {
				m.q = append(m.q, cGetFails)
			}
			if r.Chance(1, 3) {
				m.q = append(m.q, cRespectCtx)
			}
			if s.api != "match" && r.Chance(1, 30) {
				m.cancel = true
				m.q = append(m.q, cCancelParent)
			}
		}
		m.q = append(m.q, cMatcherIndexOffset+i)
		if m.kind == "remote" {
			switch c := r.Intn(10); {
			case c < 3 && faulty:
				m.remoteErr = true
			case c < 5:
			default:
				for _, p := range s.pkgs {
					if r.Chance(1, 2) {
						ent := remoteEnt{pkg: p.id}
						for k := r.Intn(3); k > 0; k-- {
							id := 1 + r.Intn(8)
							ent.vulns = append(ent.vulns, vulnS{id, payloadOf(id)})
						}
						m.remote = append(m.remote, ent)
					}
				}
				if r.Chance(1, 15) {
					// a remote service may answer about a package nobody asked for
					m.remote = append(m.remote, remoteEnt{pkg: 77, vulns: []vulnS{{8, payloadOf(8)}}})
				}
			}
		}
		s.matchers = append(s.matchers, m)
	}
	ne := r.Intn(5)
	if r.Chance(1, 10) {
		ne = 5 + r.Intn(30)
	}
	if s.api == "match" {
		ne = 0
	}
	for i := 0; i < ne; i++ {
		e := enricherS{kind: 1 + r.Intn(3), fail: r.Chance(1, 5), sees: r.Chance(1, 2)}
		if r.Chance(1, 2) {
			e.ec = 1 + r.Intn(nErrClasses-1)
		}
		for k := r.Intn(4); k > 0; k-- {
			e.msgs = append(e.msgs, r.Intn(50))
		}
		s.enrichers = append(s.enrichers, e)
	}
	if s.api == "new" {
		genSetup(r, s, count)
	}
	return s
}

func bucket(n int) string {
	switch {
	case n <= 4:
		return strconv.Itoa(n)
	case n <= 16:
		return "5-16"
	case n <= 32:
		return "17-32"
	default:
		return "33-64"
	}
}

func sortedKeys[V any](m map[int]V) []int {
	ks := make([]int, 0, len(m))
	for k := range m {
		ks = append(ks, k)
	}
	sort.Ints(ks)
	return ks
}

// ---- reading scenarios back (corpus files are written in the line protocol) ----

func parseInts(s string) ([]int, error) {
	if s == "-" || s == "_" || s == "" {
		return nil, nil
	}
	var out []int
	for _, f := range strings.Split(s, ",") {
		n, err := strconv.Atoi(f)
		if err != nil {
			return nil, err
		}
		out = append(out, n)
	}
	return out, nil
}

func kvs(fields []string) map[string]string {
	m := map[string]string{}
	for _, f := range fields {
		if i := strings.IndexByte(f, '='); i > 0 {
			m[f[:i]] = f[i+1:]
		}
	}
	return m
}

func parseRemote(s string) ([]remoteEnt, bool, error) {
	switch s {
	case "err":
		return nil, true, nil
	case "-", "":
		return nil, false, nil
	}
	var out []remoteEnt
	for _, ent := range strings.Split(s, ";") {
		i := strings.IndexByte(ent, ':')
		if i < 0 {
			return nil, false, fmt.Errorf("bad remote entry %q", ent)
		}
		p, err := strconv.Atoi(ent[:i])
		if err != nil {
			return nil, false, err
		}
		e := remoteEnt{pkg: p}
		if ent[i+1:] != "" {
			for _, vs := range strings.Split(ent[i+1:], "+") {
				var v vulnS
				if _, err := fmt.Sscanf(vs, "%d.%d", &v.id, &v.payload); err != nil {
					return nil, false, err
				}
				e.vulns = append(e.vulns, v)
			}
		}
		out = append(out, e)
	}
	return out, false, nil
}

// parseScenario is the inverse of (*scenario).lines.
func parseScenario(lines []string) (*scenario, error) {
	sc := &scenario{api: "enriched", ctx: "live"}
	for _, l := range lines {
		l = strings.TrimSpace(l)
		if l == "" || l == "reset" || strings.HasPrefix(l, "#") {
			continue
		}
		f := strings.Fields(l)
		bad := func(err error) (*scenario, error) { return nil, fmt.Errorf("line %q: %v", l, err) }
		var err error
		switch f[0] {
		case "dist", "repo":
			var n int
			if _, err = fmt.Sscanf(l, f[0]+" %d", &n); err != nil {
				return bad(err)
			}
			if f[0] == "dist" {
				sc.dists = append(sc.dists, n)
			} else {
				sc.repos = append(sc.repos, n)
			}
		case "pkg":
			var p pkgS
			if _, err = fmt.Sscanf(l, "pkg %d %d %d", &p.key, &p.id, &p.name); err != nil {
				return bad(err)
			}
			sc.pkgs = append(sc.pkgs, p)
		case "env":
			if len(f) != 4 {
				return bad(fmt.Errorf("want 3 arguments"))
			}
			var e envS
			if e.pkg, err = strconv.Atoi(f[1]); err != nil {
				return bad(err)
			}
			if e.dist, err = strconv.Atoi(f[2]); err != nil {
				return bad(err)
			}
			if e.repos, err = parseInts(f[3]); err != nil {
				return bad(err)
			}
			e.emptyNotNil = f[3] == "_"
			sc.envs = append(sc.envs, e)
		case "row":
			var r rowS
			var fx, ir int
			if _, err = fmt.Sscanf(l, "row %d %d %d %d %d %d %d", &r.v.id, &r.v.payload, &r.name, &r.dist, &r.repo, &fx, &ir); err != nil {
				return bad(err)
			}
			r.fixed, r.inRange = fx != 0, ir != 0
			sc.rows = append(sc.rows, r)
		case "matcher":
			kv := kvs(f[1:])
			m := matcherS{kind: kv["kind"]}
			if m.names, err = parseInts(kv["names"]); err != nil {
				return bad(err)
			}
			if m.dists, err = parseInts(kv["dists"]); err != nil {
				return bad(err)
			}
			if m.repos, err = parseInts(kv["repos"]); err != nil {
				return bad(err)
			}
			if m.q, err = parseInts(kv["q"]); err != nil {
				return bad(err)
			}
			m.salt, _ = strconv.Atoi(kv["salt"])
			m.thresh, _ = strconv.Atoi(kv["thresh"])
			m.verr, _ = strconv.Atoi(kv["verr"])
			m.cancel = kv["cancel"] == "1"
			m.ec, _ = strconv.Atoi(kv["ec"])
			if m.remote, m.remoteErr, err = parseRemote(kv["remote"]); err != nil {
				return bad(err)
			}
			switch m.kind {
			case "plain", "vf", "auth", "remote":
			default:
				return bad(fmt.Errorf("unknown kind"))
			}
			sc.matchers = append(sc.matchers, m)
		case "enricher":
			kv := kvs(f[1:])
			e := enricherS{fail: kv["fail"] == "1", sees: kv["sees"] == "1"}
			e.kind, _ = strconv.Atoi(kv["kind"])
			e.ec, _ = strconv.Atoi(kv["ec"])
			if e.msgs, err = parseInts(kv["msgs"]); err != nil {
				return bad(err)
			}
			sc.enrichers = append(sc.enrichers, e)
		case "factory":
			kv := kvs(f[1:])
			fs := factoryS{name: kv["name"], cfgable: kv["cfgable"] == "1", cfgok: kv["cfgok"] == "1"}
			if kv["plain"] == "err" {
				fs.plainErr = true
			} else if fs.plain, err = parseInts(kv["plain"]); err != nil {
				return bad(err)
			}
			if kv["cfgd"] == "err" {
				fs.cfgdErr = true
			} else if fs.cfgd, err = parseInts(kv["cfgd"]); err != nil {
				return bad(err)
			}
			sc.factories = append(sc.factories, fs)
		case "regdefault":
			// describes the real registry; regenerated from it
			if sc.nw == nil {
				sc.nw = &newS{rhelCfgOK: true}
			}
			if kv := kvs(f[1:]); kv["name"] == "rhel" {
				sc.nw.rhelCfgOK = kv["cfgok"] == "1"
			}
		case "oot":
			if len(f) != 2 {
				return bad(fmt.Errorf("want one argument"))
			}
			if sc.oot, err = parseInts(f[1]); err != nil {
				return bad(err)
			}
		case "new":
			kv := kvs(f[1:])
			if sc.nw == nil {
				sc.nw = &newS{rhelCfgOK: true}
			}
			sc.nw.store, sc.nw.client = kv["store"] == "1", kv["client"] == "1"
			sc.nw.ret, _ = strconv.Atoi(kv["ret"])
			sc.nw.namesNil = kv["names"] == "nil"
			if !sc.nw.namesNil && kv["names"] != "-" {
				sc.nw.names = strings.Split(kv["names"], ",")
			}
			if kv["cfgs"] != "-" && kv["cfgs"] != "" {
				sc.nw.cfgs = strings.Split(kv["cfgs"], ",")
			}
			sc.nw.twin = kv["twin"] == "1"
		case "scan":
			if len(f) < 3 {
				return bad(fmt.Errorf("want api and ctx"))
			}
			sc.api, sc.ctx = f[1], f[2]
		default:
			return bad(fmt.Errorf("unknown line"))
		}
	}
	return sc, nil
}
