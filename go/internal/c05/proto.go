package c05

import (
	"context"
	"fmt"
	"runtime"
	"strings"
	"sync"
	"sync/atomic"
	"time"

	"github.com/quay/claircore/internal/matcher"
	"github.com/quay/claircore/internal/verifhook"
	"github.com/quay/claircore/verifharness/internal/hx"
)

// Controlled schedules of EnrichedMatch's matching phase.
//
// The verifhook points `em.*` in internal/matcher/match.go call ctl.hook. At
// the parking sites the goroutine waits until the scheduler releases it, so
// exactly one transition of the protocol machine (lean/ClairModel/Model/
// MatchProto.lean) is in flight at any time and the emitted sequence of
// transitions is the real order. The scheduler keeps its own copy of the
// machine's control state only to know which goroutines may be released and
// which events must follow; whether the sequence is a run of the machine is
// decided by the Lean driver, which must answer `ok` to every line.

type pevent struct {
	g    int64
	site string
}

var parkingSites = map[string]bool{
	"em.s.offer": true, "em.s.closem": true, "em.s.closev": true,
	"em.w.got": true, "em.w.run": true, "em.w.send": true, "em.w.exit": true,
	"em.c.recv": true,
}

type ctl struct {
	prefix  string          // hook sites handled ("em." or "en."); others run freely
	parking map[string]bool // sites at which the goroutine waits for the scheduler
	mu      sync.Mutex
	parked  map[int64]chan struct{}
	events  chan pevent
	pending []pevent
	abort   chan struct{}
}

func newCtl() *ctl {
	return &ctl{prefix: "em.", parking: parkingSites, parked: map[int64]chan struct{}{}, events: make(chan pevent, 1<<14), abort: make(chan struct{})}
}

func (c *ctl) hook(site, key string) {
	if !strings.HasPrefix(site, c.prefix) {
		return
	}
	g := hx.GoID()
	var ch chan struct{}
	if c.parking[site] {
		ch = make(chan struct{})
		c.mu.Lock()
		c.parked[g] = ch
		c.mu.Unlock()
	}
	select {
	case c.events <- pevent{g, site}:
	case <-c.abort:
		return
	}
	if ch != nil {
		select {
		case <-ch:
		case <-c.abort:
		}
	}
}

func (c *ctl) release(g int64) {
	c.mu.Lock()
	ch := c.parked[g]
	delete(c.parked, g)
	c.mu.Unlock()
	if ch != nil {
		close(ch)
	}
}

// eventTimeout bounds the wait for an event the released goroutine must
// produce. After the first stuck schedule (already a disagreement between code
// and machine) it is shortened: the remaining controlled runs only serve to
// find a concrete failing input and must not cost ten seconds each.
func eventTimeout() time.Duration {
	if stucks.Load() > 0 {
		return 1500 * time.Millisecond
	}
	return 10 * time.Second
}

// stucks counts controlled schedules in which the code did not take a step the
// machine expects but completed once everything was released (a protocol
// disagreement, not a hang). After a few of them the controlled runs stop; the
// free-running scenarios and their oracles go on.
var stucks atomic.Int32

func tooManyStucks() bool { return stucks.Load() >= 4 }

// await returns the oldest not yet consumed event that satisfies pred.
func (c *ctl) await(pred func(pevent) bool) (pevent, bool) {
	for i, e := range c.pending {
		if pred(e) {
			c.pending = append(c.pending[:i], c.pending[i+1:]...)
			return e, true
		}
	}
	timeout := time.After(eventTimeout())
	for {
		select {
		case e := <-c.events:
			if pred(e) {
				return e, true
			}
			c.pending = append(c.pending, e)
		case <-timeout:
			return pevent{}, false
		}
	}
}

const (
	sAtOffer = iota
	sAtCloseM
	sWaiting
	sAtCloseV
	sDone
)
const (
	wIdle = iota
	wAtGot
	wAtRun
	wAtSend
	wAtExit // `range mCh` has ended, the worker is about to return nil
	wExited
)
const (
	cWaiting = iota
	cParked
	cDone
)

type psched struct {
	c   *ctl
	r   *hx.Run
	rnd *hx.Rand
	w   *world

	lim, n          int
	toSend          int
	sPhase          int
	sG              int64
	wG              []int64
	wIdx            map[int64]int
	wPhase          []int
	buf             int
	mClosed         bool
	vClosed         bool
	cG              int64
	cPhase          int
	cancelled       bool
	parentCancelled bool
	cancelBeforeEnd bool // the caller cancelled before mg.Wait returned
	collected       int
	injectCancel    bool
	trace           []string
	failure         string
}

func (p *psched) emit(op string) {
	p.trace = append(p.trace, op)
	p.r.Op("p "+op, "ok", true)
	p.r.Count("transition=" + strings.Fields(op)[0])
}

func (p *psched) failf(f string, a ...any) bool {
	p.failure = fmt.Sprintf(f, a...)
	return false
}

func (p *psched) workerIndex(g int64) int {
	if i, ok := p.wIdx[g]; ok {
		return i
	}
	i := len(p.wG)
	p.wG = append(p.wG, g)
	p.wIdx[g] = i
	return i
}

func (p *psched) idleWorkers() int {
	n := p.lim - len(p.wG) // workers that have not shown up yet sit in `range mCh`
	for i := range p.wG {
		if p.wPhase[i] == wIdle {
			n++
		}
	}
	return n
}

func (p *psched) anyBusy() bool {
	for _, ph := range p.wPhase {
		if ph == wAtGot || ph == wAtRun || ph == wAtSend {
			return true
		}
	}
	return false
}

func (p *psched) allExited() bool {
	if len(p.wG) < p.lim {
		return false
	}
	for i := range p.wG {
		if p.wPhase[i] != wExited {
			return false
		}
	}
	return true
}

func site(names ...string) func(pevent) bool {
	return func(e pevent) bool {
		for _, n := range names {
			if e.site == n {
				return true
			}
		}
		return false
	}
}

func byG(g int64) func(pevent) bool { return func(e pevent) bool { return e.g == g } }

// afterWorkerExit: when the last worker has returned and the sender sits in
// mg.Wait, Wait returns, the sender's return value is fixed and the sender
// arrives at its deferred close(vCh) (transition senderWait).
func (p *psched) afterWorkerExit() bool {
	if p.sPhase == sWaiting && p.allExited() {
		if _, ok := p.c.await(func(e pevent) bool { return e.g == p.sG && e.site == "em.s.closev" }); !ok {
			return p.failf("all workers returned and mCh is closed, but mg.Wait did not return")
		}
		p.emit("senderWait")
		p.cancelled = true
		p.sPhase = sAtCloseV
	}
	return true
}

func (p *psched) workerExits(g int64) bool {
	i := p.workerIndex(g)
	p.emit(fmt.Sprintf("workerExit %d", i))
	p.wPhase[i] = wExited
	return true
}

type choice struct {
	kind string
	w    int
}

func (p *psched) choices() []choice {
	var cs []choice
	switch p.sPhase {
	case sAtOffer:
		if p.idleWorkers() > 0 || p.cancelled {
			cs = append(cs, choice{kind: "offer"})
		}
	case sAtCloseM:
		cs = append(cs, choice{kind: "closeM"})
	case sAtCloseV:
		cs = append(cs, choice{kind: "closeV"})
	}
	for i := range p.wG {
		switch p.wPhase[i] {
		case wAtGot:
			cs = append(cs, choice{"check", i})
		case wAtRun:
			cs = append(cs, choice{"finish", i})
		case wAtSend:
			if p.buf < p.lim {
				cs = append(cs, choice{"sendV", i})
			} else {
				p.r.Count("proto:worker-blocked-on-full-vCh")
			}
		case wAtExit:
			cs = append(cs, choice{"exit", i})
		}
	}
	if p.cPhase == cParked {
		cs = append(cs, choice{kind: "collector"})
	}
	return cs
}

func (p *psched) exec(ch choice) bool {
	c := p.c
	switch ch.kind {
	case "offer":
		c.release(p.sG)
		e, ok := c.await(byG(p.sG))
		if !ok {
			return p.failf("sender released into its select (idle workers=%d, cancelled=%v) but neither branch was taken", p.idleWorkers(), p.cancelled)
		}
		switch e.site {
		case "em.s.sent":
			ew, ok := c.await(site("em.w.got"))
			if !ok {
				return p.failf("sender handed out a matcher but no worker received it")
			}
			i := p.workerIndex(ew.g)
			for len(p.wPhase) <= i {
				p.wPhase = append(p.wPhase, wIdle)
			}
			p.emit(fmt.Sprintf("handoff %d", i))
			p.toSend--
			p.wPhase[i] = wAtGot
		case "em.s.break":
			p.emit("senderBreak")
		default:
			return p.failf("unexpected sender event %s after offer", e.site)
		}
		e2, ok := c.await(func(e pevent) bool { return e.g == p.sG && (e.site == "em.s.offer" || e.site == "em.s.closem") })
		if !ok {
			return p.failf("sender did not reach its next offer / close(mCh)")
		}
		if e2.site == "em.s.offer" {
			p.sPhase = sAtOffer
		} else {
			p.sPhase = sAtCloseM
		}
	case "closeM":
		k := p.idleWorkers()
		c.release(p.sG)
		p.emit("closeM")
		p.mClosed = true
		p.sPhase = sWaiting
		for j := 0; j < k; j++ {
			e, ok := c.await(site("em.w.exit"))
			if !ok {
				return p.failf("mCh closed but an idle worker did not leave its loop")
			}
			i := p.workerIndex(e.g)
			for len(p.wPhase) <= i {
				p.wPhase = append(p.wPhase, wIdle)
			}
			p.wPhase[i] = wAtExit
		}
		return p.afterWorkerExit()
	case "check":
		g := p.wG[ch.w]
		c.release(g)
		e, ok := c.await(byG(g))
		if !ok {
			return p.failf("worker %d released after receiving a matcher, nothing followed", ch.w)
		}
		switch e.site {
		case "em.w.cancelled":
			p.emit(fmt.Sprintf("check %d 1", ch.w))
			p.r.Count("proto:worker-saw-cancelled-context")
			p.wPhase[ch.w] = wExited
			return p.afterWorkerExit()
		case "em.w.run":
			p.emit(fmt.Sprintf("check %d 0", ch.w))
			p.wPhase[ch.w] = wAtRun
		default:
			return p.failf("unexpected worker event %s after got", e.site)
		}
	case "finish":
		g := p.wG[ch.w]
		c.release(g)
		e, ok := c.await(byG(g))
		if !ok {
			return p.failf("worker %d: Controller.Match did not return", ch.w)
		}
		switch e.site {
		case "em.w.err":
			p.emit(fmt.Sprintf("finish %d 0", ch.w))
			p.r.Count("proto:matcher-failed")
			p.wPhase[ch.w] = wExited
			p.cancelled = true
			return p.afterWorkerExit()
		case "em.w.send":
			p.emit(fmt.Sprintf("finish %d 1", ch.w))
			p.wPhase[ch.w] = wAtSend
		default:
			return p.failf("unexpected worker event %s after run", e.site)
		}
	case "sendV":
		g := p.wG[ch.w]
		c.release(g)
		if _, ok := c.await(func(e pevent) bool { return e.g == g && e.site == "em.w.sent" }); !ok {
			return p.failf("worker %d: send on vCh did not complete with %d of %d slots used", ch.w, p.buf, p.lim)
		}
		p.emit(fmt.Sprintf("sendV %d", ch.w))
		p.buf++
		p.wPhase[ch.w] = wIdle
		if p.cPhase == cWaiting {
			e, ok := c.await(site("em.c.recv"))
			if !ok {
				return p.failf("a result is in vCh and the collector is receiving, but it got nothing")
			}
			p.cG = e.g
			p.emit("collect")
			p.buf--
			p.collected++
			p.cPhase = cParked
		}
		if p.mClosed {
			if _, ok := c.await(func(e pevent) bool { return e.g == g && e.site == "em.w.exit" }); !ok {
				return p.failf("worker %d: mCh is closed but the worker did not leave its loop after its send", ch.w)
			}
			p.wPhase[ch.w] = wAtExit
		}
	case "exit":
		// the worker's `return nil` after `range mCh` ended: a separate step, so
		// that other workers, the collector and the caller's cancellation can
		// overtake a worker that is about to return
		g := p.wG[ch.w]
		c.release(g)
		p.workerExits(g)
		if p.anyBusy() {
			p.r.Count("proto:worker-returned-while-others-busy")
		}
		return p.afterWorkerExit()
	case "closeV":
		c.release(p.sG)
		p.emit("closeV")
		p.vClosed = true
		p.sPhase = sDone
		if p.cPhase == cWaiting && p.buf == 0 {
			if _, ok := c.await(site("em.c.end")); !ok {
				return p.failf("vCh closed and empty but the collector did not finish")
			}
			p.emit("collectorEnd")
			p.cPhase = cDone
		}
	case "collector":
		c.release(p.cG)
		switch {
		case p.buf > 0:
			if _, ok := c.await(func(e pevent) bool { return e.g == p.cG && e.site == "em.c.recv" }); !ok {
				return p.failf("vCh holds %d results but the collector received nothing", p.buf)
			}
			p.emit("collect")
			p.buf--
			p.collected++
		case p.vClosed:
			if _, ok := c.await(func(e pevent) bool { return e.g == p.cG && e.site == "em.c.end" }); !ok {
				return p.failf("vCh closed and empty but the collector did not finish")
			}
			p.emit("collectorEnd")
			p.cPhase = cDone
		default:
			p.cPhase = cWaiting
		}
	case "cancelParent":
		p.w.cancel()
		p.emit("cancelParent")
		p.parentCancelled = true
		p.cancelled = true
		if p.sPhase != sDone && p.sPhase != sAtCloseV {
			p.cancelBeforeEnd = true
		}
	}
	return true
}

// protoScenario draws a scenario for a controlled run: a small index report,
// 0..12 matchers some of which fail or honour the context, no enrichers.
func protoScenario(rnd *hx.Rand, count func(string)) *scenario {
	sc := genScenario(rnd, func(string) {})
	sc.api = "enriched"
	sc.ctx = "live"
	sc.enrichers = nil
	if len(sc.matchers) > 12 {
		sc.matchers = sc.matchers[:1+rnd.Intn(12)]
	}
	for i := range sc.matchers {
		m := &sc.matchers[i]
		m.cancel = false
		var q []int
		for _, c := range m.q {
			if c != cCancelParent {
				q = append(q, c)
			}
		}
		m.q = q
	}
	count("proto:matchers=" + bucket(len(sc.matchers)))
	return sc
}

// controlled runs one scenario under a seeded controlled schedule.
func controlled(r *hx.Run, rnd *hx.Rand, sc *scenario, lim int, injectCancel bool) int {
	return controlledAt(r, rnd, sc, lim, injectCancel, -1)
}

// controlledAt: cancelAt >= 0 cancels the caller's Context exactly before that
// step of the schedule (used to sweep the cancellation over every step of one
// seeded schedule). It returns the number of steps the schedule took.
func controlledAt(r *hx.Run, rnd *hx.Rand, sc *scenario, lim int, injectCancel bool, cancelAt int) int {
	old := runtime.GOMAXPROCS(lim)
	defer runtime.GOMAXPROCS(old)
	w := newWorld(sc, nil)
	ctx, cancel := context.WithCancel(context.Background())
	defer cancel()
	w.cancel = cancel
	c := newCtl()
	p := &psched{c: c, r: r, rnd: rnd, w: w, lim: lim, n: len(sc.matchers), toSend: len(sc.matchers),
		wIdx: map[int64]int{}, injectCancel: injectCancel}
	verifhook.Install(c.hook)
	defer verifhook.Install(nil)
	before := runtime.NumGoroutine()
	inflight(fmt.Sprintf("controlled-schedule lim=%d scenario=[%s]", lim, strings.Join(sc.lines("")[1:], " | ")))
	r.Op("reset", "ok", false)
	r.Op(fmt.Sprintf("p-init %d %d", lim, p.n), "ok", false)
	r.Count(fmt.Sprintf("proto:lim=%d", lim))
	done := make(chan result, 1)
	go func() {
		var res result
		defer func() {
			if e := recover(); e != nil {
				res = result{panic: true}
			}
			done <- res
		}()
		res.vr, res.err = matcher.EnrichedMatch(ctx, w.ir, w.matchers, nil, w.store)
	}()
	ok := true
	nsteps := 0
	e, got := c.await(func(e pevent) bool { return e.site == "em.s.offer" || e.site == "em.s.closem" })
	if !got {
		ok = p.failf("sender never reached its loop")
	} else {
		p.sG = e.g
		if e.site == "em.s.offer" {
			p.sPhase = sAtOffer
		} else {
			p.sPhase = sAtCloseM
		}
	}
	for steps := 0; ok && steps < 100000; steps++ {
		for len(p.wPhase) < len(p.wG) {
			p.wPhase = append(p.wPhase, wIdle)
		}
		if p.sPhase == sDone && p.cPhase == cDone && p.allExited() {
			break
		}
		cs := p.choices()
		if p.injectCancel && !p.parentCancelled && rnd.Chance(1, 12) {
			cs = []choice{{kind: "cancelParent"}}
		}
		if steps == cancelAt && !p.parentCancelled {
			p.exec(choice{kind: "cancelParent"})
			r.Count("proto:cancel-swept-at=" + p.where())
			cs = p.choices()
		}
		if len(cs) == 0 {
			ok = p.failf("no goroutine can make a step although not all have returned (sender=%d collector=%d buf=%d/%d)", p.sPhase, p.cPhase, p.buf, p.lim)
			break
		}
		ok = p.exec(cs[rnd.Intn(len(cs))])
		nsteps++
	}
	witness := func() string {
		return fmt.Sprintf("lim=%d scenario=[%s] schedule=[%s]", lim, strings.Join(sc.lines("")[1:], " | "), strings.Join(p.trace, "; "))
	}
	if !ok {
		// The implementation did not make a step the machine allows (or made
		// none at all). Let everything run freely: if the call then returns,
		// this is a disagreement between machine and code (reported on the
		// protocol stream); if it does not, the call hangs.
		close(c.abort)
		select {
		case res := <-done:
			stucks.Add(1)
			r.Op("p-stuck", "the implementation did not perform a step the machine expects: "+p.failure, true)
			r.Count("proto:stuck-then-completed-freely")
			for _, f := range oracle(w, res) {
				r.Fail(f[0], "controlled-schedule (released after a stuck step): "+f[1]+" "+witness())
			}
		case <-time.After(callTimeout):
			hangs.Add(1)
			r.Fail("", "controlled-schedule: "+p.failure+"; the call did not return even after all goroutines were released "+witness())
		}
		return nsteps
	}
	var res result
	select {
	case res = <-done:
	case <-time.After(callTimeout):
		close(c.abort)
		r.Fail("", "controlled-schedule: every goroutine of the matching phase returned but EnrichedMatch did not "+witness())
		return nsteps
	}
	close(c.abort)
	r.Op("p-final", fmt.Sprintf("final=1 err=%d collected=%d", b2i(res.err != nil || res.panic), p.collected), true)
	deadline := time.Now().Add(3 * time.Second)
	for runtime.NumGoroutine() > before {
		if time.Now().After(deadline) {
			res.leak = runtime.NumGoroutine() - before
			break
		}
		time.Sleep(50 * time.Microsecond)
	}
	switch {
	case res.err != nil:
		r.Count("proto:outcome=err")
	default:
		r.Count("proto:outcome=report")
	}
	if p.cancelBeforeEnd && res.err == nil {
		r.Fail("", "controlled-schedule: the caller cancelled before mg.Wait returned, yet a report came back without error "+witness())
	}
	for _, f := range oracle(w, res) {
		r.Fail(f[0], "controlled-schedule: "+f[1]+" "+witness())
	}
	return nsteps
}

// where names the hook situation a swept cancellation hits: the phase of the
// sender and whether workers are busy.
func (p *psched) where() string {
	s := [...]string{"sender-at-offer", "sender-at-closeM", "sender-in-Wait", "sender-at-closeV", "sender-done"}[p.sPhase]
	busy, exiting := 0, 0
	for _, ph := range p.wPhase {
		switch ph {
		case wAtGot, wAtRun, wAtSend:
			busy++
		case wAtExit:
			exiting++
		}
	}
	if busy > 0 {
		s += "+busy-workers"
	}
	if exiting > 0 {
		s += "+workers-at-exit"
	}
	return s
}
