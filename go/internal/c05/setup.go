package c05

import (
	"context"
	"errors"
	"fmt"
	"net/http"
	"sort"
	"strings"
	"sync"

	"github.com/quay/claircore/libvuln/driver"
	"github.com/quay/claircore/matchers/registry"
	"github.com/quay/claircore/verifharness/internal/hx"
)

// Matcher construction (libvuln.New -> matchers.NewMatchers -> registry).
//
// Six scripted factories are registered once in the real registry next to the
// default ones: c05-f0..2 (plain factories) and c05-c0..2 (factories that also
// implement driver.MatcherConfigurable). What they build, and whether their
// Configure succeeds, is scripted per scenario through `curSetup`.

type factoryS struct {
	name     string
	cfgable  bool
	cfgok    bool
	plainErr bool
	plain    []int // matcher indices built when Configure was not called
	cfgdErr  bool
	cfgd     []int // matcher indices built when Configure was called
}

type newS struct {
	store, client bool
	ret           int
	namesNil      bool
	names         []string
	cfgs          []string
	rhelCfgOK     bool
	// twin: after New, a second Libvuln is made from the same Options value
	// (same Matchers slice, which has spare capacity) with every factory enabled;
	// the first one is then observed and scanned. Both are legal uses; the model
	// does not know about the second instance.
	twin bool
}

var scriptedNames = []string{"c05-f0", "c05-f1", "c05-f2", "c05-c0", "c05-c1", "c05-c2"}

type setupState struct {
	mu         sync.Mutex
	factories  map[string]*factoryS
	matchers   []driver.Matcher
	configured map[string]bool
}

var (
	curSetup     *setupState
	curSetupMu   sync.Mutex
	registerOnce sync.Once
	defaultFacts []defaultFactory
)

type defaultFactory struct {
	name    string
	cfgable bool
	mname   string
}

func getSetup() *setupState {
	curSetupMu.Lock()
	defer curSetupMu.Unlock()
	return curSetup
}

func setSetup(s *setupState) {
	curSetupMu.Lock()
	curSetup = s
	curSetupMu.Unlock()
}

type plainFactory struct{ name string }

func (f *plainFactory) Matcher(ctx context.Context) ([]driver.Matcher, error) {
	return buildScripted(f.name)
}

type cfgFactory struct{ plainFactory }

func (f *cfgFactory) Configure(ctx context.Context, cfg driver.MatcherConfigUnmarshaler, _ *http.Client) error {
	st := getSetup()
	if st == nil {
		return nil
	}
	var v struct{}
	_ = cfg(&v)
	st.mu.Lock()
	defer st.mu.Unlock()
	st.configured[f.name] = true
	if fs := st.factories[f.name]; fs != nil && !fs.cfgok {
		return errors.New("scripted configuration failure")
	}
	return nil
}

func buildScripted(name string) ([]driver.Matcher, error) {
	st := getSetup()
	if st == nil {
		return nil, nil
	}
	st.mu.Lock()
	defer st.mu.Unlock()
	fs := st.factories[name]
	if fs == nil {
		return nil, nil
	}
	idx, isErr := fs.plain, fs.plainErr
	if st.configured[name] {
		idx, isErr = fs.cfgd, fs.cfgdErr
	}
	if isErr {
		return nil, errors.New("scripted construction failure")
	}
	var out []driver.Matcher
	for _, i := range idx {
		out = append(out, st.matchers[i])
	}
	return out, nil
}

// registerScripted adds the scripted factories to the real registry (once per
// process; Register panics on a second registration) and records the default
// factories that are there.
func registerScripted() {
	registerOnce.Do(func() {
		for n, f := range registry.Registered() {
			d := defaultFactory{name: n}
			_, d.cfgable = f.(driver.MatcherConfigurable)
			if ms, err := f.Matcher(context.Background()); err == nil && len(ms) == 1 {
				d.mname = ms[0].Name()
			} else {
				d.mname = "?" // a default factory that does not build exactly one matcher: the `new` line will disagree
			}
			defaultFacts = append(defaultFacts, d)
		}
		sort.Slice(defaultFacts, func(i, j int) bool { return defaultFacts[i].name < defaultFacts[j].name })
		for _, n := range scriptedNames {
			if strings.HasPrefix(n, "c05-c") {
				registry.Register(n, &cfgFactory{plainFactory{n}})
			} else {
				registry.Register(n, &plainFactory{n})
			}
		}
	})
}

func strs(xs []string) string {
	if len(xs) == 0 {
		return "-"
	}
	return strings.Join(xs, ",")
}

func idxOrErr(isErr bool, xs []int) string {
	if isErr {
		return "err"
	}
	return ints(xs)
}

// setupLines are the protocol lines that describe the registry and the
// options of a `new` scenario (all answered `ok` except the `new` line).
func (s *scenario) setupLines() []string {
	var out []string
	for _, f := range s.factories {
		out = append(out, fmt.Sprintf("factory name=%s cfgable=%d cfgok=%d plain=%s cfgd=%s", f.name, b2i(f.cfgable), b2i(f.cfgok),
			idxOrErr(f.plainErr, f.plain), idxOrErr(f.cfgdErr, f.cfgd)))
	}
	for _, d := range defaultFacts {
		ok := true
		if d.name == "rhel" {
			ok = s.nw.rhelCfgOK
		}
		out = append(out, fmt.Sprintf("regdefault name=%s cfgable=%d cfgok=%d mname=%s", d.name, b2i(d.cfgable), b2i(ok), d.mname))
	}
	out = append(out, "oot "+ints(s.oot))
	names := "nil"
	if !s.nw.namesNil {
		names = strs(s.nw.names)
	}
	out = append(out, fmt.Sprintf("new store=%d client=%d ret=%d names=%s cfgs=%s twin=%d", b2i(s.nw.store), b2i(s.nw.client), s.nw.ret, names, strs(s.nw.cfgs), b2i(s.nw.twin)))
	return out
}

func hasStr(xs []string, x string) bool {
	for _, y := range xs {
		if y == x {
			return true
		}
	}
	return false
}

// refConstructed derives from the scenario alone what libvuln.New must do:
// fail, or construct these scripted matchers (indices) and these default ones.
func refConstructed(sc *scenario) (fails bool, idx []int, defaults []string) {
	nw := sc.nw
	if !nw.store || nw.ret == 1 || nw.ret < 0 || !nw.client {
		return true, nil, nil
	}
	enabled := func(n string) bool { return nw.namesNil || hasStr(nw.names, n) }
	for _, f := range sc.factories {
		if enabled(f.name) && f.cfgable && hasStr(nw.cfgs, f.name) && !f.cfgok {
			return true, nil, nil
		}
	}
	for _, d := range defaultFacts {
		if enabled(d.name) && d.cfgable && hasStr(nw.cfgs, d.name) && d.name == "rhel" && !nw.rhelCfgOK {
			return true, nil, nil
		}
	}
	for _, f := range sc.factories {
		if !enabled(f.name) {
			continue
		}
		l, e := f.plain, f.plainErr
		if f.cfgable && hasStr(nw.cfgs, f.name) {
			l, e = f.cfgd, f.cfgdErr
		}
		if !e {
			idx = append(idx, l...)
		}
	}
	for _, d := range defaultFacts {
		if enabled(d.name) {
			defaults = append(defaults, d.mname)
		}
	}
	idx = append(idx, sc.oot...)
	return false, idx, defaults
}

// runSet: which matchers of the scenario a call runs.
func (s *scenario) runSet() []bool {
	rs := make([]bool, len(s.matchers))
	if s.api != "new" {
		for i := range rs {
			rs[i] = true
		}
		return rs
	}
	fails, idx, _ := refConstructed(s)
	if !fails {
		for _, i := range idx {
			rs[i] = true
		}
	}
	return rs
}

func canonNames(names []string) string {
	l := append([]string(nil), names...)
	sort.Strings(l)
	return "ok " + strs(l)
}

func labelOf(name string) string {
	if strings.HasPrefix(name, "m") && atoi(name[1:]) >= 0 {
		return name
	}
	return "d:" + name
}

// genSetup turns a generated scenario into a `new` scenario: the matchers are
// spread over out-of-tree and the scripted factories, and options are drawn.
func genSetup(r *hx.Rand, s *scenario, count func(string)) {
	s.api = "new"
	s.oot = nil
	s.factories = nil
	for _, n := range scriptedNames {
		s.factories = append(s.factories, factoryS{name: n, cfgable: strings.HasPrefix(n, "c05-c"),
			cfgok: !r.Chance(1, 10), plainErr: r.Chance(1, 8), cfgdErr: r.Chance(1, 8)})
	}
	for i := range s.matchers {
		switch c := r.Intn(10); {
		case c < 4:
			s.oot = append(s.oot, i)
		case c < 9:
			f := &s.factories[r.Intn(len(s.factories))]
			if !f.cfgable {
				f.plain = append(f.plain, i)
				break
			}
			switch r.Intn(3) {
			case 0:
				f.plain = append(f.plain, i)
			case 1:
				f.cfgd = append(f.cfgd, i)
			default:
				f.plain = append(f.plain, i)
				f.cfgd = append(f.cfgd, i)
			}
		}
	}
	nw := &newS{store: !r.Chance(1, 30), client: !r.Chance(1, 30), ret: []int{2, 2, 2, 2, 2, 0, 5, 1, -1, 2, 2, 2, 0, 5, 2, 2}[r.Intn(16)], rhelCfgOK: !r.Chance(1, 3)}
	switch c := r.Intn(10); {
	case c < 2:
		nw.namesNil = true
		count("new:names=nil")
	case c < 3:
		count("new:names=empty")
	default:
		for _, n := range scriptedNames {
			if r.Chance(1, 2) {
				nw.names = append(nw.names, n)
			}
		}
		if r.Chance(1, 4) && len(defaultFacts) > 0 {
			nw.names = append(nw.names, defaultFacts[r.Intn(len(defaultFacts))].name)
		}
		if r.Chance(1, 5) {
			nw.names = append(nw.names, "rhel")
		}
		if r.Chance(1, 5) {
			nw.names = append(nw.names, "c05-nope")
		}
		if r.Chance(1, 4) {
			// a name that differs from a registered one only by case selects nothing
			nw.names = append(nw.names, strings.ToUpper(scriptedNames[r.Intn(len(scriptedNames))]))
			count("new:name-differs-by-case")
		}
		if r.Chance(1, 8) {
			nw.names = append(nw.names, "RHEL")
		}
		if len(nw.names) > 0 && r.Chance(1, 4) {
			nw.names = append(nw.names, nw.names[0])
		}
		count("new:names=some")
	}
	for _, n := range scriptedNames {
		if r.Chance(1, 2) {
			nw.cfgs = append(nw.cfgs, n)
		}
	}
	if r.Chance(1, 3) {
		nw.cfgs = append(nw.cfgs, "rhel")
	}
	if r.Chance(1, 6) {
		nw.cfgs = append(nw.cfgs, "c05-nope")
	}
	nw.twin = r.Chance(1, 3)
	s.nw = nw
}
