package c05

import (
	"context"
	"fmt"
	"runtime"
	"strings"
	"time"

	"github.com/quay/claircore/internal/matcher"
	"github.com/quay/claircore/internal/verifhook"
	"github.com/quay/claircore/verifharness/internal/hx"
)

// Controlled schedules of EnrichedMatch's enrichment phase (hook points
// `en.*`), in the same manner as proto.go does for the matching phase; the
// matching phase runs freely before it. The machine is
// lean/ClairModel/Model/EnrichProto.lean (protocol lines starting with `e`).

var eParkingSites = map[string]bool{
	"en.s.offer": true, "en.s.closee": true,
	"en.w.got": true, "en.w.send": true, "en.w.exit": true,
	"en.c.recv": true,
}

const (
	eIdle = iota
	eAtGot
	eAtSend
	eAtExit // `range eCh` has ended, the worker is about to return (and run its deferred decrement)
	eExited
)

type esched struct {
	c   *ctl
	r   *hx.Run
	rnd *hx.Rand
	w   *world

	lim, n    int
	sDone     bool
	sAtClose  bool // parked before close(eCh); otherwise parked at an offer
	sG        int64
	wG        []int64
	wIdx      map[int64]int
	wPhase    []int
	buf       int
	eClosed   bool
	rClosed   bool
	cG        int64
	cPhase    int
	cancelled bool
	collected int
	skipped   int
	trace     []string
	failure   string
}

func (p *esched) emit(op string) {
	p.trace = append(p.trace, op)
	p.r.Op("e "+op, "ok", true)
	p.r.Count("enrich-transition=" + strings.Fields(op)[0])
}

func (p *esched) failf(f string, a ...any) bool {
	p.failure = fmt.Sprintf(f, a...)
	return false
}

func (p *esched) workerIndex(g int64) int {
	if i, ok := p.wIdx[g]; ok {
		return i
	}
	i := len(p.wG)
	p.wG = append(p.wG, g)
	p.wIdx[g] = i
	p.wPhase = append(p.wPhase, eIdle)
	return i
}

func (p *esched) idleWorkers() int {
	n := p.lim - len(p.wG)
	for i := range p.wG {
		if p.wPhase[i] == eIdle {
			n++
		}
	}
	return n
}

func (p *esched) allExited() bool {
	if len(p.wG) < p.lim {
		return false
	}
	for i := range p.wG {
		if p.wPhase[i] != eExited {
			return false
		}
	}
	return true
}

// afterReturn: the worker that brings the counter to zero closes rCh; a
// collector waiting on an empty rCh then finishes.
func (p *esched) afterReturn() bool {
	if p.rClosed || !p.allExited() {
		return true
	}
	if _, ok := p.c.await(site("en.w.closer")); !ok {
		return p.failf("all %d workers returned but none closed rCh", p.lim)
	}
	p.rClosed = true
	if p.cPhase == cWaiting && p.buf == 0 {
		if _, ok := p.c.await(site("en.c.end")); !ok {
			return p.failf("rCh closed and empty but the collector did not finish")
		}
		p.emit("collectorEnd")
		p.cPhase = cDone
	}
	return true
}

// idleAgain: a worker went back to `range eCh`; if eCh is closed it returns.
func (p *esched) idleAgain(i int) bool {
	p.wPhase[i] = eIdle
	if !p.eClosed {
		return true
	}
	g := p.wG[i]
	if _, ok := p.c.await(func(e pevent) bool { return e.g == g && e.site == "en.w.exit" }); !ok {
		return p.failf("worker %d: eCh is closed but the worker did not leave its loop", i)
	}
	p.wPhase[i] = eAtExit
	return true
}

func (p *esched) choices() []choice {
	var cs []choice
	if !p.sDone {
		if p.sAtClose {
			cs = append(cs, choice{kind: "closeE"})
		} else if p.idleWorkers() > 0 || p.cancelled {
			cs = append(cs, choice{kind: "offer"})
		}
	}
	for i := range p.wG {
		switch p.wPhase[i] {
		case eAtGot:
			cs = append(cs, choice{"enrich", i})
		case eAtSend:
			if p.buf < p.lim || p.cancelled {
				cs = append(cs, choice{"send", i})
			} else {
				p.r.Count("eproto:worker-blocked-on-full-rCh")
			}
		case eAtExit:
			cs = append(cs, choice{"exit", i})
		}
	}
	if p.cPhase == cParked {
		cs = append(cs, choice{kind: "collector"})
	}
	return cs
}

func (p *esched) exec(ch choice) bool {
	c := p.c
	switch ch.kind {
	case "offer":
		c.release(p.sG)
		e, ok := c.await(byG(p.sG))
		if !ok {
			return p.failf("sender released into its select (idle workers=%d, cancelled=%v) but neither branch was taken", p.idleWorkers(), p.cancelled)
		}
		switch e.site {
		case "en.s.sent":
			ew, ok := c.await(site("en.w.got"))
			if !ok {
				return p.failf("sender handed out an enricher but no worker received it")
			}
			i := p.workerIndex(ew.g)
			p.emit(fmt.Sprintf("handoff %d", i))
			p.wPhase[i] = eAtGot
		case "en.s.break":
			p.emit("senderBreak")
		default:
			return p.failf("unexpected sender event %s after offer", e.site)
		}
		e2, ok := c.await(func(e pevent) bool { return e.g == p.sG && (e.site == "en.s.offer" || e.site == "en.s.closee") })
		if !ok {
			return p.failf("sender did not reach its next offer / close(eCh)")
		}
		p.sAtClose = e2.site == "en.s.closee"
	case "closeE":
		k := p.idleWorkers()
		c.release(p.sG)
		p.emit("closeE")
		p.eClosed = true
		p.sDone = true
		for j := 0; j < k; j++ {
			e, ok := c.await(site("en.w.exit"))
			if !ok {
				return p.failf("eCh closed but an idle worker did not leave its loop")
			}
			i := p.workerIndex(e.g)
			p.wPhase[i] = eAtExit
		}
		return p.afterReturn()
	case "exit":
		// the worker's return after `range eCh` ended (with the deferred decrement
		// of the close counter): a separate step, so that a worker about to return
		// can be overtaken by workers still sending and by the cancellation
		g := p.wG[ch.w]
		c.release(g)
		p.emit(fmt.Sprintf("workerExit %d", ch.w))
		p.wPhase[ch.w] = eExited
		for _, ph := range p.wPhase {
			if ph == eAtGot || ph == eAtSend {
				p.r.Count("eproto:worker-returned-while-others-busy")
				break
			}
		}
		return p.afterReturn()
	case "enrich":
		g := p.wG[ch.w]
		c.release(g)
		e, ok := c.await(byG(g))
		if !ok {
			return p.failf("worker %d: Enrich did not return", ch.w)
		}
		switch e.site {
		case "en.w.skip":
			p.emit(fmt.Sprintf("enrich %d 0", ch.w))
			p.skipped++
			return p.idleAgain(ch.w)
		case "en.w.send":
			p.emit(fmt.Sprintf("enrich %d 1", ch.w))
			p.wPhase[ch.w] = eAtSend
		default:
			return p.failf("unexpected worker event %s after got", e.site)
		}
	case "send":
		g := p.wG[ch.w]
		c.release(g)
		e, ok := c.await(byG(g))
		if !ok {
			return p.failf("worker %d: its select neither sent on rCh (%d of %d slots used) nor saw the context done (cancelled=%v)", ch.w, p.buf, p.lim, p.cancelled)
		}
		switch e.site {
		case "en.w.sent":
			p.emit(fmt.Sprintf("sendR %d", ch.w))
			p.buf++
			if p.cPhase == cWaiting {
				ec, ok := c.await(site("en.c.recv"))
				if !ok {
					return p.failf("an entry is in rCh and the collector is receiving, but it got nothing")
				}
				p.cG = ec.g
				p.emit("collect")
				p.buf--
				p.collected++
				p.cPhase = cParked
			}
			return p.idleAgain(ch.w)
		case "en.w.cancelled":
			p.emit(fmt.Sprintf("workerCancel %d", ch.w))
			p.r.Count("eproto:worker-returned-on-cancel")
			p.wPhase[ch.w] = eExited
			return p.afterReturn()
		default:
			return p.failf("unexpected worker event %s after send", e.site)
		}
	case "collector":
		c.release(p.cG)
		switch {
		case p.buf > 0:
			if _, ok := c.await(func(e pevent) bool { return e.g == p.cG && e.site == "en.c.recv" }); !ok {
				return p.failf("rCh holds %d entries but the collector received nothing", p.buf)
			}
			p.emit("collect")
			p.buf--
			p.collected++
		case p.rClosed:
			if _, ok := c.await(func(e pevent) bool { return e.g == p.cG && e.site == "en.c.end" }); !ok {
				return p.failf("rCh closed and empty but the collector did not finish")
			}
			p.emit("collectorEnd")
			p.cPhase = cDone
		default:
			p.cPhase = cWaiting
		}
	case "cancelParent":
		p.w.cancel()
		p.emit("cancelParent")
		p.cancelled = true
	}
	return true
}

// enrichScenario draws a scenario for a controlled run of the enrichment
// phase: a few well-behaved matchers, 0..14 enrichers that fail, stay silent
// or report messages.
func enrichScenario(rnd *hx.Rand, count func(string)) *scenario {
	sc := genScenario(rnd, func(string) {})
	sc.api = "enriched"
	sc.ctx = "live"
	if len(sc.matchers) > 4 {
		sc.matchers = sc.matchers[:4]
	}
	for i := range sc.matchers {
		m := &sc.matchers[i]
		m.cancel = false
		m.verr = 16
		var q []int
		for _, c := range m.q {
			if c != cCancelParent && c != cGetFails && c != cRespectCtx {
				q = append(q, c)
			}
		}
		m.q = q
	}
	sc.enrichers = nil
	ne := rnd.Intn(6)
	if rnd.Chance(1, 4) {
		ne = 6 + rnd.Intn(9)
	}
	for i := 0; i < ne; i++ {
		e := enricherS{kind: 1 + rnd.Intn(3), fail: rnd.Chance(1, 6), sees: rnd.Chance(1, 2), ec: rnd.Intn(nErrClasses)}
		for k := rnd.Intn(4); k > 0; k-- {
			e.msgs = append(e.msgs, rnd.Intn(50))
		}
		sc.enrichers = append(sc.enrichers, e)
	}
	count("eproto:enrichers=" + bucket(ne))
	return sc
}

func controlledEnrich(r *hx.Run, rnd *hx.Rand, sc *scenario, lim int, injectCancel bool) int {
	return controlledEnrichAt(r, rnd, sc, lim, injectCancel, -1)
}

// controlledEnrichAt: cancelAt >= 0 cancels the caller's Context exactly before
// that step; the number of steps taken is returned.
func controlledEnrichAt(r *hx.Run, rnd *hx.Rand, sc *scenario, lim int, injectCancel bool, cancelAt int) int {
	old := runtime.GOMAXPROCS(lim)
	defer runtime.GOMAXPROCS(old)
	w := newWorld(sc, nil)
	ctx, cancel := context.WithCancel(context.Background())
	defer cancel()
	w.cancel = cancel
	c := newCtl()
	c.prefix = "en."
	c.parking = eParkingSites
	p := &esched{c: c, r: r, rnd: rnd, w: w, lim: lim, n: len(sc.enrichers), wIdx: map[int64]int{}}
	verifhook.Install(c.hook)
	defer verifhook.Install(nil)
	before := runtime.NumGoroutine()
	inflight(fmt.Sprintf("controlled-schedule(enrichment) lim=%d scenario=[%s]", lim, strings.Join(sc.lines("")[1:], " | ")))
	r.Op("reset", "ok", false)
	r.Op(fmt.Sprintf("e-init %d %d", lim, p.n), "ok", false)
	r.Count(fmt.Sprintf("eproto:lim=%d", lim))
	done := make(chan result, 1)
	go func() {
		var res result
		defer func() {
			if e := recover(); e != nil {
				res = result{panic: true}
			}
			done <- res
		}()
		res.vr, res.err = matcher.EnrichedMatch(ctx, w.ir, w.matchers, w.enrichers, w.store)
	}()
	ok := true
	nsteps := 0
	e, got := c.await(func(e pevent) bool { return e.site == "en.s.offer" || e.site == "en.s.closee" })
	if !got {
		ok = p.failf("the enrichment sender never reached its loop")
	} else {
		p.sG = e.g
		p.sAtClose = e.site == "en.s.closee"
	}
	for steps := 0; ok && steps < 100000; steps++ {
		if p.sDone && p.cPhase == cDone && p.allExited() {
			break
		}
		cs := p.choices()
		if injectCancel && !p.cancelled && rnd.Chance(1, 10) {
			cs = []choice{{kind: "cancelParent"}}
		}
		if steps == cancelAt && !p.cancelled {
			p.exec(choice{kind: "cancelParent"})
			r.Count("eproto:cancel-swept")
			cs = p.choices()
		}
		if len(cs) == 0 {
			ok = p.failf("no goroutine can make a step although not all have returned (senderDone=%v collector=%d buf=%d/%d)", p.sDone, p.cPhase, p.buf, p.lim)
			break
		}
		ok = p.exec(cs[rnd.Intn(len(cs))])
		nsteps++
	}
	witness := func() string {
		return fmt.Sprintf("lim=%d scenario=[%s] schedule=[%s]", lim, strings.Join(sc.lines("")[1:], " | "), strings.Join(p.trace, "; "))
	}
	if !ok {
		close(c.abort)
		select {
		case res := <-done:
			stucks.Add(1)
			r.Op("e-stuck", "the implementation did not perform a step the machine expects: "+p.failure, true)
			r.Count("eproto:stuck-then-completed-freely")
			if !p.cancelled {
				for _, f := range oracle(w, res) {
					r.Fail(f[0], "controlled-schedule(enrichment, released after a stuck step): "+f[1]+" "+witness())
				}
			}
		case <-time.After(callTimeout):
			hangs.Add(1)
			r.Fail("", "controlled-schedule(enrichment): "+p.failure+"; the call did not return even after all goroutines were released "+witness())
		}
		return nsteps
	}
	var res result
	select {
	case res = <-done:
	case <-time.After(callTimeout):
		close(c.abort)
		r.Fail("", "controlled-schedule(enrichment): every goroutine of the phase returned but EnrichedMatch did not "+witness())
		return nsteps
	}
	close(c.abort)
	r.Op("e-final", fmt.Sprintf("final=1 err=%d collected=%d skipped=%d", b2i(res.err != nil || res.panic), p.collected, p.skipped), true)
	deadline := time.Now().Add(3 * time.Second)
	for runtime.NumGoroutine() > before {
		if time.Now().After(deadline) {
			res.leak = runtime.NumGoroutine() - before
			break
		}
		time.Sleep(50 * time.Microsecond)
	}
	if res.err != nil {
		r.Count("eproto:outcome=err")
	} else {
		r.Count("eproto:outcome=report")
	}
	if !p.cancelled {
		// nothing was cancelled: the report must be complete and carry every
		// message of every enricher that neither failed nor stayed silent
		for _, f := range oracle(w, res) {
			r.Fail(f[0], "controlled-schedule(enrichment): "+f[1]+" "+witness())
		}
		if res.err != nil {
			r.Fail("", "controlled-schedule(enrichment): error without any failure or cancellation "+witness())
		} else {
			want := 0
			for _, e := range sc.enrichers {
				if !e.fail {
					want += len(e.msgs)
				}
			}
			got := 0
			for _, ms := range res.vr.Enrichments {
				got += len(ms)
			}
			if got != want {
				r.Fail("", fmt.Sprintf("controlled-schedule(enrichment): %d enrichment messages in the report, %d expected %s", got, want, witness()))
			}
		}
	} else if res.leak > 0 {
		r.Fail("", fmt.Sprintf("controlled-schedule(enrichment): goroutines-leaked n=%d %s", res.leak, witness()))
	}
	return nsteps
}
