package c05

import (
	"context"
	"fmt"
	"runtime"
	"strings"
	"time"

	"github.com/quay/claircore/internal/matcher"
	"github.com/quay/claircore/internal/verifhook"
	"github.com/quay/claircore/verifharness/internal/hx"
)

// Controlled schedules of Match (hook points `mt.*`), in the manner of
// proto.go. The machine is lean/ClairModel/Model/MatchFan.lean (protocol lines
// starting with `f`). Every parking site is a separate choice, so the fan-out
// goroutine may sit before wg.Wait while matcher goroutines finish, a matcher
// goroutine may stay at its send while others overtake it, and the collector
// may lag behind a full channel.

var fParkingSites = map[string]bool{
	"mt.f.spawn": true, "mt.f.wait": true, "mt.f.close": true,
	"mt.g.run": true, "mt.g.send": true,
	"mt.c.recv": true,
}

const (
	fAtSpawn = iota
	fAtWait
	fInWait // released into wg.Wait
	fAtClose
	fDone
)
const (
	gAtRun = iota
	gAtSend
	gDone
)

type fsched struct {
	c   *ctl
	r   *hx.Run
	rnd *hx.Rand
	w   *world

	lim, n    int
	fG        int64
	fPhase    int
	gG        []int64
	gPhase    []int
	buf       int
	closed    bool
	cG        int64
	cPhase    int
	collected int
	nerrs     int
	trace     []string
	failure   string
}

func (p *fsched) emit(op string) {
	p.trace = append(p.trace, op)
	p.r.Op("f "+op, "ok", true)
	p.r.Count("fan-transition=" + strings.Fields(op)[0])
}

func (p *fsched) failf(f string, a ...any) bool {
	p.failure = fmt.Sprintf(f, a...)
	return false
}

func (p *fsched) allDone() bool {
	if len(p.gG) < p.n {
		return false
	}
	for _, ph := range p.gPhase {
		if ph != gDone {
			return false
		}
	}
	return true
}

// afterGDone: the last matcher goroutine returned while the fan-out goroutine
// sits in wg.Wait: Wait returns and the goroutine arrives at its deferred close.
func (p *fsched) afterGDone() bool {
	if p.fPhase == fInWait && p.allDone() {
		if _, ok := p.c.await(func(e pevent) bool { return e.g == p.fG && e.site == "mt.f.close" }); !ok {
			return p.failf("every matcher goroutine returned but wg.Wait did not")
		}
		p.emit("fanWait")
		p.fPhase = fAtClose
	}
	return true
}

func (p *fsched) choices() []choice {
	var cs []choice
	switch p.fPhase {
	case fAtSpawn:
		cs = append(cs, choice{kind: "spawn"})
	case fAtWait:
		cs = append(cs, choice{kind: "enterWait"})
	case fAtClose:
		cs = append(cs, choice{kind: "closeC"})
	}
	for i, ph := range p.gPhase {
		switch ph {
		case gAtRun:
			cs = append(cs, choice{"finish", i})
		case gAtSend:
			if p.buf < p.lim {
				cs = append(cs, choice{"send", i})
			} else {
				p.r.Count("fan:goroutine-blocked-on-full-ctrlC")
			}
		}
	}
	if p.cPhase == cParked {
		cs = append(cs, choice{kind: "collector"})
	}
	return cs
}

func (p *fsched) exec(ch choice) bool {
	c := p.c
	switch ch.kind {
	case "spawn":
		c.release(p.fG)
		e, ok := c.await(site("mt.g.run"))
		if !ok {
			return p.failf("the fan-out goroutine was released at a `go` statement but no matcher goroutine started")
		}
		p.gG = append(p.gG, e.g)
		p.gPhase = append(p.gPhase, gAtRun)
		p.emit("spawn")
		e2, ok := c.await(func(e pevent) bool { return e.g == p.fG && (e.site == "mt.f.spawn" || e.site == "mt.f.wait") })
		if !ok {
			return p.failf("the fan-out goroutine did not reach its next `go` statement / wg.Wait")
		}
		if e2.site == "mt.f.wait" {
			p.fPhase = fAtWait
		}
	case "enterWait":
		c.release(p.fG)
		p.fPhase = fInWait
		p.r.Count("fan:wait-entered-with-goroutines-live=" + bucket(p.live()))
		return p.afterGDone()
	case "closeC":
		c.release(p.fG)
		p.emit("closeC")
		p.closed = true
		p.fPhase = fDone
		if p.cPhase == cWaiting && p.buf == 0 {
			if _, ok := c.await(site("mt.c.end")); !ok {
				return p.failf("ctrlC closed and empty but Match's loop did not end")
			}
			p.emit("collectorEnd")
			p.cPhase = cDone
		}
	case "finish":
		g := p.gG[ch.w]
		c.release(g)
		e, ok := c.await(byG(g))
		if !ok {
			return p.failf("matcher goroutine %d: Controller.Match did not return", ch.w)
		}
		switch e.site {
		case "mt.g.err":
			p.emit(fmt.Sprintf("finish %d 0", ch.w))
			p.r.Count("fan:matcher-failed")
			p.nerrs++
			p.gPhase[ch.w] = gDone
			return p.afterGDone()
		case "mt.g.send":
			p.emit(fmt.Sprintf("finish %d 1", ch.w))
			p.gPhase[ch.w] = gAtSend
		default:
			return p.failf("unexpected event %s of matcher goroutine %d", e.site, ch.w)
		}
	case "send":
		g := p.gG[ch.w]
		c.release(g)
		if _, ok := c.await(func(e pevent) bool { return e.g == g && e.site == "mt.g.sent" }); !ok {
			return p.failf("matcher goroutine %d: send on ctrlC did not complete with %d of %d slots used", ch.w, p.buf, p.lim)
		}
		p.emit(fmt.Sprintf("send %d", ch.w))
		p.buf++
		p.gPhase[ch.w] = gDone
		if p.cPhase == cWaiting {
			e, ok := c.await(site("mt.c.recv"))
			if !ok {
				return p.failf("a result is in ctrlC and Match's loop is receiving, but it got nothing")
			}
			p.cG = e.g
			p.emit("collect")
			p.buf--
			p.collected++
			p.cPhase = cParked
		}
		return p.afterGDone()
	case "collector":
		c.release(p.cG)
		switch {
		case p.buf > 0:
			if _, ok := c.await(func(e pevent) bool { return e.g == p.cG && e.site == "mt.c.recv" }); !ok {
				return p.failf("ctrlC holds %d results but Match's loop received nothing", p.buf)
			}
			p.emit("collect")
			p.buf--
			p.collected++
		case p.closed:
			if _, ok := c.await(func(e pevent) bool { return e.g == p.cG && e.site == "mt.c.end" }); !ok {
				return p.failf("ctrlC closed and empty but Match's loop did not end")
			}
			p.emit("collectorEnd")
			p.cPhase = cDone
		default:
			p.cPhase = cWaiting
		}
	}
	return true
}

func (p *fsched) live() int {
	n := p.n - len(p.gG)
	for _, ph := range p.gPhase {
		if ph != gDone {
			n++
		}
	}
	return n
}

// fanScenario draws a scenario for a controlled run of Match.
func fanScenario(rnd *hx.Rand, count func(string)) *scenario {
	sc := protoScenario(rnd, func(string) {})
	sc.api = "match"
	count("fan:matchers=" + bucket(len(sc.matchers)))
	return sc
}

// controlledMatch runs Match on one scenario under a seeded controlled
// schedule; cancelAt >= 0 cancels the caller's Context before that step (the
// machine has no transition for it: Match itself never looks at the Context,
// only the outcomes of later controllers change).
func controlledMatch(r *hx.Run, rnd *hx.Rand, sc *scenario, lim int, cancelAt int) int {
	old := runtime.GOMAXPROCS(lim)
	defer runtime.GOMAXPROCS(old)
	w := newWorld(sc, nil)
	ctx, cancel := context.WithCancel(context.Background())
	defer cancel()
	w.cancel = cancel
	c := newCtl()
	c.prefix = "mt."
	c.parking = fParkingSites
	p := &fsched{c: c, r: r, rnd: rnd, w: w, lim: lim, n: len(sc.matchers), cPhase: cWaiting}
	verifhook.Install(c.hook)
	defer verifhook.Install(nil)
	before := runtime.NumGoroutine()
	inflight(fmt.Sprintf("controlled-schedule(Match) lim=%d scenario=[%s]", lim, strings.Join(sc.lines("")[1:], " | ")))
	r.Op("reset", "ok", false)
	r.Op(fmt.Sprintf("f-init %d %d", lim, p.n), "ok", false)
	r.Count(fmt.Sprintf("fan:lim=%d", lim))
	done := make(chan result, 1)
	go func() {
		var res result
		defer func() {
			if e := recover(); e != nil {
				res = result{panic: true}
			}
			done <- res
		}()
		res.vr, res.err = matcher.Match(ctx, w.ir, w.matchers, w.store)
		res.nerrs = joinedErrors(res.err)
	}()
	ok := true
	nsteps := 0
	e, got := c.await(func(e pevent) bool { return e.site == "mt.f.spawn" || e.site == "mt.f.wait" })
	if !got {
		ok = p.failf("the fan-out goroutine never reached its loop")
	} else {
		p.fG = e.g
		if e.site == "mt.f.wait" {
			p.fPhase = fAtWait
		}
	}
	cancelled := false
	for steps := 0; ok && steps < 100000; steps++ {
		if p.fPhase == fDone && p.cPhase == cDone && p.allDone() {
			break
		}
		if steps == cancelAt {
			cancel()
			cancelled = true
			r.Count("fan:context-cancelled-mid-run")
		}
		cs := p.choices()
		if len(cs) == 0 {
			ok = p.failf("no goroutine can make a step although not all have returned (fan=%d collector=%d buf=%d/%d)", p.fPhase, p.cPhase, p.buf, p.lim)
			break
		}
		ok = p.exec(cs[rnd.Intn(len(cs))])
		nsteps++
	}
	witness := func() string {
		return fmt.Sprintf("lim=%d cancel-before-step=%d scenario=[%s] schedule=[%s]", lim, cancelAt, strings.Join(sc.lines("")[1:], " | "), strings.Join(p.trace, "; "))
	}
	if !ok {
		close(c.abort)
		select {
		case res := <-done:
			stucks.Add(1)
			r.Op("f-stuck", "the implementation did not perform a step the machine expects: "+p.failure, true)
			r.Count("fan:stuck-then-completed-freely")
			if !cancelled {
				for _, f := range oracle(w, res) {
					r.Fail(f[0], "controlled-schedule(Match, released after a stuck step): "+f[1]+" "+witness())
				}
			}
		case <-time.After(callTimeout):
			hangs.Add(1)
			r.Fail("", "controlled-schedule(Match): "+p.failure+"; the call did not return even after all goroutines were released "+witness())
		}
		return nsteps
	}
	var res result
	select {
	case res = <-done:
	case <-time.After(callTimeout):
		close(c.abort)
		hangs.Add(1)
		r.Fail("", "controlled-schedule(Match): every goroutine returned but Match did not "+witness())
		return nsteps
	}
	close(c.abort)
	r.Op("f-final", fmt.Sprintf("final=1 errs=%d collected=%d", res.nerrs, p.collected), true)
	deadline := time.Now().Add(3 * time.Second)
	for runtime.NumGoroutine() > before {
		if time.Now().After(deadline) {
			res.leak = runtime.NumGoroutine() - before
			break
		}
		time.Sleep(50 * time.Microsecond)
	}
	if res.nerrs != p.nerrs {
		r.Fail("", fmt.Sprintf("controlled-schedule(Match): %d matcher goroutines returned an error but %d errors were joined %s", p.nerrs, res.nerrs, witness()))
	}
	if cancelled {
		// the Context was cancelled mid-run: which controllers fail depends on the
		// moment; the structural oracles still apply
		if res.leak > 0 {
			r.Fail("", fmt.Sprintf("controlled-schedule(Match): goroutines-leaked n=%d %s", res.leak, witness()))
		}
		if res.vr == nil {
			r.Fail("", "controlled-schedule(Match): no report "+witness())
		}
		return nsteps
	}
	for _, f := range oracle(w, res) {
		r.Fail(f[0], "controlled-schedule(Match): "+f[1]+" "+witness())
	}
	return nsteps
}
