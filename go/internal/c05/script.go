package c05

import (
	"context"
	"encoding/json"
	"errors"
	"fmt"
	"net"
	"os"
	"runtime"
	"strconv"
	"sync"
	"time"

	"github.com/google/uuid"

	"github.com/quay/claircore"
	"github.com/quay/claircore/datastore"
	"github.com/quay/claircore/libvuln/driver"
	"github.com/quay/claircore/verifharness/internal/hx"
)

var errScripted = errors.New("scripted failure")

// Error classes of scripted faults (the fault alphabet). A fault is a fault
// whatever its class; classes 1.. are errors of the context / deadline /
// timeout family that a store or a remote service produces on its own (a
// statement timeout, a pool acquire timeout, a remote deadline) while the
// caller's Context is live.
const nErrClasses = 8

type netTimeout struct{}

func (netTimeout) Error() string   { return "i/o timeout" }
func (netTimeout) Timeout() bool   { return true }
func (netTimeout) Temporary() bool { return true }

func scriptedErr(class int) error {
	switch class {
	case 1:
		return fmt.Errorf("store: query interrupted: %w", context.Canceled)
	case 2:
		return fmt.Errorf("store: statement timeout: %w", context.DeadlineExceeded)
	case 3:
		return fmt.Errorf("read: %w", os.ErrDeadlineExceeded)
	case 4:
		return &net.OpError{Op: "read", Net: "tcp", Err: netTimeout{}}
	case 5:
		// the Err() of a context of the callee's own whose deadline has passed
		own, cancel := context.WithDeadline(context.Background(), time.Unix(1, 0))
		defer cancel()
		return fmt.Errorf("pool: acquire: %w", own.Err())
	case 6:
		return errors.Join(errScripted, context.Canceled)
	case 7:
		return context.DeadlineExceeded
	}
	return errScripted
}

var errClassName = [nErrClasses]string{"plain", "wraps-Canceled", "wraps-DeadlineExceeded", "wraps-os.ErrDeadlineExceeded", "net-timeout", "own-expired-context", "joined-with-Canceled", "bare-DeadlineExceeded"}

// world is one instantiation of a scenario: the claircore values handed to
// the real code plus everything the scripted parts record while it runs.
type world struct {
	sc        *scenario
	ir        *claircore.IndexReport
	matchers  []driver.Matcher
	enrichers []driver.Enricher
	store     *stubStore
	cancel    context.CancelFunc // cancels the caller's Context (fault injection)

	mu sync.Mutex
	// perturbation of the schedule
	rnd *hx.Rand
	// accepted[i][pkg] = vulnerability ids matcher i accepted for the package
	// (Vulnerable returned true; or, for authoritative / remote matchers, what
	// the store / remote service answered)
	accepted []map[int][]int
	failed   []bool // matcher i returned an error to the controller
	remoteKO []bool // matcher i's remote call failed (swallowed by the controller)
	// shown[i] = the records matcher i's Filter was shown (the controller shows
	// every record of the index report to every matcher it runs, once)
	shown [][]recT
	// what each enricher saw
	seenVulns, seenPkgs []int
	enrichRan           []bool
	getterName          []string // the updater name the enricher's EnrichmentGetter queried the store under
}

func atoi(s string) int {
	n, err := strconv.Atoi(s)
	if err != nil {
		return -1
	}
	return n
}

func recOf(r *claircore.IndexRecord) (pkg, name, dist, repo int) {
	pkg = atoi(r.Package.ID)
	name = atoi(r.Package.Name)
	if r.Distribution != nil {
		dist = atoi(r.Distribution.ID)
	}
	if r.Repository != nil {
		repo = atoi(r.Repository.ID)
	}
	return
}

func has(xs []int, x int) bool {
	for _, y := range xs {
		if y == x {
			return true
		}
	}
	return false
}

func inOrAll(xs []int, x int) bool { return len(xs) == 0 || has(xs, x) }

func mkVuln(v vulnS) *claircore.Vulnerability {
	return &claircore.Vulnerability{ID: strconv.Itoa(v.id), Name: strconv.Itoa(v.payload)}
}

// perturb yields, spins or sleeps by the seeded generator: the "arbitrary
// delays and yields at store and matcher boundaries" of the quantifier.
func (w *world) perturb() {
	if w.rnd == nil {
		return
	}
	w.mu.Lock()
	c := w.rnd.Intn(100)
	n := w.rnd.Intn(40)
	w.mu.Unlock()
	switch {
	case c < 50:
	case c < 80:
		runtime.Gosched()
	case c < 92:
		for i := 0; i < n; i++ {
			runtime.Gosched()
		}
	case c < 98:
		x := 0
		for i := 0; i < n*500; i++ {
			x += i
		}
		_ = x
	default:
		time.Sleep(time.Duration(n) * 5 * time.Microsecond)
	}
}

func newWorld(sc *scenario, rnd *hx.Rand) *world {
	w := &world{sc: sc, rnd: rnd}
	ir := &claircore.IndexReport{
		Hash:          claircore.MustParseDigest("sha256:" + "00000000000000000000000000000000000000000000000000000000000000c5"),
		Packages:      map[string]*claircore.Package{},
		Distributions: map[string]*claircore.Distribution{},
		Repositories:  map[string]*claircore.Repository{},
		Environments:  map[string][]*claircore.Environment{},
	}
	for _, d := range sc.dists {
		ir.Distributions[strconv.Itoa(d)] = &claircore.Distribution{ID: strconv.Itoa(d)}
	}
	for _, d := range sc.repos {
		ir.Repositories[strconv.Itoa(d)] = &claircore.Repository{ID: strconv.Itoa(d)}
	}
	for _, p := range sc.pkgs {
		ir.Packages[strconv.Itoa(p.key)] = &claircore.Package{ID: strconv.Itoa(p.id), Name: strconv.Itoa(p.name)}
	}
	for _, e := range sc.envs {
		env := &claircore.Environment{}
		if e.dist != 0 {
			env.DistributionID = strconv.Itoa(e.dist)
		}
		if e.emptyNotNil {
			env.RepositoryIDs = []string{}
		}
		for _, r := range e.repos {
			env.RepositoryIDs = append(env.RepositoryIDs, strconv.Itoa(r))
		}
		k := strconv.Itoa(e.pkg)
		ir.Environments[k] = append(ir.Environments[k], env)
	}
	w.ir = ir
	st := &stubStore{w: w}
	for _, r := range sc.rows {
		st.rows = append(st.rows, storeRow{rowS: r, obj: mkVuln(r.v)})
	}
	w.store = st
	n := len(sc.matchers)
	w.accepted = make([]map[int][]int, n)
	w.failed = make([]bool, n)
	w.remoteKO = make([]bool, n)
	w.shown = make([][]recT, n)
	for i := range sc.matchers {
		w.accepted[i] = map[int][]int{}
		base := &scriptMatcher{w: w, idx: i, s: &sc.matchers[i]}
		switch sc.matchers[i].kind {
		case "plain":
			w.matchers = append(w.matchers, base)
		case "vf":
			w.matchers = append(w.matchers, &vfMatcher{base, false})
		case "auth":
			w.matchers = append(w.matchers, &vfMatcher{base, true})
		case "remote":
			w.matchers = append(w.matchers, &remoteMatcher{base})
		}
	}
	ne := len(sc.enrichers)
	w.seenVulns = make([]int, ne)
	w.seenPkgs = make([]int, ne)
	w.enrichRan = make([]bool, ne)
	w.getterName = make([]string, ne)
	for i := range sc.enrichers {
		w.enrichers = append(w.enrichers, &scriptEnricher{w: w, idx: i, s: &sc.enrichers[i]})
	}
	return w
}

func (w *world) accept(i, pkg, vid int) {
	w.mu.Lock()
	w.accepted[i][pkg] = append(w.accepted[i][pkg], vid)
	w.mu.Unlock()
}

func (w *world) fail(i int) {
	w.mu.Lock()
	w.failed[i] = true
	w.mu.Unlock()
}

// ---- matcher ----

type scriptMatcher struct {
	w   *world
	idx int
	s   *matcherS
}

func (m *scriptMatcher) Name() string { return "m" + strconv.Itoa(m.idx) }

func (m *scriptMatcher) Filter(r *claircore.IndexRecord) bool {
	pkg, name, dist, repo := recOf(r)
	m.w.mu.Lock()
	m.w.shown[m.idx] = append(m.w.shown[m.idx], recT{pkg, name, dist, repo})
	m.w.mu.Unlock()
	return inOrAll(m.s.names, name) && inOrAll(m.s.dists, dist) && inOrAll(m.s.repos, repo)
}

func (m *scriptMatcher) Query() []driver.MatchConstraint {
	m.w.perturb()
	out := make([]driver.MatchConstraint, len(m.s.q))
	for i, c := range m.s.q {
		out[i] = driver.MatchConstraint(c)
	}
	return out
}

func (m *scriptMatcher) Vulnerable(ctx context.Context, r *claircore.IndexRecord, v *claircore.Vulnerability) (bool, error) {
	m.w.perturb()
	pkg, _, dist, repo := recOf(r)
	h := (m.s.salt + 3*pkg + 5*dist + 7*repo + 11*atoi(v.ID)) % 16
	if h == m.s.verr {
		m.w.fail(m.idx)
		return false, scriptedErr(m.s.ec)
	}
	ok := h%8 < m.s.thresh
	if ok {
		m.w.accept(m.idx, pkg, atoi(v.ID))
	}
	return ok, nil
}

type vfMatcher struct {
	*scriptMatcher
	auth bool
}

func (m *vfMatcher) VersionFilter()             {}
func (m *vfMatcher) VersionAuthoritative() bool { return m.auth }

type remoteMatcher struct{ *scriptMatcher }

func (m *remoteMatcher) QueryRemoteMatcher(ctx context.Context, rs []*claircore.IndexRecord) (map[string][]*claircore.Vulnerability, error) {
	m.w.perturb()
	if m.s.remoteErr {
		m.w.mu.Lock()
		m.w.remoteKO[m.idx] = true
		m.w.mu.Unlock()
		return nil, scriptedErr(m.s.ec)
	}
	out := map[string][]*claircore.Vulnerability{}
	for _, e := range m.s.remote {
		k := strconv.Itoa(e.pkg)
		if _, ok := out[k]; !ok {
			out[k] = []*claircore.Vulnerability{}
		}
		for _, v := range e.vulns {
			out[k] = append(out[k], mkVuln(v))
			m.w.accept(m.idx, e.pkg, v.id)
		}
	}
	return out, nil
}

// ---- store ----

type storeRow struct {
	rowS
	obj *claircore.Vulnerability
}

// stubStore is the datastore the real code queries. Its Get is the function
// `storeGet` of lean/Driver/C05.lean: a row answers a record when the names
// agree and every constraint of GetOpts.Matchers it understands holds;
// results are de-duplicated per package id like the postgres store does.
type stubStore struct {
	datastore.MatcherStore // the Updater half is never called by Scan
	w                      *world
	rows                   []storeRow
}

func (s *stubStore) Get(ctx context.Context, records []*claircore.IndexRecord, opts datastore.GetOpts) (map[string][]*claircore.Vulnerability, error) {
	s.w.perturb()
	var q []int
	idx := -1
	for _, c := range opts.Matchers {
		q = append(q, int(c))
		if int(c) >= cMatcherIndexOffset {
			idx = int(c) - cMatcherIndexOffset
		}
	}
	if has(q, cCancelParent) && s.w.cancel != nil {
		s.w.cancel()
	}
	if has(q, cGetFails) {
		class := 0
		if idx >= 0 {
			s.w.fail(idx)
			if idx < len(s.w.sc.matchers) {
				class = s.w.sc.matchers[idx].ec
			}
		}
		return nil, scriptedErr(class)
	}
	if has(q, cRespectCtx) && ctx.Err() != nil {
		if idx >= 0 {
			s.w.fail(idx)
		}
		return nil, ctx.Err()
	}
	auth := idx >= 0 && idx < len(s.w.sc.matchers) && s.w.sc.matchers[idx].kind == "auth"
	res := map[string][]*claircore.Vulnerability{}
	for _, r := range records {
		pkg, name, dist, repo := recOf(r)
		cur := res[r.Package.ID]
		if cur == nil {
			cur = []*claircore.Vulnerability{}
		}
		for _, row := range s.rows {
			if row.name != name ||
				(has(q, cDistributionDID) && row.dist != dist) ||
				(has(q, cRepositoryName) && row.repo != repo) ||
				(has(q, cHasFixedInVersion) && !row.fixed) ||
				(opts.VersionFiltering && !row.inRange) {
				continue
			}
			dup := false
			for _, v := range cur {
				if v.ID == row.obj.ID {
					dup = true
				}
			}
			if !dup {
				cur = append(cur, row.obj)
				if auth {
					s.w.accept(idx, pkg, row.v.id)
				}
			}
		}
		res[r.Package.ID] = cur
	}
	s.w.perturb()
	return res, nil
}

func (s *stubStore) GetEnrichment(ctx context.Context, kind string, tags []string) ([]driver.EnrichmentRecord, error) {
	s.w.perturb()
	// the scripted enricher passes its index as the tag: record under which
	// name its getter queries
	if len(tags) == 1 {
		if i := atoi(tags[0]); i >= 0 && i < len(s.w.getterName) {
			s.w.mu.Lock()
			s.w.getterName[i] = kind
			s.w.mu.Unlock()
		}
	}
	return nil, nil
}

// The rest of datastore.MatcherStore is not reachable from Scan; the two
// methods libvuln.New might touch are given harmless bodies.
func (s *stubStore) Initialized(context.Context) (bool, error) { return true, nil }
func (s *stubStore) GetLatestUpdateRef(context.Context, driver.UpdateKind) (uuid.UUID, error) {
	return uuid.Nil, nil
}

// ---- enricher ----

type scriptEnricher struct {
	w   *world
	idx int
	s   *enricherS
}

func (e *scriptEnricher) Name() string { return "e" + strconv.Itoa(e.idx) }

func (e *scriptEnricher) Enrich(ctx context.Context, g driver.EnrichmentGetter, vr *claircore.VulnerabilityReport) (string, []json.RawMessage, error) {
	e.w.perturb()
	nv, np := len(vr.Vulnerabilities), len(vr.PackageVulnerabilities)
	e.w.mu.Lock()
	e.w.enrichRan[e.idx] = true
	e.w.seenVulns[e.idx] = nv
	e.w.seenPkgs[e.idx] = np
	e.w.mu.Unlock()
	if e.w.sc.cancelAtEnricher == e.idx+1 && e.w.cancel != nil {
		e.w.cancel()
	}
	if _, err := g.GetEnrichment(ctx, []string{strconv.Itoa(e.idx)}); err != nil {
		return "", nil, err
	}
	if e.s.fail {
		return "", nil, scriptedErr(e.s.ec)
	}
	var msgs []json.RawMessage
	for _, m := range e.s.msgs {
		if e.s.sees {
			m += 1000 * nv
		}
		msgs = append(msgs, json.RawMessage(strconv.Itoa(m)))
	}
	return strconv.Itoa(e.s.kind), msgs, nil
}
