package c05

import (
	"fmt"
	"sort"
	"strconv"

	"github.com/quay/claircore"
)

// Reference computations on the scenario itself (no claircore code involved).
//
// The oracle in run.go compares the report with what the scripted matchers
// recorded as accepted. That bookkeeping only sees the records the code under
// test chose to show the matchers; a change that drops or merges records
// before the matchers run leaves bookkeeping and report in agreement. The
// functions here derive, from the scenario alone, which records the index
// report stands for and what each matcher must contribute, so that such a
// change becomes a concrete failing input.

type recT struct{ pkg, name, dist, repo int }

func (r recT) String() string {
	return fmt.Sprintf("(package=%d name=%d distribution=%d repository=%d)", r.pkg, r.name, r.dist, r.repo)
}

// wantRecords: one record per environment of a package, and per repository
// mention of an environment that names repositories (indexreport.go
// IndexRecords, doc comment of IndexRecord: an "unpacked" IndexReport). A
// distribution / repository id that the report does not hold is a nil pointer
// (0). Packages are the entries of the Packages map; the environments are
// looked up under the package's own ID.
func wantRecords(sc *scenario) []recT {
	var out []recT
	ptr := func(pool []int, id int) int {
		if id != 0 && has(pool, id) {
			return id
		}
		return 0
	}
	seenKey := map[int]bool{}
	for _, p := range sc.pkgs {
		if seenKey[p.key] {
			continue // a later entry under the same map key replaces nothing here: keys are unique in generated scenarios
		}
		seenKey[p.key] = true
		for _, e := range sc.envs {
			if e.pkg != p.id {
				continue
			}
			if len(e.repos) == 0 {
				out = append(out, recT{p.id, p.name, ptr(sc.dists, e.dist), 0})
				continue
			}
			for _, r := range e.repos {
				out = append(out, recT{p.id, p.name, ptr(sc.dists, e.dist), ptr(sc.repos, r)})
			}
		}
	}
	return out
}

func recMultiset(rs []recT) map[recT]int {
	m := map[recT]int{}
	for _, r := range rs {
		m[r]++
	}
	return m
}

func sortRecs(rs []recT) {
	sort.Slice(rs, func(i, j int) bool {
		a, b := rs[i], rs[j]
		if a.pkg != b.pkg {
			return a.pkg < b.pkg
		}
		if a.name != b.name {
			return a.name < b.name
		}
		if a.dist != b.dist {
			return a.dist < b.dist
		}
		return a.repo < b.repo
	})
}

func canonRecs(rs []recT) string {
	sortRecs(rs)
	s := ""
	for i, r := range rs {
		if i > 0 {
			s += ","
		}
		s += fmt.Sprintf("%d.%d.%d.%d", r.pkg, r.name, r.dist, r.repo)
	}
	return orDash(s)
}

func recsOfReal(rs []*claircore.IndexRecord) []recT {
	out := make([]recT, 0, len(rs))
	for _, r := range rs {
		if r == nil || r.Package == nil {
			out = append(out, recT{-1, -1, -1, -1})
			continue
		}
		p, n, d, rp := recOf(r)
		out = append(out, recT{p, n, d, rp})
	}
	return out
}

// diffRecords describes how two record multisets differ ("" when equal).
func diffRecords(want, got map[recT]int) string {
	var keys []recT
	for k := range want {
		keys = append(keys, k)
	}
	for k := range got {
		if _, ok := want[k]; !ok {
			keys = append(keys, k)
		}
	}
	sortRecs(keys)
	for _, k := range keys {
		switch {
		case got[k] < want[k]:
			return fmt.Sprintf("record %s stands for %d environment/repository mention(s) of the index report but was produced %d time(s)", k, want[k], got[k])
		case got[k] > want[k]:
			return fmt.Sprintf("record %s was produced %d time(s) but the index report mentions it %d time(s)", k, got[k], want[k])
		}
	}
	return ""
}

func filterS(m *matcherS, r recT) bool {
	return inOrAll(m.names, r.name) && inOrAll(m.dists, r.dist) && inOrAll(m.repos, r.repo)
}

func vulnHash(m *matcherS, r recT, vid int) int {
	return (m.salt + 3*r.pkg + 5*r.dist + 7*r.repo + 11*vid) % 16
}

// refStore is the stub store's contract evaluated on plain values: per
// package id the distinct vulnerability ids of the rows that answer one of the
// package's queried records.
func refStore(sc *scenario, q []int, versionFiltering bool, recs []recT) map[int][]int {
	res := map[int][]int{}
	for _, r := range recs {
		cur := res[r.pkg]
		if cur == nil {
			cur = []int{}
		}
		for _, row := range sc.rows {
			if row.name != r.name ||
				(has(q, cDistributionDID) && row.dist != r.dist) ||
				(has(q, cRepositoryName) && row.repo != r.repo) ||
				(has(q, cHasFixedInVersion) && !row.fixed) ||
				(versionFiltering && !row.inRange) {
				continue
			}
			if !has(cur, row.v.id) {
				cur = append(cur, row.v.id)
			}
		}
		res[r.pkg] = cur
	}
	return res
}

// refOutcome is what matcher i must contribute for the scenario when the
// caller's Context is (cancelled ? done : live) throughout its run.
type refOutcome struct {
	fails    bool
	why      string
	swallow  bool          // a remote call that fails: the code returns an empty result (finding)
	accepted map[int][]int // package id -> vulnerability ids (with multiplicity: one per accepting record)
}

func refMatcher(sc *scenario, i int, recs []recT, cancelled bool) refOutcome {
	m := &sc.matchers[i]
	out := refOutcome{accepted: map[int][]int{}}
	var ins []recT
	for _, r := range recs {
		if filterS(m, r) {
			ins = append(ins, r)
		}
	}
	if len(ins) == 0 {
		return out
	}
	if m.kind == "remote" {
		if m.remoteErr {
			out.swallow = true
			return out
		}
		for _, e := range m.remote {
			for _, v := range e.vulns {
				out.accepted[e.pkg] = append(out.accepted[e.pkg], v.id)
			}
		}
		return out
	}
	if has(m.q, cGetFails) {
		out.fails, out.why = true, "its store query fails"
		return out
	}
	if cancelled && has(m.q, cRespectCtx) {
		out.fails, out.why = true, "its store query honours the cancelled Context"
		return out
	}
	ans := refStore(sc, m.q, m.kind == "vf" || m.kind == "auth", ins)
	if m.kind == "auth" {
		for p, ids := range ans {
			if len(ids) > 0 {
				out.accepted[p] = append([]int(nil), ids...)
			}
		}
		return out
	}
	for _, r := range ins {
		for _, id := range ans[r.pkg] {
			h := vulnHash(m, r, id)
			if h == m.verr {
				out.fails, out.why = true, fmt.Sprintf("Vulnerable fails for record %s and vulnerability %d", r, id)
				return out
			}
			if h%8 < m.thresh {
				out.accepted[r.pkg] = append(out.accepted[r.pkg], id)
			}
		}
	}
	return out
}

func idSet(xs []int) map[int]bool { return setOf(xs) }

// refCheck compares a returned report with the reference union. mustSucceed:
// the call returned a report without error (EnrichedMatch / Scan) — then no
// matcher may be one that must fail; for Match the failing matchers are left
// out and their number is returned.
func refCheck(sc *scenario, runs []bool, vr *claircore.VulnerabilityReport, cancelled bool, enriched bool, bad func(class, f string, a ...any)) (nfail int) {
	recs := wantRecords(sc)
	want := map[int]map[int]int{}
	for i := range sc.matchers {
		if !runs[i] {
			continue
		}
		o := refMatcher(sc, i, recs, cancelled)
		if o.fails {
			nfail++
			if enriched {
				bad("", "matcher-%d-must-fail (%s) but a report was returned without error", i, o.why)
			}
			continue
		}
		for p, ids := range o.accepted {
			if want[p] == nil {
				want[p] = map[int]int{}
			}
			for _, id := range ids {
				want[p][id]++
			}
		}
	}
	got := map[int]map[int]int{}
	for pk, ids := range vr.PackageVulnerabilities {
		p := atoi(pk)
		if got[p] == nil {
			got[p] = map[int]int{}
		}
		for _, id := range ids {
			got[p][atoi(id)]++
		}
	}
	for _, p := range sortedKeys(want) {
		for _, id := range sortedKeys(want[p]) {
			switch g := got[p][id]; {
			case g == 0:
				bad("", "reference: vulnerability %d is accepted for package %d by a matcher on a record of the index report, but the report does not list it", id, p)
			case g != want[p][id]:
				bad("", "reference: vulnerability %d is listed %d time(s) under package %d, the matchers accept it %d time(s) (once per accepting record)", id, g, p, want[p][id])
			}
		}
	}
	for _, p := range sortedKeys(got) {
		for _, id := range sortedKeys(got[p]) {
			if want[p][id] == 0 {
				bad("", "reference: vulnerability %d is listed under package %d but no matcher accepts it for a record of the index report", id, p)
			}
		}
	}
	// the table: exactly the listed ids, each under its own id, with the store's object
	for id, v := range vr.Vulnerabilities {
		if v == nil {
			bad("", "table-entry-is-nil id=%s", id)
			continue
		}
		if v.ID != id {
			bad("", "table-key-differs-from-vulnerability-id key=%s id=%s", id, v.ID)
		}
		if v.Name != strconv.Itoa(payloadOfAny(sc, atoi(id), v.Name)) {
			bad("", "table-holds-a-different-object id=%s payload=%s", id, v.Name)
		}
	}
	return nfail
}

// payloadOfAny returns the payload the scenario associates with the id when
// that is unambiguous (generated scenarios: one payload per id), else the
// observed one.
func payloadOfAny(sc *scenario, id int, observed string) int {
	pl := -1
	amb := false
	note := func(v vulnS) {
		if v.id != id {
			return
		}
		if pl >= 0 && pl != v.payload {
			amb = true
		}
		pl = v.payload
	}
	for _, r := range sc.rows {
		note(r.v)
	}
	for _, m := range sc.matchers {
		for _, e := range m.remote {
			for _, v := range e.vulns {
				note(v)
			}
		}
	}
	if amb || pl < 0 {
		return atoi(observed)
	}
	return pl
}
