#!/usr/bin/env python3
"""Validate MANIFEST.json and evidence/*.json against the schemas (uses the tooling venv's jsonschema)."""
import json, os, sys
import jsonschema
ROOT = os.path.dirname(os.path.dirname(os.path.abspath(__file__)))
jsonschema.validate(json.load(open(os.path.join(ROOT, "MANIFEST.json"))), json.load(open("/root/.vp/MANIFEST.schema.json")))
es = json.load(open("/root/.vp/EVIDENCE.schema.json"))
for fn in sorted(os.listdir(os.path.join(ROOT, "evidence"))):
    if fn.endswith(".json"):
        jsonschema.validate(json.load(open(os.path.join(ROOT, "evidence", fn))), es)
        print("ok", fn)
print("manifest ok")
