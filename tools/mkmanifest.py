#!/usr/bin/env python3
"""Regenerate MANIFEST.json from props/*.json (one file per claimed property)."""
import json, os, subprocess
ROOT = os.path.dirname(os.path.dirname(os.path.abspath(__file__)))
ids = [json.loads(l)["id"] for l in open(os.path.join(ROOT, "properties.jsonl"))]
claimed = {}
for fn in sorted(os.listdir(os.path.join(ROOT, "props"))):
    if fn.endswith(".json"):
        claimed[fn[:-5]] = json.load(open(os.path.join(ROOT, "props", fn)))
na_reasons = {}
p = os.path.join(ROOT, "props", "not_applicable.txt")
if os.path.exists(p):
    for l in open(p):
        l = l.strip()
        if l and not l.startswith("#"):
            k, _, r = l.partition(" ")
            na_reasons[k] = r
try:
    commits = subprocess.run(["git", "-C", "/repo", "log", "--format=%h %s", "c41f87b4..HEAD"], capture_output=True, text=True).stdout.splitlines()
    hook_commits = [c.split()[0] for c in commits if "verif hook" in c]
except Exception:
    hook_commits = []
m = {
    "version": 1,
    "setup_cmd": "./setup",
    "hooks": {
        "guard": "verif",
        "enable": "go build -tags verif (the harness module under /verif/go replaces github.com/quay/claircore => /repo, toolkit => /repo/toolkit, updater/driver => /repo/updater/driver)",
        "baseline_off_cmd": json.load(open("/root/.vp/BASELINE.json"))["cmd"] if os.path.exists("/root/.vp/BASELINE.json") else "go test ./...",
        "source_commits": hook_commits,
        "add_only": True,
    },
    "engines": [
        {"name": "lean-model", "path": "lean/", "serves_properties": sorted(claimed), "kind_free_text": "Lean 4 executable models (ClairModel/Model), helper lemmas (Proofs), property theorems (Props/Cxx.lean), per-property line-protocol drivers (Driver/Cxx.lean); Gen/*.lean regenerated from /repo on every run"},
        {"name": "go-harness", "path": "go/", "serves_properties": sorted(claimed), "kind_free_text": "Go correspondence harness calling the real code in-process (-tags verif), fact extractor (cmd/extract), generators, direct statement oracles"},
        {"name": "check", "path": "check", "serves_properties": sorted(claimed), "kind_free_text": "verdict logic: rebuild, extract, lake build + axiom audit, correspondence diff, oracle, evidence, replay"},
    ],
    "checks": [],
    "notes": "All claimed properties are decided by Lean 4 theorems over executable models tied to /repo by regenerated facts (Gen) and/or a differential correspondence run; see DESIGN.md. KNOWN_FINDINGS.txt lists genuine defects recorded rather than repaired and the fix: commits.",
    "not_applicable": [],
}
for pid in ids:
    if pid in claimed:
        c = claimed[pid]
        m["checks"].append({
            "property_id": pid,
            "quick_cmd": f"./check {pid} --tier quick",
            "thorough_cmd": f"./check {pid} --tier thorough",
            "evidence_file": f"evidence/{pid}.json",
            "replay_cmd_template": f"./check {pid} --replay {{path}}",
            "engine": "lean-model+go-harness",
            "level_claimed": {"category": c.get("level", "proof"), "text": c["level_text"], "design_ref": c.get("design_ref", "DESIGN.md section 4")},
            "level_note": c["level_note"],
            "technique": c["technique"],
        })
    else:
        m["not_applicable"].append({"property_id": pid, "reason": na_reasons.get(pid, "not claimed yet: the Lean model, theorems and correspondence for this property are not built in this revision (design in DESIGN.md section 4)")})
json.dump(m, open(os.path.join(ROOT, "MANIFEST.json"), "w"), indent=1)
print("claimed:", sorted(claimed))
