#!/usr/bin/env python3
"""Assemble DESIGN.md from design/HEAD.md, design/Cxx.md, findings/*.txt, seeded/*/meta.json, design/TAIL.md, design/ROUND0.md."""
import json, os, re
ROOT = os.path.dirname(os.path.dirname(os.path.abspath(__file__)))
def gen_used(pid):
    todo = [f"ClairModel.Props.{pid}", f"Driver.{pid}"]; seen = set(); used = set()
    while todo:
        mod = todo.pop()
        if mod in seen: continue
        seen.add(mod)
        p = os.path.join(ROOT, "lean", *mod.split(".")) + ".lean"
        if not os.path.exists(p): continue
        for m in re.finditer(r"^\s*(?:public\s+)?import\s+((?:ClairModel|Driver)\.[A-Za-z0-9_.]+)", open(p).read(), flags=re.M):
            if m.group(1).startswith("ClairModel.Gen."): used.add(m.group(1).split(".")[-1])
            else: todo.append(m.group(1))
    return sorted(used)

def rd(p):
    p = os.path.join(ROOT, p)
    return open(p).read() if os.path.exists(p) else ""
props = [json.loads(l) for l in open(os.path.join(ROOT, "properties.jsonl"))]
out = [rd("design/HEAD.md").rstrip() + "\n"]

# 3 summary table
out.append("\n## 3. Per-property summary\n")
out.append("| id | title | theorems (Props/Cxx.lean) | Gen files (tie A) | known findings | fixed in /repo | seeded changes caught |")
out.append("|----|-------|---------------------------|-------------------|----------------|----------------|-----------------------|")
seeds = {}
retired = []
sd = os.path.join(ROOT, "seeded")
if os.path.isdir(sd):
    for d in sorted(os.listdir(sd)):
        mp = os.path.join(sd, d, "meta.json")
        if os.path.exists(mp):
            m = json.load(open(mp))
            if m.get("retired"):
                retired.append((d, m))
                continue
            seeds.setdefault(m["property"], []).append((d, m))
for p in props:
    pid = p["id"]
    src = rd(f"lean/ClairModel/Props/{pid}.lean")
    src = re.sub(r"/-.*?-/", "", src, flags=re.S)
    nthm = len(re.findall(r"^theorem\s", src, flags=re.M))
    cfg = json.loads(rd(f"props/{pid}.json") or "{}")
    f = rd(f"findings/{pid}.txt")
    nf = len(re.findall(r"^finding:", f, flags=re.M)); nx = len(re.findall(r"^fixed:", f, flags=re.M))
    ss = seeds.get(pid, [])
    caught = sum(1 for _, m in ss if m.get("caught"))
    gen = ", ".join(gen_used(pid)) or "—"
    out.append(f"| {pid} | {p['title']} | {nthm} | {gen} | {nf} | {nx} | {caught}/{len(ss)} |")

# 4 per-property notes
out.append("\n---------------------------------------------------------------------------\n\n## 4. Per-property as-built notes\n")
for p in props:
    t = rd(f"design/{p['id']}.md")
    if not t:
        out.append(f"\n### {p['id']} — {p['title']}\n\n(no as-built notes)\n"); continue
    # demote headings by two levels so they nest under section 4
    t = re.sub(r"^(#+) ", lambda m: "#" * min(6, len(m.group(1)) + 2) + " ", t, flags=re.M)
    out.append("\n" + t.rstrip() + "\n")

# 5 defects
out.append("\n---------------------------------------------------------------------------\n\n## 5. Defects found\n")
out.append("Every entry was reproduced against the real code before it was repaired or recorded. `fixed:` entries are `fix:` commits in /repo (the pinned test suite passes with all of them: tools/baseline-check); they suppress nothing. `finding:` entries are genuine defects recorded rather than repaired (reason in the property's notes): the harness replays the witness on every run and classifies exactly that class.\n")
for p in props:
    f = rd(f"findings/{p['id']}.txt").strip()
    if f:
        out.append(f"\n**{p['id']}**\n")
        for line in f.splitlines():
            line = line.strip()
            if line.startswith(("finding:", "fixed:")):
                out.append("* `" + line.split(":", 1)[0] + ":` " + line.split(":", 1)[1].strip().replace(f"property={p['id']} ", ""))

# 6 seeded
out.append("\n---------------------------------------------------------------------------\n\n## 6. Seeded changes: which check catches which\n")
out.append("Each change was written by a fresh sub-agent that saw only the property text and a scratch worktree of /repo (nothing from /verif). Each compiles, passes the existing tests of the touched packages, and comes with a demonstration that fails with the change and passes without it; `tools/seedtest` re-confirmed all of that in a scratch worktree and ran `VERIF_REPO=<worktree> ./check <id>` (quick tier). Kept in `seeded/<id>/` (patch.diff, demo, meta.json).\n")
out.append("| seed | change | needs, to manifest | files | verdict of ./check | how it is caught |")
out.append("|------|--------|--------------------|-------|--------------------|------------------|")
def cell(s, n=260):
    s = re.sub(r"\s+", " ", str(s or "")).replace("|", "\\|")
    return s if len(s) <= n else s[: n - 1] + "…"
for p in props:
    for d, m in seeds.get(p["id"], []):
        c = m["what_was_run"]["confirmed_by_tools_seedtest"]
        how = (c.get("check_first_failing_input") or c.get("check_no_longer_checks") or [""])[0]
        how = how.replace("first failing input: - ", "failing input: ").replace("no longer checks: ", "no failing input; no longer checks: ")
        verdict = "VIOLATION" if m.get("caught") else "**missed**"
        other = m.get("also_run_under") or {}
        if other:
            how = (how + " " if how else "") + "[under other checks: " + "; ".join(f"{k}: {v}" for k, v in other.items() if k != "note") + "]"
            if not m.get("caught") and any(str(v).startswith("VIOLATION") for k, v in other.items() if k != "note"):
                verdict = "missed by this check, VIOLATION under " + ",".join(k for k, v in other.items() if k != "note" and str(v).startswith("VIOLATION"))
        out.append(f"| {d} | {cell(m.get('title'), 160)} | {cell(m.get('needs_to_manifest'), 220)} | {cell(', '.join(m.get('files_touched') or []), 80)} | {verdict} | {cell(how, 200)} |")
if retired:
    out.append("\nRetired seeded changes (not counted above):\n")
    for d, m in retired:
        out.append(f"* `{d}` — {m.get('title')}: {m['retired']}")
out.append("\n" + rd("design/TAIL.md").rstrip() + "\n")
out.append("\n---------------------------------------------------------------------------\n\n" + rd("design/ROUND0.md").rstrip() + "\n")
open(os.path.join(ROOT, "DESIGN.md"), "w").write("\n".join(out))
print("DESIGN.md:", sum(len(x) for x in out), "bytes")
