#!/usr/bin/env python3
"""Generate the round-3 'extend' builder prompts (tools/prompts/ext-Cxx.md) from tools/extend_prompt.md."""
import json
tmpl = open('/verif/tools/extend_prompt.md').read()
props = {json.loads(l)['id']: json.loads(l) for l in open('/verif/properties.jsonl')}
T = {
'C01': """- gobin/coalescer.go is not in the composition theorem; add it (it is a language coalescer with its own gating) and run it end to end.
- rpm / rhel / rhcc ecosystems run through the pure layer only: drive rhel.Coalescer (final "still present in the last package-bearing layer" loop, repositories / CPE handling) end to end with generated per-layer artifacts and state the theorem for it at the level of whole reports.
- Distributions in the final report are only checked for resolution; compare them against the flattened image (linux/distsearcher.go) and prove the model's distribution choice.
- whiteout/scanner.go and whiteout/coalescer.go (file artifacts of kind whiteout, opaque directories) and layerSorter.isChildOf: make sure each branch is reached by generators; counterexample theorems for `Tame.hashes`/`paths` hypotheses.
- MergeSR: model the merge for arbitrary arrival orders and prove the report is independent of goroutine completion order.""",
'C02': """- gobin (gobin/gobin.go, gobin/exe.go: buildinfo → main module + deps, version normalisation, (devel)/pseudo versions, replaced modules): model the mapping from build info to packages, drive the real scanner on generated Go binaries if you can produce them offline (a tiny ELF with a .go.buildinfo section written by your own writer, or binaries built with the local go toolchain from generated go.mod files with only local replace directives), otherwise via a verif export of the post-buildinfo function.
- java/jar/jar.go: manifest heuristics (Implementation-/Bundle- fields), pom.properties, file-name heuristics, nested jars (inner jar naming `outer:inner`), and java/packagescanner.go; write jars with archive/zip.
- rpm/bdb/bdb.go container (hash pages, overflow pages) with your own writer, same header blobs as for sqlite/ndb.
- alpine / rhel / debian / ubuntu distribution scanners and rhel/repositoryscanner.go (content-sets JSON, repository-to-cpe mapping, dockerfile labels) — models, theorems that exactly the release the files state is reported, generators over all table rows (Tie A for tables).
- nodejs and ruby scanners: every branch (path filters, bad JSON, gemspec forms).
- bufio limits: apk/dpkg lines ≥ 64 KiB are legal; make sure generated databases include them and that the model states what the code does.""",
'C03': """- Drive `libvuln.Scan`-level matching through the real `matchers.NewMatchers` defaults for all ecosystems (at least through Controller.Match with the default matcher set) so that a change in matcher registration/Filter/Query is seen.
- rhel `ignoreUnpatched`, rhel/rhcc matcher (repository/CPE gating: rhel Matcher.Vulnerable's CPE subset logic), suse/oracle/photon/aws matchers: each `Vulnerable` branch in the model with a theorem `vulnerable_iff` per matcher; ArchOp every operator incl. pattern match.
- version.go Range.Contains and the querybuilder's `vulnerable_range @>` text: boundaries (Lower inclusive, Upper exclusive), zero-kind handling, versions of different kinds.
- Non-ASCII inputs: state what the code does on them (model bytes, not chars) or show generators stay legal.""",
'C04': """- rpm-based images and RHEL never go through the real libindex: write (or reuse C02's) rpm database writer so that RHEL/Oracle/SUSE/Photon/AWS images go through real libindex → real libvuln end to end; repository CPE/VEX join for RHEL (rhel/vex/parser.go products → repositoryscanner CPEs → rhel matcher).
- gobin and nodejs default repositories / OSV ecosystem mapping (finding npm-not-in-defaults exists; cover Go, crates etc. rows of the ecosystem table by Tie A).
- every row of every release table (debian, ubuntu, alpine incl. edge, aws, oracle, photon, suse) joined against the corresponding distribution scanner on generated os-release / issue files: theorem "scanner(dist files of release r) joins updater(r)" over the regenerated tables.
- querybuilder: all MatchConstraint combinations, incl. HasFixedInVersion / version-filter branches.""",
'C05': """- `Match`'s own goroutine structure has no protocol machine: add one (like MatchProto for EnrichedMatch) and prove exactness/termination for all interleavings; tie by the controlled scheduler.
- `libvuln.New`'s matcher construction (`matchers.NewMatchers`, remote matchers, out-of-tree matchers, MatcherNames filtering) — model which matchers run and prove the report is the union over exactly that set.
- Stub store de-duplication is in the driver only: state and prove it.
- Controlled scheduler: explore interleavings that delay a worker's return after close(mCh); cancellation at every hook point; enricher errors at every position.
- vulnerabilityreport.go / datastore/vulnerability.go: well-formedness of the report (every PackageVulnerabilities id resolves, no dangling ids, Enrichments keyed by kind) as an invariant theorem + oracle.""",
'C06': """- The rpm `Info.Filenames` value and the recovered file-name loop (dirindexes/basenames/dirnames) are not compared: model and bound them (index out of range on malformed arrays).
- gobin/exe.go, rhel/dockerfile/lex.go (+ the dockerfile parser), rhel/rhcc/scanner.go, whiteout/scanner.go, osrelease/scanner.go, nodejs/ruby/python scanners: termination/size models for the parts that are loops over untrusted content (lexers, line scanners, JSON size limits), with theorems bounding steps by input length, and protocol streams for them.
- indexer/layerscanner.go: panics are not recovered — show by oracle that no generated/mutated layer makes any scanner panic; widen the mutation operators of the search (header field splices, length fields ±1, truncated arenas, deep link chains, many-entries, huge declared sizes in every binary format).
- layer.go (Layer.Init on non-tar / compressed-bomb input).""",
'C07': """- `time`/jitter retry branch never runs; model the retry state machine with an abstract clock so that the retry/backoff path (and the recorded finding deadline-swallowed) is inside the model, driven on the real code with a fake clock if the code permits, otherwise via hooks.
- libindex/libindex.go Index (controller construction, options, scanner registration/ `NewEcosystem` errors, Close) and indexer/controller/indexmanifest.go / indexfinished.go: all store-error positions, including partial progress inside one state function (e.g. IndexManifest failing after some records).
- indexer/layerscanner.go at concurrency > 1: interleavings of scanner goroutines (ScanPar) tied to the real code by the scheduler hooks; errgroup first-error cancellation.
- Faults at EVERY call position of every store/fetcher/scanner method for manifests up to N layers: make sure the enumeration is exhaustive for small configurations (evidence: positions × fault kinds table).""",
'C08': """- `DeleteManifests` / GC is not modelled: add it (libindex DeleteManifests → store, affected layers) and state history independence for histories with deletions.
- `result.Do` swallowing `*net.AddrError`: put it in the model as the by-design exception, with a stub scanner that returns it, so that any OTHER swallowed error is a violation.
- libindex.State / setState token: scanners with same name different kind, version bumps, order independence (already proved) — add ConfigurableScanner/RPCScanner configuration path as observed behaviour.
- Histories mixing scanner-set changes, failed attempts, concurrent Index calls of manifests sharing layers (two sessions interleaved at hook points), duplicate layer digests inside one manifest.""",
'C09': """- File-system failures while spooling (ENOSPC/EIO on the temp file) and `Content-Encoding` handling: script them (a failing io.Writer via a verif hook, or a tiny tmpfs-less trick such as RLIMIT_FSIZE in a child process) and model the outcome (never publish).
- internal/httputil/responsechecker.go: all status/CT combinations; redirects; 206/Range; HEAD.
- digest.go: parsing of every algorithm/length/casing; `Digest.Scan/Value`; a theorem that parse accepts exactly the well-formed texts.
- layer.go: Layer.Init from a descriptor (media types, header propagation), Layer.Reader/FS after Close.
- zreader: all four detectors at short inputs (< header length), concatenated/multi-member streams for gzip/zstd, skippable frames.""",
'C10': """- `RealizeDescriptions`' errgroup fan-out and `FetchProxy.Close`, and `RemoteFetchArena.Close` are covered by free runs only: extend the machine (per-proxy set of refs, close-all, arena close with live refs) and drive them with scripted schedules.
- tempfile_unix.go (non-linux path) is not compiled here; say so. tempfile_linux.go Reopen via /proc/self/fd: fd reuse after close (seed C10-1 shape) as a modelled hazard with theorem "a reopened file is the file of the same entry".
- indexer/realizer.go interface contract: Realize twice, Close twice, Close then Realize.
- The stale-reference retry loop (errStale): bound and progress theorem under fairness; schedules where entries die repeatedly.
- Leak accounting after error paths: every error exit of fetchInto/fetchUnlinkedFile (HTTP error, checksum mismatch, ctx cancel at each hook point) leaves no fd/temp file/goroutine and the arena map empty.""",
'C11': """- `checkSize` in Open (header size larger than the segment) is not in the model: add it with hand-written archives.
- dir.ReadDir(n) paging, file.Stat/Info mode bits, ModTime, and `fs.Sub`, `fs.Glob`, `fs.ReadFile` through every link shape.
- Links in directory position (members placed through a symlinked directory) are findings: see if the model can be restructured to state exactly what the code does there (so that a CHANGE of that behaviour is seen as a correspondence diff even though the property is recorded as violated).
- pkg/tarfs/parse.go: pax extended headers (path/linkpath/size overrides), GNU long names/links, sparse headers, typeflags (x, g, L, K, S) in the correspondence with your own archive writer (not only archive/tar.Writer).
- layer.go Layer.FS / Reader over tarfs.""",
'C12': """- OSV `Insert` (semver events → ranges; updater/osv/osv.go ecs.Insert with introduced/fixed/last_affected/limit events, ecosystem-specific handling) is not modelled: model the range-event state machine, prove the resulting ranges cover exactly the affected versions for well-formed event lists (sorted/unsorted, `0` introduced, multiple introduced/fixed pairs), drive the real code.
- toolkit/types/version.go (if it differs from version.go) and Version String/parse round trips (shared with C17 — only the ordering side here).
- pkg/pep440/range.go: every operator (~=, ===, wildcard `==1.*`, !=), conjunctions; theorem "AllowedIn ⇔ spec semantics".
- Non-ASCII / invalid UTF-8 inputs: state the behaviour or prove rejection.
- rhctag: string-level shape ⇒ `plain` (currently dynamic only).
- Masterminds semver-based orderings (gobin/nodejs matchers' normalisation) consistency with Version.Compare.""",
'C13': """- libvuln/driver/updaterset.go (Add/Merge/RegexFilter duplicate-name handling), updater/registry.go (Register/Registered/Configure), libvuln/updates/options.go (WithEnabled, WithConfigs, WithOutOfTree, WithFactories, WithGC, WithInterval/Start loop) — model which updaters a run contains and prove "exactly once per configured updater".
- Manager.Start's periodic loop (ticker, ctx cancel) as a sequence of Runs; GC scheduling (after every run; DeleteUpdateOperations/GC retention) incl. the recorded finding.
- datastore/updater.go contract: RecordUpdaterStatus/RecordUpdaterSetStatus calls on every outcome (success, unchanged, fetch/parse/store error) — theorem + oracle for the exact status recorded.
- DeltaUpdater and EnrichmentUpdater paths at every fault position; Fetch's returned io.Closer closed exactly once on every path.""",
'C14': """- VEX/CSAF (rhel/vex/parser.go) has no Lean model: model the product-tree resolution (branches, relationships, product ids → package/module/repository CPE), the four product statuses, remediation/fix matching, CVSS/impact → severity, dedup across product ids; theorem `vex_products_exact` (partial where needed).
- OVAL criteria trees: AND/OR-aware semantics (pkg/ovalutil/rpm.go walk) in Lean, incl. module tests, arch tests, `is signed with` tests ignored, nested criteria; pkg/ovalutil/dpkg.go.
- rhel/parser.go (OVAL v2) severity/CPE/repository handling; ubuntu/updater.go; aws/updater.go (ALAS updateinfo → packages × arches); suse/photon/oracle specifics (release from platform, arch op).
- `Issued` dates, `RepositoryHint`, `Distribution` contents, `Links` joining, description/name: observe and compare them.
- OSV: `other`-ecosystem ranges, `database_specific` severity fallback, aliases→links, ecosystem suffix stripping ("Debian:11"), GIT ranges ignored; every row of docs/concepts/severity_mapping.md vs code (Tie A exists — check all distro tables are covered).""",
'C15': """- HTTP framing (Content-Length shorter/longer than body, chunked abort) is not exercised: reuse go/internal/registry to serve feeds through each updater's real Fetch with damaged transport, for every updater (alpine, debian, ubuntu, oracle, suse, photon, aws incl. repomd/updateinfo gz + mirror list, vex incl. changes.csv/deletions.csv/archive, osv zip per ecosystem, cvss & epss enrichers).
- enricher/epss/epss.go (CSV with header/comment line, gz) and enricher/cvss: damage sweep incl. record-level truncation; aws/internal/alas via the aws updater.
- Semantic damage inside a well-formed document that the format itself can detect: duplicate keys, wrong root element, missing required sections (OVAL without <tests>), JSON top-level not array; state per parser what is rejected.
- libvuln/updates/manager.go driveUpdater: parse error ⇒ no store call (tie to C13's machine; here: the oracle on the real manager with every damaged feed class).
- bzip2: damaged variants of the corpus files (bit flips in every block) are deterministic; add them.""",
'C16': """- The loader theorem is stated for files of the shape `Store` writes; extend to arbitrary files (interleaved refs, unknown kinds, garbage lines): what exactly Loader.Next yields, proved.
- What is written when `Store` fails (disk buffer error, ctx cancel between updates): theorem + fault injection on diskbuf (libvuln/jsonblob/diskbuf_linux.go) through a verif hook.
- updater/offline.go / offline_v1.go export (zip/zstd layout, per-updater files, fingerprints keyed by name — note the observed "name/" path.Split issue in exportV1: decide if it is a defect against the property, reproduce, fix or record) and import (`libvuln/updates.go OfflineImport`: skip when fingerprint present, ordering, enrichment vs vulnerability, delta updates).
- Iteration API: `Entries()`/`Iterate` consistency; concurrent recorders (exists) with more than three updaters; records > 1 MiB finding boundary exactly (bufio limits).""",
'C17': """- Only 15 theorems: widen to every type in the anchors — package.go (Package/Source recursion, PackageKind), vulnerability.go (time fields, Range), indexreport.go / vulnerabilityreport.go (maps keyed by string ids, nil vs empty), pkg/cpe/cpe.go and toolkit/types/cpe/marshaling.go (WFN text/JSON/SQL round trip incl. zero value), ArchOp, Severity, Duration, Digest SQL Scanner/Valuer pairs with every driver.Value type (string, []byte, nil, int64).
- `scan_invariant_under_json` (a scan of a report that went through JSON equals a scan of the original) stated and proved over the model of the fields JSON carries; drive with real libvuln.Scan on original vs round-tripped reports.
- Garbage rejection: for every UnmarshalText/UnmarshalJSON/Scan, a model of the accepted language and a theorem `accepts_iff`; generators of near-valid garbage (one byte off, overlong, wrong type, NUL, huge numbers); no panic, no partial mutation of the receiver on error (receiver unchanged or documented).
- Aliasing: decoded values never share memory with the input buffer or with previously decoded values (seed C17-2 shape) for every type holding slices/maps.""",
'C18': """- Environmental scores = published equations is differential-only: prove it (v3.0/v3.1 modified-metric equations, requirement weights; v2 environmental: AdjustedImpact, CDP, TD) by the staged kernel sweep technique already used for base×temporal (see design/C18.md and the memory of how sweeps were made fast: symbolic factorisation first, stage boundaries forced), or prove a structural reduction "environmental score = base equations applied to the modified vector" + monotone Roundup argument so that the sweep space stays small.
- OSV `fromCVSS3`/`fromCVSS2` on the RAW input string (other metric orders, duplicate metrics, lax labels): model the actual string loop and prove severity is order-independent for the accepted language, or exhibit the counterexample.
- v4: macrovector lookup + interpolation: prove range, monotonicity in each metric (a worse metric never lowers the score) or counterexamples; every macrovector table row by Tie A.
- enricher/cvss/cvss.go: contains no vector logic, but check what it forwards (item selection by CVE id regexp, v3 vs v2 preference) with a small model.
- QualitativeScore thresholds for all versions as theorems over all scores 0.0..10.0.""",
'C19': """- No theorem about the assembly of `UnbindURI` (colon split, packed edition, trailing components): model is there — prove `unbindURI_accepts_iff` and URI round trip `unbindURI (bindURI w) = w` for WFNs the URI binding can express; same for the packed `~` edition forms.
- `pattern_matches_spec` and `fs_roundtrip` are `_partial`: narrow the hypotheses as far as the code allows; each excluded region must be a listed finding with witness.
- `Compare` for non-ASCII values; pkg/cpe/cpe.go (the legacy wrapper) and rhel/matcher.go's use (IsSuperset/… on repository CPEs: which relation decides `Vulnerable`) — model the rhel usage and prove what a repository CPE pattern matches.
- marshaling.go (text/JSON/SQL) round trips incl. zero WFN and error cases (shared with C17 — here the CPE side).
- Dictionary-scale differential run: generate values from every validate-accepted class incl. quoted specials at every position, embedded wildcards, `\\-`, lone `-`/`*`.""",
'C20': """- `libindex`/`libvuln` only select which lock source is used and are not modelled: model the selection (nil Locker → local, postgres otherwise) and observe it.
- updater/locallocker.go vs libvuln/updates/locks.go: both implementations under the same machine? Make sure every method (Lock, TryLock, release, Close if any) and ctx-cancel path of BOTH is in the model with liveness (every waiter eventually acquires under fair release) and safety theorems; context returned to holder is cancelled exactly when the parent is or on release.
- Schedules: ≥ 3 keys, ≥ 4 goroutines, cancel during wait, cancel while holding, release twice, release from another goroutine, TryLock storms; parked at hook points inside critical sections.
- Starvation/hand-over: with Broadcast wake-ups prove no lost wake-up (the C20-1 seed shape) for arbitrary numbers of keys and waiters.""",
}
for pid, p in props.items():
    text = json.dumps({k: p[k] for k in ('id', 'title', 'statement', 'quantifier', 'why_tests_cant', 'anchors')}, indent=1)
    s = tmpl.replace('{PROPTEXT}', text).replace('{TARGETS}', T[pid]).replace('{PID}', pid).replace('{pid}', pid.lower())
    open(f'/verif/tools/prompts/ext-{pid}.md', 'w').write(s)
print(len(props))
