/-
  Line-protocol plumbing shared by every model driver.  Core Lean only.
-/
namespace Driver

/-- Feed every stdin line to `step`, printing one output line per input line. -/
partial def foldLines {σ : Type} (h : IO.FS.Stream) (out : IO.FS.Stream) (s : σ)
    (step : σ → String → σ × String) : IO Unit := do
  let line ← h.getLine
  if line.isEmpty then
    out.flush
    return ()
  let l := (line.dropRightWhile fun c => c == '\n' || c == '\r')
  let (s', o) := step s l
  out.putStrLn o
  foldLines h out s' step

def words (l : String) : List String := (l.splitOn " ").filter (· ≠ "")

def hexVal (c : Char) : Option Nat :=
  if '0' ≤ c ∧ c ≤ '9' then some (c.toNat - '0'.toNat)
  else if 'a' ≤ c ∧ c ≤ 'f' then some (c.toNat - 'a'.toNat + 10)
  else if 'A' ≤ c ∧ c ≤ 'F' then some (c.toNat - 'A'.toNat + 10)
  else none

/-- Decode a hex string to bytes; `-` stands for the empty string. -/
def unhex (s : String) : Option (List UInt8) :=
  if s == "-" then some [] else
  let rec go : List Char → List UInt8 → Option (List UInt8)
    | [], acc => some acc.reverse
    | [_], _ => none
    | a :: b :: rest, acc =>
      match hexVal a, hexVal b with
      | some x, some y => go rest (UInt8.ofNat (x * 16 + y) :: acc)
      | _, _ => none
  go s.toList []

def hexDigit (n : Nat) : Char :=
  if n < 10 then Char.ofNat ('0'.toNat + n) else Char.ofNat ('a'.toNat + n - 10)

def hex (bs : List UInt8) : String :=
  if bs.isEmpty then "-" else
  String.ofList (bs.flatMap fun b => [hexDigit (b.toNat / 16), hexDigit (b.toNat % 16)])

/-- Bytes (assumed ASCII / Latin-1) to a String, one char per byte. -/
def bytesToString (bs : List UInt8) : String := String.ofList (bs.map fun b => Char.ofNat b.toNat)

def stringToBytes (s : String) : List UInt8 := s.toUTF8.toList

end Driver
