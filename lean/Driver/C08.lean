import Driver.Indexer

def main : IO Unit := Driver.Indexer.main
