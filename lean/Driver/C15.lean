import Driver.Util
import ClairModel.Model.Framing
import ClairModel.Model.FeedTransfer

/-!
  Line protocol of the C15 model.

    reset                      forget the current feed                      -> ok
    feed <loop> <hex>          load the plaintext of a feed; run its loop on the intact stream
    load <loop> <hex>          load the plaintext of a feed                 -> ok
    cut <k>                    stream = first k bytes, then EOF
    fail <k> <chunk> <mode>    stream = first k bytes in chunks, then a read error
    flip <pos> <xor>           (one-json) framing verdict of the feed with one byte changed
    drive <fetch> <parse>      driveUpdater: what the store is asked and whether the run succeeds
    http <frame> <declared> <len> <fin>
                               what net/http delivers for a response of <len> body bytes  -> <n> <eof|err>
    xfer <frame> <declared> <k> <fin>
                               Fetch + Parse over a response whose body is the first k bytes of the feed
                                                                            -> failed | fetched <loop answer>
    pipe <n> <term>            Fetch + Parse when the spooling stage is handed the first n bytes, then <term>
    pipeaws <term> <hdrok> <n> <zterm>
                               aws: the download ends in <term>, its gzip header is readable (0|1), and gzip
                               makes the first n plaintext bytes then <zterm> of it
    hist                       forget the stored update                     -> ok
    run <version> <outcome>    one manager run against the stored fingerprint; outcome of a fetch that reads
                               the body: fetch-failed | parse-failed | parsed  -> <call> <success>

  Loops: one-json | one-json-end | one-xml | one-xml-drain | one-json-drain | lines | records | records-cvss |
         csv-epss | csv-vex-del | csv-vex-chg.
-/
namespace Driver.C15
open ClairModel.Framing ClairModel.FeedTransfer

structure St where
  loop : String := ""
  plain : Bytes := []
  hist : HistState Unit := none

def chunksOf (n : Nat) (bs : Bytes) : List Bytes :=
  if n = 0 then [bs] else
  let rec go (fuel : Nat) (bs : Bytes) (acc : List Bytes) : List Bytes :=
    match fuel with
    | 0 => acc.reverse
    | fuel + 1 => if bs.isEmpty then acc.reverse else go fuel (bs.drop n) (bs.take n :: acc)
  go (bs.length + 1) bs []

def showScan : Scan → String
  | .complete n => s!"complete {n}"
  | .incomplete => "incomplete"
  | .invalid n => s!"invalid {n}"

def showUnit : Res Unit → String
  | .ok _ => "ok"
  | .err => "err"

def showCount : Res (List Unit) → String
  | .ok vs => s!"ok {vs.length}"
  | .err => "err"

/-- A VEX line is parsed by one JSON `Decode`: it must hold a complete value. -/
def lineSem (l : Bytes) : Option Unit :=
  match scanJson l with
  | .complete _ => some ()
  | _ => none

def showRecs {β : Type} : Res (List β) → String
  | .ok vs => s!"ok {vs.length}"
  | .err => "err"

def allDigits (bs : Bytes) : Bool := !bs.isEmpty && bs.all isDigit

/-- Shape of time.RFC3339 as the generated files use it:
    YYYY-MM-DDTHH:MM:SS(Z|±HH:MM). -/
def rfc3339Shape (t : Bytes) : Bool :=
  let dig (i : Nat) : Bool := match t[i]? with | some b => isDigit b | none => false
  let is (i : Nat) (c : UInt8) : Bool := t[i]? == some c
  dig 0 && dig 1 && dig 2 && dig 3 && is 4 0x2d && dig 5 && dig 6 && is 7 0x2d && dig 8 && dig 9 &&
  is 10 0x54 && dig 11 && dig 12 && is 13 0x3a && dig 14 && dig 15 && is 16 0x3a && dig 17 && dig 18 &&
  ((t.length == 20 && is 19 0x5a) ||
   (t.length == 25 && (is 19 0x2b || is 19 0x2d) && dig 20 && dig 21 && is 22 0x3a && dig 23 && dig 24))

/-- path.Dir of "YYYY/name": what precedes the last slash. -/
def dirOf (p : Bytes) : Bytes :=
  let r := p.reverse.dropWhile (· != 0x2f)
  match r with
  | [] => [0x2e]
  | _ :: d => d.reverse

def keepDel (fs : List Bytes) : Option Bool :=
  match fs with
  | [_, t] => if rfc3339Shape t then some true else none
  | _ => none

def keepChg (fs : List Bytes) : Option Bool :=
  match fs with
  | [p, t] => if allDigits (dirOf p) && rfc3339Shape t then some true else none
  | _ => none

def runLoop (loop : String) (st : Stream) : String :=
  match loop with
  | "one-json-drain" => showUnit (decodeOneDrain jsonStep jsonInit (fun _ => some ()) st)
  | "csv-epss" => showRecs (epssCsv floatOk st)
  | "csv-vex-del" => showRecs (vexCsv keepDel st)
  | "csv-vex-chg" => showRecs (vexCsv keepChg st)
  | "one-json" => showUnit (decodeOne jsonStep jsonInit (fun _ => some ()) st)
  | "one-json-end" => showUnit (decodeOneEnd jsonStep jsonInit (fun _ => some ()) st)
  | "one-xml" => showUnit (decodeOne xmlStep xmlInit (fun _ => some ()) st)
  | "one-xml-drain" => showUnit (decodeOneDrain xmlStep xmlInit (fun _ => some ()) st)
  | "lines" => showCount (lineLoop lineSem st)
  | "records" => showCount (recordLoop jsonStep jsonInit (fun _ => some ()) st)
  | "records-cvss" => showCount (recordLoopCvss jsonStep jsonInit (fun _ => some ()) () st)
  | _ => "bad-op"

def showTerm : Term → String
  | .eof => "eof"
  | .err => "err"

def parseTerm : String → Option Term
  | "eof" => some .eof
  | "err" => some .err
  | _ => none

def parseScript (f d e : String) : Option (Bytes → Script) :=
  let fr : Option Frame :=
    match f with
    | "length" => d.toNat?.map Frame.length
    | "chunked" => some .chunked
    | "close" => some .close
    | _ => none
  let fin : Option Fin :=
    match e with
    | "clean" => some .clean
    | "close" => some .close
    | "reset" => some .reset
    | _ => none
  match fr, fin with
  | some fr, some fin => some (fun b => ⟨b, fr, fin⟩)
  | _, _ => none

/-- The parse stage answers with the loop's own protocol answer. -/
def showFetch : FetchOut × Res String → String
  | (.fetched, .ok a) => s!"fetched {a}"
  | (.fetched, .err) => "fetched err"
  | (.failed, _) => "failed"
  | (.unchanged, _) => "unchanged"

def firstNonWs : Bytes → Option Byte
  | [] => none
  | b :: bs => if isWs b then firstNonWs bs else some b

def flipAt (bs : Bytes) (pos : Nat) (x : Nat) : Bytes :=
  bs.take pos ++ (match bs.drop pos with
    | [] => []
    | b :: rest => (b ^^^ UInt8.ofNat x) :: rest)

def step (s : St) (l : String) : St × String :=
  match Driver.words l with
  | ["reset"] => ({}, "ok")
  | ["feed", loop, h] =>
    match Driver.unhex h with
    | none => (s, "bad-op")
    | some bs =>
      let s' : St := { loop := loop, plain := bs }
      let out :=
        match loop with
        | "one-json" | "one-json-end" | "one-json-drain" => showScan (scanJson bs)
        | "one-xml" | "one-xml-drain" =>
          (match scanXml bs with
           | .complete n => s!"complete {n}"
           | .incomplete => "incomplete"
           | .invalid _ => "invalid")
        | _ => runLoop loop ⟨[bs], .eof⟩
      (s', out)
  | ["load", loop, h] =>
    match Driver.unhex h with
    | none => (s, "bad-op")
    | some bs => ({ s with loop := loop, plain := bs }, "ok")
  | ["cut", k] =>
    match k.toNat? with
    | some k => (s, runLoop s.loop ⟨[s.plain.take k], .eof⟩)
    | none => (s, "bad-op")
  | ["fail", k, c, _mode] =>
    match k.toNat?, c.toNat? with
    | some k, some c => (s, runLoop s.loop ⟨chunksOf c (s.plain.take k), .err⟩)
    | _, _ => (s, "bad-op")
  | ["drive", f, p] =>
    let fetch : Option FetchOut :=
      match f with
      | "unchanged" => some .unchanged
      | "failed" => some .failed
      | "fetched" => some .fetched
      | _ => none
    let parse : Option (Res Unit) :=
      match p with
      | "ok" => some (.ok ())
      | "err" => some .err
      | _ => none
    match fetch, parse with
    | some fe, some pa =>
      let out := drive fe pa
      let call := match out.1 with
        | .none => "none"
        | .update _ => "update"
      (s, s!"{call} {out.2}")
    | _, _ => (s, "bad-op")
  | ["http", f, d, n, e] =>
    match parseScript f d e, n.toNat? with
    | some mk, some n =>
      let src := delivered (mk (List.replicate n 0))
      (s, s!"{src.bytes.length} {showTerm src.term}")
    | _, _ => (s, "bad-op")
  | ["xfer", f, d, k, e] =>
    match parseScript f d e, k.toNat? with
    | some mk, some k =>
      (s, showFetch (fetchParse (fun st => Res.ok (runLoop s.loop st)) (delivered (mk (s.plain.take k)))))
    | _, _ => (s, "bad-op")
  | ["pipe", n, t] =>
    match n.toNat?, parseTerm t with
    | some n, some t =>
      (s, showFetch (fetchParse (fun st => Res.ok (runLoop s.loop st)) ⟨[s.plain.take n], t⟩))
    | _, _ => (s, "bad-op")
  | ["pipeaws", t, hdr, n, zt] =>
    match parseTerm t, n.toNat?, parseTerm zt with
    | some t, some n, some zt =>
      (s, showFetch (fetchAws (fun _ => hdr == "1") (fun _ => ⟨[s.plain.take n], zt⟩)
        (fun st => Res.ok (runLoop s.loop st)) ⟨[[]], t⟩))
    | _, _, _ => (s, "bad-op")
  | ["hist"] => ({ s with hist := none }, "ok")
  | ["run", v, o] =>
    let oc : Option (Outcome Unit) :=
      match o with
      | "fetch-failed" => some .fetchFailed
      | "parse-failed" => some .parseFailed
      | "parsed" => some (.parsed ())
      | _ => none
    match v.toNat?, oc with
    | some v, some oc =>
      let out := histStep s.hist ⟨v, oc⟩
      let call := match out.2.1 with
        | .none => "none"
        | .update _ => "update"
      ({ s with hist := out.1 }, s!"{call} {out.2.2}")
    | _, _ => (s, "bad-op")
  | ["flip", p, x] =>
    match p.toNat?, x.toNat? with
    | some p, some x =>
      let d := flipAt s.plain p x
      let out :=
        match firstNonWs d with
        | none => "incomplete"
        | some b => if b = 0x7b || b = 0x5b then showScan (scanJson d) else "notcontainer"
      (s, out)
    | _, _ => (s, "bad-op")
  | _ => (s, "bad-op")

end Driver.C15

def main : IO Unit := do
  Driver.foldLines (← IO.getStdin) (← IO.getStdout) ({} : Driver.C15.St) Driver.C15.step
