import Driver.Util
import ClairModel.Model.Framing

/-!
  Line protocol of the C15 model.

    reset                      forget the current feed                      -> ok
    feed <loop> <hex>          load the plaintext of a feed; run its loop on the intact stream
    cut <k>                    stream = first k bytes, then EOF
    fail <k> <chunk> <mode>    stream = first k bytes in chunks, then a read error
    flip <pos> <xor>           (one-json) framing verdict of the feed with one byte changed
    drive <fetch> <parse>      driveUpdater: what the store is asked and whether the run succeeds

  Loops: one-json | one-json-end | one-xml | one-xml-drain | lines | records | records-cvss.
-/
namespace Driver.C15
open ClairModel.Framing

structure St where
  loop : String := ""
  plain : Bytes := []

def chunksOf (n : Nat) (bs : Bytes) : List Bytes :=
  if n = 0 then [bs] else
  let rec go (fuel : Nat) (bs : Bytes) (acc : List Bytes) : List Bytes :=
    match fuel with
    | 0 => acc.reverse
    | fuel + 1 => if bs.isEmpty then acc.reverse else go fuel (bs.drop n) (bs.take n :: acc)
  go (bs.length + 1) bs []

def showScan : Scan → String
  | .complete n => s!"complete {n}"
  | .incomplete => "incomplete"
  | .invalid n => s!"invalid {n}"

def showUnit : Res Unit → String
  | .ok _ => "ok"
  | .err => "err"

def showCount : Res (List Unit) → String
  | .ok vs => s!"ok {vs.length}"
  | .err => "err"

/-- A VEX line is parsed by one JSON `Decode`: it must hold a complete value. -/
def lineSem (l : Bytes) : Option Unit :=
  match scanJson l with
  | .complete _ => some ()
  | _ => none

def runLoop (loop : String) (st : Stream) : String :=
  match loop with
  | "one-json" => showUnit (decodeOne jsonStep jsonInit (fun _ => some ()) st)
  | "one-json-end" => showUnit (decodeOneEnd jsonStep jsonInit (fun _ => some ()) st)
  | "one-xml" => showUnit (decodeOne xmlStep xmlInit (fun _ => some ()) st)
  | "one-xml-drain" => showUnit (decodeOneDrain xmlStep xmlInit (fun _ => some ()) st)
  | "lines" => showCount (lineLoop lineSem st)
  | "records" => showCount (recordLoop jsonStep jsonInit (fun _ => some ()) st)
  | "records-cvss" => showCount (recordLoopCvss jsonStep jsonInit (fun _ => some ()) () st)
  | _ => "bad-op"

def firstNonWs : Bytes → Option Byte
  | [] => none
  | b :: bs => if isWs b then firstNonWs bs else some b

def flipAt (bs : Bytes) (pos : Nat) (x : Nat) : Bytes :=
  bs.take pos ++ (match bs.drop pos with
    | [] => []
    | b :: rest => (b ^^^ UInt8.ofNat x) :: rest)

def step (s : St) (l : String) : St × String :=
  match Driver.words l with
  | ["reset"] => ({}, "ok")
  | ["feed", loop, h] =>
    match Driver.unhex h with
    | none => (s, "bad-op")
    | some bs =>
      let s' : St := { loop := loop, plain := bs }
      let out :=
        match loop with
        | "one-json" | "one-json-end" => showScan (scanJson bs)
        | "one-xml" | "one-xml-drain" =>
          (match scanXml bs with
           | .complete n => s!"complete {n}"
           | .incomplete => "incomplete"
           | .invalid _ => "invalid")
        | _ => runLoop loop ⟨[bs], .eof⟩
      (s', out)
  | ["cut", k] =>
    match k.toNat? with
    | some k => (s, runLoop s.loop ⟨[s.plain.take k], .eof⟩)
    | none => (s, "bad-op")
  | ["fail", k, c, _mode] =>
    match k.toNat?, c.toNat? with
    | some k, some c => (s, runLoop s.loop ⟨chunksOf c (s.plain.take k), .err⟩)
    | _, _ => (s, "bad-op")
  | ["drive", f, p] =>
    let fetch : Option FetchOut :=
      match f with
      | "unchanged" => some .unchanged
      | "failed" => some .failed
      | "fetched" => some .fetched
      | _ => none
    let parse : Option (Res Unit) :=
      match p with
      | "ok" => some (.ok ())
      | "err" => some .err
      | _ => none
    match fetch, parse with
    | some fe, some pa =>
      let out := drive fe pa
      let call := match out.1 with
        | .none => "none"
        | .update _ => "update"
      (s, s!"{call} {out.2}")
    | _, _ => (s, "bad-op")
  | ["flip", p, x] =>
    match p.toNat?, x.toNat? with
    | some p, some x =>
      let d := flipAt s.plain p x
      let out :=
        match firstNonWs d with
        | none => "incomplete"
        | some b => if b = 0x7b || b = 0x5b then showScan (scanJson d) else "notcontainer"
      (s, out)
    | _, _ => (s, "bad-op")
  | _ => (s, "bad-op")

end Driver.C15

def main : IO Unit := do
  Driver.foldLines (← IO.getStdin) (← IO.getStdout) ({} : Driver.C15.St) Driver.C15.step
