import Driver.Util
import ClairModel.Model.Matchers
import ClairModel.Model.MatchersLang
import ClairModel.Model.MatchScan

/-!
  Line protocol of the C03 model (see go/internal/c03):

    rpmcmp <a> <b>                       -> -1 | 0 | 1
    debcmp <a> <b>                       -> err | hang | -1 | 0 | 1
    debnew <a>                           -> err | hex of NewVersion(a).String()
    apkcmp <a> <b>                       -> -1 | 0 | 1     (the lock-step transcription)
    apkcmp2 <a> <b>                      -> -1 | 0 | 1     (the token-stream formulation)
    apkvalid <a>                         -> true | false
    urlq <s>                             -> err | ok <introduced> <fixed> <lastAffected>
    osv <pkgver> <fixedin> <table>       -> true | false | err | missing:<hex>
         table = comma separated  <string>/<parses 1|0>/<pkg compared to it l|e|g|x>  (or "none"):
         what the real parser / comparator of the scheme said about the strings involved
    osvs <python|ruby|java> <pkgver> <fixedin>   -> true | false | err
         the same call answered with the C12 models of pep440 / gem / maven on the strings
    vercmp <kind> <v0,..,v9> <kind> <v0,..,v9>            -> -1 | 0 | 1
    range <nil|set> <lkind> <l..> <ukind> <u..> <vkind> <v..>   -> true | false
    ctl <versionFilter 0|1> <authoritative 0|1> <nil|set> <lkind> <l..> <ukind> <u..> <vkind> <v..> <matcher> <vuln fields…>
                                         -> true | false | err | hang
    rpmstr <a>                           -> hex of NewVersion(a).String()
    archop <op> <a> <b> <re>             -> true | false     (<re> is ignored for literal alternations: the model computes it)
    ctlm <versionFilter> <authoritative> <nil|set> <lkind> <l..> <ukind> <u..> <vkind> <v..> <matcher> <vuln fields> <gates>
                                         -> err | hang | <times the advisory is listed>
         one package in several records; <gates> = comma separated rhel gate bits, one per record ("-" for other matchers)
    vuln <matcher> <pkgver> <pkgarch> <fixed> <vulnpkgver> <vulnpkgarch> <archop> <re> [<gate>]
                                         -> true | false | err | hang
    defaults                             -> the names of the registered default matchers, sorted, comma separated
    cpesub <record cpe string> <advisory cpe string>   -> true | false      (rhel isCPESubstringMatch on the formatted strings)
    scan <D0|D1|M:<matcher>> <#records> <#advisories> <record>… <advisory>…
                                         -> <K|E|H> <pid:aid*n,… | ->
         the whole `matcher.Match` over the default matcher set (D1: rhel configured with ignore_unpatched) or one
         matcher; K = nil error, E = some controller failed, H = does not return; then how often each advisory is
         listed for each package, sorted.
         record   = pkgID name kind module src(0|1) srcName srcKind version arch nvKind nvInts
                    dist(0|1) did name version codename versionid arch pretty  repo(0|1) name key uri cpeString idx
         advisory = id pkgname kind module did name version codename versionid arch pretty reponame repokey repouri
                    fixed pkgversion pkgarch archop  range(nil|set) lkind l.. ukind u..  cpe(0|1) cpeString supersetBits

  Strings are hex (`-` = empty); <re> is e (pattern does not compile), t, f.
-/
namespace Driver.C03
open ClairModel ClairModel.Matchers ClairModel.VerCommon

def str (h : String) : Option Str := (Driver.unhex h).map fun bs => bs.map fun b => Char.ofNat b.toNat

def hexOf (s : Str) : String := Driver.hex (s.map fun c => UInt8.ofNat c.toNat)

def ordStr : Ordering → String
  | .lt => "-1"
  | .eq => "0"
  | .gt => "1"

def outStr : Out → String
  | .ok true => "true"
  | .ok false => "false"
  | .err => "err"
  | .hang => "hang"

def parseRe : String → Option (Option Bool)
  | "e" => some none
  | "t" => some (some true)
  | "f" => some (some false)
  | _ => none

def bit (c : Char) : Bool := c == '1'

def parseGate (s : String) : Option RhelGate :=
  match s.toList with
  | [a, b, c, d, e, f] => some ⟨bit a, bit b, bit c, bit d, bit e, bit f⟩
  | _ => none

def natStr (n : Nat) : Str := (toString n).toList

/-- `Version.String()` of go-rpm-version. -/
def rpmString (v : VerRpm.Version) : Str :=
  (if v.epoch > 0 then natStr v.epoch.toNat ++ [':'] else []) ++ v.version ++
  (if v.release ≠ [] then '-' :: v.release else [])

/-- The scheme of an `osv` line: strings are their own parsed form, what the
    real parser / comparator said is looked up in the table. -/
structure Entry where
  s : Str
  parses : Bool
  cmp : Option Ordering

def parseEntry (w : String) : Option Entry :=
  match w.splitOn "/" with
  | [h, p, c] => do
    let s ← str h
    let c ← match c with
      | "l" => some (some Ordering.lt)
      | "e" => some (some Ordering.eq)
      | "g" => some (some Ordering.gt)
      | "x" => some none
      | _ => none
    pure ⟨s, p == "1", c⟩
  | _ => none

def parseTable (w : String) : Option (List Entry) :=
  if w == "none" then some [] else (w.splitOn ",").mapM parseEntry

def tableScheme (t : List Entry) : Scheme Str where
  parse s := match t.find? (fun e => e.s = s) with
    | some e => if e.parses then some s else none
    | none => none
  cmp _ b := match t.find? (fun e => e.s = b) with
    | some e => e.cmp.getD .eq
    | none => .eq

/-- The strings the matcher will hand to the parser, for the completeness check of the table. -/
def osvNeeds (pv fixedIn : Str) : List Str :=
  if fixedIn = [] then [] else
  pv :: match parseQuery fixedIn with
    | none => []
    | some q => [qget q kIntroduced, qget q kFixed, qget q kLastAffected].filter (· ≠ [])

def parseInts (w : String) : Option (List Int) := (w.splitOn ",").mapM String.toInt?

def parseNVersion (k v : String) : Option NVersion := do
  pure { kind := ← str k, v := ← parseInts v }

def vulnLine (m : String) (p : Pkg) (v : Vuln) (gate : Option RhelGate) : Option Out :=
  match m with
  | "aws" => some (vulnerableAws p v)
  | "oracle" => some (vulnerableOracle p v)
  | "suse" => some (vulnerableSuse p v)
  | "photon" => some (vulnerablePhoton p v)
  | "rhcc" => some (vulnerableRhcc p v)
  | "alpine" => some (vulnerableAlpine p v)
  | "debian" => some (vulnerableDebian p v)
  | "ubuntu" => some (vulnerableUbuntu p v)
  | "gobin" => some (vulnerableNoop p v)
  | "nodejs" => some (vulnerableNoop p v)
  | "rhel" => gate.map fun g => vulnerableRhel g p v
  | _ => none

def answer (l : String) : Option String :=
  match Driver.words l with
  | ["rpmcmp", a, b] => do pure (ordStr (VerRpm.cmpStr (← str a) (← str b)))
  | ["rpmstr", a] => do pure (hexOf (rpmString (VerRpm.newVersion (← str a))))
  | ["debcmp", a, b] => do
    match VerDeb.newVersion (← str a), VerDeb.newVersion (← str b) with
    | some x, some y =>
      match VerDeb.compare x y with
      | none => pure "hang"
      | some o => pure (ordStr o)
    | _, _ => pure "err"
  | ["debnew", a] => do
    match VerDeb.newVersion (← str a) with
    | none => pure "err"
    | some v => pure (hexOf v.toStr)
  | ["apkcmp", a, b] => do pure (ordStr (VerApk.compareLoop (← str a) (← str b)))
  | ["apkcmp2", a, b] => do pure (ordStr (VerApk.compare (← str a) (← str b)))
  | ["apkvalid", a] => do pure (toString (VerApk.valid (← str a)))
  | ["archop", op, a, b, re] => do
    let a ← str a
    let b ← str b
    pure (toString (archCmp (← op.toNat?) a b (reVerdict b a (← parseRe re))))
  | ["urlq", q] => do
    match parseQuery (← str q) with
    | none => pure "err"
    | some m => pure s!"ok {hexOf (qget m kIntroduced)} {hexOf (qget m kFixed)} {hexOf (qget m kLastAffected)}"
  | ["osv", pv, fx, tbl] => do
    let pv ← str pv
    let fx ← str fx
    let t ← parseTable tbl
    match (osvNeeds pv fx).find? (fun s => !(t.any fun e => e.s = s)) with
    | some s => pure s!"missing:{hexOf s}"
    | none => pure (outStr (vulnerableOsv (tableScheme t) { version := pv } { fixed := fx }))
  | ["osvs", eco, pv, fx] => do
    let p : Pkg := { version := ← str pv }
    let v : Vuln := { fixed := ← str fx }
    match eco with
    | "python" => pure (outStr (vulnerablePython p v))
    | "ruby" => pure (outStr (vulnerableRuby p v))
    | "java" => pure (outStr (vulnerableJava p v))
    | _ => none
  | ["vercmp", k1, v1, k2, v2] => do
    pure (ordStr ((← parseNVersion k1 v1).compare (← parseNVersion k2 v2)))
  | ["range", tag, lk, lv, uk, uv, vk, vv] => do
    let r : NRange := { lower := ← parseNVersion lk lv, upper := ← parseNVersion uk uv }
    let v ← parseNVersion vk vv
    pure (toString (rangeContains (if tag == "nil" then none else some r) v))
  | ["ctlm", vf, au, tag, lk, lv, uk, uv, nk, nv, m, pv, pa, fx, vv, va, op, re, gates] => do
    let rg : NRange := { lower := ← parseNVersion lk lv, upper := ← parseNVersion uk uv }
    let nver ← parseNVersion nk nv
    let hit := dbSideHit (if tag == "nil" then none else some rg) nver
    let p : Pkg := { version := ← str pv, arch := ← str pa }
    let v : Vuln := { fixed := ← str fx, pkgVersion := ← str vv, pkgArch := ← str va,
                      archOp := ← op.toNat?, re := ← parseRe re }
    let outs ← (gates.splitOn ",").mapM fun g =>
      if g == "-" then vulnLine m p v none else do vulnLine m p v (some (← parseGate g))
    pure (match controllerMatch (vf == "1") (au == "1") hit outs with
      | .err => "err"
      | .hang => "hang"
      | .count n => toString n)
  | "ctl" :: vf :: au :: tag :: lk :: lv :: uk :: uv :: nk :: nv :: m :: pv :: pa :: fx :: vv :: va :: op :: re :: rest => do
    let rg : NRange := { lower := ← parseNVersion lk lv, upper := ← parseNVersion uk uv }
    let nver ← parseNVersion nk nv
    let hit := dbSideHit (if tag == "nil" then none else some rg) nver
    let p : Pkg := { version := ← str pv, arch := ← str pa }
    let v : Vuln := { fixed := ← str fx, pkgVersion := ← str vv, pkgArch := ← str va,
                      archOp := ← op.toNat?, re := ← parseRe re }
    let gate ← match rest with
      | [] => pure none
      | [g] => (parseGate g).map some
      | _ => none
    pure (outStr (controllerKeeps (vf == "1") (au == "1") hit (← vulnLine m p v gate)))
  | "vuln" :: m :: pv :: pa :: fx :: vv :: va :: op :: re :: rest => do
    let p : Pkg := { version := ← str pv, arch := ← str pa }
    let v : Vuln := { fixed := ← str fx, pkgVersion := ← str vv, pkgArch := ← str va,
                      archOp := ← op.toNat?, re := ← parseRe re }
    let gate ← match rest with
      | [] => pure none
      | [g] => (parseGate g).map some
      | _ => none
    pure (outStr (← vulnLine m p v gate))
  | _ => none

/-! ### scan lines -/

section Scan
open ClairModel.MatchScan

abbrev P := StateT (List String) Option

def tok : P String := do
  match (← get) with
  | [] => failure
  | t :: ts => set ts; pure t

def pStr : P Str := do
  match str (← tok) with
  | some s => pure s
  | none => failure

def pFlag : P Bool := do pure ((← tok) == "1")

def pNat : P Nat := do
  match (← tok).toNat? with
  | some n => pure n
  | none => failure

def pNVer : P NVersion := do
  let k ← tok
  let v ← tok
  match parseNVersion k v with
  | some x => pure x
  | none => failure

def pDist : P Dist := do
  pure { did := ← pStr, name := ← pStr, version := ← pStr, versionCodeName := ← pStr,
         versionID := ← pStr, arch := ← pStr, prettyName := ← pStr }

def pRec : P Rec := do
  let pkgID ← pStr
  let name ← pStr
  let kind ← pStr
  let module ← pStr
  let hasSrc ← pFlag
  let sn ← pStr
  let sk ← pStr
  let version ← pStr
  let arch ← pStr
  let nver ← pNVer
  let hasDist ← pFlag
  let d ← pDist
  let hasRepo ← pFlag
  let rn ← pStr
  let rk ← pStr
  let ru ← pStr
  let rc ← pStr
  let ri ← pNat
  pure { pkgID, name, kind, module, src := if hasSrc then some (sn, sk) else none,
         pkg := { version, arch }, nver,
         dist := if hasDist then some d else none,
         repo := if hasRepo then some { name := rn, key := rk, uri := ru, cpe := rc, idx := ri } else none }

def pAdv : P Adv := do
  let id ← pStr
  let name ← pStr
  let kind ← pStr
  let module ← pStr
  let d ← pDist
  let repoName ← pStr
  let repoKey ← pStr
  let repoURI ← pStr
  let fixed ← pStr
  let pv ← pStr
  let pa ← pStr
  let op ← pNat
  let tag ← tok
  let lo ← pNVer
  let up ← pNVer
  let hasCpe ← pFlag
  let c ← pStr
  let bits ← tok
  pure { id, name, kind, module, dist := d, repoName, repoKey, repoURI,
         v := { fixed, pkgVersion := pv, pkgArch := pa, archOp := op, re := none },
         range := if tag == "nil" then none else some { lower := lo, upper := up },
         cpe := if hasCpe then some c else none,
         superset := if bits == "-" then [] else bits.toList.map bit }

def pMany {α : Type} (p : P α) : Nat → P (List α)
  | 0 => pure []
  | n + 1 => do
    let x ← p
    let xs ← pMany p n
    pure (x :: xs)

def matcherOfName : String → Option MatcherId
  | "alpine" => some .alpine | "aws" => some .aws | "debian" => some .debian | "gobin" => some .gobin
  | "java" => some .java | "nodejs" => some .nodejs | "oracle" => some .oracle | "photon" => some .photon
  | "python" => some .python | "rhcc" => some .rhcc | "ruby" => some .ruby | "suse" => some .suse
  | "ubuntu" => some .ubuntu | "rhel0" => some (.rhel false) | "rhel1" => some (.rhel true)
  | _ => none

def matcherSet (w : String) : Option (List MatcherId) :=
  if w == "D0" then some (defaultMatchers false)
  else if w == "D1" then some (defaultMatchers true)
  else if w.startsWith "M:" then (matcherOfName (w.drop 2).toString).map fun m => [m]
  else none

def insertSorted (x : String) : List String → List String
  | [] => [x]
  | y :: ys => if x ≤ y then x :: y :: ys else y :: insertSorted x ys

def sortStrings (l : List String) : List String := l.foldr insertSorted []

/-- Sorted keys with their multiplicities. -/
def countRuns : List String → List (String × Nat)
  | [] => []
  | x :: xs =>
    match countRuns xs with
    | (y, n) :: rest => if x == y then (y, n + 1) :: rest else (x, 1) :: (y, n) :: rest
    | [] => [(x, 1)]

/-- The architecture pattern of a scan line must be one the model computes itself. -/
def advComputable (a : Adv) : Bool :=
  a.v.archOp != 3 || a.v.pkgArch.isEmpty || reComputed a.v.pkgArch

def scanLine (ws : List String) : Option String := do
  match ws with
  | setW :: nr :: na :: rest =>
    let ms ← matcherSet setW
    let p : P (List Rec × List Adv) := do
      let rs ← pMany pRec (← nr.toNat?)
      let as ← pMany pAdv (← na.toNat?)
      pure (rs, as)
    let ((recs, advs), left) ← p.run rest
    if !left.isEmpty then none
    else if !(advs.all advComputable) then some "uncomputed-pattern"
    else
      let keys := (scanPairs ms recs advs).map fun (pid, aid) => hexOf pid ++ ":" ++ hexOf aid
      let runs := countRuns (sortStrings keys)
      let body := if runs.isEmpty then "-" else ",".intercalate (runs.map fun (k, n) => s!"{k}*{n}")
      let flag := if scanHang ms recs advs then "H" else if scanErr ms recs advs then "E" else "K"
      some s!"{flag} {body}"
  | _ => none

end Scan

def stepLine (s : Unit) (l : String) : Unit × String :=
  if l == "reset" then (s, "ok") else
  match (match Driver.words l with
      | "scan" :: ws => scanLine ws
      | ["defaults"] => some (",".intercalate (sortStrings ((ClairModel.MatchScan.defaultMatchers false).map ClairModel.MatchScan.name)))
      | ["cpesub", a, b] => do pure (toString (ClairModel.MatchScan.cpeSubstring (← str a) (← str b)))
      | _ => answer l) with
  | some o => (s, o)
  | none => (s, "bad-op")

end Driver.C03

def main : IO Unit := do
  Driver.foldLines (← IO.getStdin) (← IO.getStdout) () Driver.C03.stepLine
