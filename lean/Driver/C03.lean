import Driver.Util
import ClairModel.Model.Matchers
import ClairModel.Model.MatchersLang

/-!
  Line protocol of the C03 model (see go/internal/c03):

    rpmcmp <a> <b>                       -> -1 | 0 | 1
    debcmp <a> <b>                       -> err | hang | -1 | 0 | 1
    debnew <a>                           -> err | hex of NewVersion(a).String()
    apkcmp <a> <b>                       -> -1 | 0 | 1     (the lock-step transcription)
    apkcmp2 <a> <b>                      -> -1 | 0 | 1     (the token-stream formulation)
    apkvalid <a>                         -> true | false
    urlq <s>                             -> err | ok <introduced> <fixed> <lastAffected>
    osv <pkgver> <fixedin> <table>       -> true | false | err | missing:<hex>
         table = comma separated  <string>/<parses 1|0>/<pkg compared to it l|e|g|x>  (or "none"):
         what the real parser / comparator of the scheme said about the strings involved
    osvs <python|ruby|java> <pkgver> <fixedin>   -> true | false | err
         the same call answered with the C12 models of pep440 / gem / maven on the strings
    vercmp <kind> <v0,..,v9> <kind> <v0,..,v9>            -> -1 | 0 | 1
    range <nil|set> <lkind> <l..> <ukind> <u..> <vkind> <v..>   -> true | false
    ctl <versionFilter 0|1> <authoritative 0|1> <nil|set> <lkind> <l..> <ukind> <u..> <vkind> <v..> <matcher> <vuln fields…>
                                         -> true | false | err | hang
    rpmstr <a>                           -> hex of NewVersion(a).String()
    archop <op> <a> <b> <re>             -> true | false     (<re> is ignored for literal alternations: the model computes it)
    ctlm <versionFilter> <authoritative> <nil|set> <lkind> <l..> <ukind> <u..> <vkind> <v..> <matcher> <vuln fields> <gates>
                                         -> err | hang | <times the advisory is listed>
         one package in several records; <gates> = comma separated rhel gate bits, one per record ("-" for other matchers)
    vuln <matcher> <pkgver> <pkgarch> <fixed> <vulnpkgver> <vulnpkgarch> <archop> <re> [<gate>]
                                         -> true | false | err | hang

  Strings are hex (`-` = empty); <re> is e (pattern does not compile), t, f.
-/
namespace Driver.C03
open ClairModel ClairModel.Matchers ClairModel.VerCommon

def str (h : String) : Option Str := (Driver.unhex h).map fun bs => bs.map fun b => Char.ofNat b.toNat

def hexOf (s : Str) : String := Driver.hex (s.map fun c => UInt8.ofNat c.toNat)

def ordStr : Ordering → String
  | .lt => "-1"
  | .eq => "0"
  | .gt => "1"

def outStr : Out → String
  | .ok true => "true"
  | .ok false => "false"
  | .err => "err"
  | .hang => "hang"

def parseRe : String → Option (Option Bool)
  | "e" => some none
  | "t" => some (some true)
  | "f" => some (some false)
  | _ => none

def bit (c : Char) : Bool := c == '1'

def parseGate (s : String) : Option RhelGate :=
  match s.toList with
  | [a, b, c, d, e, f] => some ⟨bit a, bit b, bit c, bit d, bit e, bit f⟩
  | _ => none

def natStr (n : Nat) : Str := (toString n).toList

/-- `Version.String()` of go-rpm-version. -/
def rpmString (v : VerRpm.Version) : Str :=
  (if v.epoch > 0 then natStr v.epoch.toNat ++ [':'] else []) ++ v.version ++
  (if v.release ≠ [] then '-' :: v.release else [])

/-- The scheme of an `osv` line: strings are their own parsed form, what the
    real parser / comparator said is looked up in the table. -/
structure Entry where
  s : Str
  parses : Bool
  cmp : Option Ordering

def parseEntry (w : String) : Option Entry :=
  match w.splitOn "/" with
  | [h, p, c] => do
    let s ← str h
    let c ← match c with
      | "l" => some (some Ordering.lt)
      | "e" => some (some Ordering.eq)
      | "g" => some (some Ordering.gt)
      | "x" => some none
      | _ => none
    pure ⟨s, p == "1", c⟩
  | _ => none

def parseTable (w : String) : Option (List Entry) :=
  if w == "none" then some [] else (w.splitOn ",").mapM parseEntry

def tableScheme (t : List Entry) : Scheme Str where
  parse s := match t.find? (fun e => e.s = s) with
    | some e => if e.parses then some s else none
    | none => none
  cmp _ b := match t.find? (fun e => e.s = b) with
    | some e => e.cmp.getD .eq
    | none => .eq

/-- The strings the matcher will hand to the parser, for the completeness check of the table. -/
def osvNeeds (pv fixedIn : Str) : List Str :=
  if fixedIn = [] then [] else
  pv :: match parseQuery fixedIn with
    | none => []
    | some q => [qget q kIntroduced, qget q kFixed, qget q kLastAffected].filter (· ≠ [])

def parseInts (w : String) : Option (List Int) := (w.splitOn ",").mapM String.toInt?

def parseNVersion (k v : String) : Option NVersion := do
  pure { kind := ← str k, v := ← parseInts v }

def vulnLine (m : String) (p : Pkg) (v : Vuln) (gate : Option RhelGate) : Option Out :=
  match m with
  | "aws" => some (vulnerableAws p v)
  | "oracle" => some (vulnerableOracle p v)
  | "suse" => some (vulnerableSuse p v)
  | "photon" => some (vulnerablePhoton p v)
  | "rhcc" => some (vulnerableRhcc p v)
  | "alpine" => some (vulnerableAlpine p v)
  | "debian" => some (vulnerableDebian p v)
  | "ubuntu" => some (vulnerableUbuntu p v)
  | "gobin" => some (vulnerableNoop p v)
  | "nodejs" => some (vulnerableNoop p v)
  | "rhel" => gate.map fun g => vulnerableRhel g p v
  | _ => none

def answer (l : String) : Option String :=
  match Driver.words l with
  | ["rpmcmp", a, b] => do pure (ordStr (VerRpm.cmpStr (← str a) (← str b)))
  | ["rpmstr", a] => do pure (hexOf (rpmString (VerRpm.newVersion (← str a))))
  | ["debcmp", a, b] => do
    match VerDeb.newVersion (← str a), VerDeb.newVersion (← str b) with
    | some x, some y =>
      match VerDeb.compare x y with
      | none => pure "hang"
      | some o => pure (ordStr o)
    | _, _ => pure "err"
  | ["debnew", a] => do
    match VerDeb.newVersion (← str a) with
    | none => pure "err"
    | some v => pure (hexOf v.toStr)
  | ["apkcmp", a, b] => do pure (ordStr (VerApk.compareLoop (← str a) (← str b)))
  | ["apkcmp2", a, b] => do pure (ordStr (VerApk.compare (← str a) (← str b)))
  | ["apkvalid", a] => do pure (toString (VerApk.valid (← str a)))
  | ["archop", op, a, b, re] => do
    let a ← str a
    let b ← str b
    pure (toString (archCmp (← op.toNat?) a b (reVerdict b a (← parseRe re))))
  | ["urlq", q] => do
    match parseQuery (← str q) with
    | none => pure "err"
    | some m => pure s!"ok {hexOf (qget m kIntroduced)} {hexOf (qget m kFixed)} {hexOf (qget m kLastAffected)}"
  | ["osv", pv, fx, tbl] => do
    let pv ← str pv
    let fx ← str fx
    let t ← parseTable tbl
    match (osvNeeds pv fx).find? (fun s => !(t.any fun e => e.s = s)) with
    | some s => pure s!"missing:{hexOf s}"
    | none => pure (outStr (vulnerableOsv (tableScheme t) { version := pv } { fixed := fx }))
  | ["osvs", eco, pv, fx] => do
    let p : Pkg := { version := ← str pv }
    let v : Vuln := { fixed := ← str fx }
    match eco with
    | "python" => pure (outStr (vulnerablePython p v))
    | "ruby" => pure (outStr (vulnerableRuby p v))
    | "java" => pure (outStr (vulnerableJava p v))
    | _ => none
  | ["vercmp", k1, v1, k2, v2] => do
    pure (ordStr ((← parseNVersion k1 v1).compare (← parseNVersion k2 v2)))
  | ["range", tag, lk, lv, uk, uv, vk, vv] => do
    let r : NRange := { lower := ← parseNVersion lk lv, upper := ← parseNVersion uk uv }
    let v ← parseNVersion vk vv
    pure (toString (rangeContains (if tag == "nil" then none else some r) v))
  | ["ctlm", vf, au, tag, lk, lv, uk, uv, nk, nv, m, pv, pa, fx, vv, va, op, re, gates] => do
    let rg : NRange := { lower := ← parseNVersion lk lv, upper := ← parseNVersion uk uv }
    let nver ← parseNVersion nk nv
    let hit := dbSideHit (if tag == "nil" then none else some rg) nver
    let p : Pkg := { version := ← str pv, arch := ← str pa }
    let v : Vuln := { fixed := ← str fx, pkgVersion := ← str vv, pkgArch := ← str va,
                      archOp := ← op.toNat?, re := ← parseRe re }
    let outs ← (gates.splitOn ",").mapM fun g =>
      if g == "-" then vulnLine m p v none else do vulnLine m p v (some (← parseGate g))
    pure (match controllerMatch (vf == "1") (au == "1") hit outs with
      | .err => "err"
      | .hang => "hang"
      | .count n => toString n)
  | "ctl" :: vf :: au :: tag :: lk :: lv :: uk :: uv :: nk :: nv :: m :: pv :: pa :: fx :: vv :: va :: op :: re :: rest => do
    let rg : NRange := { lower := ← parseNVersion lk lv, upper := ← parseNVersion uk uv }
    let nver ← parseNVersion nk nv
    let hit := dbSideHit (if tag == "nil" then none else some rg) nver
    let p : Pkg := { version := ← str pv, arch := ← str pa }
    let v : Vuln := { fixed := ← str fx, pkgVersion := ← str vv, pkgArch := ← str va,
                      archOp := ← op.toNat?, re := ← parseRe re }
    let gate ← match rest with
      | [] => pure none
      | [g] => (parseGate g).map some
      | _ => none
    pure (outStr (controllerKeeps (vf == "1") (au == "1") hit (← vulnLine m p v gate)))
  | "vuln" :: m :: pv :: pa :: fx :: vv :: va :: op :: re :: rest => do
    let p : Pkg := { version := ← str pv, arch := ← str pa }
    let v : Vuln := { fixed := ← str fx, pkgVersion := ← str vv, pkgArch := ← str va,
                      archOp := ← op.toNat?, re := ← parseRe re }
    let gate ← match rest with
      | [] => pure none
      | [g] => (parseGate g).map some
      | _ => none
    pure (outStr (← vulnLine m p v gate))
  | _ => none

def stepLine (s : Unit) (l : String) : Unit × String :=
  if l == "reset" then (s, "ok") else
  match answer l with
  | some o => (s, o)
  | none => (s, "bad-op")

end Driver.C03

def main : IO Unit := do
  Driver.foldLines (← IO.getStdin) (← IO.getStdout) () Driver.C03.stepLine
