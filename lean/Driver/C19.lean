import Driver.Util
import ClairModel.Model.Cpe
import ClairModel.Model.CpeSpec

/-
  Line-protocol driver of the CPE model (property C19).

  strings:  hex bytes, `-` for the empty string
  values:   kind letter U|A|N|S followed by the hex of the Go `Value.V`
  names:    eleven values
-/
namespace Driver.C19
open ClairModel.Cpe ClairModel.CpeTypes

def str? (h : String) : Option Str := (Driver.unhex h).map fun bs => bs.map (·.toNat)

def hexStr (s : Str) : String := Driver.hex (s.map UInt8.ofNat)

def value? (tok : String) : Option Value :=
  match tok.toList with
  | k :: rest =>
    let kind? : Option Kind :=
      if k == 'U' then some .unset else if k == 'A' then some .any
      else if k == 'N' then some .na else if k == 'S' then some .set else none
    match kind?, str? (String.ofList rest) with
    | some kd, some v => some ⟨kd, v⟩
    | _, _ => none
  | [] => none

def wfn? (toks : List String) : Option WFN :=
  if toks.length != 11 then none else toks.mapM value?

def kindLetter : Kind → String
  | .unset => "U" | .any => "A" | .na => "N" | .set => "S"

def renderWFN (w : WFN) : String :=
  " ".intercalate (w.map fun a => kindLetter a.kind ++ hexStr a.v)

def renderOpt : Option WFN → String
  | none => "err"
  | some w => "ok " ++ renderWFN w

/-- the receiver after the call, also when the call failed -/
def renderInto (r : WFN × Bool) : String := (if r.2 then "ok " else "err ") ++ renderWFN r.1

def relLetter : Rel → String
  | .invalid => "I" | .superset => ">" | .subset => "<" | .equal => "=" | .disjoint => "#"

def bit (b : Bool) : String := if b then "1" else "0"

def renderCmp (rs : List Rel) : String :=
  String.join (rs.map relLetter) ++ " " ++ bit (isSuperset rs) ++ " " ++ bit (isSubset rs) ++ " " ++
    bit (isEqual rs) ++ " " ++ bit (isDisjoint rs)

def answer (ws : List String) : Option String :=
  match ws with
  | ["validate", h] => do pure (if validate (← str? h) then "ok" else "err")
  | ["wild", h] => do pure (toString (hasWildcard (← str? h)))
  | ["pat", a, b] => do pure (toString (patCompare (← str? a) (← str? b)))
  | ["split", h] => do pure (" ".intercalate ((splitFS (← str? h)).map hexStr))
  | ["unbindval", h] => do pure (hexStr (unbindFSVal (← str? h)))
  | ["bindval", h] => do pure (hexStr (bindVal (← str? h)))
  | ["unbindfs", h] => do pure (renderOpt (unbindFS (← str? h)))
  | ["unbinduri", h] => do pure (renderOpt (unbindURI (← str? h)))
  | ["unbind", h] => do pure (renderOpt (unbind (← str? h)))
  | ["punbind", h] => do pure (renderOpt (unbind (← str? h)))
  | [op, h] =>
    -- (*WFN).UnmarshalText / Scan on the zero name: empty input gives / leaves the zero name
    if op == "unmarshal" || op == "scan" || op == "scanstr" then do
      pure (renderOpt (unmarshalText (List.replicate 11 unsetValue) (← str? h)))
    else if op == "punbindfs" then do pure (renderOpt (unbindFS (← str? h)))
    else if op == "punbinduri" then do pure (renderOpt (unbindURI (← str? h)))
    else if op == "mustunbind" then do pure (renderOpt (unbind (← str? h)))
    else if op == "newvalue" || op == "pnewvalue" then do pure (if newValueOk (← str? h) then "ok" else "err")
    else none
  | "valid" :: toks => do
    let w ← wfn? toks
    pure (match valid w with | .ok => "ok" | .errUnset => "unset" | .err => "err")
  | "bindfs" :: toks => do pure (hexStr (bindFS (← wfn? toks)))
  | "string" :: toks => do pure (hexStr (wfnString (← wfn? toks)))
  | "marshal" :: toks => do
    pure (match marshalText (← wfn? toks) with | none => "err" | some s => hexStr s)
  | "sqlvalue" :: toks => do
    pure (match marshalText (← wfn? toks) with | none => "err" | some s => hexStr s)
  | "binduri" :: toks => do
    -- the specification's bind_to_URI (the package has no URI binder): the Lean and the Go reading agree
    pure (hexStr (ClairModel.CpeSpec.bindURI ((← wfn? toks).map fun a => (a.kind, a.v))))
  | "unmarshal2" :: h :: toks => do
    let w0 ← wfn? toks
    pure (renderInto (intoReceiver w0 (unmarshalText w0 (← str? h))))
  | "scan2" :: h :: toks => do
    let w0 ← wfn? toks
    pure (renderInto (intoReceiver w0 (scanText w0 (← str? h))))
  | "cmp" :: toks => do
    let a ← wfn? (toks.take 11)
    let b ← wfn? (toks.drop 11)
    pure (renderCmp (compare a b))
  | "gate" :: toks => do
    let a ← wfn? (toks.take 11)
    let b ← wfn? (toks.drop 11)
    pure (toString (gate a b))
  | "vuln" :: h :: toks => do
    let s ← str? h
    let record ← wfn? toks
    pure (match unbind s with
      | none => "false"
      | some v => toString (gate v record))
  | _ => none

/-- History lines of `Vulnerable` on shared values: `vname <hex>`, `vheld <name>`,
    `vrec <name>` change a field (answer `ok`), `vcall` answers the verdict and
    the CPE the vulnerability's repository holds afterwards (`-` when the name
    does not unbind). -/
def histLine (st : HSt) (ws : List String) : Option (HSt × String) :=
  match ws with
  | ["vname", h] => do pure ((vOpStep st (.name (← str? h))).1, "ok")
  | "vheld" :: toks => do pure ((vOpStep st (.held (← wfn? toks))).1, "ok")
  | "vrec" :: toks => do pure ((vOpStep st (.record (← wfn? toks))).1, "ok")
  | ["vcall"] =>
    let r := vOpStep st .call
    let after := match (vulnCall st.name st.held st.record).2 with
      | some w => renderWFN w
      | none => "-"
    some (r.1, toString (r.2.getD false) ++ " " ++ after)
  | _ => none

def stepLine (s : HSt) (l : String) : HSt × String :=
  if l == "reset" then (vInitSt, "ok") else
  let ws := Driver.words l
  match histLine s ws with
  | some (s', o) => (s', o)
  | none =>
    match answer ws with
    | some o => (s, o)
    | none => (s, "bad-op")

end Driver.C19

def main : IO Unit := do
  Driver.foldLines (← IO.getStdin) (← IO.getStdout) ClairModel.Cpe.vInitSt Driver.C19.stepLine
