/-
  Line protocol of the indexer model (shared by the C07 and C08 drivers).

    reset                         -> ok
    config <eco>/<k>/<name>/<ver>,...   (k = p|d|r; `-` = no stub scanner)
                                  -> tok <index of the first config since reset with the same state token>
    index <l.l.l> <pos:f,...> <live|dead>
                                  -> e=.. s=.. st=.. er=.. b=.. sc=.. sr=.. n=.. t=..
    delete <l.l.l;l.l;...>        -> del=<deleted manifests> mf=<manifest rows> sl=<scanned_layer rows> ar=<artifact rows>
-/
import Driver.Util
import ClairModel.Model.Indexer
import ClairModel.Model.StateToken

namespace Driver.Indexer
open ClairModel ClairModel.Indexer

def strSum (s : String) : Nat := s.toUTF8.toList.foldl (fun a b => a + b.toNat) 0

def isWhiteout (s : Scanner) : Bool := s.name == "whiteout" && s.kind == .file

/-- The stub scanners' table (go/internal/ctrl.Items, DefRepoItem). -/
def items (name version : String) (l : Nat) : List Nat :=
  let a := strSum name
  let v := strSum version
  (List.range ((l + a + v) % 3)).map fun i => (2 * l + 3 * a + 5 * v + 7 * i) % 10

def scan (s : Scanner) (l : Layer) : List Row :=
  if isWhiteout s then [] else
  let its := items s.name s.version l
  let rows := its.map fun i => (⟨s.kind, i⟩ : Row)
  if s.kind == .pkg && strSum s.name % 2 == 1 && !its.isEmpty then
    rows ++ [⟨.repo, 100 + strSum s.name % 50⟩]
  else rows

/-- The stub coalescer: every package with the first layer it is seen in,
    every distribution, every repository. -/
def coalOne (seen : List Nat) : List LayerArts → List Nat
  | [] => []
  | la :: rest =>
    let fresh := la.pkgs.filter fun p => !seen.contains p
    fresh.map (fun p => p * 1000 + la.layer)
      ++ la.dists.map (fun d => 1000000 + d * 1000)
      ++ (la.pkgRepos ++ la.repos).map (fun r => 2000000 + r * 1000)
      ++ coalOne (fresh ++ seen) rest

def whiteoutEco : Eco := { ps := [], ds := [], rs := [], fs := [{ name := "whiteout", version := "1", kind := .file }] }

def sem : Sem where
  scan := scan
  real := isWhiteout
  coal := fun _ arts => coalOne [] arts
  merge := fun bs => SortDedup.canon bs.flatten
  realEco := fun e => e == whiteoutEco

structure State where
  wd : World := {}
  tokens : List (List Nat) := []   -- pre-images, oldest first

def parseKind : String → Option Tag
  | "p" => some .pkg | "d" => some .dist | "r" => some .repo | _ => none

def parseSpec (p : String) : Option (Nat × Scanner) :=
  match p.splitOn "/" with
  | [e, k, n, v] => do pure ((← e.toNat?), { name := n, version := v, kind := (← parseKind k) })
  | _ => none

/-- `libindex.New`: the stub ecosystems in index order, then the whiteout ecosystem. -/
def mkCfg (specs : List (Nat × Scanner)) : Cfg :=
  let n := specs.foldl (fun a p => max a (p.1 + 1)) 0
  let ecos := (List.range n).map fun i =>
    let mine := (specs.filter fun p => p.1 == i).map (·.2)
    ({ ps := mine.filter (·.kind == .pkg), ds := mine.filter (·.kind == .dist),
       rs := mine.filter (·.kind == .repo), fs := [] } : Eco)
  ecos ++ [whiteoutEco]

def parseConfig (s : String) : Option Cfg :=
  if s == "-" then some (mkCfg []) else
  (s.splitOn ",").mapM parseSpec |>.map mkCfg

def kindName : Tag → String
  | .pkg => "package" | .dist => "distribution" | .repo => "repository" | .file => "file"

def bytesOf (s : String) : List Nat := s.toUTF8.toList.map (·.toNat)

def tscanner (s : Scanner) : StateToken.TScanner :=
  { name := bytesOf s.name, version := bytesOf s.version, kind := bytesOf (kindName s.kind) }

def parseFault : String → Option Fault
  | "e" => some .err | "c" => some .canceled | "d" => some .deadline | "x" => some .cancelCtx
  | "a" => some .cancelAfter | "k" => some .crash | "E" => some .commitErr | _ => none

def parseScript (s : String) : Option (List (Nat × Fault)) :=
  if s == "-" then some [] else
  (s.splitOn ",").mapM fun p =>
    match p.splitOn ":" with
    | [n, f] => do pure ((← n.toNat?), (← parseFault f))
    | _ => none

def oracleOf (sc : List (Nat × Fault)) : Oracle := fun p =>
  match sc.find? fun q => q.1 == p with
  | some q => q.2
  | none => .ok

def parseLayers (s : String) : Option (List Nat) :=
  if s == "-" then some [] else (s.splitOn ".").mapM (·.toNat?)

def b01 (b : Bool) : String := if b then "1" else "0"

def bodyStr (b : Body) : String :=
  if b.isEmpty then "-" else ".".intercalate (b.map toString)

def stateStr : Option CState → String
  | none => "-"
  | some s => s.name

def errStr : Option ErrClass → String
  | none => "nil" | some .gen => "gen" | some .can => "can" | some .dl => "dl"

def summary (r : Report) : String :=
  b01 r.success ++ "," ++ stateStr r.state ++ "," ++ b01 r.err ++ "," ++ bodyStr r.body

def renderIndex (cfg : Cfg) (m : Manifest) (r : IndexResult) : String :=
  let head :=
    if r.e.crashed then "crashed" else
    match r.report with
    | none => s!"e={errStr r.err} s=0 st=- er=0 b=-"
    | some rep => s!"e={errStr r.err} s={b01 rep.success} st={stateStr rep.state} er={b01 rep.err} b={bodyStr rep.body}"
  let sr := match r.st.report? m with
    | none => "-"
    | some rep => summary rep
  let tr := if r.e.trace.isEmpty then "-" else String.ofList r.e.trace.reverse
  s!"{head} sc={b01 (r.st.manifestScanned m cfg.scanners)} sr={sr} n={r.e.pos} t={tr}"

def stepLine (s : State) (l : String) : State × String :=
  if l == "reset" then ({}, "ok") else
  match Driver.words l with
  | ["config", spec] =>
    match parseConfig spec with
    | none => (s, "bad-op")
    | some cfg =>
      let pre := StateToken.preimage (cfg.scanners.map tscanner)
      let toks := s.tokens ++ [pre]
      let k := (toks.findIdx? (· == pre)).getD 0
      ({ wd := (step sem s.wd (.config cfg)).1, tokens := toks }, s!"tok {k}")
  | ["index", ls, sc, d] =>
    match parseLayers ls, parseScript sc with
    | some m, some script =>
      let r := index sem (oracleOf script) s.wd.cfg m s.wd.st (d == "dead")
      ({ s with wd := { s.wd with st := r.st, scans := r.e.scans ++ s.wd.scans } }, renderIndex s.wd.cfg m r)
    | _, _ => (s, "bad-op")
  | ["delete", spec] =>
    match (spec.splitOn ";").mapM parseLayers with
    | none => (s, "bad-op")
    | some ms =>
      let (wd, out) := step sem s.wd (.delete ms)
      let del := if out.deleted.isEmpty then "-" else ";".intercalate (out.deleted.map fun m => bodyStr m)
      ({ s with wd := wd },
       s!"del={del} mf={wd.st.manifests.length} sl={wd.st.scannedLayer.eraseDups.length} ar={wd.st.rows.eraseDups.length}")
  | _ => (s, "bad-op")

def main : IO Unit := do
  Driver.foldLines (← IO.getStdin) (← IO.getStdout) ({} : State) stepLine

end Driver.Indexer
