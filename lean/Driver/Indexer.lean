/-
  Line protocol of the indexer model (shared by the C07 and C08 drivers).

    reset                         -> ok
    config <eco>/<k>/<name>/<ver>[/<flags>],...   (k = p|d|r; `-` = no stub scanner; flags out of NCRVX)
                                  -> tok <index of the first config since reset with the same state token> cf=<Configure calls>
    new <faults> <config>         (faults: `-` or comma list of l s a h = nil Locker / Store / FetchArena / client,
                                   r = RegisterScanners fails, c<k> = the k-th stub scanner-constructor call fails)
                                  -> as config, or `err ct=<constructor calls> rg=<RegisterScanners called> cf=..`
    run <next>/<err>/<flags>;...  (controller.run over scripted state functions: err of - g c d, flags of x p w)
                                  -> ev=<calls, SetIndexReports, waits> e=.. st=.. s=.. er=..
    pindex <l.l.l> <limit> <sched>  (Index with LayerScanConcurrency = limit, the scanner goroutines run under the
                                   schedule: comma list of `M` (main loop visits the next layer) and `<i><f>` (closure
                                   number i, in hand-over order, takes its next step; f = - or a fault letter))
                                  -> as index
    state <config>                -> tok <index>   (libindex.New on a scratch store, only for its State(): any number
                                   of scanners of the four kinds (k = p|d|r|f), names shared across kinds, a (kind,
                                   name) listed by several ecosystems with different versions - the first wins)
    net up|down                   -> ok   (scanners flagged N return *net.AddrError while the network is down)
    index <l.l.l> <pos:f,...> <live|dead>
                                  -> e=.. s=.. st=.. er=.. b=.. sc=.. sr=.. n=.. t=..
    delete <l.l.l;l.l;...>        -> del=<deleted manifests> mf=<manifest rows> sl=<scanned_layer rows> ar=<artifact rows>
-/
import Driver.Util
import ClairModel.Model.Indexer
import ClairModel.Model.IndexerExt
import ClairModel.Model.StateToken
import ClairModel.Model.RunClock
import ClairModel.Model.ScanSched

namespace Driver.Indexer
open ClairModel ClairModel.Indexer

def strSum (s : String) : Nat := s.toUTF8.toList.foldl (fun a b => a + b.toNat) 0

def isWhiteout (s : Scanner) : Bool := s.name == "whiteout" && s.kind == .file

/-- The stub scanners' table (go/internal/ctrl.Items, DefRepoItem). -/
def items (name version : String) (l : Nat) : List Nat :=
  let a := strSum name
  let v := strSum version
  (List.range ((l + a + v) % 3)).map fun i => (2 * l + 3 * a + 5 * v + 7 * i) % 10

/-- `needsNet`: scanners flagged N; `down`: the network is down (such a scanner
    then finds only its first item and returns it with a *net.AddrError, which
    `result.Do` swallows). -/
def scan (needsNet : Scanner → Bool) (down : Bool) (s : Scanner) (l : Layer) : List Row :=
  if isWhiteout s then [] else
  let its0 := items s.name s.version l
  let its := if needsNet s && down then its0.take 1 else its0
  let rows := its.map fun i => (⟨s.kind, i⟩ : Row)
  if s.kind == .pkg && strSum s.name % 2 == 1 && !its.isEmpty then
    rows ++ [⟨.repo, 100 + strSum s.name % 50⟩]
  else rows

/-- The stub coalescer: every package with the first layer it is seen in,
    every distribution, every repository. -/
def coalOne (seen : List Nat) : List LayerArts → List Nat
  | [] => []
  | la :: rest =>
    let fresh := la.pkgs.filter fun p => !seen.contains p
    fresh.map (fun p => p * 1000 + la.layer)
      ++ la.dists.map (fun d => 1000000 + d * 1000)
      ++ (la.pkgRepos ++ la.repos).map (fun r => 2000000 + r * 1000)
      ++ coalOne (fresh ++ seen) rest

def whiteoutEco : Eco := { ps := [], ds := [], rs := [], fs := [{ name := "whiteout", version := "1", kind := .file }] }

def semOf (needsNet : Scanner → Bool) (down : Bool) : Sem where
  scan := scan needsNet down
  real := isWhiteout
  coal := fun _ arts => coalOne [] arts
  merge := fun bs => SortDedup.canon bs.flatten
  realEco := fun e => e == whiteoutEco

/-- A configured stub scanner with its flags. -/
structure Spec where
  eco : Nat
  s : Scanner
  flags : String

def Spec.has (x : Spec) (c : Char) : Bool := x.flags.toList.contains c

def Spec.impl (x : Spec) : Impl :=
  { s := x.s, configurable := x.has 'C', rpc := x.has 'R' && !x.has 'C', haveCfg := x.has 'V', fails := x.has 'X' }

structure State where
  wd : World := {}
  tokens : List (List Nat) := []   -- pre-images, oldest first
  specs : List Spec := []          -- the configuration in force
  netDown : Bool := false

def State.sem (s : State) : Sem :=
  semOf (fun x => s.specs.any fun sp => sp.s == x && sp.has 'N') s.netDown

/-- The scanners `configAndFilter` dropped. -/
def State.off (s : State) (x : Scanner) : Bool :=
  s.specs.any fun sp => sp.s == x && !(configOne sp.impl).2

def parseKind : String → Option Tag
  | "p" => some .pkg | "d" => some .dist | "r" => some .repo | "f" => some .file | _ => none

def parseSpec (p : String) : Option Spec :=
  match p.splitOn "/" with
  | [e, k, n, v] => do pure ⟨(← e.toNat?), { name := n, version := v, kind := (← parseKind k) }, ""⟩
  | [e, k, n, v, f] => do pure ⟨(← e.toNat?), { name := n, version := v, kind := (← parseKind k) }, f⟩
  | _ => none

def necos (specs : List Spec) : Nat := specs.foldl (fun a p => max a (p.eco + 1)) 0

/-- `libindex.New`: the stub ecosystems in index order, then the whiteout ecosystem. -/
def mkCfg (specs : List Spec) : Cfg :=
  let n := necos specs
  let ecos := (List.range n).map fun i =>
    let mine := (specs.filter fun p => p.eco == i).map (·.s)
    ({ ps := mine.filter (·.kind == .pkg), ds := mine.filter (·.kind == .dist),
       rs := mine.filter (·.kind == .repo), fs := mine.filter (·.kind == .file) } : Eco)
  ecos ++ [whiteoutEco]

def parseConfig (s : String) : Option (List Spec) :=
  if s == "-" then some [] else (s.splitOn ",").mapM parseSpec

def kindLetter : Tag → String
  | .pkg => "p" | .dist => "d" | .repo => "r" | .file => "f"

def b01 (b : Bool) : String := if b then "1" else "0"

def eventStr (e : CfgEvent) : String :=
  s!"{kindLetter e.s.kind}.{e.s.name}.{if e.rpc then "R" else "C"}.{b01 e.ownFunc}.{b01 e.client}"

def eventsStr (es : List CfgEvent) : String :=
  if es.isEmpty then "-" else ",".intercalate (es.map eventStr)

/-- The configured stub scanners as `configAndFilter` meets them: package,
    distribution, repository scanners, each list in ecosystem order,
    de-duplicated by (kind, name). -/
def implsOf (specs : List Spec) : List Impl :=
  let ordered := [Tag.pkg, Tag.dist, Tag.repo].flatMap fun k =>
    (List.range (necos specs)).flatMap fun i => specs.filter fun p => p.eco == i && p.s.kind == k
  let keep := dedupeByName (ordered.map (·.s))
  keep.filterMap fun x => (ordered.find? fun p => p.s == x).map Spec.impl

structure NewFaults where
  locker : Bool := true
  store : Bool := true
  arena : Bool := true
  client : Bool := true
  register : Bool := false
  ctor : Option Nat := none

def parseNewFaults (s : String) : Option NewFaults :=
  if s == "-" then some {} else
  (s.splitOn ",").foldlM (fun (a : NewFaults) f =>
    match f with
    | "l" => some { a with locker := false }
    | "s" => some { a with store := false }
    | "a" => some { a with arena := false }
    | "h" => some { a with client := false }
    | "r" => some { a with register := true }
    | _ => if f.startsWith "c" then (f.drop 1).toNat?.map fun k => { a with ctor := some k } else none) {}

def kindName : Tag → String
  | .pkg => "package" | .dist => "distribution" | .repo => "repository" | .file => "file"

def bytesOf (s : String) : List Nat := s.toUTF8.toList.map (·.toNat)

def tscanner (s : Scanner) : StateToken.TScanner :=
  { name := bytesOf s.name, version := bytesOf s.version, kind := bytesOf (kindName s.kind) }

def parseFault : String → Option Fault
  | "e" => some .err | "c" => some .canceled | "d" => some .deadline | "x" => some .cancelCtx
  | "a" => some .cancelAfter | "k" => some .crash | "E" => some .commitErr | _ => none

def parseScript (s : String) : Option (List (Nat × Fault)) :=
  if s == "-" then some [] else
  (s.splitOn ",").mapM fun p =>
    match p.splitOn ":" with
    | [n, f] => do pure ((← n.toNat?), (← parseFault f))
    | _ => none

def oracleOf (sc : List (Nat × Fault)) : Oracle := fun p =>
  match sc.find? fun q => q.1 == p with
  | some q => q.2
  | none => .ok

def parseLayers (s : String) : Option (List Nat) :=
  if s == "-" then some [] else (s.splitOn ".").mapM (·.toNat?)

def bodyStr (b : Body) : String :=
  if b.isEmpty then "-" else ".".intercalate (b.map toString)

def stateStr : Option CState → String
  | none => "-"
  | some s => s.name

def errStr : Option ErrClass → String
  | none => "nil" | some .gen => "gen" | some .can => "can" | some .dl => "dl"

def summary (r : Report) : String :=
  b01 r.success ++ "," ++ stateStr r.state ++ "," ++ b01 r.err ++ "," ++ bodyStr r.body

def renderIndex (cfg : Cfg) (m : Manifest) (r : IndexResult) : String :=
  let head :=
    if r.e.crashed then "crashed" else
    match r.report with
    | none => s!"e={errStr r.err} s=0 st=- er=0 b=-"
    | some rep => s!"e={errStr r.err} s={b01 rep.success} st={stateStr rep.state} er={b01 rep.err} b={bodyStr rep.body}"
  let sr := match r.st.report? m with
    | none => "-"
    | some rep => summary rep
  let tr := if r.e.trace.isEmpty then "-" else String.ofList r.e.trace.reverse
  s!"{head} sc={b01 (r.st.manifestScanned m cfg.scanners)} sr={sr} n={r.e.pos} t={tr}"

/-- `libindex.New` with the given arguments on the world's store; on success
    the world is reconfigured. -/
def newLine (s : State) (nf : NewFaults) (specs : List Spec) : State × String :=
  let out := newLib { locker := nf.locker, store := nf.store, arena := nf.arena, client := nf.client,
                      ctorErr := nf.ctor, nctor := 3 * necos specs, registerErr := nf.register, impls := implsOf specs }
  if out.ok then
    let cfg := mkCfg specs
    let pre := StateToken.preimage (cfg.scanners.map tscanner)
    let toks := s.tokens ++ [pre]
    let k := (toks.findIdx? (· == pre)).getD 0
    ({ s with wd := { s.wd with cfg := cfg }, tokens := toks, specs := specs }, s!"tok {k} cf={eventsStr out.events}")
  else
    (s, s!"err ct={out.ctorCalls} rg={b01 out.registered} cf={eventsStr out.events}")

def parseState (n : String) : Option CState :=
  [CState.terminal, .checkManifest, .fetchLayers, .scanLayers, .coalesce, .indexManifest, .indexError, .indexFinished].find?
    fun c => c.name == n

def parseIter (p : String) : Option RunClock.Iter :=
  match p.splitOn "/" with
  | [n, e, f] => do
    let next ← parseState n
    let err ← match e with
      | "-" => some none | "g" => some (some ErrClass.gen) | "c" => some (some ErrClass.can) | "d" => some (some ErrClass.dl)
      | _ => none
    pure { next := next, err := err, cancel := f.toList.contains 'x', persistFails := f.toList.contains 'p',
           cancelInWait := f.toList.contains 'w' }
  | _ => none

def evStr : RunClock.Ev → String
  | .call c => "c:" ++ c.name
  | .persist st su er ok => s!"p:{stateStr st},{b01 su},{b01 er},{b01 ok}"
  | .wait j => if j then "w:j" else "w:0"

def runLine (spec : String) : String :=
  match (if spec == "-" then some [] else (spec.splitOn ";").mapM parseIter) with
  | none => "bad-op"
  | some script =>
    let (evs, st, r) := RunClock.run (script.length + 2) script {}
    let ev := if evs.isEmpty then "-" else " ".intercalate (evs.map evStr)
    s!"ev={ev} e={errStr r} st={stateStr st.state} s={b01 st.success} er={b01 st.errSet}"

def parseGrant (p : String) : Option ScanSched.Grant :=
  if p == "M" then some { who := .main } else
  let digits := p.toList.takeWhile Char.isDigit
  let rest := String.ofList (p.toList.dropWhile Char.isDigit)
  match (String.ofList digits).toNat?, rest with
  | some i, "-" => some { who := .th i }
  | some i, f => (parseFault f).map fun x => { who := .th i, f := x }
  | none, _ => none

def parseSched (s : String) : Option (List ScanSched.Grant) :=
  if s == "-" then some [] else (s.splitOn ",").mapM parseGrant

def stepLine (s : State) (l : String) : State × String :=
  if l == "reset" then ({}, "ok") else
  match Driver.words l with
  | ["config", spec] =>
    match parseConfig spec with
    | none => (s, "bad-op")
    | some specs => newLine s {} specs
  | ["new", faults, spec] =>
    match parseNewFaults faults, parseConfig spec with
    | some nf, some specs => newLine s nf specs
    | _, _ => (s, "bad-op")
  | ["net", x] => ({ s with netDown := x == "down" }, "ok")
  | ["state", spec] =>
    match parseConfig spec with
    | none => (s, "bad-op")
    | some specs =>
      -- EcosystemsToScanners + MergeVS: by kind, ecosystem by ecosystem, first scanner of a name per kind
      let cfg := mkCfg specs
      let vs := dedupeByName (cfg.flatMap (·.ps) ++ cfg.flatMap (·.ds) ++ cfg.flatMap (·.rs) ++ cfg.flatMap (·.fs))
      let pre := StateToken.preimage (vs.map tscanner)
      let toks := s.tokens ++ [pre]
      let k := (toks.findIdx? (· == pre)).getD 0
      ({ s with tokens := toks }, s!"tok {k}")
  | ["run", spec] => (s, runLine spec)
  | ["pindex", ls, lim, sc] =>
    match parseLayers ls, lim.toNat?, parseSched sc with
    | some m, some limit, some sched =>
      let r := ScanSched.indexSched sched limit s.off s.sem (fun _ => .ok) s.wd.cfg m s.wd.st false
      ({ s with wd := { s.wd with st := r.st, scans := r.e.scans ++ s.wd.scans } }, renderIndex s.wd.cfg m r)
    | _, _, _ => (s, "bad-op")
  | ["index", ls, sc, d] =>
    match parseLayers ls, parseScript sc with
    | some m, some script =>
      let r := indexOff s.off s.sem (oracleOf script) s.wd.cfg m s.wd.st (d == "dead")
      ({ s with wd := { s.wd with st := r.st, scans := r.e.scans ++ s.wd.scans } }, renderIndex s.wd.cfg m r)
    | _, _ => (s, "bad-op")
  | ["delete", spec] =>
    match (spec.splitOn ";").mapM parseLayers with
    | none => (s, "bad-op")
    | some ms =>
      let (wd, out) := step s.sem s.wd (.delete ms)
      let del := if out.deleted.isEmpty then "-" else ";".intercalate (out.deleted.map fun m => bodyStr m)
      ({ s with wd := wd },
       s!"del={del} mf={wd.st.manifests.length} sl={wd.st.scannedLayer.eraseDups.length} ar={wd.st.rows.eraseDups.length}")
  | _ => (s, "bad-op")

def main : IO Unit := do
  Driver.foldLines (← IO.getStdin) (← IO.getStdout) ({} : State) stepLine

end Driver.Indexer
