import Driver.Util
import ClairModel.Model.Match
import ClairModel.Model.MatchProto
import ClairModel.Model.EnrichProto
import ClairModel.Model.MatchFan
import ClairModel.Model.MatchSetup
import ClairModel.Model.MatchStore

/-!
  Line-protocol driver of the C05 functional model.

  A scenario is built by `pkg` / `env` / `dist` / `repo` / `row` / `matcher` /
  `enricher` lines (each answered `ok`) and evaluated by a `scan` line.  The
  scripted matcher, enricher and store of the Go harness (go/internal/c05) are
  re-stated here as functions and handed to the generic model.
-/
namespace Driver.C05
open ClairModel.Match
open ClairModel.MatchStore (Row storeGet)
open ClairModel.MatchSetup (Factory Options libvulnNew)

structure Scenario where
  pkgs : List Pkg := []
  envs : List (Nat × List Env) := []
  dists : List Nat := []
  repos : List Nat := []
  rows : List Row := []
  matchers : List Matcher := []
  enrichers : List Enricher := []
  /-- state of the protocol machine (lines starting with `p`) -/
  proto : ClairModel.MatchProto.State := ClairModel.MatchProto.init 1 []
  /-- state of the enrichment-phase machine (lines starting with `e`) -/
  eproto : ClairModel.EnrichProto.State := ClairModel.EnrichProto.init 1 []
  /-- state of the machine of `Match` (lines starting with `f`) -/
  fan : ClairModel.MatchFan.State := ClairModel.MatchFan.init 1 0
  /-- the registry: factories building matcher labels (`m<i>` = matcher i of the
      scenario, `d:<name>` = a default matcher, uninterested in every record) -/
  factories : List (Factory String) := []
  /-- out-of-tree matchers (indices); `none`: all matchers of the scenario -/
  oot : Option (List Nat) := none
  /-- outcome of the last `new` line -/
  constructed : Option (List String) := none

/-! ### the scripted matcher (go/internal/c05 `scriptMatcher`) -/

def inOrAll (xs : List Nat) (x : Nat) : Bool := xs.isEmpty || xs.contains x

def scriptFilter (names dists repos : List Nat) (r : Record) : Bool :=
  inOrAll names r.name && inOrAll dists r.dist && inOrAll repos r.repo

def scriptVulnerable (salt thresh verr : Nat) (r : Record) (v : Vuln) : Option Bool :=
  let h := (salt + 3 * r.pkg + 5 * r.dist + 7 * r.repo + 11 * v.id) % 16
  if h == verr then none else some (h % 8 < thresh)

/-! ### parsing -/

def natList (s : String) : Option (List Nat) :=
  -- `-` the empty (nil) slice, `_` an empty slice that is not nil: the same list to the model
  if s == "-" || s == "_" || s == "" then some [] else (s.splitOn ",").mapM String.toNat?

def kv (ws : List String) (k : String) : Option String :=
  ws.findSome? fun w => if w.startsWith (k ++ "=") then some (String.ofList (w.toList.drop (k.length + 1))) else none

def kvNat (ws : List String) (k : String) : Option Nat := (kv ws k).bind String.toNat?
def kvList (ws : List String) (k : String) : Option (List Nat) := (kv ws k).bind natList
def kvBool (ws : List String) (k : String) : Option Bool := (kvNat ws k).map (· != 0)

def parseVuln (s : String) : Option Vuln :=
  match s.splitOn "." with
  | [a, b] => do pure ⟨← a.toNat?, ← b.toNat?⟩
  | _ => none

/-- `pkg:id.pl+id.pl;pkg:…`, `-` for the empty map -/
def parseMOut (s : String) : Option MOut :=
  if s == "-" then some [] else
  (s.splitOn ";").mapM fun ent =>
    match ent.splitOn ":" with
    | [p, vs] => do
      let p ← p.toNat?
      let vs ← if vs == "" then some [] else (vs.splitOn "+").mapM parseVuln
      pure (p, vs)
    | _ => none

def parseKind (s : String) : Option Kind :=
  match s with
  | "plain" => some .plain
  | "vf" => some (.versionFilter false)
  | "auth" => some (.versionFilter true)
  | "remote" => some .remote
  | _ => none

def parseMatcher (ws : List String) : Option Matcher := do
  let kind ← (kv ws "kind").bind parseKind
  let names ← kvList ws "names"
  let dists ← kvList ws "dists"
  let repos ← kvList ws "repos"
  let q ← kvList ws "q"
  let salt ← kvNat ws "salt"
  let thresh ← kvNat ws "thresh"
  let verr ← kvNat ws "verr"
  let cancel ← kvBool ws "cancel"
  let rs ← kv ws "remote"
  let remote : Option MOut ← if rs == "err" then some none else (parseMOut rs).map some
  pure { kind := kind, filter := scriptFilter names dists repos, query := q,
         vulnerable := scriptVulnerable salt thresh verr, remote := fun _ => remote,
         cancelsAtGet := cancel }

def parseEnricher (ws : List String) : Option Enricher := do
  let kind ← kvNat ws "kind"
  let msgs ← kvList ws "msgs"
  let fail ← kvBool ws "fail"
  let sees ← kvBool ws "sees"
  pure { kind := kind, enrich := fun r =>
    if fail then none else some (msgs.map fun m => if sees then m + 1000 * r.vulns.length else m) }

/-! ### matcher construction lines -/

def strList (s : String) : List String := if s == "-" || s == "" then [] else s.splitOn ","

def labelsOf (s : String) : Option (List String) :=
  if s == "err" then none else some ((strList s).map fun i => "m" ++ i)

def parseFactory (ws : List String) : Option (Factory String) := do
  let name ← kv ws "name"
  let cfgable ← kvBool ws "cfgable"
  let cfgok ← kvBool ws "cfgok"
  let plain ← kv ws "plain"
  let cfgd ← kv ws "cfgd"
  pure { name := name, configurable := cfgable, configureOk := cfgok,
         build := fun c => if c then labelsOf cfgd else labelsOf plain }

def parseDefault (ws : List String) : Option (Factory String) := do
  let name ← kv ws "name"
  let cfgable ← kvBool ws "cfgable"
  let cfgok ← kvBool ws "cfgok"
  let mname ← kv ws "mname"
  pure { name := name, configurable := cfgable, configureOk := cfgok, build := fun _ => some ["d:" ++ mname] }

def parseNames (s : String) : Option (List String) := if s == "nil" then none else some (strList s)

/-- a default matcher of the registry: not interested in any record of a scenario -/
def uninterested : Matcher :=
  { kind := .plain, filter := fun _ => false, query := [], vulnerable := fun _ _ => some false, remote := fun _ => none }

def matcherOfLabel (ms : List Matcher) (l : String) : Matcher :=
  if l.startsWith "m" then
    match (String.ofList (l.toList.drop 1)).toNat? with
    | some i => ms.getD i uninterested
    | none => uninterested
  else uninterested

/-! ### canonical rendering (the harness sorts the same way) -/

def insertBy {α : Type} (le : α → α → Bool) (x : α) : List α → List α
  | [] => [x]
  | y :: ys => if le x y then x :: y :: ys else y :: insertBy le x ys

def sortBy {α : Type} (le : α → α → Bool) (xs : List α) : List α := xs.foldr (insertBy le) []

def orDash (s : String) : String := if s == "" then "-" else s

def renderV (r : Report) : String :=
  orDash (",".intercalate ((sortBy (fun a b => a.1 ≤ b.1) r.vulns).map fun kv => s!"{kv.1}.{kv.2.payload}"))

def renderLists (m : List (Nat × List Nat)) : String :=
  orDash (";".intercalate ((sortBy (fun a b => a.1 ≤ b.1) m).map fun kv =>
    s!"{kv.1}:" ++ "+".intercalate ((sortBy (fun a b => decide (a ≤ b)) kv.2).map toString)))

def recLe (a b : Record) : Bool :=
  if a.pkg != b.pkg then a.pkg < b.pkg
  else if a.name != b.name then a.name < b.name
  else if a.dist != b.dist then a.dist < b.dist
  else a.repo ≤ b.repo

/-- the records of `IndexRecords`, sorted (the Go map iteration order is not an observation) -/
def renderRecords (rs : List Record) : String :=
  orDash (",".intercalate ((sortBy recLe rs).map fun r => s!"{r.pkg}.{r.name}.{r.dist}.{r.repo}"))

def renderReport (r : Report) : String := s!"V={renderV r} P={renderLists r.pkgVulns}"

/-! ### the step function -/

def scenarioIR (s : Scenario) : IndexReport :=
  { packages := s.pkgs, envs := s.envs, dists := s.dists, repos := s.repos }

def strLe (a b : String) : Bool := a < b || a == b

def scan (s : Scenario) (api ctx : String) : String :=
  let recs := indexRecords (scenarioIR s)
  let store := storeGet s.rows
  let cancelled := ctx == "cancelled"
  if api == "new" then
    match s.constructed with
    | none => "new-err"
    | some labels =>
      match enrichedMatch cancelled store (labels.map (matcherOfLabel s.matchers)) s.enrichers recs with
      | none => "err"
      | some (r, em) => s!"ok {renderReport r} E={renderLists em}"
  else if api == "match" then
    let (r, n) := matchAll cancelled store s.matchers recs
    s!"ok {renderReport r} errs={n}"
  else
    match enrichedMatch cancelled store s.matchers s.enrichers recs with
    | none => "err"
    | some (r, em) => s!"ok {renderReport r} E={renderLists em}"

/-! ### protocol-machine lines -/

def parseProtoOp (ws : List String) : Option ClairModel.MatchProto.Op :=
  match ws with
  | ["handoff", w] => w.toNat?.map .handoff
  | ["senderBreak"] => some .senderBreak
  | ["closeM"] => some .closeM
  | ["check", w, b] => do pure (.check (← w.toNat?) ((← b.toNat?) != 0))
  | ["finish", w, b] => do pure (.finish (← w.toNat?) ((← b.toNat?) != 0))
  | ["sendV", w] => w.toNat?.map .sendV
  | ["workerExit", w] => w.toNat?.map .workerExit
  | ["senderWait"] => some .senderWait
  | ["closeV"] => some .closeV
  | ["collect"] => some .collect
  | ["collectorEnd"] => some .collectorEnd
  | ["cancelParent"] => some .cancelParent
  | _ => none

def parseFanOp (ws : List String) : Option ClairModel.MatchFan.Op :=
  match ws with
  | ["spawn"] => some .spawn
  | ["finish", i, b] => do pure (.finish (← i.toNat?) ((← b.toNat?) != 0))
  | ["send", i] => i.toNat?.map .send
  | ["fanWait"] => some .fanWait
  | ["closeC"] => some .closeC
  | ["collect"] => some .collect
  | ["collectorEnd"] => some .collectorEnd
  | _ => none

def renderFOut : ClairModel.MatchFan.Out → String
  | .ok => "ok"
  | .disabled => "disabled"
  | .panic => "panic"

def parseEnrichOp (ws : List String) : Option ClairModel.EnrichProto.Op :=
  match ws with
  | ["handoff", w] => w.toNat?.map .handoff
  | ["senderBreak"] => some .senderBreak
  | ["closeE"] => some .closeE
  | ["enrich", w, b] => do pure (.enrich (← w.toNat?) ((← b.toNat?) != 0))
  | ["sendR", w] => w.toNat?.map .sendR
  | ["workerCancel", w] => w.toNat?.map .workerCancel
  | ["workerExit", w] => w.toNat?.map .workerExit
  | ["collect"] => some .collect
  | ["collectorEnd"] => some .collectorEnd
  | ["cancelParent"] => some .cancelParent
  | _ => none

def renderEOut : ClairModel.EnrichProto.Out → String
  | .ok => "ok"
  | .disabled => "disabled"
  | .panic => "panic"

def renderOut : ClairModel.MatchProto.Out → String
  | .ok => "ok"
  | .disabled => "disabled"
  | .panic => "panic"

def b01 (b : Bool) : String := if b then "1" else "0"

def stepLine (s : Scenario) (l : String) : Scenario × String :=
  if l == "reset" then ({}, "ok") else
  match Driver.words l with
  | ["p-init", lim, n] =>
    match lim.toNat?, n.toNat? with
    | some lim, some n => ({ s with proto := ClairModel.MatchProto.init lim (List.range n) }, "ok")
    | _, _ => (s, "bad-op")
  | "p" :: ws =>
    match parseProtoOp ws with
    | some op =>
      let (p', o) := ClairModel.MatchProto.step s.proto op
      ({ s with proto := p' }, renderOut o)
    | none => (s, "bad-op")
  | ["e-init", lim, n] =>
    match lim.toNat?, n.toNat? with
    | some lim, some n => ({ s with eproto := ClairModel.EnrichProto.init lim (List.range n) }, "ok")
    | _, _ => (s, "bad-op")
  | "e" :: ws =>
    match parseEnrichOp ws with
    | some op =>
      let (p', o) := ClairModel.EnrichProto.step s.eproto op
      ({ s with eproto := p' }, renderEOut o)
    | none => (s, "bad-op")
  | ["f-init", lim, n] =>
    match lim.toNat?, n.toNat? with
    | some lim, some n => ({ s with fan := ClairModel.MatchFan.init lim n }, "ok")
    | _, _ => (s, "bad-op")
  | "f" :: ws =>
    match parseFanOp ws with
    | some op =>
      let (p', o) := ClairModel.MatchFan.step s.fan op
      ({ s with fan := p' }, renderFOut o)
    | none => (s, "bad-op")
  | ["f-final"] =>
    (s, s!"final={b01 (ClairModel.MatchFan.final s.fan)} errs={s.fan.errs.length} collected={s.fan.collected.length}")
  | "factory" :: ws =>
    match parseFactory ws with
    | some f => ({ s with factories := s.factories ++ [f] }, "ok")
    | none => (s, "bad-op")
  | "regdefault" :: ws =>
    match parseDefault ws with
    | some f => ({ s with factories := s.factories ++ [f] }, "ok")
    | none => (s, "bad-op")
  | ["oot", l] =>
    match natList l with
    | some l => ({ s with oot := some l }, "ok")
    | none => (s, "bad-op")
  | "new" :: ws =>
    match kvBool ws "store", kvBool ws "client", (kv ws "ret").bind String.toInt?, kv ws "names", kv ws "cfgs" with
    | some st, some cl, some ret, some names, some cfgs =>
      let oot := (s.oot.getD (List.range s.matchers.length)).map fun i => s!"m{i}"
      let o : Options String := { hasStore := st, hasClient := cl, updateRetention := ret,
                                  matcherNames := parseNames names, matcherConfigs := strList cfgs, matchers := oot }
      let res := libvulnNew s.factories o
      ({ s with constructed := res },
        match res with
        | none => "err"
        | some ls => "ok " ++ orDash (",".intercalate (sortBy strLe ls)))
    | _, _, _, _, _ => (s, "bad-op")
  | ["e-final"] =>
    (s, s!"final={b01 (ClairModel.EnrichProto.final s.eproto)} err={b01 s.eproto.workerErr} collected={s.eproto.collected.length} skipped={s.eproto.skipped.length}")
  | ["p-final"] =>
    (s, s!"final={b01 (ClairModel.MatchProto.final s.proto)} err={b01 s.proto.senderErr} collected={s.proto.collected.length}")
  | ["pkg", k, i, n] =>
    match k.toNat?, i.toNat?, n.toNat? with
    | some k, some i, some n => ({ s with pkgs := s.pkgs ++ [⟨k, i, n⟩] }, "ok")
    | _, _, _ => (s, "bad-op")
  | ["env", p, d, rs] =>
    match p.toNat?, d.toNat?, natList rs with
    | some p, some d, some rs => ({ s with envs := appendAt p [⟨d, rs⟩] s.envs }, "ok")
    | _, _, _ => (s, "bad-op")
  | ["dist", d] =>
    match d.toNat? with
    | some d => ({ s with dists := s.dists ++ [d] }, "ok")
    | none => (s, "bad-op")
  | ["repo", d] =>
    match d.toNat? with
    | some d => ({ s with repos := s.repos ++ [d] }, "ok")
    | none => (s, "bad-op")
  | ["row", i, p, n, d, r, f, g] =>
    match i.toNat?, p.toNat?, n.toNat?, d.toNat?, r.toNat?, f.toNat?, g.toNat? with
    | some i, some p, some n, some d, some r, some f, some g =>
      ({ s with rows := s.rows ++ [⟨⟨i, p⟩, n, d, r, f != 0, g != 0⟩] }, "ok")
    | _, _, _, _, _, _, _ => (s, "bad-op")
  | "matcher" :: ws =>
    match parseMatcher ws with
    | some m => ({ s with matchers := s.matchers ++ [m] }, "ok")
    | none => (s, "bad-op")
  | "enricher" :: ws =>
    match parseEnricher ws with
    | some e => ({ s with enrichers := s.enrichers ++ [e] }, "ok")
    | none => (s, "bad-op")
  | ["records"] => (s, renderRecords (indexRecords (scenarioIR s)))
  | "scan" :: api :: ctx :: _ => (s, scan s api ctx)
  | _ => (s, "bad-op")

end Driver.C05

def main : IO Unit := do
  Driver.foldLines (← IO.getStdin) (← IO.getStdout) ({} : Driver.C05.Scenario) Driver.C05.stepLine
