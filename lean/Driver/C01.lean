import Driver.Util
import ClairModel.Model.Coalesce
import ClairModel.Model.LayerFS

/-
  Line protocol of C01 (stateless; one scenario per line):

    co <kind> <arts>                      one coalescer on one artifact list
    idx <layers> <kind>=<arts> ...        all coalescers, MergeSR, whiteout Resolver, IndexRecords
    del <hex fp> <hex whiteout path>      fileIsDeleted
    path <hex p>                          filepath.Base / Dir / Clean
    flat <stack>                          flatten of a layer stack (Model/LayerFS.lean)
    e2e <dbs> <table> <stack>             Tame?, indexModel and scanImage on the abstraction of a real history

  <arts>   = `-` | layer `|` layer ...
  layer    = hash `;` pkgs `;` dists `;` repos `;` files          (items separated by `,`)
  pkg      = id~name~version~kind~arch~src~db~fp     dist = id     repo = id~name~key~uri
  file     = path~kind
-/
namespace Driver.C01
open ClairModel.Coalesce

def items (s : String) : List String := if s = "" then [] else s.splitOn ","

def parsePkg (s : String) : Option Pkg :=
  match s.splitOn "~" with
  | [id, name, version, kind, arch, src, db, fp] => some { id, name, version, kind, arch, src, db, fp }
  | _ => none

def parseRepo (s : String) : Option Repo :=
  match s.splitOn "~" with
  | [id, name, key, uri] => some { id, name, key, uri }
  | _ => none

def parseFile (s : String) : Option File :=
  match s.splitOn "~" with
  | [path, kind] => some { path, kind }
  | _ => none

def parseLayer (s : String) : Option Layer :=
  match s.splitOn ";" with
  | [h, ps, ds, rs, fs] => do
    let pkgs ← (items ps).mapM parsePkg
    let repos ← (items rs).mapM parseRepo
    let files ← (items fs).mapM parseFile
    pure { hash := h, pkgs, dists := (items ds).map fun d => { id := d }, repos, files }
  | _ => none

def parseArts (s : String) : Option (List Layer) :=
  if s = "-" then some [] else (s.splitOn "|").mapM parseLayer

def parseKind : String → Option Kind
  | "linux" => some .linux
  | "rhel" => some .rhel
  | "lang" => some .lang
  | "gobin" => some .gobin
  | "wh" => some .wh
  | _ => none

def sortStrings (xs : List String) : List String := xs.mergeSort fun a b => !(b < a)

def renderEnv (e : Env) : String := s!"{e.db}~{e.intro}~{e.distId}~{"+".intercalate e.repoIds}"

def renderPkg (withDb : Bool) (p : Pkg) : String :=
  s!"{p.id}~{p.name}~{p.version}~{p.kind}~{p.arch}~{p.src}~{if withDb then p.db else "*"}~{p.fp}"

def renderReport (withDb sortEnvs : Bool) (r : Report) : String :=
  let pk := r.pkgs.map fun (id, p) =>
    let es := ((aget id r.envs).getD []).map renderEnv
    let es := if sortEnvs then sortStrings es else es
    s!"{id}={renderPkg withDb p}|{";".intercalate es}"
  let ds := r.dists.map fun (id, d) => s!"{id}={d.id}"
  let rs := r.repos.map fun (id, x) => s!"{id}={x.id}~{x.name}~{x.key}~{x.uri}"
  let fs := r.files.map fun (h, f) => s!"{h}~{f.path}~{f.kind}"
  s!"P[{",".intercalate (sortStrings pk)}] E{r.envs.length} D[{",".intercalate (sortStrings ds)}] R[{",".intercalate (sortStrings rs)}] F[{",".intercalate (sortStrings fs)}]"

def renderRes (withDb sortEnvs : Bool) : Res → String
  | .ok r => renderReport withDb sortEnvs r
  | .error .err => "err"
  | .error .panic => "panic"

def renderRecords (r : Report) : String :=
  let rs := (indexRecords r).map fun x =>
    s!"{x.pkg.id}/{match x.dist with | some d => d.id | none => "nil"}/{match x.repo with | some d => d.id | none => "nil"}"
  "rec[" ++ ",".intercalate (sortStrings rs) ++ "]"

def parseEco (s : String) : Option (Kind × List Layer) :=
  match s.splitOn "=" with
  | [k, a] => do pure (← parseKind k, ← parseArts a)
  | _ => none

def hexStr (s : String) : Option String := (Driver.unhex s).map Driver.bytesToString
def strHex (s : String) : String := Driver.hex (s.toList.map fun c => UInt8.ofNat c.toNat)

def stepLine (_ : Unit) (l : String) : Unit × String :=
  ((), match Driver.words l with
  | ["reset"] => "ok"
  | ["co", k, a] =>
    match parseKind k, parseArts a with
    | some k, some arts => renderRes (k != .linux) (k == .linux) (coalesceKind k arts)
    | _, _ => "bad-op"
  | "idx" :: ls :: ecos =>
    match ecos.mapM parseEco with
    | some es =>
      (match indexCoalesce (if ls = "-" then [] else ls.splitOn ",") es with
       | some r => renderReport false true r ++ " " ++ renderRecords r
       | none => "fail")
    | none => "bad-op"
  | ["del", fp, wh] =>
    match hexStr fp, hexStr wh with
    | some fp, some wh => toString (fileIsDeleted fp wh)
    | _, _ => "bad-op"
  | ["flat", s] => ClairModel.LayerFS.flatLine s
  | ["e2e", osdbs, rheldbs, fecos, table, stack] => ClairModel.LayerFS.e2eLine osdbs rheldbs fecos table stack
  | ["path", p] =>
    match hexStr p with
    | some p => s!"{strHex (base p)} {strHex (dir p)} {strHex (clean p)}"
    | none => "bad-op"
  | _ => "bad-op")

end Driver.C01

def main : IO Unit := do
  Driver.foldLines (← IO.getStdin) (← IO.getStdout) () Driver.C01.stepLine
