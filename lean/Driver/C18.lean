import Driver.Util
import ClairModel.Model.Cvss
import ClairModel.Model.CvssEnrich

/-
  Line protocol of property C18 (stateless; `reset` answers `ok`).

    v2 <hex>           -> err | ok <printed> <score*10> <rating>
    v3 <hex>           -> err | ok <printed> <score*10> <rating>
    v4 <hex>           -> err | ok <printed> <macrovector> <macrovector score*10|-> <no-base-impact 0|1>
    s4 <hex> <k>       -> ok | bad <score*10>        (k = the implementation's score*10: is it the
                                                      rounding of the exact value, either neighbour
                                                      allowed when the exact value is a tie of math.Round)
    d2 <hex> <k>       -> tie <score*10> | notie <score*10>   (some math.Round argument is exactly half-way)
    d3 <hex> <k>       -> tie <score*10> | notie <score*10>   (v3.0: some Roundup argument is exactly a tenth)
    o2 <hex> / o3 <hex>-> err | <claircore.Severity 0..5>
    rt <va> <hexA> <vb> <hexB> -> err | ok <printed A> <printed B>   (printing is a function of the vector:
                                                      the implementation side shows the bytes MarshalText
                                                      returned for A after B was marshalled as well)
    cv <hex text>      -> ok <m1>,<m2>,… | ok -          (enricher.CVERegexp.FindAllString(text, -1), each match in hex)
    en <db> <vulns>    -> err | ok <id>=<blob>,<blob>;… | <key>/<key>/…
                          db    = rec;rec;…   rec  = tag+tag+…:<hex blob>        (`-` = no record)
                          vulns = v;v;…       v    = id:<hex description>:<hex name>:<hex links>
                          the getter answers a query with the records (db order) that carry one of
                          the queried tags and fails when the query holds the tag CVE-1111-1111;
                          ids in the answer sorted, keys = the sorted cache keys of the getter calls made
    fd <items>         -> ok <id>=<hex raw>;…            (`-` = nothing)
                          item = id:a | id:n | id:o<hex raw>   (no cvssV3 member / null / the object)
-/
namespace Driver.C18
open ClairModel.Cvss

def toBytes (h : String) : Option (List Nat) := (Driver.unhex h).map fun bs => bs.map (·.toNat)

def str (bs : List Nat) : String := String.ofList (bs.map Char.ofNat)

def showScore : Option Int → String
  | none => "nan"
  | some k => toString k

def digits (xs : List Nat) : String := String.join (xs.map toString)

/-- v2: some `v2Round` argument is exactly half-way between two tenths -/
def v2Tie (v : Vec) : Bool :=
  match v2Vals v with
  | none => false
  | some w =>
    let env := v2Environmental v
    let exploitability := Q.ofInt 20 * w.av * w.ac * w.au
    let impact := v2Impact w env
    let fImpact := if impact.isZero then Q.ofInt 0 else Q.dec 1176 1000
    let b := (((Q.dec 6 10 * impact) + (Q.dec 4 10 * exploitability) - Q.dec 15 10) * fImpact) * ten
    let base10 := v2Base10 w env
    let t := (tenth base10 * w.e * w.rl * w.rc) * ten
    let t10 := v2Temporal10 w base10
    let e := ((tenth t10 + (ten - tenth t10) * w.cdp) * w.td) * ten
    b.isHalf || t.isHalf || e.isHalf

/-- v3.0: the argument of the temporal or of the base Roundup is exactly a
    one-decimal number -/
def v3Tie (v : Vec) : Bool :=
  let env := v3Environmental v
  let scope := v3Scope v env
  match v3Iss v env with
  | none => false
  | some iss =>
    match v3Impact v.ver env scope iss, v3Exploitability v env, v3Val v 8, v3Val v 9, v3Val v 10 with
    | some impact, some expl, some e, some rl, some rc =>
      if Q.le impact (Q.ofInt 0) then false else
      let scopeMod : Q := if scope = cC then Q.dec 108 100 else one
      let b := Q.min (scopeMod * (impact + expl)) ten
      let base10 := v3Roundup10 v.ver b
      (b * ten).isInt || ((tenth base10 * e * rl * rc) * ten).isInt
    | _, _, _, _, _ => false

/-- parse by major version and print -/
def reprint (ver : String) (s : List Nat) : Option String :=
  if ver == "2" then (parse2 s).map fun v => str (print2 v)
  else if ver == "3" then (parse3 s).map fun v => str (print3 v)
  else if ver == "4" then (parse4 s).map fun v => str (print4 v)
  else none

/-! ### enricher ops -/

open ClairModel.CvssEnrich in
def hexOf (bs : List Nat) : String := Driver.hex (bs.map UInt8.ofNat)

def asciiBytes (s : String) : List Nat := s.toList.map Char.toNat

def sortStrings (xs : List String) : List String := (xs.toArray.qsort (· < ·)).toList

open ClairModel.CvssEnrich in
def parseDb (db : String) : Option (List Rec) :=
  if db == "-" then some [] else
  (db.splitOn ";").mapM fun r =>
    match r.splitOn ":" with
    | [tags, blob] => (toBytes blob).map fun b => ⟨(tags.splitOn "+").map asciiBytes, b⟩
    | _ => none

open ClairModel.CvssEnrich in
def parseVulns (vs : String) : Option (List Vuln) :=
  if vs == "-" then some [] else
  (vs.splitOn ";").mapM fun v =>
    match v.splitOn ":" with
    | [id, d, n, l] =>
      match toBytes d, toBytes n, toBytes l with
      | some d, some n, some l => some ⟨asciiBytes id, [d, n, l]⟩
      | _, _, _ => none
    | _ => none

/-- "CVE-1111-1111" -/
def poisonTag : List Nat := asciiBytes "CVE-1111-1111"

open ClairModel.CvssEnrich in
def dbGetter (db : List Rec) : Getter := fun ts =>
  if ts.contains poisonTag then none
  else some (db.filter fun r => r.tags.any fun t => ts.contains t)

open ClairModel.CvssEnrich in
def enrichOp (db vs : String) : String :=
  match parseDb db, parseVulns vs with
  | some db, some vs =>
    match enrich (dbGetter db) vs with
    | none => "err"
    | some st =>
      let entries := sortStrings (st.out.map fun (id, blobs) => s!"{str id}={",".intercalate (blobs.map hexOf)}")
      let calls := sortStrings (st.calls.map str)
      let e := if entries.isEmpty then "-" else ";".intercalate entries
      let c := if calls.isEmpty then "-" else "/".intercalate calls
      s!"ok {e} | {c}"
  | _, _ => "bad-op"

open ClairModel.CvssEnrich in
def feedOp (items : String) : String :=
  let parsed : Option (List Item) :=
    if items == "-" then some [] else
    (items.splitOn ";").mapM fun it =>
      match it.splitOn ":" with
      | [id, k] =>
        if k == "a" then some ⟨asciiBytes id, none, false⟩
        else if k == "n" then some ⟨asciiBytes id, some (asciiBytes "null"), false⟩
        else if k.startsWith "o" then (toBytes (String.ofList (k.toList.drop 1))).map fun raw => ⟨asciiBytes id, some raw, false⟩
        else none
      | _ => none
  match parsed with
  | none => "bad-op"
  | some items =>
    let out := (writeCVSS items).map fun (id, raw) => s!"{str id}={hexOf raw}"
    if out.isEmpty then "ok -" else s!"ok {";".intercalate out}"

def stepLine (_ : Unit) (l : String) : Unit × String :=
  if l == "reset" then ((), "ok") else
  let out : String :=
    match Driver.words l with
    | ["v2", h] =>
      match toBytes h with
      | none => "bad-op"
      | some s =>
        match parse2 s with
        | none => "err"
        | some v =>
          let sc := score2 v
          s!"ok {str (print2 v)} {showScore sc} {rating (sc.getD 0)}"
    | ["v3", h] =>
      match toBytes h with
      | none => "bad-op"
      | some s =>
        match parse3 s with
        | none => "err"
        | some v =>
          let sc := score3 v
          s!"ok {str (print3 v)} {showScore sc} {rating (sc.getD 0)}"
    | ["v4", h] =>
      match toBytes h with
      | none => "bad-op"
      | some s =>
        match parse4 s with
        | none => "err"
        | some v =>
          let mv := v4Macro v
          let ms := match v4MvScore mv with | none => "-" | some k => toString k
          s!"ok {str (print4 v)} {digits mv} {ms} {if v4NoBaseImpact v then 1 else 0}"
    | ["s4", h, k] =>
      match toBytes h, k.toInt? with
      | some s, some k =>
        match parse4 s with
        | none => "err"
        | some v =>
          let (r, x) := score4x v
          if k = r ∨ (x.isHalf ∧ (k = r - 1 ∨ k = r + 1)) then "ok" else s!"bad {r}"
      | _, _ => "bad-op"
    | ["d2", h, _] =>
      match toBytes h with
      | none => "bad-op"
      | some s =>
        match parse2 s with
        | none => "err"
        | some v => s!"{if v2Tie v then "tie" else "notie"} {showScore (score2 v)}"
    | ["d3", h, _] =>
      match toBytes h with
      | none => "bad-op"
      | some s =>
        match parse3 s with
        | none => "err"
        | some v => s!"{if v3Tie v then "tie" else "notie"} {showScore (score3 v)}"
    | ["rt", va, ha, vb, hb] =>
      match toBytes ha, toBytes hb with
      | some a, some b =>
        match reprint va a, reprint vb b with
        | some pa, some pb => s!"ok {pa} {pb}"
        | _, _ => "err"
      | _, _ => "bad-op"
    | ["cv", h] =>
      match toBytes h with
      | none => "bad-op"
      | some s =>
        let ms := ClairModel.CvssEnrich.findAll s
        if ms.isEmpty then "ok -" else s!"ok {",".intercalate (ms.map hexOf)}"
    | ["en", db, vs] => enrichOp db vs
    | ["fd", items] => feedOp items
    | ["o2", h] =>
      match toBytes h with
      | none => "bad-op"
      | some s => match osv2 s with | none => "err" | some k => toString k
    | ["o3", h] =>
      match toBytes h with
      | none => "bad-op"
      | some s => match osv3 s with | none => "err" | some k => toString k
    | _ => "bad-op"
  ((), out)

end Driver.C18

def main : IO Unit := do
  Driver.foldLines (← IO.getStdin) (← IO.getStdout) () Driver.C18.stepLine
