import Driver.Util
import ClairModel.Lib.Utf8
import ClairModel.Model.Version
import ClairModel.Model.Pep440
import ClairModel.Model.Gem
import ClairModel.Model.Maven
import ClairModel.Model.RhcTag
import ClairModel.Model.Semver
import ClairModel.Model.OsvRange

namespace Driver.C12
open ClairModel ClairModel.Order

/-- hex → runes: the bytes decoded the way Go's `range` over a string does
    (ill-formed bytes become U+FFFD).  The models work on runes; every class
    they test is ASCII or table-driven, and byte offsets never matter. -/
def str (h : String) : Option (List Char) := (Driver.unhex h).map fun bs => Utf8.decode (bs.map (·.toNat))

def hexOf (cs : List Char) : String := Driver.hex ((Utf8.encodeAll cs).map UInt8.ofNat)

def ints (s : String) : Option (List Int) :=
  if s == "-" then some [] else (s.splitOn ",").mapM String.toInt?

def showInts (l : List Int) : String := ",".intercalate (l.map toString)

def ord (o : Ordering) : String := toString (ordInt o)

def gver (k v : String) : Option Version.Version := do
  pure { kind := (← str k), v := (← ints v) }

def pepShow (v : Pep440.Ver) : String :=
  s!"ok {v.epoch} {showInts v.release} {if v.label.isEmpty then "-" else String.ofList v.label} {v.preN} {v.post} {v.dev} | {showInts (Pep440.project v).v} | {hexOf (Pep440.toStr v)}"

def svShow (v : Semver.SV) : String :=
  s!"ok {v.major} {v.minor} {v.patch} {hexOf v.pre} {hexOf v.build}"

/-- One event: `e`, or `+`-joined fields `i:<hex>`, `f:<hex>`, `l:<hex>`, `m:<hex>`. -/
def osvEvent (w : String) : Option OsvRange.Event :=
  if w == "e" then some {} else
  (w.splitOn "+").foldlM (fun (e : OsvRange.Event) fld =>
    match fld.splitOn ":" with
    | ["i", h] => (str h).map fun t => { e with introduced := t }
    | ["f", h] => (str h).map fun t => { e with fixed := t }
    | ["l", h] => (str h).map fun t => { e with lastAffected := t }
    | ["m", h] => (str h).map fun t => { e with limit := t }
    | _ => none) {}

def osvEvents (w : String) : Option (List OsvRange.Event) :=
  if w == "none" then some [] else (w.splitOn ";").mapM osvEvent

def osvShow (cells : List OsvRange.Cell) (removed : Nat) : String :=
  cells.foldl (fun acc c =>
    acc ++ s!" | {hexOf c.lower.kind} {showInts c.lower.v} {hexOf c.upper.kind} {showInts c.upper.v} {hexOf c.fixedIn}")
    s!"removed={removed}"

def answer (l : String) : String :=
  match Driver.words l with
  | ["gcmp", k1, v1, k2, v2] =>
    match gver k1 v1, gver k2 v2 with
    | some a, some b => ord (Version.cmp a b)
    | _, _ => "bad-op"
  | ["gcon", k1, v1, k2, v2, k3, v3] =>
    match gver k1 v1, gver k2 v2, gver k3 v3 with
    | some lo, some hi, some v => toString (Version.contains { lower := lo, upper := hi } v)
    | _, _, _ => "bad-op"
  | ["gstr", k, v] =>
    match gver k v with
    | some a => hexOf (Version.toStr a)
    | none => "bad-op"
  | ["sem", a, b, c] =>
    match a.toInt?, b.toInt?, c.toInt? with
    | some a, some b, some c => showInts (Version.fromSemver a b c).v
    | _, _, _ => "bad-op"
  | ["pep", s] =>
    match str s with
    | none => "bad-op"
    | some s => match Pep440.parse s with
      | none => "err"
      | some v => pepShow v
  | ["pepcmp", s, t] =>
    match str s, str t with
    | some s, some t => match Pep440.parse s, Pep440.parse t with
      | some a, some b => ord (Pep440.cmp a b)
      | _, _ => "err"
    | _, _ => "bad-op"
  | ["peprange", s, t] =>
    match str s, str t with
    | some s, some t => match Pep440.parseRange s with
      | none => "err"
      | some r => match Pep440.parse t with
        | none => "verr"
        | some v => toString (Pep440.rangeMatch r v)
    | _, _ => "bad-op"
  | ["pepand", b, x, y, t] =>
    match str b, str x, str y, str t with
    | some b, some x, some y, some t =>
      match Pep440.parseRange b, Pep440.parseRange x, Pep440.parseRange y with
      | some rb, some rx, some ry => match Pep440.parse t with
        | none => "verr"
        | some v => s!"{Pep440.rangeMatch rb v} {Pep440.rangeMatch (rb ++ rx) v} {Pep440.rangeMatch (rb ++ ry) v}"
      | _, _, _ => "err"
    | _, _, _, _ => "bad-op"
  | ["gem", s] =>
    match str s with
    | none => "bad-op"
    | some s => match Gem.parse s with
      | none => "err"
      | some v => if v.isEmpty then "ok" else "ok " ++ Gem.render v
  | ["gemcmp", s, t] =>
    match str s, str t with
    | some s, some t => match Gem.parse s, Gem.parse t with
      | some a, some b => ord (Gem.cmp a b)
      | _, _ => "err"
    | _, _ => "bad-op"
  | ["mvn", s] =>
    match str s with
    | none => "bad-op"
    | some s => match Maven.parse s with
      | none => "err"
      | some v => "ok " ++ hexOf (Maven.renderHex v)
  | ["mvncmp", s, t] =>
    match str s, str t with
    | some s, some t => match Maven.parse s, Maven.parse t with
      | some a, some b => ord (Maven.cmp a b)
      | _, _ => "err"
    | _, _ => "bad-op"
  | ["mvncompat", s, t] =>
    match str s, str t with
    | some s, some t => match Maven.parse s, Maven.parse t with
      | some a, some b => toString (Maven.compat a b)
      | _, _ => "err"
    | _, _ => "bad-op"
  | ["rhc", s] =>
    match str s with
    | none => "bad-op"
    | some s => match RhcTag.parse s with
      | none => "err"
      | some t => s!"ok {t.major} {t.minor} | {showInts (RhcTag.project t true).v} | {showInts (RhcTag.project t false).v}"
  | ["rhcplain", s] =>
    match str s with
    | none => "bad-op"
    | some s => match RhcTag.parse s with
      | none => "err"
      | some t => if RhcTag.plain true t then "v" else if RhcTag.plain false t then "plain" else "no"
  | ["semparse", s] =>
    match str s with
    | none => "bad-op"
    | some s => match Semver.parse s with
      | none => "err"
      | some v => s!"{svShow v} | {hexOf (Semver.project v).kind} {showInts (Semver.project v).v}"
  | ["seminc", s] =>
    match str s with
    | none => "bad-op"
    | some s => match Semver.parse s with
      | none => "err"
      | some v => s!"{svShow (Semver.incPatch v)} | {showInts (Semver.project (Semver.incPatch v)).v}"
  | ["semcmp", s, t] =>
    match str s, str t with
    | some s, some t => match Semver.parse s, Semver.parse t with
      | some a, some b => ord (Semver.cmp a b)
      | _, _ => "err"
    | _, _ => "bad-op"
  | ["gobin", s] =>
    match str s with
    | none => "bad-op"
    | some s => match Semver.gobinParse s with
      | none => "err"
      | some v => s!"{hexOf v.kind} {showInts v.v}"
  | ["osv", hv, evs] =>
    match osvEvents evs with
    | none => "bad-op"
    | some evs =>
      let vers := (OsvRange.run (hv == "1") {} evs).vers
      let cells := vers.filterMap OsvRange.finish
      osvShow cells (vers.length - cells.length)
  | ["osvhit", hv, evs, v] =>
    match osvEvents evs, str v with
    | some evs, some v => match Semver.parse v with
      | none => "verr"
      | some sv => toString (OsvRange.covers (OsvRange.ranges (hv == "1") evs) (Semver.project sv))
    | _, _ => "bad-op"
  | ["rhcshape", s] =>
    match str s with
    | none => "bad-op"
    | some s => match RhcTag.shapeNums s with
      | none => "no"
      | some (v, M, m) => s!"{if v then "v" else "plain"} {M} {m}"
  | ["rhccmp", s, t] =>
    match str s, str t with
    | some s, some t => match RhcTag.parse s, RhcTag.parse t with
      | some a, some b => ord (RhcTag.cmp a b)
      | _, _ => "err"
    | _, _ => "bad-op"
  | ["rpmcmp", s, t] =>
    match str s, str t with
    | some s, some t => ord (RhcTag.rpmCmp (RhcTag.newVersion s) (RhcTag.newVersion t))
    | _, _ => "bad-op"
  | _ => "bad-op"

def stepLine (s : Unit) (l : String) : Unit × String :=
  if l == "reset" then (s, "ok") else (s, answer l)

end Driver.C12

def main : IO Unit := do
  Driver.foldLines (← IO.getStdin) (← IO.getStdout) () Driver.C12.stepLine
