import Driver.Util
import ClairModel.Model.TarFS
import ClairModel.Model.TarFSExtract
import ClairModel.Model.TarFSDir
import ClairModel.Model.TarFSLayer

/-
  Line protocol of property C11 (see go/internal/c11):

    reset                                   -> ok
    m <kind> <name> <link> <data> <hsize> <seg> <mode> <sec> <nsec>
                                            -> ok          (append a member; kind r d s l x; hex fields; header size,
                                                            segment size, header mode, ModTime)
    new                                     -> ok <inodes> <keys> | err:<class>
    newa <class>                            -> as new, but <class> when the outcome of New depends on map iteration order
    xtree                                   -> the extraction reference (Model/TarFSExtract) of the members: none | entries
    tables                                  -> canonical dump of the lookup and inode tables
    stat|open|readdir|glob <subs> <arg>     -> answer of the query on the view (after Sub along <subs>)
    walk <subs> <cap>                       -> fs.WalkDir listing, at most <cap> visits
    page <subs> <path> <n1,n2,...>          -> Open, then ReadDir(n1), ReadDir(n2), ... on the one handle
    readfile <subs> <path>                  -> io/fs.ReadFile
    linit <mediatype> <digest-ok>           -> Layer.Init over the members: ok | err:<class>
    lfs <cap>                               -> Layer.FS, then fs.WalkDir over what it returns
    lreader                                 -> Layer.Reader: ok | err:other
    lfiles <p1,p2,...> <cap>                -> Layer.Files
    lclose                                  -> Layer.Close: ok | err:other | panic
    fn <name> <args...>                     -> a standard-library function of Model/TarFSPath
-/
namespace Driver.C11
open ClairModel.TarFS

structure St where
  ms : List Member := []      -- newest first
  fs : Option FS := none
  layer : LayerSt := {}

def fnv (bs : List UInt8) : UInt32 :=
  bs.foldl (fun h b => (h ^^^ b.toUInt32) * 16777619) 2166136261

def errName : Err → String
  | .exist => "err:exist"
  | .invalid => "err:invalid"
  | .notexist => "err:notexist"
  | .other => "err:other"
  | .fuel => "err:fuel"

def mtName : MType → String
  | .regular => "-"
  | .dir => "d"
  | .symlink => "L"
  | .other => "o"

def kindName : Kind → String
  | .reg => "r"
  | .dir => "d"
  | .sym => "s"
  | .link => "l"
  | .special => "x"

def parseKind : String → Option Kind
  | "r" => some .reg
  | "d" => some .dir
  | "s" => some .sym
  | "l" => some .link
  | "x" => some .special
  | _ => none

/-- Join the items; long lists are summarised by count and hash. -/
def renderList (items : List String) : String :=
  if items.isEmpty then "-"
  else
    let txt := ",".intercalate items
    if items.length > 64 then s!"n={items.length} h={fnv txt.toUTF8.toList}"
    else txt

def strLe (a b : String) : Bool := bytesLe a.toUTF8.toList b.toUTF8.toList

def renderEntries (es : List Entry) : String :=
  renderList ((es.map fun e => s!"{Driver.hex e.name}:{mtName e.mtype}").mergeSort strLe)

def renderInfo (i : Info) : String :=
  s!"{mtName i.mtype} {Driver.hex i.name} {i.size} {i.mode} {i.mtimeS}.{i.mtimeN}"

def renderOpen : OpenRes → String
  | .err e => errName e
  | .file i c => s!"f {renderInfo i} {c.length} {fnv c}"
  | .dir i es => s!"d {renderInfo i} {renderEntries es}"

def renderWalk (ws : List WalkItem) : String :=
  renderList (ws.map fun
    | .ent p t => s!"{Driver.hex p}:{mtName t}"
    | .readErr p => s!"{Driver.hex p}:E")

def renderTables (fs : FS) : String :=
  let lk := (fs.lookup.map fun (k, i) => s!"{Driver.hex k}={i}").mergeSort strLe
  let ins := fs.inodes.map fun n =>
    let cs := match n.children with
      | none => "n"
      | some cs => "[" ++ " ".intercalate ((cs.mergeSort (· ≤ ·)).map toString) ++ "]"
    let d := s!"{n.md.hsize}/{n.md.seg}"
    s!"{kindName n.kind}:{Driver.hex n.name}:{if n.kind = .sym ∨ n.kind = .link then Driver.hex n.link else "-"}:{cs}:{d}"
  let txt := ",".intercalate lk ++ " | " ++ ",".intercalate ins
  if txt.length > 1500 then s!"keys={fs.lookup.length} inodes={fs.inodes.length} h={fnv txt.toUTF8.toList}"
  else txt

/-- Apply Sub along the comma-separated chain. -/
def applySubs (fs : FS) (chain : String) : Except String FS :=
  if chain == "-" then .ok fs
  else
    (chain.splitOn ",").foldl (fun acc h =>
      match acc with
      | .error e => .error e
      | .ok f =>
        match Driver.unhex h with
        | none => .error "bad-op"
        | some d =>
          match subFS f d with
          | .ok f' => .ok f'
          | .error e => .error ("sub" ++ errName e)) (.ok fs)

def boolStr (b : Bool) : String := if b then "true" else "false"

def fnLine : List String → String
  | ["clean", a] => match Driver.unhex a with | some x => Driver.hex (clean x) | none => "bad-op"
  | ["norm", a] => match Driver.unhex a with | some x => Driver.hex (normPath x) | none => "bad-op"
  | ["dir", a] => match Driver.unhex a with | some x => Driver.hex (dirOf x) | none => "bad-op"
  | ["base", a] => match Driver.unhex a with | some x => Driver.hex (baseOf x) | none => "bad-op"
  | ["isabs", a] => match Driver.unhex a with | some x => boolStr (isAbs x) | none => "bad-op"
  | ["validpath", a] => match Driver.unhex a with | some x => boolStr (validPath x) | none => "bad-op"
  | ["validutf8", a] => match Driver.unhex a with | some x => boolStr (validUtf8 x) | none => "bad-op"
  | ["join", a, b] =>
    match Driver.unhex a, Driver.unhex b with
    | some x, some y => Driver.hex (pathJoin2 x y)
    | _, _ => "bad-op"
  | ["match", p, n] =>
    match Driver.unhex p, Driver.unhex n with
    | some x, some y => boolStr (matchPat (x.length + 2) x y)
    | _, _ => "bad-op"
  | _ => "bad-op"

/-- Entries in the order of the listing (paging shows the order). -/
def renderOrdered (es : List Entry) : String :=
  renderList (es.map fun e => s!"{Driver.hex e.name}:{mtName e.mtype}")

def renderPage : Page Entry → String
  | .entries es => renderOrdered es
  | .eof => "E"
  | .panic => "P"

def parseInt (s : String) : Option Int :=
  if s.startsWith "-" then (s.drop 1).toNat?.map fun n => -(n : Int)
  else s.toNat?.map fun n => (n : Int)

def pageLine (fs : FS) (path ns : String) : String :=
  match Driver.unhex path, (ns.splitOn ",").mapM parseInt with
  | some p, some ns =>
    match openFS fs p with
    | .err e => errName e
    | .file _ _ => "notdir"
    | .dir _ es => ";".intercalate ((readPages { es := es } ns).map renderPage)
  | _, _ => "bad-op"

def query (fs : FS) (q : String) (arg : String) : String :=
  match q with
  | "walk" =>
    match arg.toNat? with
    | some cap => renderWalk (walkDir fs cap)
    | none => "bad-op"
  | "tables" => renderTables fs
  | _ =>
    match Driver.unhex arg with
    | none => "bad-op"
    | some a =>
      match q with
      | "stat" => match statFS fs a with | .ok i => "i " ++ renderInfo i | .error e => errName e
      | "open" => renderOpen (openFS fs a)
      | "readdir" => match readDirFS fs a with | .ok es => renderEntries es | .error e => errName e
      | "glob" => renderList ((globFS fs a).map Driver.hex)
      | "readfile" => match readFileFS fs a with | .ok d => s!"ok {d.length} {fnv d}" | .error e => errName e
      | _ => "bad-op"

def renderXTree (t : XTree) : String :=
  renderList ((t.map fun (k, n) =>
    match n with
    | .dir => s!"{Driver.hex k}:d"
    | .file d => s!"{Driver.hex k}:f:{d.length}:{fnv d}"
    | .sym tgt => s!"{Driver.hex k}:s:{Driver.hex tgt}"
    | .hard tgt => s!"{Driver.hex k}:h:{Driver.hex tgt}"
    | .special => s!"{Driver.hex k}:x").mergeSort strLe)

def stepLine (s : St) (l : String) : St × String :=
  match Driver.words l with
  | ["reset"] => ({}, "ok")
  | ["xtree"] =>
    match extract s.ms.reverse with
    | some t => (s, renderXTree t)
    | none => (s, "none")
  | ["m", k, n, lk, d, hs, sg, mo, sec, ns] =>
    match parseKind k, Driver.unhex n, Driver.unhex lk, Driver.unhex d with
    | some k, some n, some lk, some d =>
      match hs.toNat?, sg.toNat?, mo.toNat?, parseInt sec, ns.toNat? with
      | some hs, some sg, some mo, some sec, some ns =>
        ({ s with ms := ⟨k, n, lk, d, { hsize := hs, seg := sg, mode := mo, mtimeS := sec, mtimeN := ns }⟩ :: s.ms }, "ok")
      | _, _, _, _, _ => (s, "bad-op")
    | _, _, _, _ => (s, "bad-op")
  | ["page", chain, path, ns] =>
    match s.fs with
    | none => (s, "no-fs")
    | some fs =>
      match applySubs fs chain with
      | .error e => (s, e)
      | .ok f => (s, pageLine f path ns)
  | ["new"] =>
    match newFS s.ms.reverse with
    | .ok fs => ({ s with fs := some fs }, s!"ok {fs.inodes.length} {fs.lookup.length}")
    | .error e => ({ s with fs := none }, errName e)
  | ["newa", cls] =>
    -- New failed in the implementation on an archive with a link in a member
    -- path: its answer stands when the model finds the outcome order-dependent.
    if ambDuring rootFS [] s.ms.reverse then (s, cls)
    else
      match newFS s.ms.reverse with
      | .ok fs => ({ s with fs := some fs }, s!"ok {fs.inodes.length} {fs.lookup.length}")
      | .error e => ({ s with fs := none }, errName e)
  | "fn" :: rest => (s, fnLine rest)
  | ["linit", mt, dg] =>
    match Driver.unhex mt with
    | none => (s, "bad-op")
    | some mtb =>
      let (st, e) := layerInit s.layer (String.fromUTF8! (ByteArray.mk mtb.toArray)) (dg == "1") s.ms.reverse
      ({ s with layer := st }, match e with
        | none => "ok"
        | some (.view e) => errName e
        | some _ => "err:other")
  | ["lfs", cap] =>
    match layerFS s.layer, cap.toNat? with
    | .ok fs, some cap => (s, "ok " ++ renderWalk (walkDir fs cap))
    | .error _, some _ => (s, "err:other")
    | _, none => (s, "bad-op")
  | ["lreader"] => (s, match layerReader s.layer with | none => "ok" | some _ => "err:other")
  | ["lclose"] =>
    let (st, r) := layerClose s.layer
    ({ s with layer := st }, match r with | .ok => "ok" | .err => "err:other" | .panic => "panic")
  | ["lfiles", ps, cap] =>
    match layerFS s.layer, (ps.splitOn ",").mapM Driver.unhex, cap.toNat? with
    | .ok fs, some paths, some cap =>
      match layerFiles fs paths cap with
      | .found l => (s, renderList ((l.map fun (k, d) => s!"{Driver.hex k}:{d.length}:{fnv d}").mergeSort strLe))
      | .notFound => (s, "notfound")
      | .err _ => (s, "err")
    | .error _, _, _ => (s, "err:other")
    | _, _, _ => (s, "bad-op")
  | [q, chain, arg] =>
    match s.fs with
    | none => (s, "no-fs")
    | some fs =>
      match applySubs fs chain with
      | .error e => (s, e)
      | .ok f => (s, query f q arg)
  | _ => (s, "bad-op")

end Driver.C11

def main : IO Unit := do
  Driver.foldLines (← IO.getStdin) (← IO.getStdout) ({} : Driver.C11.St) Driver.C11.stepLine
