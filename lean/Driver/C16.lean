import Driver.Util
import ClairModel.Model.JsonBlob
import ClairModel.Model.OfflineV1

/-
  Line protocol of the jsonblob model (property C16).

    reset                                         -> ok
    rec <v|e> <upd> <fp> <cands> <recs>           -> ref <r> used <k> | hang
    delta <upd> <fp> <cands> <recs> <ndeleted>    -> ref <r> used <k> | hang
    recfail <v|e> <upd> <fp> <recs>               -> err   (diskBuf or the per-update encoder failed)
    store <order> <faults>                        -> ok|err lines=<l,…> left=<r,…> | bad-order
                                                     (fault `ref:k`: the disk buffer of `ref` fails after k lines)
    entries                                       -> ref/upd/fp of every key of Entries(), by ref
    tear                                          -> ok   (the writer took part of a line and failed)
    newfile                                       -> ok   (later Store calls write to a new, empty output)
    load                                          -> entries of everything written so far
    loadraw <item;item;…>                         -> entries of a hand-made file
    latest <v|e>                                  -> <r>
    init                                          -> true|false
    import <upd:fp,upd:fp,…>                      -> calls OfflineImport's loop makes on the written file

    v1export <raw> <0|1> <order> <refs>           -> the files of the export, in zip order; with 1 the export is
                                                     made against the previous one of this scenario
    v1import <raw>                                -> the store calls Parse makes on the last export, then ok|err
    v1header <hdr>                                -> true|false (does Parse accept this export header)

  <raw>: updaters as the factories hand them out, `;` separated, each
  `name:fp:flags:vulns:enrichments` (flags among V E F = parses vulnerabilities,
  parses enrichments, Fetch fails; token lists `.` separated).

  <upd>, <fp> are opaque tokens (hex of the bytes); lists are comma separated,
  `-` is the empty list; a record is `tok:len`; a written line is
  `ref/k/tok/upd/fp`; a raw item is `ref/upd/fp/body` with body
  `v<tok>` | `e<tok>` | `o` | `b` | `g`.
-/
namespace Driver.C16
open ClairModel.JsonBlob

def list (s : String) (sep : String := ",") : List String :=
  if s == "-" then [] else s.splitOn sep

def nats (s : String) : Option (List Nat) := (list s).mapM (·.toNat?)

def recs (s : String) : Option (List Rec) :=
  (list s).mapM fun t =>
    match t.splitOn ":" with
    | [a, b] => do pure { tok := (← a.toNat?), len := (← b.toNat?) }
    | _ => none

def faults (s : String) : Option (List (Nat × Nat)) :=
  (list s).mapM fun t =>
    match t.splitOn ":" with
    | [a, b] => do pure ((← a.toNat?), (← b.toNat?))
    | _ => none

def showNats (l : List Nat) : String :=
  if l.isEmpty then "-" else ",".intercalate (l.map toString)

def showLine (l : Line) : String :=
  let (k, t) := match l.body with
    | .vuln r => ("v", toString r.tok)
    | .enrich r => ("e", toString r.tok)
    | .other => ("o", "0")
    | .bad => ("b", "0")
    | .garbage => ("g", "0")
  s!"{l.ref}/{k}/{t}/{l.updater}/{l.fp}"

def showLines (ls : List Line) : String :=
  if ls.isEmpty then "-" else ",".intercalate (ls.map showLine)

def showEntry : Option LEntry → String
  | none => "T/nil"
  | some e => s!"T/{e.updater}/{e.fp}/{showNats (e.vuln.map (·.tok))}/{showNats (e.enrich.map (·.tok))}"

def showLoad (r : List (Option LEntry) × Fin) : String :=
  let fin := match r.2 with
    | .ok => "F/ok"
    | .err => "F/err"
    | .panic => "P"
    | .fuel => "fuel"
  " ".intercalate (r.1.map showEntry ++ [fin])

def rawItem (s : String) : Option Line :=
  match s.splitOn "/" with
  | [r, u, f, b] => do
    let ref ← r.toNat?
    let body ←
      if b == "o" then some Body.other
      else if b == "b" then some Body.bad
      else if b == "g" then some Body.garbage
      else if b.startsWith "v" then (b.drop 1).toNat?.map fun t => Body.vuln { tok := t, len := 0 }
      else if b.startsWith "e" then (b.drop 1).toNat?.map fun t => Body.enrich { tok := t, len := 0 }
      else none
    pure { ref := ref, updater := u, fp := f, body := body }
  | _ => none

def showCall : ImportCall → String
  | .enrichments u f rs => s!"E/{u}/{f}/{showNats (rs.map (·.tok))}"
  | .vulnerabilities u f rs => s!"V/{u}/{f}/{showNats (rs.map (·.tok))}"

def known (pairs : List (String × String)) (u : String) : List String :=
  (pairs.filter (·.1 == u)).map (·.2)

def out : Out → String
  | .ref r used => s!"ref {r} used {used}"
  | .hang => "hang"
  | .badOrder => "bad-order"
  | .err => "err"
  | .done => "ok"
  | .stored ok ls left => s!"{if ok then "ok" else "err"} lines={showLines ls} left={showNats left}"

/-! zip-of-zips -/
open ClairModel.OfflineV1 in
def upd (s : String) : Option Upd :=
  match s.splitOn ":" with
  | [n, f, fl, vs, es] => do
    let v ← (list vs ".").mapM (·.toNat?)
    let e ← (list es ".").mapM (·.toNat?)
    pure { name := n, fp := if f == "-" then "" else f, fetchErr := fl.contains 'F', hasV := fl.contains 'V',
           hasE := fl.contains 'E', vulns := v, enrich := e }
  | _ => none

def dots (l : List Nat) : String := if l.isEmpty then "-" else ".".intercalate (l.map toString)
def orDash (s : String) : String := if s.isEmpty then "-" else s

open ClairModel.OfflineV1 in
def showFile (f : ZFile) : String :=
  match f.part with
  | .dir => s!"{f.name}/=d"
  | .fingerprint fp => s!"{f.name}/fingerprint={orDash fp}"
  | .ref r => s!"{f.name}/ref={r}"
  | .data v e => s!"{f.name}/data={dots v}|{dots e}"

open ClairModel.OfflineV1 in
def showCallV1 : Call → String
  | .vulns r n f vs => s!"V/{r}/{n}/{orDash f}/{dots vs}"
  | .enrich r n f es => s!"E/{r}/{n}/{orDash f}/{dots es}"

structure DState where
  w : World := World.init
  zip : Option ClairModel.OfflineV1.Zip := none

open ClairModel.OfflineV1 in
def stepV1 (d : DState) : List String → Option (DState × String)
  | ["v1export", raw, usePrev, order, refs] =>
    match (list raw ";").mapM upd, nats refs with
    | some us, some rs =>
      let prev := if usePrev == "1" then d.zip else none
      match exportV1 prev us (list order) rs with
      | none => some (d, "bad-order")
      | some z => some ({ d with zip := some z }, ",".intercalate ("config.json" :: z.map showFile))
    | _, _ => some (d, "bad-op")
  | ["v1import", raw] =>
    match (list raw ";").mapM upd, d.zip with
    | some us, some z =>
      let (cs, ok) := importV1 us z
      some (d, " ".intercalate (cs.map showCallV1 ++ [if ok then "ok" else "err"]))
    | _, _ => some (d, "bad-op")
  | ["v1header", h] => some (d, toString (parseAccepts (if h == "-" then "" else h)))
  | _ => none

def stepLine (w : World) (l : String) : World × String :=
  if l == "reset" then (World.init, "ok") else
  match Driver.words l with
  | ["rec", k, u, f, c, r] =>
    match (if k == "v" then some Kind.vuln else if k == "e" then some Kind.enrich else none), nats c, recs r with
    | some k, some c, some r => let (w', o) := step w (.record k u f r c); (w', out o)
    | _, _, _ => (w, "bad-op")
  | ["delta", u, f, c, r, nd] =>
    match nats c, recs r, nd.toNat? with
    | some c, some r, some nd => let (w', o) := step w (.delta u f r (List.replicate nd "x") c); (w', out o)
    | _, _, _ => (w, "bad-op")
  | ["recfail", k, u, f, r] =>
    match (if k == "v" then some Kind.vuln else if k == "e" then some Kind.enrich else none), recs r with
    | some k, some r => let (w', o) := step w (.failed k u f r); (w', out o)
    | _, _ => (w, "bad-op")
  | ["store", o, fs] =>
    match nats o, faults fs with
    | some o, some fs => let (w', o) := step w (.store o fs); (w', out o)
    | _, _ => (w, "bad-op")
  | ["tear"] => let (w', o) := step w .tear; (w', out o)
  | ["newfile"] => let (w', o) := step w .newfile; (w', out o)
  | ["entries"] =>
    let es := w.store.entries.mergeSort (fun a b => decide (a.ref ≤ b.ref))
    (w, if es.isEmpty then "-" else ",".intercalate (es.map fun e => s!"{e.ref}/{e.updater}/{e.fp}"))
  | ["load"] => (w, showLoad (loadAll w.out))
  | ["loadraw", items] =>
    match (list items ";").mapM rawItem with
    | some ls => (w, showLoad (loadAll ls))
    | none => (w, "bad-op")
  | ["latest", k] => (w, toString (if k == "v" then w.store.latestV else w.store.latestE))
  | ["init"] => (w, toString w.store.initialized)
  | ["import", ps] =>
    let pairs := (list ps).filterMap fun p => match p.splitOn ":" with
      | [u, f] => some (u, f)
      | _ => none
    match importAll (known pairs) (loadAll w.out).1 with
    | none => (w, "P")
    | some cs => (w, if cs.isEmpty then "-" else " ".intercalate (cs.map showCall))
  | _ => (w, "bad-op")

end Driver.C16

def Driver.C16.stepAll (d : Driver.C16.DState) (l : String) : Driver.C16.DState × String :=
  match Driver.C16.stepV1 d (Driver.words l) with
  | some r => r
  | none => let (w', o) := Driver.C16.stepLine d.w l; ({ d with w := w' }, o)

def main : IO Unit := do
  Driver.foldLines (← IO.getStdin) (← IO.getStdout) ({} : Driver.C16.DState) Driver.C16.stepAll
