import Driver.Util
import ClairModel.Model.Fetch
import ClairModel.Model.FetchReader
import ClairModel.Model.FetchSched
import ClairModel.Model.FetchMisc

/-
  Line protocol of the fetcher model (property C09).

    layer <api> <digest> <uri> <mediatype> <refused> <status> <ctype> <term> <body> <sum> <z> <tar> <disk>
        queue one layer description + the scripted response for the next realize
        api        new | old        RealizeDescriptions / deprecated Realize
        digest     hex of the digest string as given in the description
        uri        e | b | g        empty / rejected by url.ParseRequestURI / fine
        mediatype  hex of the media type
        refused    0 | 1            the request itself fails
        status     HTTP status
        ctype      hex of the Content-Type value ("-" = none)
        term       eof | short | reset | stall
        body       hex of the bytes the transport delivers
        sum        hex of hash(body) under the digest's algorithm, computed by the harness
                   with crypto/sha256|sha512 directly ("-" when the algorithm is unknown)
        z          x | =<hex>       what the gzip/zstd reader makes of body+term when the harness
                   runs the library directly (x = error or not compressed)
        tar        0 | 1            tarfs.New accepts the expected payload
        disk       - | <n>          the spool file takes n bytes, then writes fail
      the response is the one the fetcher's body reader sees for the FIRST request it makes
      (after redirects and content decoding by the HTTP client); answer: queued
    realize <id> <hold>      run the queued layers as one RealizeDescriptions call
      answer: err [r:<n>] | ok <view>;<view>... r:<n>,<n>...
              view = t:<len>:<fnv1a64 of the bytes> | d ;  r = requests made per layer
              (for err only when the call has one layer)
    close <id>               FetchProxy.Close of a held realize;  answer: closed
    release <id>             the FetchProxy of a realize that was not held is closed now; answer: closed
    consume <id> <idx> <script>   consumers of layer idx of realize id (before or after its close)
        script = op,op,...   o<c> Layer.Reader() for consumer c | r<c>:<n> Read | a<c>:<off>:<n> ReadAt
                             | s<c>:<whence>:<off> Seek | w<c> io.Copy to the end
      answer: per op  o | <len>:<fnv> | F (EOF) | p<pos> | E (error)
    spawn <tid>              the queued layer becomes a task parked before the singleflight; answer: parked
    enter <tid>              answer: join | lead | res <tid>=<r>;...     r = err | retry | ok:<view>
    serve <tid>              the request of the flight led by tid is answered; answer: res ...
    tclose <tid>             FetchProxy.Close of a finished task; answer: closed
    chk <status> <code,code,...>     httputil.CheckResponse; answer: ok | err
    dscan <prev> <kind> <text>       Digest parsed from prev (hex of the text), then Scan(nil | string | other);
                                     kind = n | s | o; answer: <err 0|1> <algo> <checksum> <String()> (hex)
    sniff <bytes>            zreader.detectCompression; answer: gzip | zstd | bzip2 | none | other
    linit <digest> <uriempty> <mediatype> <payload> <tar>    Layer.Init called directly on a file holding payload
                             (tar = tarfs.New's verdict on it); answer: err | t:<len>:<fnv> | d
    reset                    new arena; answer: ok
-/
namespace Driver.C09
open ClairModel ClairModel.Fetch ClairModel.Bytes

open ClairModel.FetchReader in
structure LayerSt where
  id : Nat
  idx : Nat
  ls : LState

structure Pending where
  req : Req
  algo : Bytes
  sum : Bytes
  z : Option Bytes
  tar : Bool
  uriOK : Bool

structure DState where
  st : State := {}
  pending : List Pending := []
  /-- expected payload ↦ tarfs.New verdict, for every layer line since the last reset
      (a layer served from the arena was described by an earlier line) -/
  tars : List (Bytes × Bool) := []
  /-- every layer line since the last reset (parameters of the scheduled tasks) -/
  hist : List Pending := []
  /-- views of the realizes whose layers can still be consumed -/
  views : List (Nat × List View) := []
  layers : List LayerSt := []
  sched : FetchSched.SState := {}

def bytesOf (s : String) : Option Bytes := (Driver.unhex s).map (·.map (·.toNat))

def strOf (b : Bytes) : String := String.ofList (b.map Char.ofNat)

def parseTerm : String → Option Term
  | "eof" => some .eof
  | "short" => some .short
  | "reset" => some .reset
  | "stall" => some .stall
  | _ => none

def algoOf (digest : Bytes) : Bytes :=
  match cut 58 digest with
  | some (a, _) => a
  | none => []

def parseLayer : List String → Option Pending
  | [api, dig, uri, mt, refused, status, ct, term, body, sum, z, tar, disk] => do
    let legacy ← (if api == "old" then some true else if api == "new" then some false else none)
    let dig ← bytesOf dig
    let (uriB, uriOK) ← (if uri == "e" then some (([] : Bytes), true) else if uri == "b" then some ([98], false)
                          else if uri == "g" then some ([103], true) else none)
    let mt ← bytesOf mt
    let st ← status.toNat?
    let ct ← bytesOf ct
    let term ← parseTerm term
    let body ← bytesOf body
    let sum ← bytesOf sum
    let zv ← (if z == "x" then some none else if z.toList.head? == some '=' then (bytesOf (String.ofList (z.toList.drop 1))).map some else none)
    let disk ← (if disk == "-" then some none else disk.toNat?.map some)
    let rq : Req := { legacy := legacy, digest := dig, uri := uriB, mediaType := strOf mt,
                      resp := { refused := refused == "1", status := st, ctype := strOf ct, body := body, term := term, disk := disk } }
    pure { req := rq, algo := algoOf rq.key, sum := sum, z := zv, tar := tar == "1", uriOK := uriOK }
  | _ => none

/-- The parameters of the model, instantiated by the tables of the queued layers. -/
def paramsOf (ps : List Pending) (tars : List (Bytes × Bool)) : Params where
  hash algo data :=
    match ps.find? (fun p => p.algo == algo && p.req.resp.body == data) with
    | some p => p.sum
    | none => []
  unz _ data term :=
    match ps.find? (fun p => p.req.resp.body == data && p.req.resp.term == term) with
    | some p => p.z
    | none => none
  tarOK payload :=
    match tars.find? (fun t => t.1 == payload) with
    | some t => t.2
    | none => false
  uriOK u := u != [98]

def fnv1a (bs : Bytes) : UInt64 :=
  bs.foldl (fun h b => (h ^^^ UInt64.ofNat b) * 0x100000001b3) 0xcbf29ce484222325

def hex64 (v : UInt64) : String :=
  String.ofList ((List.range 16).map fun i => Driver.hexDigit ((v.toNat >>> (60 - 4 * i)) % 16))

def renderView : View → String
  | .tar p => s!"t:{p.length}:{hex64 (fnv1a p)}"
  | .dir => "d"

def render : Out → String
  | .err => "err"
  | .closed => "closed"
  | .ok vs => "ok " ++ ";".intercalate (vs.map renderView)

/-! ### consumer scripts -/

section consume
open ClairModel.FetchReader

def splitOnChar (c : Char) (s : String) : List String := s.splitOn (String.singleton c)

def parseInt (s : String) : Option Int :=
  if s.startsWith "-" then (s.drop 1).toNat?.map (fun n => -(n : Int)) else s.toNat?.map (fun n => (n : Int))

def parseCOp (t : String) : Option (Nat × ROp) :=
  match t.toList with
  | k :: c :: rest =>
    let cid := c.toNat - '0'.toNat
    let args := (splitOnChar ':' (String.ofList rest)).filter (· ≠ "")
    match k, args with
    | 'o', [] => some (cid, .open_)
    | 'w', [] => some (cid, .copy)
    | 'r', [n] => n.toNat?.map fun n => (cid, .read n)
    | 'a', [off, n] => do
      let off ← parseInt off
      let n ← n.toNat?
      pure (cid, .readAt off n)
    | 's', [w, off] => do
      let w ← w.toNat?
      let off ← parseInt off
      pure (cid, .seek w off)
    | _, _ => none
  | _ => none

def renderROut : ROut → String
  | .opened => "o"
  | .bytes b => s!"{b.length}:{hex64 (fnv1a b)}"
  | .eof => "F"
  | .pos p => s!"p{p}"
  | .err => "E"

def lstateOf : View → LState
  | .tar p => { payload := p }
  | .dir => { payload := [], closed := true }   -- no reader: `Layer.Reader()` fails

end consume

def kindName : Kind → String
  | .gzip => "gzip"
  | .zstd => "zstd"
  | .bzip2 => "bzip2"
  | .none => "none"
  | .other => "other"

def renderRes : FetchSched.Res → String
  | .err => "err"
  | .retry => "retry"
  | .ok v => "ok:" ++ renderView v

def renderSOut : FetchSched.SOut → String
  | .parked => "parked"
  | .join => "join"
  | .lead => "lead"
  | .closed => "closed"
  | .bad => "bad"
  | .results rs => "res " ++ ";".intercalate (rs.map fun r => s!"{r.1}={renderRes r.2}")

def natList (s : String) : Option (List Nat) :=
  if s == "-" then some [] else (s.splitOn ",").mapM (·.toNat?)

def stepLine (s : DState) (l : String) : DState × String :=
  if l == "reset" then ({}, "ok") else
  match Driver.words l with
  | "layer" :: rest =>
    match parseLayer rest with
    | some p =>
      let expected := match p.z with | some out => out | none => p.req.resp.body
      ({ s with pending := s.pending ++ [p], hist := p :: s.hist, tars := (expected, p.tar) :: s.tars }, "queued")
    | none => (s, "bad-op")
  | ["realize", id, hold] =>
    match id.toNat? with
    | none => (s, "bad-op")
    | some id =>
      let P := paramsOf s.pending s.tars
      let reqs := s.pending.map (·.req)
      let rc := realizeReqs P s.st.arena reqs
      let rcs := " r:" ++ ",".intercalate (rc.map toString)
      let (st', o) := step P s.st (.realize id reqs (hold == "1"))
      let (views, tail) := match o with
        | .ok vs => ((id, vs) :: s.views.filter (fun v => v.1 != id), rcs)
        | _ => (s.views, if reqs.length == 1 then rcs else "")
      ({ s with st := st', pending := [], views := views, layers := s.layers.filter (fun x => x.id != id) }, render o ++ tail)
  | ["close", id] =>
    match id.toNat? with
    | none => (s, "bad-op")
    | some id =>
      let (st', o) := step (paramsOf [] []) s.st (.close id)
      let layers := s.layers.map fun x => if x.id == id then { x with ls := x.ls.close } else x
      let views := s.views.map fun v => if v.1 == id then (v.1, v.2.map fun _ => View.dir) else v
      ({ s with st := st', layers := layers, views := views }, render o)
  | ["release", id] =>
    match id.toNat? with
    | none => (s, "bad-op")
    | some id =>
      let layers := s.layers.map fun x => if x.id == id then { x with ls := x.ls.close } else x
      let views := s.views.map fun v => if v.1 == id then (v.1, v.2.map fun _ => View.dir) else v
      ({ s with layers := layers, views := views }, "closed")
  | ["consume", id, idx, script] =>
    match id.toNat?, idx.toNat?, (splitOnChar ',' script).mapM parseCOp with
    | some id, some idx, some ops =>
      let cur : Option FetchReader.LState :=
        match s.layers.find? (fun x => x.id == id && x.idx == idx) with
        | some x => some x.ls
        | none =>
          match s.views.find? (fun v => v.1 == id) with
          | some v => (v.2[idx]?).map lstateOf
          | none => none
      match cur with
      | none => (s, "bad-op")
      | some ls =>
        let (ls', outs) := FetchReader.run ls ops
        let layers := ⟨id, idx, ls'⟩ :: s.layers.filter (fun x => !(x.id == id && x.idx == idx))
        ({ s with layers := layers }, ",".intercalate (outs.map fun o => renderROut o.2))
    | _, _, _ => (s, "bad-op")
  | ["spawn", tid] =>
    match tid.toNat?, s.pending with
    | some tid, [p] =>
      let (ss, o) := FetchSched.step (paramsOf s.hist s.tars) s.sched (.spawn tid p.req)
      ({ s with sched := ss, pending := [] }, renderSOut o)
    | _, _ => (s, "bad-op")
  | ["linit", dig, ue, mt, payload, tar] =>
    match bytesOf dig, bytesOf mt, bytesOf payload with
    | some dig, some mt, some payload =>
      let P : Params := { hash := fun _ _ => [], unz := fun _ _ _ => none, tarOK := fun _ => tar == "1", uriOK := fun _ => true }
      match layerInit P dig (ue == "1") (strOf mt) payload with
      | none => (s, "err")
      | some v => (s, renderView v)
    | _, _, _ => (s, "bad-op")
  | ["sniff", b] =>
    match bytesOf b with
    | some b => (s, kindName (detectCompression b))
    | none => (s, "bad-op")
  | [op, tid] =>
    match tid.toNat? with
    | none => (s, "bad-op")
    | some tid =>
      let sop : Option FetchSched.SOp :=
        if op == "enter" then some (.enter tid) else if op == "serve" then some (.serve tid)
        else if op == "tclose" then some (.close tid) else none
      match sop with
      | some sop =>
        let (ss, o) := FetchSched.step (paramsOf s.hist s.tars) s.sched sop
        ({ s with sched := ss }, renderSOut o)
      | none => (s, "bad-op")
  | ["chk", status, codes] =>
    match status.toNat?, natList codes with
    | some st, some cs => (s, if FetchMisc.checkResponse cs st then "ok" else "err")
    | _, _ => (s, "bad-op")
  | ["dscan", prev, kind, text] =>
    match bytesOf prev, bytesOf text with
    | some prev, some text =>
      let d0 := (FetchMisc.unmarshal {} prev).1
      let arg : Option FetchMisc.ScanArg :=
        if kind == "n" then some .null else if kind == "s" then some (.str text) else if kind == "o" then some .other else none
      match arg with
      | none => (s, "bad-op")
      | some arg =>
        let (d, e) := FetchMisc.scan d0 arg
        let hx := fun (b : Bytes) => Driver.hex (b.map UInt8.ofNat)
        (s, s!"{if e then 1 else 0} {hx d.algo} {hx d.checksum} {hx (FetchMisc.value d)}")
    | _, _ => (s, "bad-op")
  | _ => (s, "bad-op")

end Driver.C09

def main : IO Unit := do
  Driver.foldLines (← IO.getStdin) (← IO.getStdout) ({} : Driver.C09.DState) Driver.C09.stepLine
