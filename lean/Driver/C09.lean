import Driver.Util
import ClairModel.Model.Fetch

/-
  Line protocol of the fetcher model (property C09).

    layer <api> <digest> <uri> <mediatype> <refused> <status> <ctype> <term> <body> <sum> <z> <tar>
        queue one layer description + the scripted response for the next realize
        api        new | old        RealizeDescriptions / deprecated Realize
        digest     hex of the digest string as given in the description
        uri        e | b | g        empty / rejected by url.ParseRequestURI / fine
        mediatype  hex of the media type
        refused    0 | 1            the request itself fails
        status     HTTP status
        ctype      hex of the Content-Type value ("-" = none)
        term       eof | short | reset | stall
        body       hex of the bytes the transport delivers
        sum        hex of hash(body) under the digest's algorithm, computed by the harness
                   with crypto/sha256|sha512 directly ("-" when the algorithm is unknown)
        z          x | =<hex>       what the gzip/zstd reader makes of body+term when the harness
                   runs the library directly (x = error or not compressed)
        tar        0 | 1            tarfs.New accepts the expected payload
      answer: queued
    realize <id> <hold>      run the queued layers as one RealizeDescriptions call
      answer: err | ok <view>;<view>...    view = t:<len>:<fnv1a64 of the bytes> | d
    close <id>               FetchProxy.Close of a held realize;  answer: closed
    reset                    new arena; answer: ok
-/
namespace Driver.C09
open ClairModel ClairModel.Fetch ClairModel.Bytes

structure Pending where
  req : Req
  algo : Bytes
  sum : Bytes
  z : Option Bytes
  tar : Bool
  uriOK : Bool

structure DState where
  st : State := {}
  pending : List Pending := []
  /-- expected payload ↦ tarfs.New verdict, for every layer line since the last reset
      (a layer served from the arena was described by an earlier line) -/
  tars : List (Bytes × Bool) := []

def bytesOf (s : String) : Option Bytes := (Driver.unhex s).map (·.map (·.toNat))

def strOf (b : Bytes) : String := String.ofList (b.map Char.ofNat)

def parseTerm : String → Option Term
  | "eof" => some .eof
  | "short" => some .short
  | "reset" => some .reset
  | "stall" => some .stall
  | _ => none

def algoOf (digest : Bytes) : Bytes :=
  match cut 58 digest with
  | some (a, _) => a
  | none => []

def parseLayer : List String → Option Pending
  | [api, dig, uri, mt, refused, status, ct, term, body, sum, z, tar] => do
    let legacy ← (if api == "old" then some true else if api == "new" then some false else none)
    let dig ← bytesOf dig
    let (uriB, uriOK) ← (if uri == "e" then some (([] : Bytes), true) else if uri == "b" then some ([98], false)
                          else if uri == "g" then some ([103], true) else none)
    let mt ← bytesOf mt
    let st ← status.toNat?
    let ct ← bytesOf ct
    let term ← parseTerm term
    let body ← bytesOf body
    let sum ← bytesOf sum
    let zv ← (if z == "x" then some none else if z.toList.head? == some '=' then (bytesOf (String.ofList (z.toList.drop 1))).map some else none)
    let rq : Req := { legacy := legacy, digest := dig, uri := uriB, mediaType := strOf mt,
                      resp := { refused := refused == "1", status := st, ctype := strOf ct, body := body, term := term } }
    pure { req := rq, algo := algoOf rq.key, sum := sum, z := zv, tar := tar == "1", uriOK := uriOK }
  | _ => none

/-- The parameters of the model, instantiated by the tables of the queued layers. -/
def paramsOf (ps : List Pending) (tars : List (Bytes × Bool)) : Params where
  hash algo data :=
    match ps.find? (fun p => p.algo == algo && p.req.resp.body == data) with
    | some p => p.sum
    | none => []
  unz _ data term :=
    match ps.find? (fun p => p.req.resp.body == data && p.req.resp.term == term) with
    | some p => p.z
    | none => none
  tarOK payload :=
    match tars.find? (fun t => t.1 == payload) with
    | some t => t.2
    | none => false
  uriOK u := u != [98]

def fnv1a (bs : Bytes) : UInt64 :=
  bs.foldl (fun h b => (h ^^^ UInt64.ofNat b) * 0x100000001b3) 0xcbf29ce484222325

def hex64 (v : UInt64) : String :=
  String.ofList ((List.range 16).map fun i => Driver.hexDigit ((v.toNat >>> (60 - 4 * i)) % 16))

def renderView : View → String
  | .tar p => s!"t:{p.length}:{hex64 (fnv1a p)}"
  | .dir => "d"

def render : Out → String
  | .err => "err"
  | .closed => "closed"
  | .ok vs => "ok " ++ ";".intercalate (vs.map renderView)

def stepLine (s : DState) (l : String) : DState × String :=
  if l == "reset" then ({}, "ok") else
  match Driver.words l with
  | "layer" :: rest =>
    match parseLayer rest with
    | some p =>
      let expected := match p.z with | some out => out | none => p.req.resp.body
      ({ s with pending := s.pending ++ [p], tars := (expected, p.tar) :: s.tars }, "queued")
    | none => (s, "bad-op")
  | ["realize", id, hold] =>
    match id.toNat? with
    | none => (s, "bad-op")
    | some id =>
      let P := paramsOf s.pending s.tars
      let (st', o) := step P s.st (.realize id (s.pending.map (·.req)) (hold == "1"))
      ({ s with st := st', pending := [] }, render o)
  | ["close", id] =>
    match id.toNat? with
    | none => (s, "bad-op")
    | some id =>
      let (st', o) := step (paramsOf [] []) s.st (.close id)
      ({ s with st := st' }, render o)
  | _ => (s, "bad-op")

end Driver.C09

def main : IO Unit := do
  Driver.foldLines (← IO.getStdin) (← IO.getStdout) ({} : Driver.C09.DState) Driver.C09.stepLine
