import Driver.Util
import ClairModel.Model.Arena
import ClairModel.Model.ArenaFd
import ClairModel.Model.ArenaProxy

namespace Driver.C10
open ClairModel.Arena ClairModel.ArenaFd ClairModel.ArenaProxy

def bool? : String → Option Bool
  | "1" => some true
  | "0" => some false
  | _ => none

structure DState where
  p : PState := {}
  nkeys : Nat := 0

inductive Line where
  | op (o : POp)
  | gc
  | closeref (a b : Nat)
  | keys (n : Nat)

def nats? : List String → Option (List Nat)
  | [] => some []
  | w :: ws => do
    let n ← w.toNat?
    let r ← nats? ws
    pure (n :: r)

def b (o : Op) : Line := .op (.base (.base o))

def parse (l : String) : Option Line :=
  match Driver.words l with
  | ["spawn", k] => do pure (b (.spawn (← k.toNat?)))
  | ["enter", t] => do pure (b (.enter (← t.toNat?)))
  | ["fload", k, v] => do pure (b (.fload (← k.toNat?) (← bool? v)))
  | ["fnet", k, v] => do pure (b (.fnet (← k.toNat?) (← bool? v)))
  | ["freq", k] => do pure (b (.freq (← k.toNat?)))
  | ["fbody", k, v] => do pure (b (.fbody (← k.toNat?) (← bool? v)))
  | ["ftmpfail", k] => do pure (b (.ftmpfail (← k.toNat?)))
  | ["fstore", k] => do pure (b (.fstore (← k.toNat?)))
  | ["fend", k] => do pure (b (.fend (← k.toNat?)))
  | ["cancel", t] => do pure (b (.cancel (← t.toNat?)))
  | ["ref", t] => do pure (b (.ref (← t.toNat?)))
  | ["val", t] => do pure (b (.val (← t.toNat?)))
  | ["retry", t] => do pure (b (.retry (← t.toNat?)))
  | ["init", t, v] => do pure (b (.init (← t.toNat?) (← bool? v)))
  | ["close", t] => do pure (b (.close (← t.toNat?)))
  | ["query", k] => do pure (b (.query (← k.toNat?)))
  | ["aclose"] => pure (b .aclose)
  | ["gc", _] => pure .gc
  | ["closeref", a, c] => do pure (.closeref (← a.toNat?) (← c.toNat?))
  | ["keys", n] => do pure (.keys (← n.toNat?))
  | ["pnew"] => pure (.op .pnew)
  | "realize" :: p :: lim :: ks => do pure (.op (.realize (← p.toNat?) (← lim.toNat?) (← nats? ks)))
  | ["pcancel", p] => do pure (.op (.pcancel (← p.toNat?)))
  | ["pclose", p] => do pure (.op (.pclose (← p.toNat?)))
  | _ => none

def render : Out → String
  | .spawned t => s!"task {t}"
  | .lead => "lead"
  | .join => "join"
  | .hit => "hit"
  | .miss => "miss"
  | .invalid => "invalid"
  | .fetched => "fetched"
  | .neterr => "neterr"
  | .requested => "requested"
  | .stored => "stored"
  | .double => "double"
  | .ended n ok => s!"ended {n} {if ok then "rc" else "err"}"
  | .cancelled => "cancelled"
  | .leaderCancelled => "cancelled"
  | .noeffect => "noeffect"
  | .refd => "ref"
  | .valOk => "ok"
  | .valStale => "stale"
  | .retried => "retry"
  | .held => "held"
  | .initErr => "initerr"
  | .closedOk => "closed"
  | .botch => "closeerr"
  | .finalized => "finalized"
  | .state => "state"
  | .aclosed => "aclosed"
  | .tmperr => "tmperr"
  | .bad => "bad"

def prender : POut → String
  | .out o => render o
  | .proxy p => s!"proxy {p}"
  | .started => "started"
  | .cancelled => "pcancelled"
  | .closed n => s!"pclosed {n}"
  | .panic => "panic"
  | .bad => "bad"

/-- The observable state of one key: how many rcs were ever created for it, those of them
    that are alive (referenced, or file open) with count, file state and the number of private
    descriptors on the file, which one the arena map holds, the requests the server saw. -/
def keyState (f : FState) (k : Nat) : String :=
  let s := f.a
  let gens := (List.range s.nrc).filter fun r => (s.rc r).key == k
  let cells := (gens.zipIdx.filter fun (r, _) => (s.rc r).count != 0 || (s.rc r).fileOpen).map fun (r, i) =>
    s!"g{i}:c{(s.rc r).count}:{if (s.rc r).fileOpen then "o" else "x"}:r{if (s.rc r).fileOpen then readersOf f.tab (f.rcIno r) else 0}"
  let a := match s.arena k with
    | none => "-"
    | some r => match gens.idxOf? r with
      | some i => toString i
      | none => "?"
  String.intercalate " " ([s!"k{k} n{gens.length}"] ++ cells ++ [s!"a={a}", s!"h={s.hits k}"])

def proxyState (s : PState) (i : Nat) (p : Proxy) : String :=
  let cl := (tasksOf s i .cleanup).length
  match p.call with
  | some c => s!"{if c.dead then "d" else "r"}{c.started}/{c.descs.length}+{cl}"
  | none => s!"i{cl}"

def world (d : DState) : String :=
  let f := d.p.f
  let (w, t, r) := counts f.tab
  let keys := (List.range d.nkeys).map (keyState f)
  let px := if d.p.px.isEmpty then "-" else String.intercalate " " (d.p.px.zipIdx.map fun (p, i) => proxyState d.p i p)
  String.intercalate " | " (keys ++ [s!"fd w={w} t={t} r={r}", s!"px {px}"])

def stepLine (d : DState) (l : String) : DState × String :=
  if l == "reset" then ({}, "ok") else
  match parse l with
  | none => (d, "bad-op")
  | some (.keys n) => ({ d with nkeys := n }, "ok")
  | some .gc => (d, s!"gc | {world d}")
  | some (.closeref a c) =>
    -- a Close racing with a Ref on the same rc: rc.dec is one critical section, so the
    -- observable result is that of `close a` followed by `ref b`
    let (p1, o1) := pstep d.p (.base (.base (.close a)))
    let (p2, o2) := pstep p1 (.base (.base (.ref c)))
    let d' := { d with p := p2 }
    (d', s!"{prender o1} {prender o2} | {world d'}")
  | some (.op op) =>
    let (p', o) := pstep d.p op
    let d' := { d with p := p' }
    (d', s!"{prender o} | {world d'}")

end Driver.C10

def main : IO Unit := do
  Driver.foldLines (← IO.getStdin) (← IO.getStdout) ({} : Driver.C10.DState) Driver.C10.stepLine
