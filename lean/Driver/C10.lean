import Driver.Util
import ClairModel.Model.Arena

namespace Driver.C10
open ClairModel.Arena

def bool? : String → Option Bool
  | "1" => some true
  | "0" => some false
  | _ => none

inductive Line where
  | op (o : Op)
  | gc (k : Nat)
  | closeref (a b : Nat)

def parse (l : String) : Option Line :=
  match Driver.words l with
  | ["spawn", k] => do pure (.op (.spawn (← k.toNat?)))
  | ["enter", t] => do pure (.op (.enter (← t.toNat?)))
  | ["fload", k, v] => do pure (.op (.fload (← k.toNat?) (← bool? v)))
  | ["fnet", k, v] => do pure (.op (.fnet (← k.toNat?) (← bool? v)))
  | ["freq", k] => do pure (.op (.freq (← k.toNat?)))
  | ["fbody", k, v] => do pure (.op (.fbody (← k.toNat?) (← bool? v)))
  | ["fstore", k] => do pure (.op (.fstore (← k.toNat?)))
  | ["fend", k] => do pure (.op (.fend (← k.toNat?)))
  | ["cancel", t] => do pure (.op (.cancel (← t.toNat?)))
  | ["ref", t] => do pure (.op (.ref (← t.toNat?)))
  | ["val", t] => do pure (.op (.val (← t.toNat?)))
  | ["retry", t] => do pure (.op (.retry (← t.toNat?)))
  | ["init", t, v] => do pure (.op (.init (← t.toNat?) (← bool? v)))
  | ["close", t] => do pure (.op (.close (← t.toNat?)))
  | ["query", k] => do pure (.op (.query (← k.toNat?)))
  | ["gc", k] => do pure (.gc (← k.toNat?))
  | ["closeref", a, b] => do pure (.closeref (← a.toNat?) (← b.toNat?))
  | _ => none

def render : Out → String
  | .spawned t => s!"task {t}"
  | .lead => "lead"
  | .join => "join"
  | .hit => "hit"
  | .miss => "miss"
  | .invalid => "invalid"
  | .fetched => "fetched"
  | .neterr => "neterr"
  | .requested => "requested"
  | .stored => "stored"
  | .double => "double"
  | .ended n ok => s!"ended {n} {if ok then "rc" else "err"}"
  | .cancelled => "cancelled"
  | .leaderCancelled => "cancelled"
  | .noeffect => "noeffect"
  | .refd => "ref"
  | .valOk => "ok"
  | .valStale => "stale"
  | .retried => "retry"
  | .held => "held"
  | .initErr => "initerr"
  | .closedOk => "closed"
  | .botch => "closeerr"
  | .finalized => "finalized"
  | .state => "state"
  | .bad => "bad"

/-- The observable state of one key: every rc ever created for it (count, file open or not),
    which of them the arena map holds, and the number of requests the server saw. -/
def keyState (s : State) (k : Nat) : String :=
  let gens := (List.range s.nrc).filter fun r => (s.rc r).key == k
  let cells := gens.zipIdx.map fun (r, i) =>
    s!"g{i}:c{(s.rc r).count}:{if (s.rc r).fileOpen then "o" else "x"}"
  let a := match s.arena k with
    | none => "-"
    | some r => match gens.idxOf? r with
      | some i => toString i
      | none => "?"
  String.intercalate " " (cells ++ [s!"a={a}", s!"h={s.hits k}"])

def opKey (s : State) : Op → Option Nat
  | .spawn k | .fload k _ | .fnet k _ | .freq k | .fbody k _ | .fstore k | .fend k | .query k => some k
  | .enter t | .cancel t | .ref t | .val t | .retry t | .init t _ | .close t =>
    match s.tasks[t]? with
    | some p => p.key?
    | none => none
  | .finalize i => match s.leaked[i]? with
    | some r => some (s.rc r).key
    | none => none

/-- Run every pending finalizer (abandoned refs only exist in the old machine). -/
def runFinalizers (s : State) : Nat → State
  | 0 => s
  | n + 1 => if s.leaked.isEmpty then s else runFinalizers (step s (.finalize 0)).1 n

def stepLine (s : State) (l : String) : State × String :=
  if l == "reset" then (init, "ok") else
  match parse l with
  | none => (s, "bad-op")
  | some (.gc k) =>
    let s' := runFinalizers s s.leaked.length
    (s', s!"gc | {keyState s' k}")
  | some (.closeref a b) =>
    -- a Close racing with a Ref on the same rc: rc.dec is one critical section, so the
    -- observable result is that of `close a` followed by `ref b`
    let key := opKey s (.close a)
    let (s1, o1) := step s (.close a)
    let (s2, o2) := step s1 (.ref b)
    match key with
    | some k => (s2, s!"{render o1} {render o2} | {keyState s2 k}")
    | none => (s2, s!"{render o1} {render o2}")
  | some (.op op) =>
    let key := opKey s op
    let (s', o) := step s op
    match key with
    | some k => (s', s!"{render o} | {keyState s' k}")
    | none => (s', render o)

end Driver.C10

def main : IO Unit := do
  Driver.foldLines (← IO.getStdin) (← IO.getStdout) ClairModel.Arena.init Driver.C10.stepLine
