import Driver.Util
import ClairModel.Model.Codec
import ClairModel.Gen.Enums

namespace Driver.C17
open ClairModel.Bytes ClairModel.Codec ClairModel.Gen.Enums

def toBytes (s : String) : Option Bytes := (Driver.unhex s).map fun l => l.map (·.toNat)
def hexB (b : Bytes) : String := Driver.hex (b.map fun n => UInt8.ofNat n)

def parseInts (s : String) : Option (List Int) := (s.splitOn ",").mapM String.toInt?

def showDec : Dec → String
  | .ok n => s!"ok {n}"
  | .err => "err"

def showSlots (v : List Int) : String := ",".intercalate (v.map toString)

/-- A driver.Value on the wire: `n` nil, `s<hex>` string, `b<hex>` []byte, `i<int>` int64, `o` anything else. -/
def parseSrc (w : String) : Option Src :=
  match w.toList with
  | ['n'] => some .null
  | ['o'] => some .other
  | 's' :: r => (toBytes (String.ofList r)).map .str
  | 'b' :: r => (toBytes (String.ofList r)).map .bytes
  | 'i' :: r => (String.ofList r).toInt?.map .int
  | _ => none

/-- A Digest receiver on the wire: `-` is the zero Digest, otherwise the text of a valid digest. -/
def parseRecv (w : String) : Option (Option Digest) :=
  if w == "-" then some none else
  match toBytes w with
  | some t => match digestParse t with
    | some d => some (some d)
    | none => none
  | none => none

def showDigest : Option Digest → String
  | none => "zero"
  | some d => s!"{hexB d.algo} {hexB d.checksum} {hexB (digestRepr d)}"

def showRecv (r : Option Digest × Bool) : String :=
  (if r.2 then "ok " else "err ") ++ showDigest r.1

def answer (l : String) : String :=
  match Driver.words l with
  | ["sev-scan", w] => match parseSrc w with
      | some src => showDec (enumScan (severityUnmarshal severityNameBytes severityIndex) severityIndex src)
      | none => "bad-op"
  | ["arch-scan", w] => match parseSrc w with
      | some src => showDec (enumScan (archOpUnmarshal archOpNameBytes archOpIndex) archOpIndex src)
      | none => "bad-op"
  | ["pk-un", h] => match toBytes h with
      | some t => showDec (archOpUnmarshal packageKindNameBytes packageKindIndex t)
      | none => "bad-op"
  | ["pk-m", n] => match n.toNat? with
      | some k => match enumMarshal packageKindNameBytes packageKindIndex k with
        | some t => hexB t
        | none => "none"
      | none => "bad-op"
  | ["dig-scan", o, w] => match parseRecv o, parseSrc w with
      | some old, some src => showRecv (digestScan old src)
      | _, _ => "bad-op"
  | ["dig-unx", o, h] => match parseRecv o, toBytes h with
      | some old, some t => showRecv (digestUnmarshal old t)
      | _, _ => "bad-op"
  | ["ver-unx", ha, hb] => match toBytes ha, toBytes hb with
      | some a, some b => match versionUnmarshal Version.zero a with
        | none => "bad-op"
        | some v1 =>
          let r := versionUnmarshalX v1 b
          s!"{if r.2 then "ok" else "err"} {hexB r.1.kind} {showSlots r.1.v}"
      | _, _ => "bad-op"
  | ["sev-un", h] => match toBytes h with
      | some t => showDec (severityUnmarshal severityNameBytes severityIndex t)
      | none => "bad-op"
  | ["arch-un", h] => match toBytes h with
      | some t => showDec (archOpUnmarshal archOpNameBytes archOpIndex t)
      | none => "bad-op"
  | ["sev-m", n] => match n.toNat? with
      | some k => match enumMarshal severityNameBytes severityIndex k with
        | some t => hexB t
        | none => "none"
      | none => "bad-op"
  | ["arch-m", n] => match n.toNat? with
      | some k => match enumMarshal archOpNameBytes archOpIndex k with
        | some t => hexB t
        | none => "none"
      | none => "bad-op"
  | ["sev-scanint", v] => match v.toInt? with
      | some k => showDec (enumScanInt severityIndex k)
      | none => "bad-op"
  | ["arch-scanint", v] => match v.toInt? with
      | some k => showDec (enumScanInt archOpIndex k)
      | none => "bad-op"
  | ["ver-un", h] => match toBytes h with
      | some t => match versionUnmarshal Version.zero t with
        | some v => s!"ok {hexB v.kind} {showSlots v.v}"
        | none => "err"
      | none => "bad-op"
  | ["ver-m", k, vs] => match toBytes k, parseInts vs with
      | some kind, some v => hexB (versionMarshal ⟨kind, v⟩)
      | _, _ => "bad-op"
  | ["ver-s", vs] => match parseInts vs with
      | some v => hexB (versionString ⟨[], v⟩)
      | none => "bad-op"
  | ["dig", h] => match toBytes h with
      | some t => match digestParse t with
        | some d => s!"ok {hexB d.algo} {hexB d.checksum} {hexB (digestRepr d)}"
        | none => "err"
      | none => "bad-op"
  | ["dig2", ha, hb] => match toBytes ha, toBytes hb with
      | some a, some b =>
        let sh := fun (t : Bytes) => match digestParse t with
          | some d => s!"{hexB d.checksum}:{hexB (digestRepr d)}"
          | none => "err"
        s!"{sh a} {sh b}"
      | _, _ => "bad-op"
  | ["ver-un2", ha, hb] => match toBytes ha, toBytes hb with
      | some a, some b => match versionUnmarshal Version.zero a with
        | none => "err1"
        | some v1 => match versionUnmarshal v1 b with
          | none => "err2"
          | some v2 => s!"ok {hexB v1.kind} {showSlots v1.v} {hexB v2.kind} {showSlots v2.v}"
      | _, _ => "bad-op"
  | ["reset"] => "ok"
  | _ => "bad-op"

end Driver.C17

def main : IO Unit := do
  Driver.foldLines (← IO.getStdin) (← IO.getStdout) () fun _ l => ((), Driver.C17.answer l)
