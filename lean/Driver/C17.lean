import Driver.Util
import ClairModel.Model.Codec
import ClairModel.Model.ReportJson
import ClairModel.Model.Duration
import ClairModel.Model.Cpe
import ClairModel.Gen.Enums

namespace Driver.C17
open ClairModel.Bytes ClairModel.Codec ClairModel.Gen.Enums ClairModel.ReportJson

def toBytes (s : String) : Option Bytes := (Driver.unhex s).map fun l => l.map (·.toNat)
def hexB (b : Bytes) : String := Driver.hex (b.map fun n => UInt8.ofNat n)

def parseInts (s : String) : Option (List Int) := (s.splitOn ",").mapM String.toInt?

def showDec : Dec → String
  | .ok n => s!"ok {n}"
  | .err => "err"

def showSlots (v : List Int) : String := ",".intercalate (v.map toString)

/-- A driver.Value on the wire: `n` nil, `s<hex>` string, `b<hex>` []byte, `i<int>` int64, `o` anything else. -/
def parseSrc (w : String) : Option Src :=
  match w.toList with
  | ['n'] => some .null
  | ['o'] => some .other
  | 's' :: r => (toBytes (String.ofList r)).map .str
  | 'b' :: r => (toBytes (String.ofList r)).map .bytes
  | 'i' :: r => (String.ofList r).toInt?.map .int
  | _ => none

/-- A Digest receiver on the wire: `-` is the zero Digest, otherwise the text of a valid digest. -/
def parseRecv (w : String) : Option (Option Digest) :=
  if w == "-" then some none else
  match toBytes w with
  | some t => match digestParse t with
    | some d => some (some d)
    | none => none
  | none => none

def showDigest : Option Digest → String
  | none => "zero"
  | some d => s!"{hexB d.algo} {hexB d.checksum} {hexB (digestRepr d)}"

def showRecv (r : Option Digest × Bool) : String :=
  (if r.2 then "ok " else "err ") ++ showDigest r.1

/-! ### JSON trees on the wire

  value := `n` | `t` | `f` | `i<int>;` | `s<hex>;` | `[` value* `]` | `{` (<hex>`:` value)* `}` -/

def hexNib (c : Char) : Option Nat := Driver.hexVal c

/-- hex digits up to (not including) the terminator `stop` -/
partial def takeHex (stop : Char) : List Char → List Nat → Option (Bytes × List Char)
  | c :: r, acc =>
    if c == stop then some (acc.reverse, r) else
    match r with
    | d :: r' =>
      match hexNib c, hexNib d with
      | some x, some y => takeHex stop r' ((x * 16 + y) :: acc)
      | _, _ => none
    | [] => none
  | [], _ => none

mutual
partial def parseJ : List Char → Option (J × List Char)
  | 'n' :: r => some (.null, r)
  | 't' :: r => some (.bool true, r)
  | 'f' :: r => some (.bool false, r)
  | 'i' :: r =>
    let num := r.takeWhile (· != ';')
    match (String.ofList num).toInt? with
    | some n => some (.num n, (r.dropWhile (· != ';')).drop 1)
    | none => none
  | 's' :: r => (takeHex ';' r []).map fun p => (.str p.1, p.2)
  | '[' :: r => parseArr r []
  | '{' :: r => parseObj r []
  | _ => none
partial def parseArr : List Char → List J → Option (J × List Char)
  | ']' :: r, acc => some (.arr acc.reverse, r)
  | cs, acc =>
    match parseJ cs with
    | some (j, r) => parseArr r (j :: acc)
    | none => none
partial def parseObj : List Char → List (Bytes × J) → Option (J × List Char)
  | '}' :: r, acc => some (.obj acc.reverse, r)
  | cs, acc =>
    match takeHex ':' cs [] with
    | some (k, r) =>
      match parseJ r with
      | some (j, r') => parseObj r' ((k, j) :: acc)
      | none => none
    | none => none
end

def parseTree (w : String) : Option J :=
  match parseJ w.toList with
  | some (j, []) => some j
  | _ => none

def hexRaw (b : Bytes) : String :=
  String.ofList (b.flatMap fun n => [Driver.hexDigit (n / 16), Driver.hexDigit (n % 16)])

def bytesLt : Bytes → Bytes → Bool
  | [], [] => false
  | [], _ :: _ => true
  | _ :: _, [] => false
  | a :: as, b :: bs => if a < b then true else if b < a then false else bytesLt as bs

def insertSorted (p : Bytes × String) : List (Bytes × String) → List (Bytes × String)
  | [] => [p]
  | q :: t => if bytesLt p.1 q.1 then p :: q :: t else q :: insertSorted p t

/-- canonical form: the wire grammar with object keys sorted -/
partial def renderJ : J → String
  | .null => "n"
  | .bool true => "t"
  | .bool false => "f"
  | .num n => s!"i{n};"
  | .str s => "s" ++ hexRaw s ++ ";"
  | .arr xs => "[" ++ String.join (xs.map renderJ) ++ "]"
  | .obj kv =>
    let items := kv.foldl (fun acc p => insertSorted (p.1, renderJ p.2) acc) []
    "{" ++ String.join (items.map fun p => hexRaw p.1 ++ ":" ++ p.2) ++ "}"

/-! ### the leaf codecs of the driver: C19's WFN codec under marshaling.go's wrapper, and time as canonical RFC 3339 text -/

abbrev W := ClairModel.Cpe.WFN

def zeroWFN : W := List.replicate 11 ClairModel.Cpe.unsetValue

def wfnCodec : LeafCodec W :=
  ⟨zeroWFN, ClairModel.Cpe.marshalText, wfnUnmarshalText ClairModel.Cpe.unbind zeroWFN⟩

def twoDigits (a b : Nat) (lo hi : Nat) : Bool :=
  isDigit a && isDigit b && lo ≤ (a - 48) * 10 + (b - 48) && (a - 48) * 10 + (b - 48) ≤ hi

/-- `YYYY-MM-DDTHH:MM:SS[.fraction without trailing zero]Z`, the form
    `time.Time.MarshalJSON` prints for a UTC time (days up to 28 only: month
    lengths are not modelled, the harness does not generate later days). -/
def canonTime (s : Bytes) : Bool :=
  match s with
  | y1 :: y2 :: y3 :: y4 :: 45 :: m1 :: m2 :: 45 :: d1 :: d2 :: 84 :: h1 :: h2 :: 58 :: n1 :: n2 :: 58 :: s1 :: s2 :: rest =>
    isDigit y1 && isDigit y2 && isDigit y3 && isDigit y4 && twoDigits m1 m2 1 12 && twoDigits d1 d2 1 28 &&
    twoDigits h1 h2 0 23 && twoDigits n1 n2 0 59 && twoDigits s1 s2 0 59 &&
    (rest == [90] ||
      match rest with
      | 46 :: fr =>
        let digits := fr.take (fr.length - 1)
        fr.getLast? == some 90 && digits.length ≥ 1 && digits.length ≤ 9 && digits.all isDigit &&
          digits.getLast? != some 48
      | _ => false)
  | _ => false

def zeroTime : Bytes := ofString "0001-01-01T00:00:00Z"

def timeCodec : LeafCodec Bytes := ⟨zeroTime, some, fun _ s => if canonTime s then some s else none⟩

def leaves : Leaves W Bytes :=
  ⟨wfnCodec, timeCodec, severityCodec severityNameBytes severityIndex, archOpCodec archOpNameBytes archOpIndex⟩

def showEnc : Option (Option J) → String
  | none => "err"
  | some none => "encerr"
  | some (some j) => "ok " ++ renderJ j

/-- decode a tree as the named Go type, re-encode, render canonically -/
def jsRoundTrip (ty : String) (j0 : J) : String :=
  -- `json.Unmarshal("null", &v)` is a no-op: the zero value, which is also what `{}` decodes to
  let j := match j0 with | .null => J.obj [] | x => x
  match ty with
  | "pkg" => showEnc ((decPackage leaves j).map (encPackage leaves))
  | "dist" => showEnc ((decDist leaves j).map (encDist leaves))
  | "repo" => showEnc ((decRepo leaves j).map (encRepo leaves))
  | "env" => showEnc ((decEnv j).map fun e => some (encEnv e))
  | "range" => showEnc ((decRange j).map fun e => some (encRange e))
  | "vuln" => showEnc ((decVuln leaves j).map (encVuln leaves))
  | "ir" => showEnc ((decIR leaves j).map (encIR leaves))
  | "vr" => showEnc ((decVR leaves j).map (encVR leaves))
  | _ => "bad-op"

def optStr : Option J → String
  | none => "encerr"
  | some j => renderJ j

/-- one index record, canonically: package / distribution / repository as their JSON -/
def showRecord (r : Record W) : String :=
  optStr (encPackage leaves r.package) ++ "|" ++ optStr (encOptPtr (encDist leaves) r.dist) ++ "|" ++
    optStr (encOptPtr (encRepo leaves) r.repo)

def insertStr (s : String) : List String → List String
  | [] => [s]
  | t :: r => if s < t then s :: t :: r else t :: insertStr s r

def recordsOf (j : J) : String :=
  match decIR leaves j with
  | none => "err"
  | some ir =>
    match indexRecords ir with
    | none => "panic"
    | some recs =>
      let l := recs.foldl (fun acc r => insertStr (showRecord r) acc) []
      s!"ok {recs.length} " ++ ",".intercalate l

/-- `uint64(float64(f) * (float64(unit) / scale))` in IEEE doubles, as time.ParseDuration computes it. -/
def fracMulFloat (f unit k : Nat) : Nat :=
  (Float.ofNat f * (Float.ofNat unit / Float.ofNat (10 ^ k))).toUInt64.toNat

def answer (l : String) : String :=
  match Driver.words l with
  | ["dur-m", v] => match v.toInt? with
      | some d => hexB (ClairModel.Duration.durationString d)
      | none => "bad-op"
  | ["dur-un", o, h] => match o.toInt?, toBytes h with
      | some old, some t =>
        let r := ClairModel.Duration.durationUnmarshal fracMulFloat old t
        s!"{if r.2 then "ok" else "err"} {r.1}"
      | _, _ => "bad-op"
  | ["js", ty, w] => match parseTree w with
      | some j => jsRoundTrip ty j
      | none => "bad-op"
  | ["recs", w] => match parseTree w with
      | some j => recordsOf j
      | none => "bad-op"
  | ["wfn-scan", o, w] => match toBytes o, parseSrc w with
      | some ot, some src =>
        match wfnUnmarshalText ClairModel.Cpe.unbind zeroWFN zeroWFN ot with
        | none => "bad-op"
        | some old =>
          match wfnScan ClairModel.Cpe.unbind old src with
          | none => "err"
          | some w' => match ClairModel.Cpe.marshalText w' with
            | some t => "ok " ++ hexB t
            | none => "ok invalid"
      | _, _ => "bad-op"
  | ["wfn-un", o, h] => match toBytes o, toBytes h with
      | some ot, some t =>
        match wfnUnmarshalText ClairModel.Cpe.unbind zeroWFN zeroWFN ot with
        | none => "bad-op"
        | some old =>
          match wfnUnmarshalText ClairModel.Cpe.unbind zeroWFN old t with
          | none => "err"
          | some w' => match ClairModel.Cpe.marshalText w' with
            | some t' => "ok " ++ hexB t'
            | none => "ok invalid"
      | _, _ => "bad-op"
  | ["utf8", h] => match toBytes h with
      | some b => hexB (toValidUTF8 b)
      | none => "bad-op"
  | ["sev-scan", w] => match parseSrc w with
      | some src => showDec (enumScan (severityUnmarshal severityNameBytes severityIndex) severityIndex src)
      | none => "bad-op"
  | ["arch-scan", w] => match parseSrc w with
      | some src => showDec (enumScan (archOpUnmarshal archOpNameBytes archOpIndex) archOpIndex src)
      | none => "bad-op"
  | ["pk-un", h] => match toBytes h with
      | some t => showDec (archOpUnmarshal packageKindNameBytes packageKindIndex t)
      | none => "bad-op"
  | ["pk-m", n] => match n.toNat? with
      | some k => match enumMarshal packageKindNameBytes packageKindIndex k with
        | some t => hexB t
        | none => "none"
      | none => "bad-op"
  | ["dig-scan", o, w] => match parseRecv o, parseSrc w with
      | some old, some src => showRecv (digestScan old src)
      | _, _ => "bad-op"
  | ["dig-unx", o, h] => match parseRecv o, toBytes h with
      | some old, some t => showRecv (digestUnmarshal old t)
      | _, _ => "bad-op"
  | ["ver-unx", ha, hb] => match toBytes ha, toBytes hb with
      | some a, some b => match versionUnmarshal Version.zero a with
        | none => "bad-op"
        | some v1 =>
          let r := versionUnmarshalX v1 b
          s!"{if r.2 then "ok" else "err"} {hexB r.1.kind} {showSlots r.1.v}"
      | _, _ => "bad-op"
  | ["sev-un", h] => match toBytes h with
      | some t => showDec (severityUnmarshal severityNameBytes severityIndex t)
      | none => "bad-op"
  | ["arch-un", h] => match toBytes h with
      | some t => showDec (archOpUnmarshal archOpNameBytes archOpIndex t)
      | none => "bad-op"
  | ["sev-m", n] => match n.toNat? with
      | some k => match enumMarshal severityNameBytes severityIndex k with
        | some t => hexB t
        | none => "none"
      | none => "bad-op"
  | ["arch-m", n] => match n.toNat? with
      | some k => match enumMarshal archOpNameBytes archOpIndex k with
        | some t => hexB t
        | none => "none"
      | none => "bad-op"
  | ["sev-scanint", v] => match v.toInt? with
      | some k => showDec (enumScanInt severityIndex k)
      | none => "bad-op"
  | ["arch-scanint", v] => match v.toInt? with
      | some k => showDec (enumScanInt archOpIndex k)
      | none => "bad-op"
  | ["ver-un", h] => match toBytes h with
      | some t => match versionUnmarshal Version.zero t with
        | some v => s!"ok {hexB v.kind} {showSlots v.v}"
        | none => "err"
      | none => "bad-op"
  | ["ver-m", k, vs] => match toBytes k, parseInts vs with
      | some kind, some v => hexB (versionMarshal ⟨kind, v⟩)
      | _, _ => "bad-op"
  | ["ver-s", vs] => match parseInts vs with
      | some v => hexB (versionString ⟨[], v⟩)
      | none => "bad-op"
  | ["dig", h] => match toBytes h with
      | some t => match digestParse t with
        | some d => s!"ok {hexB d.algo} {hexB d.checksum} {hexB (digestRepr d)}"
        | none => "err"
      | none => "bad-op"
  | ["dig2", ha, hb] => match toBytes ha, toBytes hb with
      | some a, some b =>
        let sh := fun (t : Bytes) => match digestParse t with
          | some d => s!"{hexB d.checksum}:{hexB (digestRepr d)}"
          | none => "err"
        s!"{sh a} {sh b}"
      | _, _ => "bad-op"
  | ["ver-un2", ha, hb] => match toBytes ha, toBytes hb with
      | some a, some b => match versionUnmarshal Version.zero a with
        | none => "err1"
        | some v1 => match versionUnmarshal v1 b with
          | none => "err2"
          | some v2 => s!"ok {hexB v1.kind} {showSlots v1.v} {hexB v2.kind} {showSlots v2.v}"
      | _, _ => "bad-op"
  | ["reset"] => "ok"
  | _ => "bad-op"

end Driver.C17

def main : IO Unit := do
  Driver.foldLines (← IO.getStdin) (← IO.getStdout) () fun _ l => ((), Driver.C17.answer l)
