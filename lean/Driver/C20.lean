import Driver.Util
import ClairModel.Model.Locks
import ClairModel.Model.LockCallers

/-
  Line protocol of C20.

  lock operations by the harness itself (the lock machine, as before):
    try k p | lock t k p | retest t | release g | cancel p | ctx g | close
  the callers of the lock sources (Libindex.Index, Manager.Run, Updater.fetchOne):
    begin index|try k p   -> cid n
    cacq c | cretest c    -> acq g | parked | busy
    check c               -> body | skip
    leave c r             -> ok
    done c                -> released | noop
    ret c                 -> ret nil|err|can|-
    bctx c                -> live | dead
  which lock source an entry point uses:
    select libindex|libvuln|updater given|nil -> given | local | rejected
-/
namespace Driver.C20
open ClairModel ClairModel.LockCallers

def parseRaw (l : String) : Option Locks.Op :=
  match Driver.words l with
  | ["try", k, p] => do pure (.tryLock (← k.toNat?) (← p.toNat?))
  | ["lock", t, k, p] => do pure (.lock (← t.toNat?) (← k.toNat?) (← p.toNat?))
  | ["retest", t] => do pure (.retest (← t.toNat?))
  | ["release", g] => do pure (.release (← g.toNat?))
  | ["cancel", p] => do pure (.cancelParent (← p.toNat?))
  | ["ctx", g] => do pure (.ctx (← g.toNat?))
  | ["close"] => some .close
  | _ => none

def parse (l : String) : Option Op :=
  match Driver.words l with
  | ["begin", "index", k, p] => do pure (.begin .index (← k.toNat?) (← p.toNat?))
  | ["begin", "try", k, p] => do pure (.begin .tryer (← k.toNat?) (← p.toNat?))
  | ["cacq", c] => do pure (.acquire (← c.toNat?))
  | ["cretest", c] => do pure (.retest (← c.toNat?))
  | ["check", c] => do pure (.check (← c.toNat?))
  | ["leave", c, r] => do pure (.leave (← c.toNat?) (← r.toNat?))
  | ["done", c] => do pure (.done (← c.toNat?))
  | ["ret", c] => do pure (.ret (← c.toNat?))
  | ["bctx", c] => do pure (.bctx (← c.toNat?))
  | _ => (parseRaw l).map .raw

def renderLk : Locks.Out → String
  | .acquired g => s!"acq {g}"
  | .busy => "busy"
  | .parked => "parked"
  | .released => "released"
  | .noop => "noop"
  | .ctxLive true => "live"
  | .ctxLive false => "dead"
  | .ok => "ok"
  | .bad => "bad"

def render : Out → String
  | .cid c => s!"cid {c}"
  | .lk o => renderLk o
  | .body => "body"
  | .skip => "skip"
  | .ok => "ok"
  | .retd 0 => "ret nil"
  | .retd 1 => "ret err"
  | .retd 2 => "ret can"
  | .retd _ => "ret -"
  | .ctxLive true => "live"
  | .ctxLive false => "dead"
  | .bad => "bad"

def selectLine (l : String) : Option String :=
  match Driver.words l with
  | ["select", e, g] =>
    let ent : Option Entry := match e with
      | "libindex" => some .libindex | "libvuln" => some .libvuln | "updater" => some .updater | _ => none
    let giv : Option Bool := match g with | "given" => some true | "nil" => some false | _ => none
    match ent, giv with
    | some e, some g =>
      some (match select e g with | .given => "given" | .localSrc => "local" | .rejected => "rejected")
    | _, _ => none
  | _ => none

def stepLine (s : State) (l : String) : State × String :=
  if l == "reset" then (init, "ok") else
  match selectLine l with
  | some o => (s, o)
  | none =>
    match parse l with
    | none => (s, "bad-op")
    | some op => let (s', o) := step s op; (s', render o)

end Driver.C20

def main : IO Unit := do
  Driver.foldLines (← IO.getStdin) (← IO.getStdout) ClairModel.LockCallers.init Driver.C20.stepLine
