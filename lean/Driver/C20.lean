import Driver.Util
import ClairModel.Model.Locks

namespace Driver.C20
open ClairModel.Locks

def parse (l : String) : Option Op :=
  match Driver.words l with
  | ["try", k, p] => do pure (.tryLock (← k.toNat?) (← p.toNat?))
  | ["lock", t, k, p] => do pure (.lock (← t.toNat?) (← k.toNat?) (← p.toNat?))
  | ["retest", t] => do pure (.retest (← t.toNat?))
  | ["release", g] => do pure (.release (← g.toNat?))
  | ["cancel", p] => do pure (.cancelParent (← p.toNat?))
  | ["ctx", g] => do pure (.ctx (← g.toNat?))
  | _ => none

def render : Out → String
  | .acquired g => s!"acq {g}"
  | .busy => "busy"
  | .parked => "parked"
  | .released => "released"
  | .noop => "noop"
  | .ctxLive true => "live"
  | .ctxLive false => "dead"
  | .ok => "ok"
  | .bad => "bad"

def stepLine (s : State) (l : String) : State × String :=
  if l == "reset" then (init, "ok") else
  match parse l with
  | none => (s, "bad-op")
  | some op => let (s', o) := step s op; (s', render o)

end Driver.C20

def main : IO Unit := do
  Driver.foldLines (← IO.getStdin) (← IO.getStdout) ClairModel.Locks.init Driver.C20.stepLine
