import Driver.Util
import ClairModel.Model.FeedSeverity
import ClairModel.Model.FeedCommon
import ClairModel.Model.FeedFlat
import ClairModel.Model.FeedOval
import ClairModel.Model.FeedOsv
import ClairModel.Model.FeedVex
import ClairModel.Model.FeedOvalScope
import ClairModel.Gen.Severity
import ClairModel.Gen.Feeds

/-!
  Line-protocol driver of the C14 models.  An operation line is a list of
  space-separated tokens; strings are hex (UTF-8 bytes, `-` = empty), lists are
  a count followed by the elements.
-/
namespace Driver.C14
open ClairModel.Feeds
open ClairModel.Gen.Severity ClairModel.Gen.Feeds

abbrev P := StateT (List String) Option

def tok : P String := fun ts => match ts with
  | [] => none
  | t :: rest => some (t, rest)

def nat : P Nat := do
  let t ← tok
  match t.toNat? with
  | some n => pure n
  | none => failure

def str : P String := do
  let t ← tok
  match Driver.unhex t with
  | some bs => match String.fromUTF8? (ByteArray.mk bs.toArray) with
    | some s => pure s
    | none => failure
  | none => failure

def rep {α : Type} (p : P α) : Nat → P (List α)
  | 0 => pure []
  | n + 1 => do
    let x ← p
    let xs ← rep p n
    pure (x :: xs)

def many {α : Type} (p : P α) : P (List α) := do
  let n ← nat
  rep p n

def sortStrings (xs : List String) : List String :=
  xs.mergeSort fun a b => compare a b != .gt

def showVulns (sorted : Bool) (vs : List Vuln) : String :=
  let rs := vs.map Vuln.render
  let rs := if sorted then sortStrings rs else rs
  " ".intercalate (s!"ok {rs.length}" :: rs)

/-- The severity switch of a source, by name. -/
def sevOf (src : String) : Option (String → Nat) :=
  match src with
  | "debian" => some (normalize codeDebianMode codeDebian codeDebianDefault)
  | "ubuntu" => some (normalize codeUbuntuMode codeUbuntu codeUbuntuDefault)
  | "oracle" => some (normalize codeOracleMode codeOracle codeOracleDefault)
  | "suse" => some (normalize codeSuseMode codeSuse codeSuseDefault)
  | "photon" => some (normalize codePhotonMode codePhoton codePhotonDefault)
  | "aws" => some (normalize codeAwsMode codeAws codeAwsDefault)
  | "rhel" => some (normalize codeRhelMode codeRhel codeRhelDefault)
  | "osvdb" => some (normalize codeOsvDbMode codeOsvDb codeOsvDbDefault)
  | _ => none

def pSecdb : P String := do
  let updater ← str
  let dist ← str
  let pkgs ← many (do
    let name ← str
    let fixes ← many (do
      let ver ← str
      let ids ← many str
      pure (ver, ids))
    pure ({ name := name, secfixes := fixes } : SecdbPkg))
  pure (showVulns true (secdbParse alpineLinkPrefix codeAlpineConst updater dist pkgs))

def pDebian : P String := do
  let known ← many (do
    let r ← str
    let d ← str
    pure (r, d))
  let data ← many (do
    let src ← str
    let vs ← many (do
      let id ← str
      let desc ← str
      let rels ← many (do
        let release ← str
        let status ← str
        let fixed ← str
        let urgency ← str
        pure ({ release, status, fixed, urgency } : DebRelease))
      pure ({ id := id, desc := desc, releases := rels } : DebVuln))
    pure (src, vs))
  pure (showVulns true (debianParse debianLinkPrefix (normalize codeDebianMode codeDebian codeDebianDefault) known data))

def pAws : P String := do
  let updater ← str
  let dist ← str
  let ups ← many (do
    let id ← str
    let desc ← str
    let severity ← str
    let issued ← str
    let refs ← many str
    let pkgs ← many (do
      let name ← str
      let epoch ← str
      let version ← str
      let release ← str
      let arch ← str
      pure ({ name, epoch, version, release, arch } : AlasPkg))
    pure ({ id, desc, severity, refs, pkgs, issued } : AlasUpdate))
  pure (showVulns false (awsParse (normalize codeAwsMode codeAws codeAwsDefault) updater dist ups))

def pSev : P String := do
  let src ← tok
  let s ← str
  match sevOf src with
  | some f => pure (toString (f s))
  | none => failure

def pRate : P String := do
  let which ← tok
  let _vector ← tok
  let k ← nat
  let bands ← match which with
    | "v3" => pure codeOsvV3Bands
    | "v2" => pure codeOsvV2Bands
    | _ => failure
  match rate bands k with
  | some v => pure (toString v)
  | none => pure "err"

partial def pCriteria : P Criteria := do
  let subs ← many pCriteria
  let leaves ← many (do
    let testRef ← str
    let comment ← str
    pure ({ testRef, comment } : Criterion))
  pure (.node subs leaves)

def pOpt {α : Type} (p : P α) : P (Option α) := do
  let n ← nat
  if n == 0 then pure none else (do let x ← p; pure (some x))

def pRoot : P OvalRoot := do
  let tests ← many (do
    let id ← str
    let kind ← str
    let objRefs ← many str
    let stateRefs ← many str
    pure (id, ({ kind, objRefs, stateRefs } : OvalTest)))
  let objects ← many (do
    let id ← str
    let kind ← str
    let name ← str
    let varRef ← str
    pure (id, ({ kind, name, varRef } : OvalObject)))
  let states ← many (do
    let id ← str
    let kind ← str
    let evr ← pOpt str
    let arch ← pOpt (do
      let op ← nat
      let body ← str
      pure ({ op, body } : OvalArch))
    pure (id, ({ kind, evr, arch } : OvalState)))
  let variables ← many (do
    let id ← str
    let vals ← many str
    pure (id, vals))
  pure { tests, objects, states, variables }

def pDef : P OvalDef := do
  let id ← str
  let title ← str
  let desc ← str
  let severity ← str
  let issued ← str
  let refUrls ← many str
  let advRefs ← many str
  let bugs ← many str
  let cveHrefs ← many str
  let platforms ← many (many str)
  let cpes ← many (do
    let c ← str
    let ok ← nat
    pure (c, ok != 0))
  let criteria ← pCriteria
  pure { id, title, desc, severity, refUrls, advRefs, bugs, cveHrefs, platforms, cpes, criteria, issued }

def showOpt (r : Option (List Vuln)) : String :=
  match r with
  | none => "err"
  | some vs => showVulns false vs

def pOval : P String := do
  let flavor ← tok
  let updater ← str
  match flavor with
  | "oracle" =>
    let plats ← many (do
      let p ← str
      let d ← str
      pure (p, d))
    let root ← pRoot
    let defs ← many pDef
    pure (showOpt (rpmDefsToVulns root (protoOracle (normalize codeOracleMode codeOracle codeOracleDefault) updater plats) defs))
  | "suse" =>
    let dist ← str
    let root ← pRoot
    let defs ← many pDef
    pure (showOpt (rpmDefsToVulns root (protoSingle (normalize codeSuseMode codeSuse codeSuseDefault) updater dist) defs))
  | "photon" =>
    let dist ← str
    let root ← pRoot
    let defs ← many pDef
    pure (showOpt (rpmDefsToVulns root (protoSingle (normalize codePhotonMode codePhoton codePhotonDefault) updater dist true) defs))
  | "rhel" =>
    let dist ← str
    let ign ← nat
    let root ← pRoot
    let defs ← many pDef
    pure (showOpt (rpmDefsToVulns root
      (protoRhel (normalize codeRhelMode codeRhel codeRhelDefault) updater dist (ign != 0) ovalDefUnaffected ovalDefNone ovalDefCve rhelRepositoryKey) defs))
  | "ubuntu" =>
    let dist ← str
    let root ← pRoot
    let defs ← many pDef
    pure (showOpt (dpkgDefsToVulns root (protoUbuntu (normalize codeUbuntuMode codeUbuntu codeUbuntuDefault) updater dist) defs))
  | _ => failure

def pSemver : P SemverParse := do
  let t ← tok
  if t == "x" then pure none else
  match (t.splitOn ".").map String.toNat? with
  | [some a, some b, some c, some p] => pure (some (a, b, c, p != 0))
  | _ => failure

def pBool : P Bool := do
  let n ← nat
  pure (n != 0)

def pOsvAdvisory : P OsvAdvisory := do
  let id ← str
  let summary ← str
  let published ← str
  let withdrawnPast ← pBool
  let severities ← many (do
    let type ← str
    let score ← str
    let rating ← nat
    pure ({ type, score, rating } : OsvSeverity))
  let dbSeverity ← pOpt str
  let refs ← many str
  let affected ← many (do
    let ecosystem ← str
    let name ← str
    let purl ← str
    let hasVersions ← pBool
    let ranges ← many (do
      let type ← str
      let events ← many (do
        let introduced ← str
        let fixed ← str
        let lastAffected ← str
        let limit ← str
        let introducedV ← pSemver
        let fixedV ← pSemver
        let lastAffectedV ← pSemver
        pure ({ introduced, fixed, lastAffected, limit, introducedV, fixedV, lastAffectedV } : OsvEvent))
      pure ({ type, events } : OsvRange))
    pure ({ ecosystem, name, purl, hasVersions, ranges } : OsvAffected))
  pure { id, summary, withdrawnPast, severities, dbSeverity, refs, affected, published }

def osvEco : OsvEcosystems :=
  { go := osvEcosystemGo, maven := osvEcosystemMaven, npm := osvEcosystemNPM, pypi := osvEcosystemPyPI, rubygems := osvEcosystemRubyGems }

def pOsv : P String := do
  let updater ← str
  let repoName ← str
  let advs ← many pOsvAdvisory
  pure (showOpt (osvParse osvEco (normalize codeOsvDbMode codeOsvDb codeOsvDbDefault) osvRepoURIs updater repoName advs))

/-! ### OVAL criteria read with their operators (the specification the oracle uses) -/

partial def pSTree : P STree := do
  let op ← str
  let subs ← many pSTree
  let leaves ← many (do
    let testRef ← str
    let comment ← str
    pure ({ testRef, comment } : Criterion))
  pure (.node op subs leaves)

/-- `ovalscope`: the (package, module) pairs a definition states when its
    criteria are read with their operators, sorted. -/
def pOvalScope : P String := do
  let root ← pRoot
  let t ← pSTree
  let d : OvalDef := { id := "", title := "", desc := "", severity := "", refUrls := [], advRefs := [], bugs := [], cveHrefs := [],
                       platforms := [], cpes := [], criteria := t.erase }
  let vs := rpmDefScoped root (protoSingle (fun _ => 0) "" "") d t
  let rs := sortStrings (vs.map fun v => hexStr v.pkgName ++ "@" ++ hexStr v.pkgModule)
  pure (" ".intercalate (s!"ok {rs.length}" :: rs))

/-! ### VEX -/

def pPurl : P PurlHelper := do
  let k ← nat
  if k == 0 then pure .absent
  else if k == 1 then pure .bad
  else
    let type ← str
    let ns ← str
    let name ← str
    let version ← str
    let arch ← str
    let epoch ← pOpt str
    let tag ← pOpt str
    let repoUrl ← pOpt str
    pure (.ok { type, ns, name, version, arch, epoch, tag, repoUrl })

def pVexProduct : P VexProduct := do
  let id ← str
  let cpe ← pOpt str
  let purl ← pPurl
  pure { id, cpe, purl }

partial def pVexBranch : P VexBranch := do
  let p ← pVexProduct
  let subs ← many pVexBranch
  pure (.node p subs)

def pCvss : P (Option CvssEntry) := pOpt (do
  let vector ← str
  let valid ← pBool
  let zero ← pBool
  pure ({ vector, valid, zero } : CvssEntry))

def pVexVuln : P VexVuln := do
  let issued ← str
  let refs ← many str
  let notes ← many (do
    let c ← str
    let t ← str
    pure (c, t))
  let fixed ← many str
  let known ← many str
  let otherStatus ← many str
  let threats ← many (do
    let category ← str
    let details ← str
    let products ← many str
    pure ({ category, details, products } : VexThreat))
  let scores ← many (do
    let v2 ← pCvss
    let v3 ← pCvss
    let v4 ← pCvss
    let products ← many str
    pure ({ v2, v3, v4, products } : VexScore))
  let rems ← many (do
    let url ← str
    let products ← many str
    pure ({ url, products } : VexRemediation))
  pure { issued, refs, notes, fixed, known, otherStatus, threats, scores, rems }

def pVexDoc : P VexDoc := do
  let id ← str
  let status ← str
  let docRefs ← many (do
    let c ← str
    let u ← str
    pure (c, u))
  let tree ← pVexBranch
  let rels ← many (do
    let category ← str
    let fullId ← str
    let ref ← str
    let relTo ← str
    pure ({ category, fullId, ref, relTo } : VexRel))
  let vulns ← many pVexVuln
  pure { id, status, docRefs, tree, rels, vulns }

def sortGroups (gs : List (String × List Vuln)) : List (String × List Vuln) :=
  gs.mergeSort fun a b => compare a.1 b.1 != .gt

def pVex : P String := do
  let updater ← str
  let cpes ← many (do
    let c ← str
    let n ← pOpt str
    pure (c, n))
  let tags ← many (do
    let t ← str
    let mm ← pOpt (do
      let a ← nat
      let b ← nat
      pure (a, b))
    pure (t, mm))
  let docs ← many pVexDoc
  let env : VexEnv := { updater, sev := normalize codeRhelMode codeRhel codeRhelDefault, repoKey := vexRepoKey,
                        goldRepo := rhccGoldRepoKey, cpes, tags }
  match vexParse env docs with
  | none => pure "err"
  | some (groups, deleted) =>
    let recs := (sortGroups groups).flatMap fun g => g.2.map Vuln.render
    let del := sortStrings (deleted.map hexStr)
    pure (" ".intercalate ([s!"ok {recs.length}"] ++ recs ++ [s!"del {del.length}"] ++ del))

def dispatch : P String := do
  let op ← tok
  match op with
  | "sev" => pSev
  | "rate" => pRate
  | "secdb" => pSecdb
  | "debian" => pDebian
  | "aws" => pAws
  | "oval" => pOval
  | "osv" => pOsv
  | "vex" => pVex
  | "ovalscope" => pOvalScope
  | "reset" => pure "ok"
  | _ => failure

def answer (l : String) : String :=
  match dispatch (Driver.words l) with
  | some (out, []) => out
  | _ => "bad-op"

end Driver.C14

def main : IO Unit := do
  Driver.foldLines (← IO.getStdin) (← IO.getStdout) () fun _ l => ((), Driver.C14.answer l)
