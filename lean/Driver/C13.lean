import Driver.Util
import ClairModel.Model.Manager
import ClairModel.Model.ManagerSetup
import ClairModel.Model.ManagerStart

/-
  Line-protocol driver of the update-manager model (property C13).

  Declarations (answer `ok`):
    reset
    hist <v|e> <name> <fp>                      prior update operation (oldest first)
    upd <i> <name> <p|d|e|x> <cfg> <getok> <fmode> <src> <parseok> <vulns> <deleted> <storeok> <ctxaware> <cmode>
    fac <f> <ok> <members> <fcfg>               an UpdaterSetFactory handed in from outside
    facset <f> <uset> <fcfg>                    ... that is StaticSet(<uset>) as the set is now
    regdecl <name> <f>                          a factory already in the process-wide registry
    startdecl <s> <mgr>                         a Manager.Start call
    run <r> <mgr> [<s>]                         a Manager.Run call (made by Start call s)
  Set-up operations (answer = what the model says the code does):
    uset <id> add <i> | merge <id2> | filter <pat> | list
    register <name> <f>          registered
    newmgr <m> <clientok> <defbatch> <definterval> <opt>...
        opt = b:<n> i:<n> en:*|-|<csv> cf:-|<u|f><name>=<id>,... oot:-|<csv> gc:<int> fs:-|<name>=<f>,...
  Events:
    begin|acquire|launch|wait|drained|ret|cancel|gctry|gc|gcdone <r>
    try|getops|fetch|parse|store|close|status|done <r> <i>
    sbegin|tick|sret|scancel <s>
-/
namespace Driver.C13
open ClairModel.Manager ClairModel.MgrSetup ClairModel.MgrStart

structure RunInfo where
  batch : Nat
  gc : Bool
  keep : Int
  toRun : List Nat
  stubSets : Nat
  facCalls : List Nat
  cfgCalls : List (Nat × Nat)

structure DState where
  scripts : List (Nat × Script) := []
  facs : List (Nat × Fac × Nat) := []
  usets : List (Nat × USet) := []
  reg : List (Nat × Nat) := []
  mgrs : List (Nat × Mgr) := []
  runs : List (Nat × RunInfo) := []
  owner : List (Nat × Nat) := []
  starts : List (Nat × Nat) := []
  st : SState := sinit []

def defaultScript : Script :=
  { name := 0, kind := .plain, cfg := 0, getOk := true, fmode := 0, src := 0, parseOk := true,
    vulns := [], deleted := [], storeOk := true, ctxAware := false, cmode := 0 }

/-- The program-counter slot of the GC section; its "updater" only carries
    the lock key `garbage-collection` (name 1). -/
def gcInst : Nat := 1000000

def script (d : DState) (i : Nat) : Script :=
  if i == gcInst then { defaultScript with name := 1 } else
  match d.scripts.lookup i with
  | some s => s
  | none => defaultScript

def world (d : DState) : World :=
  { name := fun i => (script d i).name,
    ucfg := fun i => (script d i).cfg,
    fac := fun f => match d.facs.lookup f with
      | some x => x.1
      | none => ⟨false, []⟩,
    fcfg := fun f => match d.facs.lookup f with
      | some x => x.2
      | none => 0 }

def insertSorted (x : Nat) : List Nat → List Nat
  | [] => [x]
  | y :: ys => if x ≤ y then x :: y :: ys else y :: insertSorted x ys

def sortNat (l : List Nat) : List Nat := l.foldr insertSorted []

def insertPair (x : Nat × Nat) : List (Nat × Nat) → List (Nat × Nat)
  | [] => [x]
  | y :: ys => if x.1 < y.1 ∨ (x.1 = y.1 ∧ x.2 ≤ y.2) then x :: y :: ys else y :: insertPair x ys

def sortPairs (l : List (Nat × Nat)) : List (Nat × Nat) := l.foldr insertPair []

def runInfo (d : DState) (m : Mgr) : RunInfo :=
  let w := world d
  { batch := m.batch, gc := m.retention != 0, keep := m.retention,
    toRun := m.toRun w, stubSets := m.stubSets w,
    facCalls := sortNat (m.facs.map (·.1)), cfgCalls := sortPairs (m.cfgCalls w) }

def noRun : RunInfo :=
  { batch := 0, gc := false, keep := 0, toRun := [], stubSets := 0, facCalls := [], cfgCalls := [] }

def mkEnv (d : DState) : Env :=
  let info := fun r => (d.runs.lookup r).getD noRun
  { upd := fun i => (script d i).toUpd,
    batch := fun r => (info r).batch,
    gc := fun r => (info r).gc,
    keep := fun r => (info r).keep,
    gcInst := gcInst,
    toRun := fun r => (info r).toRun,
    stubSets := fun r => (info r).stubSets,
    facCalls := fun r => (info r).facCalls,
    cfgCalls := fun r => (info r).cfgCalls }

def mkSEnv (d : DState) : SEnv :=
  { env := mkEnv d, owner := fun r => d.owner.lookup r, interval := fun s => (d.starts.lookup s).getD 0 }

def csv (s : String) : Option (List Nat) :=
  if s == "-" then some [] else (s.splitOn ",").mapM (·.toNat?)

def bool? (s : String) : Option Bool :=
  if s == "1" then some true else if s == "0" then some false else none

def kind? (s : String) : Option Kind :=
  if s == "p" then some .plain else if s == "d" then some .delta
  else if s == "e" then some .enrich
  else if s == "x" then some .enrich     -- an object that is an EnrichmentUpdater and a DeltaUpdater: the former wins
  else none

def parseEv (ws : List String) : Option SEv :=
  match ws with
  | ["begin", r] => do pure (.inner (.begin (← r.toNat?)))
  | ["acquire", r] => do pure (.inner (.acquire (← r.toNat?)))
  | ["launch", r] => do pure (.inner (.launch (← r.toNat?)))
  | ["wait", r] => do pure (.inner (.wait (← r.toNat?)))
  | ["drained", r] => do pure (.inner (.drained (← r.toNat?)))
  | ["ret", r] => do pure (.inner (.ret (← r.toNat?)))
  | ["cancel", r] => do pure (.inner (.cancel (← r.toNat?)))
  | ["try", r, i] => do pure (.inner (.tryLock (← r.toNat?) (← i.toNat?)))
  | ["getops", r, i] => do pure (.inner (.getOps (← r.toNat?) (← i.toNat?)))
  | ["fetch", r, i] => do pure (.inner (.fetch (← r.toNat?) (← i.toNat?)))
  | ["parse", r, i] => do pure (.inner (.parse (← r.toNat?) (← i.toNat?)))
  | ["store", r, i] => do pure (.inner (.store (← r.toNat?) (← i.toNat?)))
  | ["close", r, i] => do pure (.inner (.close (← r.toNat?) (← i.toNat?)))
  | ["status", r, i] => do pure (.inner (.status (← r.toNat?) (← i.toNat?)))
  | ["done", r, i] => do pure (.inner (.done (← r.toNat?) (← i.toNat?)))
  | ["gctry", r] => do pure (.inner (.gcTry (← r.toNat?)))
  | ["gc", r] => do pure (.inner (.gc (← r.toNat?)))
  | ["gcdone", r] => do pure (.inner (.gcDone (← r.toNat?)))
  | ["sbegin", s] => do pure (.sbegin (← s.toNat?))
  | ["tick", s] => do pure (.tick (← s.toNat?))
  | ["sret", s] => do pure (.sret (← s.toNat?))
  | ["scancel", s] => do pure (.scancel (← s.toNat?))
  | _ => none

def showCsv (l : List Nat) : String :=
  if l.isEmpty then "-" else ",".intercalate (l.map toString)

def showPairs (l : List (Nat × Nat)) : String :=
  if l.isEmpty then "-" else ",".intercalate (l.map fun p => s!"{p.1}={p.2}")

def okErr (b : Bool) : String := if b then "ok" else "err"

def kindStr : Kind → String
  | .plain => "p"
  | .delta => "d"
  | .enrich => "e"

def render (d : DState) : Out → String
  | .ok => "ok"
  | .bad => "bad"
  | .begin fs n cs => s!"begin f={showCsv fs} s={n} c={showPairs cs}"
  | .gcCall k => s!"gc {k}"
  | .lock true true => "acq"
  | .lock true false => "acqdead"
  | .lock false _ => "busy"
  | .getOps uo n ok => s!"getops {if uo == .enr then "e" else "v"} {n} {okErr ok}"
  | .fetch enr arg res fp cl =>
    let r := match res with
      | .ok => "ok"
      | .unchanged => "unch"
      | .err => "err"
    s!"fetch {if enr then "e" else "f"} {arg} {r} {fp} c{if cl then 1 else 0}"
  | .parse k ok => s!"parse {kindStr k} {okErr ok}"
  | .store (.vulns n fp vs) ok => s!"store v {n} {fp} {showCsv vs} - {okErr ok}"
  | .store (.delta n fp vs ds) ok => s!"store d {n} {fp} {showCsv vs} {showCsv ds} {okErr ok}"
  | .store (.enrich n fp rs) ok => s!"store e {n} {fp} {showCsv rs} - {okErr ok}"
  | .status n fp failed => s!"status {n} {fp} {if failed then "fail" else "ok"}"
  | .done _ => "done"
  | .ret errs => s!"ret {showCsv (sortNat (errs.map fun i => (script d i).name))}"

def renderS (d : DState) : SOut → String
  | .inner o => render d o
  | .ok => "ok"
  | .bad => "bad"
  | .intervalErr => "interval-error"
  | .ctxErr => "ctx-error"

/-! ### set-up operations -/

/-- The updater names as the Go side spells them. -/
def nameStr (n : Nat) : String :=
  if n == 0 then "rhel-all" else if n == 1 then "garbage-collection" else s!"u{n}"

/-- The regular expressions the harness uses: what `re.MatchString(name)` answers. -/
def patMatch (pat : String) (n : Nat) : Option Bool :=
  let s := nameStr n
  if pat == "any" then some true
  else if pat == "none" then some false
  else match pat.splitOn ":" with
    | ["exact", x] => some (s == s!"u{x}")
    | ["prefix", x] => some (s!"u{x}".isPrefixOf s)
    | ["suffix", x] => some (s.endsWith x)
    | _ => none

def usetOf (d : DState) (k : Nat) : USet := (d.usets.lookup k).getD []

def setUset (d : DState) (k : Nat) (s : USet) : DState :=
  { d with usets := (k, s) :: d.usets.filter fun p => !(p.1 == k) }

def usetOp (d : DState) (ws : List String) : Option (DState × String) :=
  match ws with
  | ["uset", k, "add", i] => do
    let k ← k.toNat?
    let i ← i.toNat?
    match USet.add (world d).name (usetOf d k) i with
    | some s => pure (setUset d k s, "ok")
    | none => pure (d, "exists")
  | ["uset", k, "merge", k2] => do
    let k ← k.toNat?
    let k2 ← k2.toNat?
    match USet.merge (usetOf d k) (usetOf d k2) with
    | .inr s => pure (setUset d k s, "ok")
    | .inl ns => pure (d, s!"exists {showCsv (sortNat ns)}")
  | ["uset", k, "filter", pat] => do
    let k ← k.toNat?
    if pat == "bad" then pure (d, "err") else
    let keep := fun n => (patMatch pat n).getD false
    if (patMatch pat 0).isNone then none else
    pure (setUset d k (USet.regexFilter keep (usetOf d k)), "ok")
  | ["uset", k, "list"] => do
    let k ← k.toNat?
    pure (d, s!"set {showCsv (sortNat (usetOf d k).updaters)}")
  | ["register", n, f] => do
    let n ← n.toNat?
    let f ← f.toNat?
    match register d.reg n f with
    | some r => pure ({ d with reg := r }, "ok")
    | none => pure (d, "panic")
  | ["registered"] => pure (d, s!"facs {showCsv (sortNat ((registered d.reg).map (·.1)))}")
  | _ => none

def int? (s : String) : Option Int :=
  if s.startsWith "-" then (s.drop 1).toNat?.map fun n => -(n : Int) else s.toNat?.map fun n => (n : Int)

def parsePairs (s : String) : Option (List (String × Nat)) :=
  if s == "-" then some [] else
  (s.splitOn ",").mapM fun kv =>
    match kv.splitOn "=" with
    | [k, v] => do pure (k, ← v.toNat?)
    | _ => none

def parseOpt (tok : String) : Option Opt :=
  match tok.splitOn ":" with
  | ["b", n] => do pure (.batch (← n.toNat?))
  | ["i", n] => do pure (.interval (← n.toNat?))
  | ["en", e] => if e == "*" then some (.enabled none) else do pure (.enabled (some (← csv e)))
  | ["cf", c] => do
    let ps ← parsePairs c
    let cs ← ps.mapM fun (k, v) =>
      if k.startsWith "u" then do pure (false, ← (k.drop 1).toNat?, v)
      else if k.startsWith "f" then do pure (true, ← (k.drop 1).toNat?, v)
      else none
    pure (.configs cs)
  | ["oot", us] => do pure (.outOfTree (← csv us))
  | ["gc", n] => do pure (.gc (← int? n))
  | ["fs", f] => do
    let ps ← parsePairs f
    let fm ← ps.mapM fun (k, v) => do pure ((← k.toNat?), FacV.ext v)
    -- the Go map literal: a repeated key keeps the last value
    pure (.factories (fm.foldl (fun m p => FMap.set m p.1 p.2) []))
  | _ => none

def showFacV : FacV → String
  | .ext id => s!"e{id}"
  | .static ms => if ms.isEmpty then "s" else "s" ++ "+".intercalate ((sortNat ms).map toString)

def showFMap (m : FMap) : String :=
  let ns := sortNat (m.map (·.1))
  if ns.isEmpty then "-" else
  ",".intercalate (ns.map fun n => s!"{n}={match m.lookup n with
    | some v => showFacV v
    | none => "?"}")

def newMgr (d : DState) (ws : List String) : Option (DState × String) :=
  match ws with
  | "newmgr" :: m :: cl :: db :: di :: opts => do
    let m ← m.toNat?
    let cl ← bool? cl
    let db ← db.toNat?
    let di ← di.toNat?
    let opts ← opts.mapM parseOpt
    match newManager (world d) d.reg db di cl opts with
    | .err calls => pure (d, s!"err c={showPairs (sortPairs calls)}")
    | .ok mg calls =>
      pure ({ d with mgrs := (m, mg) :: d.mgrs },
        s!"ok f={showFMap mg.facs} b={mg.batch} i={mg.interval} r={mg.retention} c={showPairs (sortPairs calls)}")
  | _ => none

def decl (d : DState) (ws : List String) : Option DState :=
  match ws with
  | ["hist", k, n, fp] => do
    let uo ← if k == "v" then some UoKind.vuln else if k == "e" then some UoKind.enr else none
    let op : Op := ⟨← n.toNat?, uo, ← fp.toNat?⟩
    pure { d with st := { d.st with m := { d.st.m with ops := op :: d.st.m.ops } } }
  | ["upd", i, n, k, cfg, getok, fmode, src, parseok, vs, ds, storeok, aware, cmode] => do
    let sc : Script :=
      { name := ← n.toNat?, kind := ← kind? k, cfg := ← cfg.toNat?, getOk := ← bool? getok,
        fmode := ← fmode.toNat?, src := ← src.toNat?, parseOk := ← bool? parseok,
        vulns := ← csv vs, deleted := ← csv ds, storeOk := ← bool? storeok, ctxAware := ← bool? aware,
        cmode := ← cmode.toNat? }
    pure { d with scripts := (← i.toNat?, sc) :: d.scripts }
  | ["fac", f, ok, ms, fcfg] => do
    pure { d with facs := (← f.toNat?, ⟨← bool? ok, ← csv ms⟩, ← fcfg.toNat?) :: d.facs }
  | ["facset", f, k, fcfg] => do
    pure { d with facs := (← f.toNat?, ⟨true, (usetOf d (← k.toNat?)).updaters⟩, ← fcfg.toNat?) :: d.facs }
  | ["regdecl", n, f] => do
    pure { d with reg := (← n.toNat?, ← f.toNat?) :: d.reg }
  | ["startdecl", s, m] => do
    let mg ← d.mgrs.lookup (← m.toNat?)
    pure { d with starts := (← s.toNat?, mg.interval) :: d.starts }
  | ["run", r, m] => do
    let mg ← d.mgrs.lookup (← m.toNat?)
    pure { d with runs := (← r.toNat?, runInfo d mg) :: d.runs }
  | ["run", r, m, s] => do
    let mg ← d.mgrs.lookup (← m.toNat?)
    let r ← r.toNat?
    pure { d with runs := (r, runInfo d mg) :: d.runs, owner := (r, ← s.toNat?) :: d.owner }
  | _ => none

def stepLine (d : DState) (l : String) : DState × String :=
  if l == "reset" then ({}, "ok") else
  let ws := Driver.words l
  match parseEv ws with
  | some ev =>
    let (s', o) := sstep (mkSEnv d) d.st ev
    ({ d with st := s' }, renderS d o)
  | none =>
    match decl d ws with
    | some d' => (d', "ok")
    | none =>
      match usetOp d ws with
      | some x => x
      | none =>
        match newMgr d ws with
        | some x => x
        | none => (d, "bad-op")

end Driver.C13

def main : IO Unit := do
  Driver.foldLines (← IO.getStdin) (← IO.getStdout) ({} : Driver.C13.DState) Driver.C13.stepLine
