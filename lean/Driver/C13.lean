import Driver.Util
import ClairModel.Model.Manager

/-
  Line-protocol driver of the update-manager machine (property C13).

  Declarations (answer `ok`):
    reset
    hist <v|e> <name> <fp>                      prior update operation (oldest first)
    upd <i> <name> <p|d|e> <cfg> <getok> <fmode> <src> <parseok> <vulns> <deleted> <storeok> <ctxaware>
    fac <f> <ok> <members>
    run <r> <batch> <gc> <factories>
  Events (answer = what the machine says the code does):
    begin|acquire|launch|wait|drained|ret|cancel|gctry|gc|gcdone <r>
    try|getops|fetch|parse|store|status|done <r> <i>
-/
namespace Driver.C13
open ClairModel.Manager

structure DState where
  scripts : List (Nat × Script) := []
  facs : List (Nat × Fac) := []
  runs : List (Nat × Nat × Bool × List Nat) := []
  st : State := init []

def defaultScript : Script :=
  { name := 0, kind := .plain, cfg := 0, getOk := true, fmode := 0, src := 0, parseOk := true,
    vulns := [], deleted := [], storeOk := true, ctxAware := false }

/-- The program-counter slot of the GC section; its "updater" only carries
    the lock key `garbage-collection` (name 1). -/
def gcInst : Nat := 1000000

def script (d : DState) (i : Nat) : Script :=
  if i == gcInst then { defaultScript with name := 1 } else
  match d.scripts.lookup i with
  | some s => s
  | none => defaultScript

def fac (d : DState) (f : Nat) : Fac :=
  match d.facs.lookup f with
  | some x => x
  | none => ⟨false, []⟩

def mkEnv (d : DState) : Env :=
  let name := fun i => (script d i).name
  let facsOf := fun r => match d.runs.lookup r with
    | some (_, _, fs) => fs.map (fac d)
    | none => []
  { upd := fun i => (script d i).toUpd,
    batch := fun r => match d.runs.lookup r with
      | some (b, _, _) => b
      | none => 0,
    gc := fun r => match d.runs.lookup r with
      | some (_, g, _) => g
      | none => false,
    gcInst := gcInst,
    toRun := fun r => plan name (fun i => (script d i).cfg != 2) (facsOf r),
    stubSets := fun r => planStubs name (facsOf r) }

def csv (s : String) : Option (List Nat) :=
  if s == "-" then some [] else (s.splitOn ",").mapM (·.toNat?)

def bool? (s : String) : Option Bool :=
  if s == "1" then some true else if s == "0" then some false else none

def kind? (s : String) : Option Kind :=
  if s == "p" then some .plain else if s == "d" then some .delta else if s == "e" then some .enrich else none

def parseEv (ws : List String) : Option Ev :=
  match ws with
  | ["begin", r] => do pure (.begin (← r.toNat?))
  | ["acquire", r] => do pure (.acquire (← r.toNat?))
  | ["launch", r] => do pure (.launch (← r.toNat?))
  | ["wait", r] => do pure (.wait (← r.toNat?))
  | ["drained", r] => do pure (.drained (← r.toNat?))
  | ["ret", r] => do pure (.ret (← r.toNat?))
  | ["cancel", r] => do pure (.cancel (← r.toNat?))
  | ["try", r, i] => do pure (.tryLock (← r.toNat?) (← i.toNat?))
  | ["getops", r, i] => do pure (.getOps (← r.toNat?) (← i.toNat?))
  | ["fetch", r, i] => do pure (.fetch (← r.toNat?) (← i.toNat?))
  | ["parse", r, i] => do pure (.parse (← r.toNat?) (← i.toNat?))
  | ["store", r, i] => do pure (.store (← r.toNat?) (← i.toNat?))
  | ["status", r, i] => do pure (.status (← r.toNat?) (← i.toNat?))
  | ["done", r, i] => do pure (.done (← r.toNat?) (← i.toNat?))
  | ["gctry", r] => do pure (.gcTry (← r.toNat?))
  | ["gc", r] => do pure (.gc (← r.toNat?))
  | ["gcdone", r] => do pure (.gcDone (← r.toNat?))
  | _ => none

def showCsv (l : List Nat) : String :=
  if l.isEmpty then "-" else ",".intercalate (l.map toString)

def insertSorted (x : Nat) : List Nat → List Nat
  | [] => [x]
  | y :: ys => if x ≤ y then x :: y :: ys else y :: insertSorted x ys

def sortNat (l : List Nat) : List Nat := l.foldr insertSorted []

def okErr (b : Bool) : String := if b then "ok" else "err"

def kindStr : Kind → String
  | .plain => "p"
  | .delta => "d"
  | .enrich => "e"

def render (d : DState) : Out → String
  | .ok => "ok"
  | .bad => "bad"
  | .begin n => s!"begin {n}"
  | .lock true true => "acq"
  | .lock true false => "acqdead"
  | .lock false _ => "busy"
  | .getOps uo n ok => s!"getops {if uo == .enr then "e" else "v"} {n} {okErr ok}"
  | .fetch enr arg res fp =>
    let r := match res with
      | .ok => "ok"
      | .unchanged => "unch"
      | .err => "err"
    s!"fetch {if enr then "e" else "f"} {arg} {r} {fp}"
  | .parse k ok => s!"parse {kindStr k} {okErr ok}"
  | .store (.vulns n fp vs) ok => s!"store v {n} {fp} {showCsv vs} - {okErr ok}"
  | .store (.delta n fp vs ds) ok => s!"store d {n} {fp} {showCsv vs} {showCsv ds} {okErr ok}"
  | .store (.enrich n fp rs) ok => s!"store e {n} {fp} {showCsv rs} - {okErr ok}"
  | .status n fp failed => s!"status {n} {fp} {if failed then "fail" else "ok"}"
  | .done _ => "done"
  | .ret errs => s!"ret {showCsv (sortNat (errs.map fun i => (script d i).name))}"

def decl (d : DState) (ws : List String) : Option DState :=
  match ws with
  | ["hist", k, n, fp] => do
    let uo ← if k == "v" then some UoKind.vuln else if k == "e" then some UoKind.enr else none
    let op : Op := ⟨← n.toNat?, uo, ← fp.toNat?⟩
    pure { d with st := { d.st with ops := op :: d.st.ops } }
  | ["upd", i, n, k, cfg, getok, fmode, src, parseok, vs, ds, storeok, aware] => do
    let sc : Script :=
      { name := ← n.toNat?, kind := ← kind? k, cfg := ← cfg.toNat?, getOk := ← bool? getok,
        fmode := ← fmode.toNat?, src := ← src.toNat?, parseOk := ← bool? parseok,
        vulns := ← csv vs, deleted := ← csv ds, storeOk := ← bool? storeok, ctxAware := ← bool? aware }
    pure { d with scripts := (← i.toNat?, sc) :: d.scripts }
  | ["fac", f, ok, ms] => do
    pure { d with facs := (← f.toNat?, ⟨← bool? ok, ← csv ms⟩) :: d.facs }
  | ["run", r, b, g, fs] => do
    pure { d with runs := (← r.toNat?, ← b.toNat?, ← bool? g, ← csv fs) :: d.runs }
  | _ => none

def stepLine (d : DState) (l : String) : DState × String :=
  if l == "reset" then ({}, "ok") else
  let ws := Driver.words l
  match parseEv ws with
  | some ev =>
    let (s', o) := step (mkEnv d) d.st ev
    ({ d with st := s' }, render d o)
  | none =>
    match decl d ws with
    | some d' => (d', "ok")
    | none => (d, "bad-op")

end Driver.C13

def main : IO Unit := do
  Driver.foldLines (← IO.getStdin) (← IO.getStdout) ({} : Driver.C13.DState) Driver.C13.stepLine
