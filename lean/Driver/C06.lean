import Driver.Util
import ClairModel.Model.TarSeg
import ClairModel.Model.RpmHeader
import ClairModel.Model.RpmDb
import ClairModel.Model.RpmFiles
import ClairModel.Model.DockerLex
import ClairModel.Model.TarLinks

/-!
  Model driver of property C06.  One answer line per operation line:

    pnum <hex>     parseNumber on the bytes
    seg <hex>      findSegments on the bytes presented as the tar stream
    rpmhdr <hex>   rpm Header.Parse + Info.Load on the header blob
    bdb <hex>      rpm/bdb PackageDB.Parse + AllHeaders (size and byte sum of every header handed out)
    ndb <hex>      rpm/ndb PackageDB.Parse + AllHeaders
    links <spec>   tarfs Open of every member of an archive of root-level regular files (r), symbolic links (s<i>) and hard links (h<i>), e.g. r.s0.h5
    dlex <esc> <hex>  the Dockerfile lexer with escape rune <esc> (decimal code point), to the first EOF/Error item
-/
namespace Driver.C06
open ClairModel

def renderSegs (ss : List TarSeg.Segment) : String :=
  " ".intercalate (ss.map fun s => s!"{s.start}:{s.size}")

def doSeg (bs : List UInt8) : String :=
  let r := TarSeg.findSegments bs
  match r.out with
  | .ok ss => s!"ok reads={r.reads} n={ss.length} {renderSegs ss}".trimRight
  | .error e => (if e.isFormat then "err:format" else "err:io") ++ s!" reads={r.reads}"

def byteSum0 (bs : List UInt8) : Nat := bs.foldl (fun a c => a + c.toNat) 0

/-- `files=<count>:<total length>:<byte sum>` of `Info.Filenames` -/
def renderFiles (bs : List UInt8) : String :=
  match RpmHeader.parse bs with
  | none => "files=?"
  | some h =>
    match RpmFiles.fileNames h with
    | .panic => "files=panic"
    | .files fs => s!"files={fs.length}:{(fs.map (·.length)).sum}:{(fs.map byteSum0).sum}"

def doRpmHdr (bs : List UInt8) : String :=
  match RpmHeader.run bs with
  | .parseErr => "err:parse"
  | .loadErr => "err:load"
  | .panic => "panic"
  | .ok i =>
    if renderFiles bs == "files=panic" then "panic" else
    renderFiles bs ++ " " ++
    s!"ok name={Driver.hex i.name} ver={Driver.hex i.version} rel={Driver.hex i.release} epoch={i.epoch} arch={Driver.hex i.arch} src={Driver.hex i.source} mod={Driver.hex i.module} digest={Driver.hex i.digest} algo={i.digestAlgo} sig={i.sigLen}"

def byteSum (bs : List UInt8) : Nat := bs.foldl (fun a c => a + c.toNat) 0

def renderRopes (file : List UInt8) (rs : List RpmDb.Rope) : String :=
  let parts := rs.map fun r =>
    let c := RpmDb.Rope.content r file
    if c.length == RpmDb.Rope.size r then s!"{RpmDb.Rope.size r}:{byteSum c}" else s!"{RpmDb.Rope.size r}:short"
  (s!"ok n={rs.length} " ++ " ".intercalate parts).trimRight

def renderDb (file : List UInt8) (r : Option (Option (List RpmDb.Rope))) : String :=
  match r with
  | none => "err:parse"
  | some none => "err:headers"
  | some (some rs) => renderRopes file rs

def renderHdrs (file : List UInt8) (hs : List RpmDb.Hdr) : String :=
  let parts := hs.map fun h =>
    let c := h.content file
    if c.length == h.size then s!"{h.size}:{byteSum c}" else s!"{h.size}:short"
  (s!"ok n={hs.length} " ++ " ".intercalate parts).trimRight

def renderBdb (file : List UInt8) (r : Option (Option (List RpmDb.Hdr))) : String :=
  match r with
  | none => "err:parse"
  | some none => "err:headers"
  | some (some hs) => renderHdrs file hs

def renderItem (i : DockerLex.Item) : String :=
  let v := Driver.hex (i.val.flatMap DockerLex.encode)
  match i.kind with
  | .error => s!"E:{i.pos}"
  | .eof => "Z"
  | .comment => s!"C:{i.pos}:{v}"
  | .instruction => s!"I:{i.pos}:{v}"
  | .label => s!"L:{i.pos}:{v}"
  | .arg => s!"A:{i.pos}:{v}"
  | .env => s!"V:{i.pos}:{v}"

def doDlex (esc : Nat) (bs : List UInt8) : String :=
  let items := DockerLex.lex esc bs
  s!"n={items.length} " ++ " ".intercalate (items.map renderItem)

def parseKind (w : String) : Option TarLinks.Kind :=
  if w == "r" then some .reg
  else match w.toList with
    | 's' :: ds => (String.ofList ds).toNat?.map .sym
    | 'h' :: ds => (String.ofList ds).toNat?.map .hard
    | _ => none

def doLinks (spec : String) : String :=
  match (spec.splitOn ".").mapM parseKind with
  | none => "bad-op"
  | some a =>
    let outs := (List.range a.length).map fun i =>
      match (TarLinks.openMember a i).1 with
      | .file => "file"
      | .notExist => "err:notexist"
      | .invalid => "err:invalid"
    ",".intercalate outs

def stepLine (s : Unit) (l : String) : Unit × String :=
  if l == "reset" then (s, "ok") else
  match Driver.words l with
  | ["pnum", h] =>
    match Driver.unhex h with
    | none => (s, "bad-op")
    | some bs => (s, match TarSeg.parseNumber bs with | some v => s!"ok {v}" | none => "err")
  | ["seg", h] =>
    match Driver.unhex h with
    | none => (s, "bad-op")
    | some bs => (s, doSeg bs)
  | ["bdb", h] =>
    match Driver.unhex h with
    | none => (s, "bad-op")
    | some bs => (s, renderBdb bs (RpmDb.Bdb.allHeaders bs))
  | ["ndb", h] =>
    match Driver.unhex h with
    | none => (s, "bad-op")
    | some bs => (s, renderDb bs (RpmDb.Ndb.allHeaders bs))
  | ["links", spec] => (s, doLinks spec)
  | ["dlex", e, h] =>
    match e.toNat?, Driver.unhex h with
    | some esc, some bs => (s, doDlex esc bs)
    | _, _ => (s, "bad-op")
  | ["rpmhdr", h] =>
    match Driver.unhex h with
    | none => (s, "bad-op")
    | some bs => (s, doRpmHdr bs)
  | _ => (s, "bad-op")

end Driver.C06

def main : IO Unit := do
  Driver.foldLines (← IO.getStdin) (← IO.getStdout) () Driver.C06.stepLine
