import Driver.Util
import ClairModel.Model.TarSeg

/-!
  Model driver of property C06.  One answer line per operation line:

    pnum <hex>     parseNumber on the bytes
    seg <hex>      findSegments on the bytes presented as the tar stream
-/
namespace Driver.C06
open ClairModel

def renderSegs (ss : List TarSeg.Segment) : String :=
  " ".intercalate (ss.map fun s => s!"{s.start}:{s.size}")

def doSeg (bs : List UInt8) : String :=
  let r := TarSeg.findSegments bs
  match r.out with
  | .ok ss => s!"ok reads={r.reads} n={ss.length} {renderSegs ss}".trimRight
  | .error e => (if e.isFormat then "err:format" else "err:io") ++ s!" reads={r.reads}"

def stepLine (s : Unit) (l : String) : Unit × String :=
  if l == "reset" then (s, "ok") else
  match Driver.words l with
  | ["pnum", h] =>
    match Driver.unhex h with
    | none => (s, "bad-op")
    | some bs => (s, match TarSeg.parseNumber bs with | some v => s!"ok {v}" | none => "err")
  | ["seg", h] =>
    match Driver.unhex h with
    | none => (s, "bad-op")
    | some bs => (s, doSeg bs)
  | _ => (s, "bad-op")

end Driver.C06

def main : IO Unit := do
  Driver.foldLines (← IO.getStdin) (← IO.getStdout) () Driver.C06.stepLine
