import Driver.Util
import ClairModel.Model.Rfc822
import ClairModel.Model.Dpkg
import ClairModel.Model.Apk
import ClairModel.Model.OsRelease
import ClairModel.Model.PyMeta
import ClairModel.Model.Pep440
import ClairModel.Model.RpmPkg
import ClairModel.Model.GoBin
import ClairModel.Model.Jar
import ClairModel.Model.DistScan
import ClairModel.Model.RhelRepo
import ClairModel.Model.LangScan

namespace Driver.C02
open ClairModel.Bytes ClairModel.Rfc822 ClairModel

def toBytes (s : String) : Option Bytes := (Driver.unhex s).map fun l => l.map (·.toNat)
def hexB (b : Bytes) : String := Driver.hex (b.map fun n => UInt8.ofNat n)

def sortStrings (l : List String) : List String := (l.toArray.qsort (· < ·)).toList

def showPkg (p : Dpkg.Pkg) : String :=
  ",".intercalate [hexB p.name, hexB p.version, hexB p.arch, hexB p.srcName, hexB p.srcVersion]

def showPkgs (sorted : Bool) (ps : List Dpkg.Pkg) : String :=
  let l := ps.map showPkg
  let l := if sorted then sortStrings l else l
  " ".intercalate (s!"ok {l.length}" :: l)

def showApkPkg (p : Apk.Pkg) : String :=
  let src := match p.src with
    | none => ["nosrc"]
    | some (n, v) => ["src", hexB n, hexB v]
  ",".intercalate ([hexB p.name, hexB p.version, hexB p.arch, hexB p.hint] ++ src)

def bytesToChars (b : Bytes) : List Char := b.map Char.ofNat
def charsToBytes (c : List Char) : Bytes := c.map Char.toNat

/-- what python's `Scan` reports for one candidate file: `none` (path not picked),
    `skip` (version does not parse), or the package -/
def pyAnswer (path file : Bytes) : String :=
  match PyMeta.classify path with
  | none => "absent"
  | some _ =>
    let nv := PyMeta.nameVersion file
    match Pep440.parse (bytesToChars nv.2) with
    | none => "absent"
    | some v =>
      let nvers := Pep440.project v
      " ".intercalate ["ok", hexB nv.1, hexB (charsToBytes (Pep440.toStr v)), hexB (PyMeta.packageDB path),
        ",".intercalate (nvers.v.map toString)]

def parseRpmInfo (w : String) : Option RpmPkg.Info :=
  match w.splitOn "," with
  | [n, e, v, r, s, m, a] =>
    match toBytes n, e.toInt?, toBytes v, toBytes r, toBytes s, toBytes m, toBytes a with
    | some n, some e, some v, some r, some s, some m, some a => some ⟨n, e, v, r, s, m, a⟩
    | _, _, _, _, _, _, _ => none
  | _ => none

def showRpmPkg (p : RpmPkg.Pkg) : String :=
  let src := match p.src with
    | none => ["nosrc"]
    | some s => ["src", hexB s.name, hexB s.version, hexB s.module]
  ",".intercalate ([hexB p.name, hexB p.version, hexB p.arch, hexB p.module] ++ src)

def toChars (s : String) : Option (List Char) := (toBytes s).map bytesToChars
def hexC (c : List Char) : String := hexB (charsToBytes c)

def parseGoDep (w : String) : Option GoBin.Mod :=
  match w.splitOn "," with
  | [p, v] => match toChars p, toChars v with
    | some p, some v => some ⟨p, v, none⟩
    | _, _ => none
  | [p, v, "r", rp, rv] => match toChars p, toChars v, toChars rp, toChars rv with
    | some p, some v, some rp, some rv => some ⟨p, v, some (rp, rv)⟩
    | _, _, _, _ => none
  | _ => none

def parseGoKV (w : String) : Option (List Char × List Char) :=
  match w.splitOn "," with
  | [k, v] => match toChars k, toChars v with
    | some k, some v => some (k, v)
    | _, _ => none
  | _ => none

def showGoPkg (p : GoBin.Pkg) : String :=
  let n := match p.norm with
    | none => "none"
    | some v => String.ofList v.kind ++ ":" ++ ".".intercalate ((v.v.drop 1).take 3 |>.map toString)
  ",".intercalate [hexC p.name, hexC p.version, n]

def goAnswer (gv main nd : String) (rest : List String) : String :=
  match toChars gv, main.splitOn ",", nd.toNat? with
  | some gv, [mp, mv], some nd =>
    match toChars mp, toChars mv, (rest.take nd).mapM parseGoDep, (rest.drop nd).mapM parseGoKV with
    | some mp, some mv, some deps, some sets =>
      let ps := GoBin.toPackages ⟨gv, mp, mv, deps, sets⟩
      " ".intercalate (s!"ok {ps.length}" :: ps.map showGoPkg)
    | _, _, _, _ => "bad-op"
  | _, _, _ => "bad-op"

partial def parseJarNodes : List String → List Jar.Node → Option (List Jar.Node × List String)
  | ")" :: rest, acc => some (acc.reverse, rest)
  | tok :: rest, acc =>
    match tok.splitOn ":" with
    | [m, n, d] =>
      if m == "f" || m == "s" then
        match toBytes n, toBytes d with
        | some n, some d => parseJarNodes rest (.file n d :: acc)
        | _, _ => none
      else none
    | ["j", n] =>
      match toBytes n, rest with
      | some n, "(" :: rest' =>
        match parseJarNodes rest' [] with
        | some (sub, rest'') => parseJarNodes rest'' (.jar n sub :: acc)
        | none => none
      | _, _ => none
    | _ => none
  | [], _ => none

def showJarInfo (i : Jar.Info) : String :=
  let k := match i.kind with | .maven => "maven" | .jar => "jar" | .file => "file"
  let o := match i.outer with | none => "-" | some n => hexB n
  ",".intercalate [hexB i.name, hexB i.version, k, o]

def jarAnswer (path : String) (toks : List String) : String :=
  match toBytes path, toks with
  | some p, "(" :: rest =>
    match parseJarNodes rest [] with
    | some (ms, []) =>
      let is := Jar.scan p ms
      " ".intercalate (s!"ok {is.length}" :: is.map showJarInfo)
    | _ => "bad-op"
  | _, _ => "bad-op"

def optFile (w : String) : Option (Option Bytes) :=
  if w == "absent" then some none else (toBytes w).map some

def showDistRes : DistScan.Res → String
  | .err => "err"
  | .none => "none"
  | .dist d => "dist " ++ ",".intercalate [hexB d.name, hexB d.did, hexB d.version, hexB d.versionId, hexB d.codeName, hexB d.prettyName, hexB d.cpe]

/-- `m:<repo>=<cpe>:<0|1>,…` -/
def parseRepoMap (w : String) : Option (Bytes × List (Bytes × Bool)) :=
  match (String.ofList (w.toList.drop 2)).splitOn "=" with
  | [r, cs] =>
    match toBytes r with
    | none => none
    | some r =>
      let items := if cs == "" then [] else cs.splitOn ","
      (items.mapM fun (it : String) => match it.splitOn ":" with
        | [c, v] => (toBytes c).map fun c => (c, v == "1")
        | _ => none).map fun l => (r, l)
  | _ => none

/-- `f:<dir>:<name>:<kind>:<repo>,…` -/
def parseRepoManifest (w : String) : Option RhelRepo.Manifest :=
  match w.splitOn ":" with
  | ["f", d, n, k, rs] =>
    match d.toNat?, toBytes n with
    | some d, some n =>
      if k == "syntax" then some ⟨d, n, .syntaxError⟩
      else if k == "type" then some ⟨d, n, .otherError⟩
      else
        let items := if rs == "" then [] else rs.splitOn ","
        (items.mapM toBytes).map fun l => ⟨d, n, .sets l⟩
    | _, _ => none
  | _ => none

def repoAnswer (ws : List String) : String :=
  let ms := ws.filter (·.startsWith "m:")
  let fs := ws.filter (·.startsWith "f:")
  match ms.mapM parseRepoMap, fs.mapM parseRepoManifest with
  | some m, some f =>
    match RhelRepo.scan m f with
    | .err => "err"
    | .repos cs => let l := sortStrings (cs.map hexB); " ".intercalate (s!"ok {l.length}" :: l)
  | _, _ => "bad-op"

def nodeAnswer (path kind name ver : String) : String :=
  match toBytes path, toBytes name, toBytes ver with
  | some p, some n, some v =>
    if !LangScan.nodePick p then "absent"
    else if kind != "ok" then "absent"
    else
      let norm := match Semver.parse (bytesToChars v) with
        | none => "none"
        | some sv => let pv := Semver.project sv; "semver:" ++ ".".intercalate ((pv.v.drop 1).take 3 |>.map toString)
      " ".intercalate ["ok", hexB n, hexB v, norm]
  | _, _, _ => "bad-op"

def gemAnswer (path file : String) : String :=
  match toBytes path, toBytes file with
  | some p, some f =>
    if !LangScan.gemPick p then "absent"
    else match LangScan.gemspec f with
      | none => "absent"
      | some g => " ".intercalate ["ok", hexB g.name, hexB g.version]
  | _, _ => "bad-op"

def showErr : Err → String
  | .ok => "nil"
  | .eof => "eof"
  | .proto => "proto"
  | .tooLarge => "other"

/-- pairs grouped by key in sorted key order (a Go map has no order), values of a key in insertion order -/
def showEv (e : Ev) : String :=
  let ps := (e.hdr.map fun kv => (hexB kv.1, hexB kv.2)).mergeSort (fun a b => decide (a.1 ≤ b.1))
  showErr e.err ++ ":" ++ ",".intercalate (ps.map fun kv => kv.1 ++ "=" ++ kv.2)

def answer (l : String) : String :=
  match Driver.words l with
  | ["mime", h] => match toBytes h with
      | some b => " ".intercalate ((calls b).map showEv)
      | none => "bad-op"
  | ["dpkg", h] => match toBytes h with
      | some b => match Dpkg.scanDb b with
        | some ps => showPkgs true ps
        | none => "err"
      | none => "bad-op"
  | ["distroless", h] => match toBytes h with
      | some b => showPkgs false (Dpkg.distrolessFile b)
      | none => "bad-op"
  | ["apk", h] => match toBytes h with
      | some b => let l := (Apk.scan b).map showApkPkg; " ".intercalate (s!"ok {l.length}" :: l)
      | none => "bad-op"
  | ["osr", h] => match toBytes h with
      | some b => match OsRelease.parse b with
        | some m =>
          let l := sortStrings (m.map fun kv => hexB kv.1 ++ "=" ++ hexB kv.2)
          " ".intercalate (s!"ok {l.length}" :: l)
        | none => "err"
      | none => "bad-op"
  | ["osd", h] => match toBytes h with
      | some b => match OsRelease.parse b with
        | some m =>
          let d := OsRelease.toDist m
          "ok " ++ ",".intercalate [hexB d.name, hexB d.did, hexB d.version, hexB d.versionId, hexB d.codeName, hexB d.prettyName]
        | none => "err"
      | none => "bad-op"
  | ["py", hp, hf] => match toBytes hp, toBytes hf with
      | some p, some f => pyAnswer p f
      | _, _ => "bad-op"
  | "rpm" :: ws => match ws.mapM parseRpmInfo with
      | some is => match RpmPkg.scan is with
        | some ps => " ".intercalate (s!"ok {ps.length}" :: ps.map showRpmPkg)
        | none => "err"
      | none => "bad-op"
  | "gobin" :: gv :: main :: nd :: rest => goAnswer gv main nd rest
  | "jar" :: path :: toks => jarAnswer path toks
  | ["alpdist", a, b] => match optFile a, optFile b with
      | some a, some b => showDistRes (DistScan.alpineScan a b)
      | _, _ => "bad-op"
  | ["rheldist", o, a, b] => match optFile a, optFile b with
      | some a, some b => showDistRes (DistScan.rhelScan (o == "1") a b)
      | _, _ => "bad-op"
  | ["debdist", a] => match optFile a with
      | some a => showDistRes (DistScan.debianScan a)
      | none => "bad-op"
  | ["ubudist", a, b] => match optFile a, optFile b with
      | some a, some b => showDistRes (DistScan.ubuntuScan a b)
      | _, _ => "bad-op"
  | "rhelrepo" :: ws => repoAnswer ws
  | ["node", p, k, n, v] => nodeAnswer p k n v
  | ["gem", p, f] => gemAnswer p f
  | ["reset"] => "ok"
  | _ => "bad-op"

end Driver.C02

def main : IO Unit := do
  Driver.foldLines (← IO.getStdin) (← IO.getStdout) () fun _ l => ((), Driver.C02.answer l)
