/-
  Line-protocol driver of the C04 model (see go/internal/c04 for the op
  grammar).  Byte strings travel as hex (`-` = empty); `~` = absent.
-/
import Driver.Util
import ClairModel.Model.Join
import ClairModel.Model.JoinScan
import ClairModel.Model.JoinHist
import ClairModel.Gen.JoinMatchers

namespace Driver.C04
open ClairModel.Join ClairModel.Gen

def toB (s : String) : Option Bytes := (Driver.unhex s).map fun l => l.map (·.toNat)
def hx (b : Bytes) : String := Driver.hex (b.map fun n => UInt8.ofNat n)
def ofStr (s : String) : Bytes := s.toUTF8.toList.map (·.toNat)
def toStr (b : Bytes) : String := String.ofList (b.map Char.ofNat)

/-- `~` = absent file -/
def toFile (s : String) : Option (Option Bytes) :=
  if s == "~" then some none else (toB s).map some

def showDist (d : Dist) : String :=
  s!"dist {hx d.did} {hx d.name} {hx d.version} {hx d.versionCodeName} {hx d.versionID} {hx d.arch} {hx d.prettyName}"

def showScan : ScanOut → String
  | .err => "err"
  | .none => "none"
  | .dist d => showDist d

/-- lexicographic `<` on byte strings -/
def bytesLt : Bytes → Bytes → Bool
  | [], [] => false
  | [], _ :: _ => true
  | _ :: _, [] => false
  | a :: as, b :: bs => if a < b then true else if b < a then false else bytesLt as bs

def insertSorted (k : Bytes) : List Bytes → List Bytes
  | [] => [k]
  | x :: xs => if bytesLt k x then k :: x :: xs else if x == k then x :: xs else x :: insertSorted k xs

def showKV (m : KV) : String :=
  let keys := m.foldl (fun acc kv => insertSorted kv.1 acc) []
  "ok " ++ ",".intercalate (keys.map fun k => s!"{hx k}={hx (get m k)}")

def parseDist8 : List String → Option Dist
  | [a, b, c, d, e, f, g, h] => do
    let did ← toB a; let name ← toB b; let ver ← toB c; let code ← toB d
    let vid ← toB e; let arch ← toB f; let cpe ← toB g; let pretty ← toB h
    pure { did := did, name := name, version := ver, versionCodeName := code, versionID := vid,
           arch := arch, cpe := cpe, prettyName := pretty }
  | _ => none

/-- 21 tokens: pn pk pm pa (S|N) sn sk nk (D|N) 8×dist (R|N) rname rkey ruri -/
def parseRec (t : List String) : Option Rec :=
  match t with
  | [pn, pk, pm, pa, sf, sn, sk, nk, df, d1, d2, d3, d4, d5, d6, d7, d8, rf, r1, r2, r3] => do
    let pn ← toB pn; let pk ← toB pk; let pm ← toB pm; let pa ← toB pa
    let sn ← toB sn; let sk ← toB sk; let nk ← toB nk
    let d ← parseDist8 [d1, d2, d3, d4, d5, d6, d7, d8]
    let r1 ← toB r1; let r2 ← toB r2; let r3 ← toB r3
    pure { pkg := { name := pn, kind := pk, module := pm, arch := pa,
                    src := if sf == "S" then some (sn, sk) else none, normKind := nk },
           dist := if df == "D" then some d else none,
           repo := if rf == "R" then some { name := r1, key := r2, uri := r3 } else none }
  | _ => none

/-- 18 tokens: vn vk vm va 8×dist rname rkey ruri fixed (K|N) vkind -/
def parseRow (t : List String) : Option Vuln :=
  match t with
  | [vn, vk, vm, va, d1, d2, d3, d4, d5, d6, d7, d8, r1, r2, r3, fx, kf, kk] => do
    let vn ← toB vn; let vk ← toB vk; let vm ← toB vm; let va ← toB va
    let d ← parseDist8 [d1, d2, d3, d4, d5, d6, d7, d8]
    let r1 ← toB r1; let r2 ← toB r2; let r3 ← toB r3
    let fx ← toB fx; let kk ← toB kk
    pure { pkgName := vn, pkgKind := vk, pkgModule := vm, pkgArch := va, dist := d,
           repo := { name := r1, key := r2, uri := r3 }, fixedIn := fx,
           versionKind := if kf == "K" then some kk else none }
  | _ => none

def matcherNamed (n : String) : Option MatcherT :=
  JoinMatchers.all.find? fun m => toStr m.pkg == n

def showQ : QOut → String
  | .err => "err"
  | .panic => "panic"
  | .ok b => toString b

def showVerdict : Verdict → String
  | .notInterested => "not-interested"
  | .skipped => "skipped"
  | .panic => "panic"
  | .reported b => s!"reported {b}"

def bool? (s : String) : Option Bool :=
  if s == "1" then some true else if s == "0" then some false else none

def scanOp (distro : String) (f1 f2 : Option Bytes) : String :=
  match distro with
  | "alpine" => showScan (alpineScan f1 f2)
  | "debian" => showScan (debianScan f1)
  | "ubuntu" => showScan (ubuntuScan f1 f2)
  | "aws" => showScan (awsScan f1)
  | "oracle" => showScan (oracleScan f1)
  | "photon" => showScan (photonScan f1)
  | "suse" => (match f1 with
    | none => "none"
    | some b => (match suseScan b with
      | .unsupported => "unsupported"
      | .out o => showScan o))
  | _ => "bad-op"

def updOp (t : List String) : String :=
  match t with
  | ["alpine-stable", a, b] => (match a.toNat?, b.toNat? with
    | some x, some y => showDist (alpineStableDist x y)
    | _, _ => "bad-op")
  | ["alpine-edge"] => showDist alpineEdgeDist
  | ["debian", n, v] => (match toB n, v.toInt? with
    | some n, some v => showDist (debianUpdDist n v)
    | _, _ => "bad-op")
  | ["ubuntu", v, n] => (match toB v, toB n with
    | some v, some n => showDist (ubuntuUpdDist v n)
    | _, _ => "bad-op")
  | ["aws", r] => (match toB r with
    | some r => showDist (awsUpdDist r)
    | none => "bad-op")
  | ["photon", r] => (match toB r with
    | some r => showDist (photonUpdDist r)
    | none => "bad-op")
  | ["oracle", p] => (match toB p with
    | some p => (match oraclePlatformDist p with
      | some d => showDist d
      | none => "none")
    | none => "bad-op")
  | "oracle-multi" :: ps => (match ps.mapM toB with
    | some ps => (match oracleDefinitionDists ps with
      | [] => "none"
      | ds => " | ".intercalate (ds.map showDist))
    | none => "bad-op")
  | ["suse-el", h] => (match toB h with
    | some h => (match suseELVersion h with
      | some v => showDist (suseELDist v)
      | none => "none")
    | none => "bad-op")
  | ["suse-leap", v] => (match toB v with
    | some v => showDist (suseLeapDist v)
    | none => "bad-op")
  | _ => "bad-op"

def answer (l : String) : String :=
  match Driver.words l with
  | ["reset"] => "ok"
  | ["osr", h] => (match toB h with
    | some b => (match osParse b with
      | none => "err"
      | some m => showKV m)
    | none => "bad-op")
  | ["scan", distro, a, b] => (match toFile a, toFile b with
    | some f1, some f2 => scanOp distro f1 f2
    | _, _ => "bad-op")
  | "upd" :: t => updOp t
  | "filter" :: m :: t => (match matcherNamed m, parseRec t with
    | some m, some r => (match m.filter.eval r with
      | none => "panic"
      | some b => toString b)
    | _, _ => "bad-op")
  | ["query", m] => (match matcherNamed m with
    | some m => s!"name={hx m.name} Q:{",".intercalate (m.query.map toStr)} O:{",".intercalate (m.queryOpt.map toStr)} VF:{m.versionFilter} A:{m.authoritative}"
    | none => "bad-op")
  | "join" :: cs :: vf :: ir :: t =>
    (match bool? vf, bool? ir, parseRec (t.take 21), parseRow (t.drop 21) with
    | some vf, some ir, some r, some v =>
      let cl := if cs == "-" then [] else (cs.splitOn ",").map ofStr
      showQ (getQuery cl vf ir r v)
    | _, _, _, _ => "bad-op")
  | "match" :: m :: opt :: ir :: vul :: t =>
    (match matcherNamed m, bool? opt, bool? ir, bool? vul, parseRec (t.take 21), parseRow (t.drop 21) with
    | some m, some opt, some ir, some vul, some r, some v =>
      (match reported m opt ir vul r v with
       | .reported true => "reported true"
       | .panic => "panic"
       | _ => "no")
    | _, _, _, _, _, _ => "bad-op")
  | "matchn" :: m :: opt :: k :: t =>
    (match matcherNamed m, bool? opt, k.toNat? with
    | some m, some opt, some k =>
      let recs := (List.range k).map fun i =>
        let ts := (t.drop (i * 23)).take 23
        match ts with
        | ir :: vul :: rt => (match bool? ir, bool? vul, parseRec rt with
          | some ir, some vul, some r => some (r, ir, vul)
          | _, _, _ => none)
        | _ => none
      (match recs.mapM id, parseRow (t.drop (k * 23)) with
      | some rs, some v =>
        (match reportedMulti m opt rs v with
         | .reported true => "reported true"
         | .panic => "panic"
         | _ => "no")
      | _, _ => "bad-op")
    | _, _, _ => "bad-op")
  | ["osvrepo", h] => (match toB h with
    | some line => (match osvRepo line with
      | none => "ignored"
      | some r => s!"repo {hx r.name} {hx r.uri}")
    | none => "bad-op")
  | ["osvpkg", e, n, p] => (match toB e, toB n, toB p with
    | some e, some n, some p => let r := osvPackage e n p; s!"pkg {hx r.1} {hx r.2}"
    | _, _, _ => "bad-op")
  | _ => "bad-op"

/-! ### histories: the Debian release table, the Alpine factory -/

structure HState where
  table : RelTable := []
  alp : AlpState := {}
  osv : OsvState := {}

def parseOutcome (s : String) : Option RelOutcome :=
  if s == "s" then some .skip
  else if s == "f" then some .fault
  else if s.startsWith "v" then (s.drop 1).toInt?.map .version
  else none

def parseEntry (s : String) : Option (Bytes × RelOutcome) :=
  match s.splitOn ":" with
  | [c, o] => do
    let c ← toB c
    let o ← parseOutcome o
    pure (c, o)
  | _ => none

def showHistOut : HistOut → String
  | .enumOk => "ok"
  | .enumErr => "err"
  | .parsed [] => "parsed none"
  | .parsed st => "parsed " ++ " | ".intercalate (st.map fun p => s!"{hx p.1} {showDist p.2}")

def parseProbe (s : String) : Option Probe :=
  if s == "o" then some .ok else if s == "x" then some .other else if s == "e" then some .netErr
  else if s == "n" then some .notFound else none

/-- `3.5=o,3.6=x` -/
def parseDirs (s : String) : Option (List ((Nat × Nat) × Probe)) :=
  if s == "-" then some [] else
  (s.splitOn ",").mapM fun t =>
    match t.splitOn "=" with
    | [k, o] => (match k.splitOn ".", parseProbe o with
      | [a, b], some p => (match a.toNat?, b.toNat? with
        | some a, some b => some ((a, b), p)
        | _, _ => none)
      | _, _ => none)
    | _ => none

/-- `<hexrel>/<hexrepo>=o,…` -/
def parseJsons (s : String) : Option (List ((Bytes × Bytes) × Probe)) :=
  if s == "-" then some [] else
  (s.splitOn ",").mapM fun t =>
    match t.splitOn "=" with
    | [k, o] => (match k.splitOn "/", parseProbe o with
      | [a, b], some p => (match toB a, toB b with
        | some a, some b => some ((a, b), p)
        | _, _ => none)
      | _, _ => none)
    | _ => none

def lookupProbe {α : Type} [BEq α] (m : List (α × Probe)) (k : α) : Probe :=
  match m.find? fun e => e.1 == k with
  | some e => e.2
  | none => .notFound

def showAlpOut : AlpOut → String
  | .err => "err"
  | .set [] => "set -"
  | .set ns => "set " ++ ",".intercalate ((ns.foldl (fun acc k => insertSorted k acc) []).map hx)

/-- the stateful ops -/
def answerH (st : HState) (l : String) : HState × String :=
  match Driver.words l with
  | ["reset"] => ({}, "ok")
  | "denum" :: ok :: es =>
    (match bool? ok, es.mapM parseEntry with
    | some ok, some es =>
      let (t, o) := histStep st.table (.enumerate ok es)
      ({ st with table := t }, showHistOut o)
    | _, _ => (st, "bad-op"))
  | "dparse" :: cs =>
    (match cs.mapM toB with
    | some cs => (st, showHistOut (histStep st.table (.parse cs)).2)
    | none => (st, "bad-op"))
  | ["osvf", "new"] => ({ st with osv := {} }, "ok")
  | ["osvf", "f"] => let (a, o) := osvStep st.osv .fault; ({ st with osv := a }, showAlpOut o)
  | ["osvf", "l", etag, ok, lines] =>
    (match toB etag, bool? ok, (if lines == "-" then some [] else (lines.splitOn ",").mapM toB) with
    | some etag, some ok, some lines =>
      let (a, o) := osvStep st.osv (.listing etag lines ok)
      ({ st with osv := a }, showAlpOut o)
    | _, _, _ => (st, "bad-op"))
  | ["alp", "new"] => ({ st with alp := {} }, "ok")
  | ["alp", "f"] => let (a, o) := alpStep st.alp .stampFault; ({ st with alp := a }, showAlpOut o)
  | ["alp", "n"] => let (a, o) := alpStep st.alp .notModified; ({ st with alp := a }, showAlpOut o)
  | ["alp", "s", stamp, etag, dirs, jsons] =>
    (match stamp.toNat?, toB etag, parseDirs dirs, parseJsons jsons with
    | some stamp, some etag, some dirs, some jsons =>
      let walk := alpWalk (fun a b => lookupProbe dirs (a, b)) (fun rel repo => lookupProbe jsons (rel, repo)) 64
      let (a, o) := alpStep st.alp (.stampIs stamp etag walk)
      ({ st with alp := a }, showAlpOut o)
    | _, _, _, _ => (st, "bad-op"))
  | _ => (st, answer l)

end Driver.C04

def main : IO Unit := do
  Driver.foldLines (← IO.getStdin) (← IO.getStdout) ({} : Driver.C04.HState) Driver.C04.answerH
