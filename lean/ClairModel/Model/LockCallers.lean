/-
  The CALLERS of the process-local lock sources, as one machine on top of the
  lock machine (Model/Locks.lean):

    libindex/libindex.go      Libindex.Index          lc, done := locker.Lock(ctx, hash); defer done()
                                                       if lc.Err() != nil { return nil, err }; controller.Index(lc, m)
    libvuln/updates/manager.go Manager.Run (updater)   ctx, done := locks.TryLock(ctx, name); defer done()
                                                       if ctx.Err() != nil { return }; driveUpdater(ctx, u)
    libvuln/updates/manager.go Manager.Run (GC)        ctx, done := locks.TryLock(ctx, "garbage-collection")
                                                       if ctx.Err() != nil { log } else { store.GC(ctx) }; done()
    updater/updater.go        Updater.fetchOne        lctx, done := locker.TryLock(ctx, name); defer done()
                                                       if lctx.Err() != nil { return }; Updater.Fetch(lctx, …)

  Every one of them is the same bracket: request the lock, look at the returned
  context, run the body only when it is live, call `done` on every way out.
  A caller is a small program counter over the lock machine:

    begin    the call is entered (nothing requested yet)
    acquire  first critical section of the lock call: Lock's first test
             (granted or parked) or the whole TryLock (granted or refused)
    retest   a parked caller woken by Broadcast re-tests
    check    the caller looks at the returned context: body when live, skip when dead
    leave    the body returns with result code r
    done     the (deferred) release function is called
    ret      the call returns
    bctx     is the context the body was given still live?
    raw      a lock operation by somebody who is not one of these callers

  Callers use even thread ids (2·cid) in the lock machine, raw operations odd
  ones (2·t+1), so the two populations never share a parked entry.
-/
import ClairModel.Model.Locks

namespace ClairModel.LockCallers
open ClairModel

inductive Kind where
  | index     -- Libindex.Index: blocking Lock
  | tryer     -- Manager.Run goroutine / GC, Updater.fetchOne: TryLock
deriving DecidableEq, Repr

inductive Pc where
  | none                  -- no such call
  | start                 -- entered, lock not requested yet
  | waiting               -- parked inside Lock
  | granted (g : Nat)     -- the lock call returned grant g; context not looked at yet
  | body (g : Nat)        -- inside the critical section
  | mustRelease (g : Nat) -- on the way out, `done` not called yet
  | refused               -- TryLock said busy; `done` (a bare cancel) not called yet
  | finished              -- `done` called
  | returned
deriving DecidableEq, Repr

/-- The grant a caller is responsible for releasing. -/
def Pc.gid? : Pc → Option Nat
  | .granted g => some g
  | .body g => some g
  | .mustRelease g => some g
  | _ => Option.none

def upd {α : Type} (f : Nat → α) (i : Nat) (v : α) : Nat → α := fun j => if j = i then v else f j

structure State where
  lk : Locks.State := {}
  n : Nat := 0                                   -- calls begun so far; call ids are 0 … n-1
  kind : Nat → Kind := fun _ => .tryer
  key : Nat → Nat := fun _ => 0
  parent : Nat → Nat := fun _ => 0
  pc : Nat → Pc := fun _ => .none
  res : Nat → Nat := fun _ => 3                  -- result code of the call: 0 nil, 1 error, 2 cancelled, 3 none
  owner : Nat → Option Nat := fun _ => Option.none -- grant id ↦ the call it was handed to

def init : State := {}

inductive Op where
  | begin (kind : Kind) (k p : Nat)
  | acquire (c : Nat)
  | retest (c : Nat)
  | check (c : Nat)
  | leave (c r : Nat)
  | done (c : Nat)
  | ret (c : Nat)
  | bctx (c : Nat)
  | raw (op : Locks.Op)
deriving Repr

inductive Out where
  | cid (c : Nat)
  | lk (o : Locks.Out)
  | body
  | skip
  | ok
  | retd (r : Nat)
  | ctxLive (b : Bool)
  | bad
deriving DecidableEq, Repr

/-- Raw operations live on odd thread ids. -/
def rawOp : Locks.Op → Locks.Op
  | .lock t k p => .lock (2 * t + 1) k p
  | .retest t => .retest (2 * t + 1)
  | op => op

/-- What a caller does with the answer of its lock call. -/
def settle (s : State) (c : Nat) (r : Locks.State × Locks.Out) : State × Out :=
  match r.2 with
  | .acquired g =>
      ({ s with lk := r.1, pc := upd s.pc c (.granted g), owner := upd s.owner g (some c) }, .lk r.2)
  | .parked => ({ s with lk := r.1, pc := upd s.pc c .waiting }, .lk r.2)
  | .busy => ({ s with lk := r.1, pc := upd s.pc c .refused }, .lk r.2)
  | _ => (s, .bad)

def lockCall (s : State) (c : Nat) : Locks.Op :=
  match s.kind c with
  | .index => .lock (2 * c) (s.key c) (s.parent c)
  | .tryer => .tryLock (s.key c) (s.parent c)

def parentDead (s : State) (c : Nat) : Bool := s.lk.deadParents.contains (s.parent c)

def step (s : State) : Op → State × Out
  | .begin kd k p =>
      ({ s with n := s.n + 1, kind := upd s.kind s.n kd, key := upd s.key s.n k,
                parent := upd s.parent s.n p, pc := upd s.pc s.n .start,
                res := upd s.res s.n 3 }, .cid s.n)
  | .acquire c =>
      match s.pc c with
      | .start => settle s c (Locks.step s.lk (lockCall s c))
      | _ => (s, .bad)
  | .retest c =>
      match s.pc c with
      | .waiting => settle s c (Locks.step s.lk (.retest (2 * c)))
      | _ => (s, .bad)
  | .check c =>
      match s.pc c with
      | .granted g =>
          if parentDead s c then
            ({ s with pc := upd s.pc c (.mustRelease g), res := upd s.res c 2 }, .skip)
          else ({ s with pc := upd s.pc c (.body g) }, .body)
      | _ => (s, .bad)
  | .leave c r =>
      match s.pc c with
      | .body g => ({ s with pc := upd s.pc c (.mustRelease g), res := upd s.res c r }, .ok)
      | _ => (s, .bad)
  | .done c =>
      match s.pc c with
      | .mustRelease g =>
          let r := Locks.step s.lk (.release g)
          ({ s with lk := r.1, pc := upd s.pc c .finished }, .lk r.2)
      | .refused => ({ s with pc := upd s.pc c .finished }, .lk .noop)
      -- releasing is safe to repeat: a second call of `done` changes nothing
      | .finished => (s, .lk .noop)
      | .returned => (s, .lk .noop)
      | _ => (s, .bad)
  | .ret c =>
      match s.pc c with
      | .finished =>
          ({ s with pc := upd s.pc c .returned },
           .retd (match s.kind c with | .index => s.res c | .tryer => 3))
      -- a refused TryLock owes no release: returning without calling `done` is fine
      | .refused => ({ s with pc := upd s.pc c .returned }, .retd 3)
      | _ => (s, .bad)
  | .bctx c =>
      match s.pc c with
      | .body g => (s, .ctxLive (Locks.ctxLive s.lk g))
      | .mustRelease g => (s, .ctxLive (Locks.ctxLive s.lk g))
      | .finished => (s, .ctxLive false)
      | .returned => (s, .ctxLive false)
      | _ => (s, .bad)
  | .raw op =>
      match op with
      | .release g =>
          -- a caller's release function is not reachable from outside the call
          if (s.owner g).isSome then (s, .bad)
          else let r := Locks.step s.lk (.release g); ({ s with lk := r.1 }, .lk r.2)
      | op => let r := Locks.step s.lk (rawOp op); ({ s with lk := r.1 }, .lk r.2)

/-- The shape of seeded change C20-c3 (and of any caller that registers its
    release only after looking at the context): a caller that was granted the
    key on a dead context returns without calling `done`. -/
def stepLateDefer (s : State) : Op → State × Out
  | .check c =>
      match s.pc c with
      | .granted g =>
          if parentDead s c then
            ({ s with pc := upd s.pc c .finished, res := upd s.res c 2 }, .skip)
          else ({ s with pc := upd s.pc c (.body g) }, .body)
      | _ => (s, .bad)
  | op => step s op

/-- All calls up to `n` are over. -/
def allReturned (s : State) : Bool := (List.range s.n).all fun c => s.pc c == .returned

/-! ## Which lock source an entry point ends up with

    libindex.New   : Options.Locker == nil → error "field Locker cannot be nil"; otherwise the given one
    libvuln.New    : Options.Locker == nil → updates.NewLocalLockSource(); otherwise the given one
    updater.New    : Options.Locker == nil → newLocalLocker(); otherwise the given one -/

inductive Entry where
  | libindex | libvuln | updater
deriving DecidableEq, Repr

inductive Sel where
  | rejected   -- the constructor returns an error, nothing is built
  | localSrc   -- a fresh process-local lock source
  | given      -- the caller's lock source, untouched
deriving DecidableEq, Repr

def select (e : Entry) (given : Bool) : Sel :=
  if given then .given else
  match e with
  | .libindex => .rejected
  | .libvuln => .localSrc
  | .updater => .localSrc

end ClairModel.LockCallers
