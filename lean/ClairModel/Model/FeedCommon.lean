/-
  C14 — what is observed of a `claircore.Vulnerability` a feed parser returns,
  and its canonical one-line rendering (the Go harness prints the same).
  Core Lean only.
-/
namespace ClairModel.Feeds

/-- `claircore.Version` as far as the OSV parser fills it: kind and `V[0..3]`
    (`V[0]` is the "epoch" slot, 65535 there means +∞; `V[1..3]` = major, minor, patch). -/
structure Ver where
  kind : String := ""
  v0 : Nat := 0
  v1 : Nat := 0
  v2 : Nat := 0
  v3 : Nat := 0
deriving DecidableEq, Repr, Inhabited

/-- `(*Version).Compare`: kinds as strings first, then the slots. -/
def Ver.cmp (a b : Ver) : Ordering :=
  if a.kind ≠ b.kind then compare a.kind b.kind
  else (compare a.v0 b.v0).then ((compare a.v1 b.v1).then ((compare a.v2 b.v2).then (compare a.v3 b.v3)))

structure Rng where
  lower : Ver := {}
  upper : Ver := {}
deriving DecidableEq, Repr, Inhabited

/-- The observed fields of one returned vulnerability. `dist` and `repo` are
    canonical keys (see the harness), `pkgKind` is "" when `Package` is nil. -/
structure Vuln where
  updater : String := ""
  name : String := ""
  desc : String := ""
  links : String := ""
  sev : String := ""
  nsev : Nat := 0
  hasPkg : Bool := false
  pkgName : String := ""
  pkgKind : String := ""
  pkgModule : String := ""
  pkgArch : String := ""
  archOp : Nat := 0
  fixed : String := ""
  dist : String := ""
  repo : String := ""
  range : Option Rng := none
  issued : String := ""      -- `Issued` as the harness canonicalises it (unix seconds; "" = the zero time)
  pkgHint : String := ""     -- `Package.RepositoryHint`
deriving DecidableEq, Repr, Inhabited

def hexDigit (n : Nat) : Char :=
  if n < 10 then Char.ofNat (48 + n) else Char.ofNat (87 + n)

/-- Lower-case hex of the UTF-8 bytes; `-` for the empty string. -/
def hexStr (s : String) : String :=
  if s.isEmpty then "-" else
  String.ofList (s.toUTF8.toList.flatMap fun b => [hexDigit (b.toNat / 16), hexDigit (b.toNat % 16)])

def Ver.render (v : Ver) : String :=
  s!"{hexStr v.kind}:{v.v0}.{v.v1}.{v.v2}.{v.v3}"

def renderRange : Option Rng → String
  | none => "nil"
  | some r => s!"{r.lower.render}~{r.upper.render}"

/-- One record; every free-text field in hex so that records are plain ASCII
    without separators inside. -/
def Vuln.render (v : Vuln) : String :=
  ",".intercalate [hexStr v.updater, hexStr v.name, hexStr v.desc, hexStr v.links, hexStr v.sev, toString v.nsev,
    (if v.hasPkg then "p" else "nopkg"), hexStr v.pkgName, hexStr v.pkgKind, hexStr v.pkgModule, hexStr v.pkgArch,
    toString v.archOp, hexStr v.fixed, hexStr v.dist, hexStr v.repo, renderRange v.range, hexStr v.issued, hexStr v.pkgHint]

end ClairModel.Feeds
