/-
  Model of layer.go (C11): the life cycle of a `claircore.Layer` around the
  tarfs view, and the deprecated `Layer.Files`.

    LayerSt              the fields init / closed / sys / rd of struct Layer
    mediaClass           the switch on desc.MediaType in Layer.Init
    layerInit            Layer.Init (digest parsed first; tarfs.New for the six
                         OCI tar media types; os.DirFS for the claircore
                         filesystem type; anything else is an error)
    layerFS, layerReader Layer.FS, Layer.Reader (which of them work when)
    layerClose           Layer.Close (second Close panics)
    normalizeIn          normalizeIn("/", p) on a Unix path
    layerFiles           Layer.Files: fs.WalkDir over the view, fs.ReadFile of
                         every wanted entry that is not a directory

  Core Lean only.
-/
import ClairModel.Model.TarFSDir

namespace ClairModel.TarFS

inductive MediaClass where
  | tar | dirfs | unknown
deriving DecidableEq, Repr

/-- The media types `Layer.Init` builds a tarfs view for. -/
def tarMediaTypes : List String :=
  [ "application/vnd.oci.image.layer.v1.tar",
    "application/vnd.oci.image.layer.v1.tar+gzip",
    "application/vnd.oci.image.layer.v1.tar+zstd",
    "application/vnd.oci.image.layer.nondistributable.v1.tar",
    "application/vnd.oci.image.layer.nondistributable.v1.tar+gzip",
    "application/vnd.oci.image.layer.nondistributable.v1.tar+zstd" ]

def mediaClass (mt : String) : MediaClass :=
  if tarMediaTypes.contains mt then .tar
  else if mt = "application/vnd.claircore.filesystem" then .dirfs
  else .unknown

structure LayerSt where
  init : Bool := false
  closed : Bool := false
  sys : Option FS := none
  rd : Bool := false          -- l.rd != nil
deriving Repr

inductive LayerErr where
  | twice            -- Init on an initialised Layer
  | digest           -- ParseDigest failed
  | media            -- unknown MediaType / filesystem type without URI
  | view (e : Err)   -- tarfs.New failed (wrapped with %w: the class survives)
  | uninit           -- FS / Reader / Close on an uninitialised Layer
  | noReader         -- Reader on a Layer without a ReaderAt
deriving DecidableEq, Repr

/-- `Layer.Init` for a tar (or unknown) media type. `digestOK`: the digest
    string parses. The members are what the ReaderAt holds. -/
def layerInit (st : LayerSt) (mt : String) (digestOK : Bool) (ms : List Member) : LayerSt × Option LayerErr :=
  if st.init then (st, some .twice)
  else if !digestOK then (st, some .digest)
  else
    let st1 := { st with rd := true }
    match mediaClass mt with
    | .tar =>
      match newFS ms with
      | .ok fs => ({ st1 with sys := some fs, init := true }, none)
      | .error e => (st1, some (.view e))
    | .dirfs => (st1, some .media)      -- the harness passes no URI
    | .unknown => (st1, some .media)

def layerFS (st : LayerSt) : Except LayerErr FS :=
  if !st.init then .error .uninit
  else match st.sys with
    | some fs => .ok fs
    | none => .error .uninit

def layerReader (st : LayerSt) : Option LayerErr :=
  if !st.init then some .uninit
  else if !st.rd then some .noReader
  else none

inductive CloseRes where
  | ok | err | panic
deriving DecidableEq, Repr

def layerClose (st : LayerSt) : LayerSt × CloseRes :=
  if !st.init then (st, .err)
  else if st.closed then (st, .panic)
  else ({ st with closed := true }, .ok)

/-- `normalizeIn("/", p)`: clean, make absolute, drop the leading slash. -/
def normalizeIn (p : Bytes) : Bytes :=
  let c := clean p
  let a := if isAbs c then c else pathJoin2 [SL] c
  if isAbs a then a.drop 1 else a

/-- The walk of `Layer.Files`: the first error (of the walk or of a read) ends
    it; a wanted name is read once. -/
def filesWalk (fs : FS) : List WalkItem → List Bytes → List (Bytes × Bytes) → Except Err (List (Bytes × Bytes))
  | [], _, acc => .ok acc.reverse
  | .readErr _ :: _, _, _ => .error .other
  | .ent p t :: rest, want, acc =>
    if t = .dir then filesWalk fs rest want acc
    else if want.contains p then
      match readFileFS fs p with
      | .ok d => filesWalk fs rest (want.filter (· ≠ p)) ((p, d) :: acc)
      | .error e => .error e
    else filesWalk fs rest want acc

inductive FilesRes where
  | found (fs : List (Bytes × Bytes))
  | notFound
  | err (e : Err)
deriving Repr

/-- `Layer.Files(paths...)`; `cap` bounds the walk like `walkDir`. -/
def layerFiles (fs : FS) (paths : List Bytes) (cap : Nat) : FilesRes :=
  match filesWalk fs (walkDir fs cap) (paths.map normalizeIn) [] with
  | .error e => .err e
  | .ok [] => .notFound
  | .ok l => .found l

end ClairModel.TarFS
