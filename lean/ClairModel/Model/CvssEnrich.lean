/-
  C18 — executable model of what enricher/cvss forwards (it contains no vector
  logic): which CVE ids `Enrich` extracts from a vulnerability's free-form
  text (`enricher.CVERegexp`, leftmost, non-overlapping, as
  `FindAllString(…, -1)`), how they become the query of the
  `EnrichmentGetter` (deduplicated, sorted, joined for the per-call cache) and
  which records end up under which vulnerability id; and which items of an
  NVD year feed `WriteCVSS` selects (those that carry a `cvssV3` member; a
  v2-only item is skipped).

  Core Lean only; strings are byte lists.
-/
namespace ClairModel.CvssEnrich

abbrev Bytes := List Nat

/-! ### `(?i:cve)[-_][0-9]{4}[-_][0-9]{4,}` -/

def isDigit (c : Nat) : Bool := decide (48 ≤ c ∧ c ≤ 57)
def isSep (c : Nat) : Bool := decide (c = 45 ∨ c = 95)
/-- `c` is the lower-case letter `l` or its upper-case form -/
def isLetter (l c : Nat) : Bool := decide (c = l ∨ c + 32 = l)

/-- a match that starts at the first byte: (the match, the rest after it).
    The last group is greedy: every following digit belongs to the match. -/
def cveAt (s : Bytes) : Option (Bytes × Bytes) :=
  match s with
  | c :: v :: e :: s1 :: d1 :: d2 :: d3 :: d4 :: s2 :: rest =>
    if isLetter 99 c && isLetter 118 v && isLetter 101 e && isSep s1 && isDigit d1 && isDigit d2 && isDigit d3 &&
        isDigit d4 && isSep s2 && decide (4 ≤ (rest.takeWhile isDigit).length) then
      some (c :: v :: e :: s1 :: d1 :: d2 :: d3 :: d4 :: s2 :: rest.takeWhile isDigit, rest.dropWhile isDigit)
    else none
  | _ => none

/-- `CVERegexp.FindAllString(s, -1)`: scan from the left, after a match go on behind it -/
def findAllFuel : Nat → Bytes → List Bytes
  | 0, _ => []
  | _ + 1, [] => []
  | fuel + 1, c :: cs =>
    match cveAt (c :: cs) with
    | some (m, rest) => m :: findAllFuel fuel rest
    | none => findAllFuel fuel cs

def findAll (s : Bytes) : List Bytes := findAllFuel (s.length + 1) s

/-! ### `Enrich` -/

/-- bytewise order of Go strings (`sort.Strings`) -/
def bytesLt : Bytes → Bytes → Bool
  | [], [] => false
  | [], _ :: _ => true
  | _ :: _, [] => false
  | a :: as, b :: bs => if a < b then true else if b < a then false else bytesLt as bs

def insertSorted (x : Bytes) : List Bytes → List Bytes
  | [] => [x]
  | y :: ys => if x = y then y :: ys else if bytesLt x y then x :: y :: ys else y :: insertSorted x ys

/-- the set of strings as a sorted list without duplicates (the map `t`, then `sort.Strings`) -/
def sortDedup (xs : List Bytes) : List Bytes := xs.foldl (fun acc x => insertSorted x acc) []

/-- one vulnerability of the report: its map key and the three texts searched (Description, Name, Links) -/
structure Vuln where
  id : Bytes
  texts : List Bytes

/-- the query `Enrich` derives from a vulnerability: all CVE ids of its texts, sorted, no duplicates -/
def tagsOf (v : Vuln) : List Bytes := sortDedup (v.texts.flatMap findAll)

/-- `strings.Join(ts, "_")` -/
def joinKey : List Bytes → Bytes
  | [] => []
  | [x] => x
  | x :: y :: r => x ++ 95 :: joinKey (y :: r)

/-- an enrichment record: tags and the JSON blob -/
structure Rec where
  tags : List Bytes
  blob : Bytes

/-- the getter: the records for a tag list, or an error -/
abbrev Getter := List Bytes → Option (List Rec)

def lookupKey {α : Type} : List (Bytes × α) → Bytes → Option α
  | [], _ => none
  | (k, x) :: r, key => if k = key then some x else lookupKey r key

structure EnrichState where
  cache : List (Bytes × List Rec)
  /-- the getter calls made, in order (their cache keys) -/
  calls : List Bytes
  /-- vulnerability id -> blobs -/
  out : List (Bytes × List Bytes)

/-- one iteration of the loop over `r.Vulnerabilities` -/
def enrichStep (g : Getter) (st : EnrichState) (v : Vuln) : Option EnrichState :=
  let ts := tagsOf v
  if ts.isEmpty then some st else
  let key := joinKey ts
  match lookupKey st.cache key with
  | some recs =>
    some { st with out := if recs.isEmpty then st.out else st.out ++ [(v.id, recs.map (·.blob))] }
  | none =>
    match g ts with
    | none => none
    | some recs =>
      some { cache := (key, recs) :: st.cache, calls := st.calls ++ [key],
             out := if recs.isEmpty then st.out else st.out ++ [(v.id, recs.map (·.blob))] }

def enrichLoop (g : Getter) : List Vuln → EnrichState → Option EnrichState
  | [], st => some st
  | v :: vs, st =>
    match enrichStep g st v with
    | none => none
    | some st' => enrichLoop g vs st'

/-- `Enrich` over the vulnerabilities in some iteration order (ids are map keys: distinct) -/
def enrich (g : Getter) (vs : List Vuln) : Option EnrichState := enrichLoop g vs ⟨[], [], []⟩

/-- what `Enrich` is meant to compute, without the cache: per vulnerability, the blobs of the getter's answer to its tags -/
def enrichSpec (g : Getter) : List Vuln → Option (List (Bytes × List Bytes))
  | [] => some []
  | v :: vs =>
    let ts := tagsOf v
    if ts.isEmpty then enrichSpec g vs else
    match g ts, enrichSpec g vs with
    | some recs, some rest => some (if recs.isEmpty then rest else (v.id, recs.map (·.blob)) :: rest)
    | _, _ => none

/-! ### the feed -/

/-- an item of the year feed: its CVE id, the raw `cvssV3` member if the item
    has one (a JSON `null` is a member too), whether it has v2 metrics -/
structure Item where
  id : Bytes
  v3 : Option Bytes
  hasV2 : Bool

/-- `WriteCVSS`: one record (tag = the CVE id, enrichment = the raw `cvssV3`) per item that has the member -/
def writeCVSS (items : List Item) : List (Bytes × Bytes) :=
  items.filterMap fun it => it.v3.map fun raw => (it.id, raw)

end ClairModel.CvssEnrich
