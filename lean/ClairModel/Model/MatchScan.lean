/-
  Scan-level matching (property C03, widening round): what `libvuln.Scan`
  does with the default matcher set for the version decision to reach the
  report —

    matchers/defaults/defaults.go   the registered matchers
    <ecosystem>/matcher.go          Filter, Query, VersionFilter / VersionAuthoritative, Vulnerable
    internal/matcher/controller.go  Match: findInterested, query, dbFilter, filter / filterVulns
    internal/matcher/match.go       Match: one controller per matcher, results appended
    datastore/postgres/querybuilder.go  buildGetQuery: the WHERE clause of the vulnerability query
    datastore/postgres/get.go       Get: one query per record, results merged per package ID

  Records (`Rec`) are `claircore.IndexRecord`s, advisories (`Adv`) are rows of
  the `vuln` table as `Get` rebuilds them (Package, Dist and Repo always
  allocated).  The CPE algebra behind the rhel gate stays an input (`superset`,
  computed by the real `cpe.Compare`, property C19); `isCPESubstringMatch` is
  computed here from the two formatted strings.  Core Lean only.
-/
import ClairModel.Model.Matchers
import ClairModel.Model.MatchersLang

namespace ClairModel.MatchScan
open ClairModel.Matchers ClairModel.VerCommon

/-- `claircore.Distribution`, the fields a constraint can compare. -/
structure Dist where
  did : Str := []
  name : Str := []
  version : Str := []
  versionCodeName : Str := []
  versionID : Str := []
  arch : Str := []
  prettyName : Str := []
  deriving DecidableEq, Repr

/-- `record.Repository`. -/
structure RecRepo where
  name : Str := []
  key : Str := []
  uri : Str := []
  cpe : Str := []        -- Repository.CPE.String(): the 2.3 formatted string
  idx : Nat := 0         -- column of the advisories' `superset` table
  deriving DecidableEq, Repr

/-- `claircore.IndexRecord`. -/
structure Rec where
  pkgID : Str
  name : Str
  kind : Str := []
  module : Str := []
  src : Option (Str × Str) := none      -- Source.Name, Source.Kind when Source != nil && Source.Name != ""
  pkg : Pkg
  nver : NVersion := { kind := [], v := [] }
  dist : Option Dist := none
  repo : Option RecRepo := none
  deriving DecidableEq, Repr

/-- One row of the `vuln` table. -/
structure Adv where
  id : Str
  name : Str                -- package_name
  kind : Str := []          -- package_kind
  module : Str := []        -- package_module
  dist : Dist := {}
  repoName : Str := []
  repoKey : Str := []
  repoURI : Str := []
  v : Vuln                  -- fixed_in_version, package_version, package_arch, arch_operation
  range : Option NRange := none       -- version_kind / vulnerable_range
  cpe : Option Str := none            -- cpe.Unbind(repo_name).String(); none = does not unbind
  superset : List Bool := []          -- cpe.Compare(advisory cpe, record cpe).IsSuperset(), per record repository
  deriving DecidableEq, Repr

/-- The built-in matchers. -/
inductive MatcherId
  | alpine | aws | debian | gobin | java | nodejs | oracle | photon | python | rhcc | ruby | suse | ubuntu
  | rhel (ignoreUnpatched : Bool)
  deriving DecidableEq, Repr

/-- `Matcher.Name()`. -/
def name : MatcherId → String
  | .alpine => "alpine-matcher" | .aws => "aws-matcher" | .debian => "debian-matcher" | .gobin => "gobin"
  | .java => "java-maven" | .nodejs => "nodejs" | .oracle => "oracle" | .photon => "photon"
  | .python => "python" | .rhcc => "rhel-container-matcher" | .ruby => "ruby-gem" | .suse => "suse"
  | .ubuntu => "ubuntu-matcher" | .rhel _ => "rhel"

/-- `driver.MatchConstraint`, those a built-in `Query()` returns or the query
    builder's text compares as plain strings (`DistributionCPE` is not used by
    any built-in matcher and stays outside). -/
inductive Constraint
  | packageModule | distributionDID | distributionName | distributionVersion
  | distributionVersionCodeName | distributionVersionID | distributionArch | distributionPrettyName
  | repositoryName | repositoryKey | hasFixedInVersion
  deriving DecidableEq, Repr

def Constraint.all : List Constraint :=
  [.packageModule, .distributionDID, .distributionName, .distributionVersion, .distributionVersionCodeName,
   .distributionVersionID, .distributionArch, .distributionPrettyName, .repositoryName, .repositoryKey,
   .hasFixedInVersion]

/-- The constraint's name in libvuln/driver. -/
def Constraint.goName : Constraint → String
  | .packageModule => "PackageModule" | .distributionDID => "DistributionDID"
  | .distributionName => "DistributionName" | .distributionVersion => "DistributionVersion"
  | .distributionVersionCodeName => "DistributionVersionCodeName" | .distributionVersionID => "DistributionVersionID"
  | .distributionArch => "DistributionArch" | .distributionPrettyName => "DistributionPrettyName"
  | .repositoryName => "RepositoryName" | .repositoryKey => "RepositoryKey"
  | .hasFixedInVersion => "HasFixedInVersion"

/-- The column of the `vuln` table the query builder compares for the constraint … -/
def Constraint.column : Constraint → String
  | .packageModule => "package_module" | .distributionDID => "dist_id"
  | .distributionName => "dist_name" | .distributionVersion => "dist_version"
  | .distributionVersionCodeName => "dist_version_code_name" | .distributionVersionID => "dist_version_id"
  | .distributionArch => "dist_arch" | .distributionPrettyName => "dist_pretty_name"
  | .repositoryName => "repo_name" | .repositoryKey => "repo_key"
  | .hasFixedInVersion => "fixed_in_version"

/-- … and the field of the record it is compared with (`holds` below). -/
def Constraint.recordField : Constraint → String
  | .packageModule => "Package.Module" | .distributionDID => "Distribution.DID"
  | .distributionName => "Distribution.Name" | .distributionVersion => "Distribution.Version"
  | .distributionVersionCodeName => "Distribution.VersionCodeName" | .distributionVersionID => "Distribution.VersionID"
  | .distributionArch => "Distribution.Arch" | .distributionPrettyName => "Distribution.PrettyName"
  | .repositoryName => "Repository.Name" | .repositoryKey => "Repository.Key"
  | .hasFixedInVersion => "exp.NeqOp \"\""

/-- How matchers/defaults names the matcher (package.Type; `name:factory` for rhel). -/
def MatcherId.goType : MatcherId → String
  | .alpine => "alpine.Matcher" | .aws => "aws.Matcher" | .debian => "debian.Matcher" | .gobin => "gobin.Matcher"
  | .java => "java.Matcher" | .nodejs => "nodejs.Matcher" | .oracle => "oracle.Matcher" | .photon => "photon.Matcher"
  | .python => "python.Matcher" | .rhcc => "rhcc.Matcher" | .ruby => "ruby.Matcher" | .suse => "suse.Matcher"
  | .ubuntu => "ubuntu.Matcher" | .rhel _ => "rhel:rhel.MatcherFactory"

/-! ### Literals of the Filter functions -/

def sAlpineID : Str := "alpine".toList
def sAlpineName : Str := "Alpine Linux".toList
def sAwsID : Str := "amzn".toList
def sAwsAL1 : Str := "Amazon Linux AMI".toList
def sAwsAL2 : Str := "Amazon Linux".toList
def sDebianID : Str := "debian".toList
def sDebianName : Str := "Debian GNU/Linux".toList
def sUbuntuID : Str := "ubuntu".toList
def sUbuntuName : Str := "Ubuntu".toList
def sOracleID : Str := "ol".toList
def sOracleName : Str := "Oracle Linux Server".toList
def sSuseIDs : List Str := ["sles".toList, "opensuse".toList, "opensuse-leap".toList]
def sSuseNames : List Str := ["SLES".toList, "openSUSE Leap".toList]
def sPhotonID : Str := "photon".toList
def sRhelKey : Str := "rhel-cpe-repository".toList
def sGoldRepo : Str := "Red Hat Container Catalog".toList
def sPep440 : Str := "pep440".toList
def sMaven : Str := "maven".toList
def sRubygems : Str := "rubygems".toList
def sGoURI : Str := "https://pkg.go.dev/".toList
def sNpm : Str := "npm".toList

def distIs (r : Rec) (p : Dist → Bool) : Bool :=
  match r.dist with
  | none => false
  | some d => p d

def repoIs (r : Rec) (p : RecRepo → Bool) : Bool :=
  match r.repo with
  | none => false
  | some x => p x

/-- `Matcher.Filter(record)`. -/
def filter : MatcherId → Rec → Bool
  | .alpine, r => distIs r fun d => decide (d.did = sAlpineID) || decide (d.name = sAlpineName)
  | .aws, r => distIs r fun d => decide (d.name = sAwsAL1) || decide (d.name = sAwsAL2) || decide (d.did = sAwsID)
  | .debian, r => distIs r fun d => decide (d.did = sDebianID) || decide (d.name = sDebianName)
  | .ubuntu, r => distIs r fun d => decide (d.did = sUbuntuID) || decide (d.name = sUbuntuName)
  | .oracle, r => distIs r fun d => decide (d.did = sOracleID) || decide (d.name = sOracleName)
  | .suse, r => distIs r fun d => sSuseIDs.contains d.did || sSuseNames.contains d.name
  | .photon, r => distIs r fun d => decide (d.did = sPhotonID)
  | .rhel _, r => repoIs r fun x => decide (x.key = sRhelKey)
  | .rhcc, r => repoIs r fun x => decide (x.name = sGoldRepo)
  | .python, r => decide (r.nver.kind = sPep440)
  | .java, r => repoIs r fun x => decide (x.name = sMaven)
  | .ruby, r => repoIs r fun x => decide (x.name = sRubygems)
  | .gobin, r => repoIs r fun x => decide (x.uri = sGoURI)
  | .nodejs, r => repoIs r fun x => decide (x.name = sNpm)

/-- `Matcher.Query()`. -/
def query : MatcherId → List Constraint
  | .alpine => [.distributionDID, .distributionName, .distributionPrettyName]
  | .aws => [.distributionDID, .distributionVersionID]
  | .debian | .ubuntu | .oracle | .photon | .suse => [.distributionDID, .distributionName, .distributionVersion]
  | .rhel iu => [.packageModule, .repositoryKey] ++ (if iu then [.hasFixedInVersion] else [])
  | .rhcc | .python | .java | .ruby | .gobin | .nodejs => [.repositoryName]

/-- Does the matcher implement `driver.VersionFilter`? -/
def versionFilter : MatcherId → Bool
  | .rhcc | .gobin | .nodejs => true
  | _ => false

/-- `VersionAuthoritative()` (false for a matcher that is no `VersionFilter`). -/
def authoritative : MatcherId → Bool
  | .gobin | .nodejs => true
  | _ => false

/-- What matchers/defaults registers: the twelve static matchers and the rhel factory. -/
def defaultMatchers (ignoreUnpatched : Bool) : List MatcherId :=
  [.alpine, .aws, .debian, .gobin, .java, .oracle, .photon, .python, .rhcc, .ruby, .suse, .ubuntu, .rhel ignoreUnpatched]

/-! ### `Vulnerable` on a (record, row) pair -/

/-- `isCPESubstringMatch(recordCPE, vulnCPE)`:
    `strings.HasPrefix(recordCPE.String(), strings.TrimRight(vulnCPE.String(), ":*"))`. -/
def cpeSubstring (recordCPE vulnCPE : Str) : Bool :=
  isPrefix (trimRight (fun c => c = ':' || c = '*') vulnCPE) recordCPE

/-- The tests of rhel's `Vulnerable` before it looks at versions, for a row
    the store returned (`vuln.Repo` is always allocated there). -/
def rhelGate (r : Rec) (a : Adv) : RhelGate :=
  match r.repo with
  | none => { vulnRepoNil := false, recRepoNil := true, keyOK := decide (a.repoKey = sRhelKey),
              unbindOK := a.cpe.isSome, superset := false, substring := false }
  | some x =>
    { vulnRepoNil := false, recRepoNil := false, keyOK := decide (a.repoKey = sRhelKey),
      unbindOK := a.cpe.isSome,
      superset := a.superset.getD x.idx false,
      substring := match a.cpe with
        | none => false
        | some c => cpeSubstring x.cpe c }

def vulnerableOf (m : MatcherId) (r : Rec) (a : Adv) : Out :=
  match m with
  | .alpine => vulnerableAlpine r.pkg a.v
  | .aws => vulnerableAws r.pkg a.v
  | .debian => vulnerableDebian r.pkg a.v
  | .ubuntu => vulnerableUbuntu r.pkg a.v
  | .oracle => vulnerableOracle r.pkg a.v
  | .suse => vulnerableSuse r.pkg a.v
  | .photon => vulnerablePhoton r.pkg a.v
  | .rhel _ => vulnerableRhel (rhelGate r a) r.pkg a.v
  | .rhcc => vulnerableRhcc r.pkg a.v
  | .python => vulnerablePython r.pkg a.v
  | .java => vulnerableJava r.pkg a.v
  | .ruby => vulnerableRuby r.pkg a.v
  | .gobin | .nodejs => vulnerableNoop r.pkg a.v

/-! ### The vulnerability query (`buildGetQuery`) evaluated on a row -/

/-- "A record without the part a constraint compares cannot be queried." -/
def constraintBuildable (c : Constraint) (r : Rec) : Bool :=
  match c with
  | .distributionDID | .distributionName | .distributionVersion | .distributionVersionCodeName
  | .distributionVersionID | .distributionArch | .distributionPrettyName => r.dist.isSome
  | .repositoryName | .repositoryKey => r.repo.isSome
  | .packageModule | .hasFixedInVersion => true

/-- `buildGetQuery` returns SQL (and not an error) for the record. -/
def buildable (cs : List Constraint) (r : Rec) : Bool :=
  decide (r.name ≠ []) && cs.all fun c => constraintBuildable c r

/-- One `goqu.Ex` of the constraint switch, on a row. -/
def holds (c : Constraint) (r : Rec) (a : Adv) : Bool :=
  match c with
  | .packageModule => decide (a.module = r.module)
  | .distributionDID => distIs r fun d => decide (a.dist.did = d.did)
  | .distributionName => distIs r fun d => decide (a.dist.name = d.name)
  | .distributionVersion => distIs r fun d => decide (a.dist.version = d.version)
  | .distributionVersionCodeName => distIs r fun d => decide (a.dist.versionCodeName = d.versionCodeName)
  | .distributionVersionID => distIs r fun d => decide (a.dist.versionID = d.versionID)
  | .distributionArch => distIs r fun d => decide (a.dist.arch = d.arch)
  | .distributionPrettyName => distIs r fun d => decide (a.dist.prettyName = d.prettyName)
  | .repositoryName => repoIs r fun x => decide (a.repoName = x.name)
  | .repositoryKey => repoIs r fun x => decide (a.repoKey = x.key)
  | .hasFixedInVersion => decide (a.v.fixed ≠ [])

/-- The package clause: name and kind of the package, or of its source package. -/
def nameMatches (r : Rec) (a : Adv) : Bool :=
  (decide (a.name = r.name) && decide (a.kind = r.kind)) ||
  match r.src with
  | none => false
  | some (sn, sk) => decide (a.name = sn) && decide (a.kind = sk)

/-- The whole WHERE clause (the update-operation join is outside the model:
    every row is of the latest operation). -/
def rowMatches (cs : List Constraint) (vf : Bool) (r : Rec) (a : Adv) : Bool :=
  nameMatches r a && (cs.all fun c => holds c r a) && (!vf || dbSideHit a.range r.nver)

/-- `MatcherStore.Get` for one package ID: the rows some queryable record of
    the package selects, each once. -/
def fetched (cs : List Constraint) (vf : Bool) (recs : List Rec) (advs : List Adv) (pid : Str) : List Adv :=
  advs.filter fun a => recs.any fun r => decide (r.pkgID = pid) && buildable cs r && rowMatches cs vf r a

/-! ### `Controller.Match` and `matcher.Match` -/

/-- Outcome of one controller: error, no return, or the (package ID, advisory
    ID) pairs it delivers, with multiplicity. -/
inductive Res
  | err
  | hang
  | ok (l : List (Str × Str))
  deriving DecidableEq, Repr

/-- `filterVulns`: the rows of the package put to `Vulnerable` for one record. -/
def filterVulns (m : MatcherId) (r : Rec) : List Adv → Res
  | [] => .ok []
  | a :: rest =>
    match vulnerableOf m r a with
    | .err => .err
    | .hang => .hang
    | .ok b =>
      match filterVulns m r rest with
      | .ok l => .ok (if b then (r.pkgID, a.id) :: l else l)
      | e => e

/-- `Controller.filter`: every interested record in turn. -/
def filterRecs (m : MatcherId) (fetch : Str → List Adv) : List Rec → Res
  | [] => .ok []
  | r :: rest =>
    match filterVulns m r (fetch r.pkgID) with
    | .ok l =>
      match filterRecs m fetch rest with
      | .ok l' => .ok (l ++ l')
      | e => e
    | e => e

def dedup : List Str → List Str
  | [] => []
  | x :: xs => if xs.contains x then dedup xs else x :: dedup xs

/-- `Controller.Match`. -/
def matchOne (m : MatcherId) (recs : List Rec) (advs : List Adv) : Res :=
  let interested := recs.filter (filter m)
  if interested.isEmpty then .ok []                      -- "early return; do not call db at all"
  else
    let cs := query m
    let fetch := fetched cs (versionFilter m) interested advs
    if authoritative m then
      .ok ((dedup ((interested.filter (buildable cs)).map (·.pkgID))).flatMap fun pid =>
        (fetch pid).map fun a => (pid, a.id))
    else filterRecs m fetch interested

/-- What a matcher adds to `PackageVulnerabilities` (nothing if its controller failed). -/
def contrib (m : MatcherId) (recs : List Rec) (advs : List Adv) : List (Str × Str) :=
  match matchOne m recs advs with
  | .ok l => l
  | _ => []

/-- `matcher.Match`: the report's (package, advisory) listings … -/
def scanPairs (ms : List MatcherId) (recs : List Rec) (advs : List Adv) : List (Str × Str) :=
  ms.flatMap fun m => contrib m recs advs

/-- … whether the joined error is non-nil … -/
def scanErr (ms : List MatcherId) (recs : List Rec) (advs : List Adv) : Bool :=
  ms.any fun m => decide (matchOne m recs advs = .err)

/-- … and whether it returns at all. -/
def scanHang (ms : List MatcherId) (recs : List Rec) (advs : List Adv) : Bool :=
  ms.any fun m => decide (matchOne m recs advs = .hang)

end ClairModel.MatchScan
