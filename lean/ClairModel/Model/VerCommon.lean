/-
  Pieces of Go's standard library that the three third-party version
  libraries (go-rpm-version, go-deb-version, go-apk-version) call, modelled
  on ASCII strings given as `List Char`: strconv.Atoi, strings.SplitN(_, ":", 2),
  strings.Index / LastIndex of a byte, unicode.IsSpace / IsDigit / IsLetter
  restricted to ASCII.  Core Lean only.
-/
namespace ClairModel.VerCommon

abbrev Str := List Char

def isDigit (c : Char) : Bool := decide ('0'.toNat ≤ c.toNat) && decide (c.toNat ≤ '9'.toNat)
def isLower (c : Char) : Bool := decide ('a'.toNat ≤ c.toNat) && decide (c.toNat ≤ 'z'.toNat)
def isUpper (c : Char) : Bool := decide ('A'.toNat ≤ c.toNat) && decide (c.toNat ≤ 'Z'.toNat)
def isLetter (c : Char) : Bool := isLower c || isUpper c

/-- `unicode.IsSpace` on ASCII: `\t \n \v \f \r` and space. -/
def isSpace (c : Char) : Bool :=
  c.toNat == 32 || (decide (9 ≤ c.toNat) && decide (c.toNat ≤ 13))

def digitVal (c : Char) : Nat := c.toNat - '0'.toNat

/-- Value of a digit string (most significant first). -/
def natOfDigits (ds : Str) : Nat := ds.foldl (fun acc c => acc * 10 + digitVal c) 0

def maxInt64 : Int := 9223372036854775807
def minInt64 : Int := -9223372036854775808

/-- `strconv.Atoi` on a 64-bit platform: optional sign, at least one digit,
    digits only, value must fit `int64`; `none` stands for any error. -/
def atoi (s : Str) : Option Int :=
  let (neg, ds) : Bool × Str :=
    match s with
    | '+' :: r => (false, r)
    | '-' :: r => (true, r)
    | r => (false, r)
  if ds.isEmpty || !ds.all isDigit then none else
  let n : Int := (natOfDigits ds : Nat)
  let v : Int := if neg then -n else n
  if v < minInt64 || v > maxInt64 then none else some v

/-- Split at the first occurrence of `sep`: `none` if it does not occur. -/
def cut (sep : Char) : Str → Option (Str × Str)
  | [] => none
  | c :: cs =>
    if c = sep then some ([], cs) else
    match cut sep cs with
    | none => none
    | some (a, b) => some (c :: a, b)

/-- Split at the last occurrence of `sep`. -/
def cutLast (sep : Char) : Str → Option (Str × Str)
  | [] => none
  | c :: cs =>
    match cutLast sep cs with
    | some (a, b) => some (c :: a, b)
    | none => if c = sep then some ([], cs) else none

def trimLeft (p : Char → Bool) : Str → Str
  | [] => []
  | c :: cs => if p c then trimLeft p cs else c :: cs

def trimRight (p : Char → Bool) (s : Str) : Str := (trimLeft p s.reverse).reverse

end ClairModel.VerCommon
