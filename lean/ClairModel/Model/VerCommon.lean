/-
  Pieces of Go's standard library that the three third-party version
  libraries (go-rpm-version, go-deb-version, go-apk-version) call, modelled
  on ASCII strings given as `List Char`: strconv.Atoi, strings.SplitN(_, ":", 2),
  strings.Index / LastIndex of a byte, unicode.IsSpace / IsDigit / IsLetter
  restricted to ASCII.  Core Lean only.
-/
namespace ClairModel.VerCommon

abbrev Str := List Char

def isDigit (c : Char) : Bool := decide ('0'.toNat ≤ c.toNat) && decide (c.toNat ≤ '9'.toNat)
def isLower (c : Char) : Bool := decide ('a'.toNat ≤ c.toNat) && decide (c.toNat ≤ 'z'.toNat)
def isUpper (c : Char) : Bool := decide ('A'.toNat ≤ c.toNat) && decide (c.toNat ≤ 'Z'.toNat)
def isLetter (c : Char) : Bool := isLower c || isUpper c

/-- `unicode.IsSpace` on ASCII: `\t \n \v \f \r` and space. -/
def isSpace (c : Char) : Bool :=
  c.toNat == 32 || (decide (9 ≤ c.toNat) && decide (c.toNat ≤ 13))

def digitVal (c : Char) : Nat := c.toNat - '0'.toNat

/-- Value of a digit string (most significant first). -/
def natOfDigits (ds : Str) : Nat := ds.foldl (fun acc c => acc * 10 + digitVal c) 0

def maxInt64 : Int := 9223372036854775807
def minInt64 : Int := -9223372036854775808

/-- `strconv.Atoi` on a 64-bit platform: optional sign, at least one digit,
    digits only, value must fit `int64`; `none` stands for any error. -/
def atoi (s : Str) : Option Int :=
  let (neg, ds) : Bool × Str :=
    match s with
    | '+' :: r => (false, r)
    | '-' :: r => (true, r)
    | r => (false, r)
  if ds.isEmpty || !ds.all isDigit then none else
  let n : Int := (natOfDigits ds : Nat)
  let v : Int := if neg then -n else n
  if v < minInt64 || v > maxInt64 then none else some v

/-- Split at the first occurrence of `sep`: `none` if it does not occur. -/
def cut (sep : Char) : Str → Option (Str × Str)
  | [] => none
  | c :: cs =>
    if c = sep then some ([], cs) else
    match cut sep cs with
    | none => none
    | some (a, b) => some (c :: a, b)

/-- Split at the last occurrence of `sep`. -/
def cutLast (sep : Char) : Str → Option (Str × Str)
  | [] => none
  | c :: cs =>
    match cutLast sep cs with
    | some (a, b) => some (c :: a, b)
    | none => if c = sep then some ([], cs) else none

def trimLeft (p : Char → Bool) : Str → Str
  | [] => []
  | c :: cs => if p c then trimLeft p cs else c :: cs

def trimRight (p : Char → Bool) (s : Str) : Str := (trimLeft p s.reverse).reverse

/-! Strings are byte strings (`Char`s below 256).  What follows is the one
place where the version libraries decode UTF-8: go-rpm-version's
`strings.TrimLeftFunc(epoch, unicode.IsSpace)`. -/

/-- `strings.TrimLeftFunc(s, unicode.IsSpace)` on the UTF-8 bytes of `s`:
    the ASCII white space, U+0085, U+00A0, U+1680, U+2000–U+200A, U+2028,
    U+2029, U+202F, U+205F, U+3000 in their (shortest, hence valid) encodings.
    Any other byte sequence — including an invalid or overlong one, which
    decodes to U+FFFD — stops the trimming. -/
def trimLeftSpace : Str → Str
  | [] => []
  | c :: cs =>
    if isSpace c then trimLeftSpace cs
    else
      match c.toNat, cs with
      | 0xC2, d :: rest =>
        if d.toNat = 0x85 || d.toNat = 0xA0 then trimLeftSpace rest else c :: cs
      | 0xE1, d :: e :: rest =>
        if d.toNat = 0x9A && e.toNat = 0x80 then trimLeftSpace rest else c :: cs
      | 0xE2, d :: e :: rest =>
        if (d.toNat = 0x80 && ((decide (0x80 ≤ e.toNat) && decide (e.toNat ≤ 0x8A)) || e.toNat = 0xA8 || e.toNat = 0xA9 || e.toNat = 0xAF))
            || (d.toNat = 0x81 && e.toNat = 0x9F) then trimLeftSpace rest else c :: cs
      | 0xE3, d :: e :: rest =>
        if d.toNat = 0x80 && e.toNat = 0x80 then trimLeftSpace rest else c :: cs
      | _, _ => c :: cs

end ClairModel.VerCommon
