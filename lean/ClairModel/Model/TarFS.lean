/-
  Model of pkg/tarfs/tarfs.go (C11): the filesystem view over a tar archive.

  Input is the decoded member list (what archive/tar's Reader returns for each
  segment found by findSegments; header decoding is archive/tar's and the
  segmenter is property C06's). Function by function:

    Inode, FS            struct inode / struct FS (lookup map, inode slice).
                         A `*inode` is modelled by its index; `children`
                         (a Go map used as a set) by a duplicate-free list,
                         `none` = nil map; `data` = what a tar.Reader over the
                         inode's segment (off, sz) yields, `none` for the
                         synthetic directories made by newDir (off = sz = 0).
    again                the `Again:` loop at the top of FS.add
    addEnt               the `AddEnt:` loop of FS.add
    add                  FS.add  (fuel bounds the add → walkTo → add nesting)
    resolve / walkLoop / walkTo   FS.walkTo and its `Resolve:` loop
    getInode             FS.getInode
    prepMember / dirOverLink / newFS   the loop body of New, and New with the final cleanup
    openFS / statFS / readDirFS / globFS / subFS    Open / Stat / ReadDir / Glob / Sub
    matchPat             path.Match for patterns made of literals, `*` and `?`
    walkDir              io/fs.WalkDir over the view (bounded)

  Core Lean only.
-/
import ClairModel.Model.TarFSPath

namespace ClairModel.TarFS

/-- Class of a member by `Typeflag`: '0' (and '\0', '7') reg, '5' dir,
    '2' sym, '1' link, '3' '4' '6' special. -/
inductive Kind where
  | reg | dir | sym | link | special
deriving DecidableEq, Repr

/-- `h.FileInfo().Mode() & fs.ModeType` as far as the package looks at it. -/
inductive MType where
  | regular | dir | symlink | other
deriving DecidableEq, Repr

def Kind.mtype : Kind → MType
  | .reg => .regular
  | .link => .regular
  | .dir => .dir
  | .sym => .symlink
  | .special => .other

/-- The numeric header fields the view hands on, and the size of the archive
    segment: `h.Size`, `i.sz`, `h.Mode`, `h.ModTime` (seconds, nanoseconds). -/
structure Meta where
  hsize : Nat := 0
  seg : Nat := 0
  mode : Nat := 0
  mtimeS : Int := 0
  mtimeN : Nat := 0
deriving DecidableEq, Repr

structure Member where
  kind : Kind
  name : Bytes
  link : Bytes
  data : Bytes
  md : Meta := {}
deriving Repr

/-- `i.h.Mode &= 0o7777` in the loop of New (1a3c8472): the file-type bits of
    the mode field are dropped, the type of a member is its typeflag. -/
def Member.imd (m : Member) : Meta := { m.md with mode := m.md.mode % 4096 }

structure Inode where
  kind : Kind
  name : Bytes
  link : Bytes
  children : Option (List Nat)
  data : Option Bytes
  md : Meta := {}
deriving Repr

inductive Err where
  | exist | invalid | notexist | other | fuel
deriving DecidableEq, Repr

structure FS where
  lookup : List (Bytes × Nat) := []
  inodes : List Inode := []
deriving Repr

/-- Association lists stand for Go maps. -/
def alGet {β : Type} : List (Bytes × β) → Bytes → Option β
  | [], _ => none
  | (k', v) :: rest, k => if k' = k then some v else alGet rest k

def alDel {β : Type} : List (Bytes × β) → Bytes → List (Bytes × β)
  | [], _ => []
  | (k', v) :: rest, k => if k' = k then alDel rest k else (k', v) :: alDel rest k

/-- `m[k] = v`. -/
def alSet {β : Type} (l : List (Bytes × β)) (k : Bytes) (v : β) : List (Bytes × β) :=
  (k, v) :: alDel l k

def FS.get? (fs : FS) (k : Bytes) : Option Nat := alGet fs.lookup k

/-- `f.lookup[k]` without the `ok`: the zero value when absent. -/
def FS.getD (fs : FS) (k : Bytes) : Nat := (alGet fs.lookup k).getD 0

/-- `newDir`: mode `fs.ModeDir | 0o644` (the high bit is no permission bit),
    size 0, the zero `time.Time` (its Unix time), no segment. -/
def newDirMeta : Meta := { hsize := 0, seg := 0, mode := 420, mtimeS := -62135596800, mtimeN := 0 }

def newDir (n : Bytes) : Inode :=
  { kind := .dir, name := n, link := [], children := some [], data := none, md := newDirMeta }

def emptyInode : Inode := { kind := .reg, name := dotP, link := [], children := none, data := none }

def FS.ino (fs : FS) (i : Nat) : Inode := fs.inodes.getD i emptyInode

def addChild (cs : List Nat) (i : Nat) : List Nat := if i ∈ cs then cs else cs ++ [i]

/-- `parent.children[i] = struct{}{}`. -/
def FS.linkChild (fs : FS) (p i : Nat) : FS :=
  let ino := fs.ino p
  match ino.children with
  | some cs => { fs with inodes := fs.inodes.set p { ino with children := some (addChild cs i) } }
  | none => fs

/-- `delete(p.children, i)`. -/
def FS.unlinkChild (fs : FS) (p i : Nat) : FS :=
  let ino := fs.ino p
  match ino.children with
  | some cs => { fs with inodes := fs.inodes.set p { ino with children := some (cs.filter (· ≠ i)) } }
  | none => fs

/-- The scan `for ci := range cur.children` of walkTo: a child whose base name
    is `n`. (Go's map order is arbitrary; the list order stands for it. The
    harness does not compare archives in which two children of one directory
    carry the same name.) -/
def FS.findChild (fs : FS) (cur : Nat) (n : Bytes) : Option Nat :=
  match (fs.ino cur).children with
  | some cs => cs.find? fun ci => baseOf (fs.ino ci).name = n
  | none => none

/-- The `Resolve:` loop of walkTo, started on child `ci` of the current
    directory. `mk = some mkdir` in create mode (`mkdir fs p` stands for
    `f.add(p, newDir(p), nil)` with the error dropped). `last` says whether the
    element is the final one of the walked path. -/
def resolve (mk : Option (FS → Bytes → FS)) (last : Bool) :
    Nat → FS → List Nat → Nat → FS × Except Err Nat
  | 0, fs, _, _ => (fs, .error .fuel)
  | fuel + 1, fs, cyc, ci =>
    if ci ∈ cyc then (fs, .error .invalid)
    else
      let child := fs.ino ci
      match child.kind with
      | .dir => (fs, .ok ci)
      | .sym =>
        match fs.get? child.link with
        | some j => resolve mk last fuel fs (ci :: cyc) j
        | none =>
          match mk with
          | some mkdir =>
            let fs' := mkdir fs child.link
            resolve mk last fuel fs' (ci :: cyc) (fs'.getD child.link)
          | none => (fs, .error .other)
      | _ => if last then (fs, .ok ci) else (fs, .error .exist)

/-- The element loop of walkTo. `built` is the strings.Builder `b`. -/
def walkLoop (mk : Option (FS → Bytes → FS)) :
    FS → Nat → Bytes → Bool → List Bytes → FS × Except Err Nat
  | fs, cur, _, _, [] => (fs, .ok cur)
  | fs, cur, built, first, n :: rest =>
    let b := if first then n else built ++ SL :: n
    match fs.findChild cur n with
    | some ci =>
      match resolve mk rest.isEmpty (fs.inodes.length + 2) fs [] ci with
      | (fs', .ok c) => walkLoop mk fs' c b false rest
      | (fs', .error e) => (fs', .error e)
    | none =>
      match mk with
      | some mkdir =>
        let fs' := mkdir fs b
        walkLoop mk fs' (fs'.getD b) b false rest
      | none => (fs, .error .other)

/-- `f.walkTo(p, create)`. -/
def walkTo (mk : Option (FS → Bytes → FS)) (fs : FS) (p : Bytes) : FS × Except Err Nat :=
  walkLoop mk fs (fs.getD dotP) [] true (splitSlash p)

/-- `f.getInode(op, name)`. -/
def getInode (fs : FS) (name : Bytes) : Except Err Nat :=
  if !validPath name then .error .invalid
  else
    let name := clean name
    match fs.get? name with
    | some i => .ok i
    | none =>
      match (walkTo none fs name).2 with
      | .ok i => .ok i
      | .error _ => .error .notexist

inductive AgainResult where
  | fresh (name : Bytes)
  | replace (i : Nat) (name : Bytes)
  | fail (e : Err)
deriving Repr

/-- The `Again:` loop of add. `k` is the number of symbolic links that may
    still be followed (`len(f.inode) - hops`). -/
def again (fs : FS) (newKind : Kind) : Nat → Bytes → AgainResult
  | k, name =>
    match fs.get? name with
    | none => .fresh name
    | some i =>
      if newKind.mtype ≠ .regular then .fail .exist
      else
        match (fs.ino i).kind.mtype with
        | .dir => .fail .exist
        | .symlink =>
          match k with
          | 0 => .fail .invalid
          | k + 1 => again fs newKind k (fs.ino i).link
        | _ => .replace i name

/-- The `AddEnt:` loop of add: connect inode `i` (added under `name`) to the
    directory `dir` resolves to. -/
def addEnt (mkdir : FS → Bytes → FS) (i : Nat) (name : Bytes) :
    Nat → FS → List Nat → Bytes → FS × Option Err
  | 0, fs, _, _ => (fs, some .fuel)
  | fuel + 1, fs, cyc, dir =>
    if dir = name then (fs, none)
    else if dir = dotP then (fs.linkChild (fs.getD dotP) i, none)
    else
      let r : FS × Except Err Nat :=
        match getInode fs dir with
        | .ok p => (fs, .ok p)
        | .error _ => walkTo (some mkdir) fs dir
      match r with
      | (fs2, .error e) => (fs2, some e)
      | (fs2, .ok p) =>
        if p ∈ cyc then (fs2, some .invalid)
        else
          match (fs2.ino p).kind with
          | .dir => (fs2.linkChild p i, none)
          | .link => addEnt mkdir i name fuel fs2 (p :: cyc) (fs2.ino p).link
          | .sym => addEnt mkdir i name fuel fs2 (p :: cyc) (fs2.ino p).link
          | _ => (fs2, some .exist)

/-- The deferred hard links: target name ↦ names of the links waiting for it. -/
abbrev HL := List (Bytes × List Bytes)

/-- `f.add(name, ino, hardlink)`. `useHL = false` stands for the nil map the
    nested calls pass. `fuel` bounds the nesting add → walkTo → add. -/
def add : Nat → FS → HL → Bytes → Inode → Bool → FS × HL × Option Err
  | 0, fs, hl, _, _, _ => (fs, hl, some .fuel)
  | fuel + 1, fs, hl, name, ino, useHL =>
    match again fs ino.kind fs.inodes.length name with
    | .fail e => (fs, hl, some e)
    | .replace i nm => ({ fs with inodes := fs.inodes.set i { ino with name := nm } }, hl, none)
    | .fresh nm =>
      let hl1 : HL :=
        if useHL && ino.kind = .link && (fs.get? ino.link).isNone then
          alSet hl ino.link ((alGet hl ino.link).getD [] ++ [nm])
        else hl
      let hl2 : HL := if useHL then alDel hl1 nm else hl1
      let i := fs.inodes.length
      let fs1 : FS := { lookup := alSet fs.lookup nm i, inodes := fs.inodes ++ [{ ino with name := nm }] }
      let mkdir : FS → Bytes → FS := fun f p => (add fuel f [] p (newDir p) false).1
      let (fs2, e) := addEnt mkdir i nm (2 * fs1.inodes.length + 8) fs1 [] (dirOf nm)
      (fs2, hl2, e)

/-- Plenty for every archive the harness builds; running out would show as
    `err:fuel`, which the implementation never answers. -/
def addFuel : Nat := 4096

/-- The link name as the loop body of New rewrites it. -/
def normLink (kind : Kind) (n link : Bytes) : Bytes :=
  if isAbs link then normPath link
  else if kind = .sym then normPath (pathJoin2 (dirOf n) link)
  else normPath link

/-- Loop body of New up to the call of add: `none` = `continue`. -/
def prepMember (fs : FS) (m : Member) : Option Inode :=
  let n := normPath m.name
  match m.kind with
  | .dir =>
    if (fs.get? n).isSome then none
    else some { kind := .dir, name := n, link := m.link, children := some [], data := some [], md := m.imd }
  | .sym => some { kind := .sym, name := n, link := normLink .sym n m.link, children := none, data := some [], md := m.imd }
  | .link => some { kind := .link, name := n, link := normLink .link n m.link, children := none, data := some [], md := m.imd }
  | .reg => some { kind := .reg, name := n, link := m.link, children := none, data := some m.data, md := m.imd }
  | .special => some { kind := .special, name := n, link := m.link, children := none, data := some [], md := m.imd }

/-- The inode of a directory member. -/
def dirInode (n link : Bytes) (mt : Meta) : Inode :=
  { kind := .dir, name := n, link := link, children := some [], data := some [], md := mt }

/-- The directory case of the loop of New when the name is taken: a hard link
    whose target has not been seen gives way to the directory (the inode is
    overwritten in place, cd416dbb); anything else stays. -/
def dirOverLink (fs : FS) (m : Member) : FS :=
  match m.kind, fs.get? (normPath m.name) with
  | .dir, some idx =>
    if (fs.ino idx).kind = .link ∧ (fs.get? (fs.ino idx).link).isNone then
      { fs with inodes := fs.inodes.set idx (dirInode (normPath m.name) m.link m.imd) }
    else fs
  | _, _ => fs

def addMembers : FS → HL → List Member → Except Err (FS × HL)
  | fs, hl, [] => .ok (fs, hl)
  | fs, hl, m :: ms =>
    match prepMember fs m with
    | none => addMembers (dirOverLink fs m) hl ms
    | some ino =>
      match add addFuel fs hl ino.name ino true with
      | (fs', hl', none) => addMembers fs' hl' ms
      | (_, _, some e) => .error e

/-- One entry of the dangling-hard-link cleanup at the end of New. -/
def cleanupOne (tgt : Bytes) (fs : FS) (rm : Bytes) : FS :=
  let idx := fs.getD rm
  let h := fs.ino idx
  if h.kind ≠ .link ∨ h.link ≠ tgt then fs
  else
    let fs1 : FS := { fs with lookup := alDel fs.lookup rm }
    fs1.unlinkChild (fs1.getD (dirOf rm)) idx

def cleanup (fs : FS) (hl : HL) : FS :=
  hl.foldl (fun fs e => e.2.foldl (cleanupOne e.1) fs) fs

def rootFS : FS := { lookup := [(dotP, 0)], inodes := [newDir dotP] }

/-- `tarfs.New` on the decoded member list. -/
def newFS (ms : List Member) : Except Err FS :=
  match addMembers rootFS [] ms with
  | .ok (fs, hl) => .ok (cleanup fs hl)
  | .error e => .error e

/-! ### Queries -/

structure Entry where
  name : Bytes
  mtype : MType
deriving DecidableEq, Repr

def entryLe (a b : Entry) : Bool := bytesLe a.name b.name

/-- The sorted `[]fs.DirEntry` made from a children table. -/
def FS.entries (fs : FS) (i : Nat) : List Entry :=
  (((fs.ino i).children.getD []).map fun c => ({ name := baseOf (fs.ino c).name, mtype := (fs.ino c).kind.mtype } : Entry)).mergeSort entryLe

structure Info where
  name : Bytes
  mtype : MType
  size : Nat
  mode : Nat
  mtimeS : Int
  mtimeN : Nat
deriving DecidableEq, Repr

/-- `h.FileInfo()`: name, type bits, `Size()` = `h.Size`, the permission,
    setuid, setgid and sticky bits of `Mode()` (as the tar bits 0o7777),
    `ModTime()`. -/
def FS.info (fs : FS) (i : Nat) : Info :=
  let n := fs.ino i
  { name := baseOf n.name, mtype := n.kind.mtype, size := n.md.hsize, mode := n.md.mode % 4096,
    mtimeS := n.md.mtimeS, mtimeN := n.md.mtimeN }

/-- `checkSize` (ce813f23) and then what a tar.Reader over the inode's segment
    yields: a member whose header size exceeds its segment is refused. -/
def readSeg (n : Inode) : Except Err Bytes :=
  if n.md.hsize > n.md.seg then .error .invalid
  else
    match n.data with
    | some d => .ok d
    | none => .error .other

inductive OpenRes where
  | file (info : Info) (content : Bytes)
  | dir (info : Info) (es : List Entry)
  | err (e : Err)
deriving Repr

/-- The loop over a chain of hard links in Open. `k` = hops still allowed. -/
def linkChain (fs : FS) : Nat → Except Err Nat → Except Err Nat
  | _, .error e => .error e
  | k, .ok t =>
    if (fs.ino t).kind = .link then
      match k with
      | 0 => .error .invalid
      | k + 1 => linkChain fs k (getInode fs (fs.ino t).link)
    else .ok t

/-- `f.open(name, hops)`; `k = len(f.inode) + 1 - hops`. -/
def openAux (fs : FS) : Nat → Bytes → OpenRes
  | 0, _ => .err .invalid
  | k + 1, name =>
    match getInode fs name with
    | .error e => .err e
    | .ok i =>
      let n := fs.ino i
      match n.kind with
      | .reg =>
        match readSeg n with
        | .ok d => .file (fs.info i) d
        | .error e => .err e
      | .link =>
        match linkChain fs fs.inodes.length (getInode fs n.link) with
        | .error e => .err e
        | .ok t =>
          match readSeg (fs.ino t) with
          | .ok d => .file (fs.info i) d
          | .error e => .err e
      | .dir => .dir (fs.info i) (fs.entries i)
      | .sym => openAux fs k n.link
      | .special => .err .exist

/-- `FS.Open`. -/
def openFS (fs : FS) (name : Bytes) : OpenRes := openAux fs (fs.inodes.length + 1) name

/-- `FS.Stat`. -/
def statFS (fs : FS) (name : Bytes) : Except Err Info :=
  match getInode fs name with
  | .ok i => .ok (fs.info i)
  | .error e => .error e

/-- `FS.ReadDir`. -/
def readDirFS (fs : FS) (name : Bytes) : Except Err (List Entry) :=
  match getInode fs name with
  | .ok i => .ok (fs.entries i)
  | .error e => .error e

/-- `FS.Sub`. -/
def subFS (fs : FS) (dir : Bytes) : Except Err FS :=
  match getInode fs dir with
  | .error e => .error e
  | .ok n =>
    let bp := (fs.ino n).name
    let lk := fs.lookup.filterMap fun (k, i) =>
      if bp = dotP then some (k, i)
      else if k = bp ∨ hasPrefix k (bp ++ [SL]) then some (normPath (trimPrefix k bp), i)
      else none
    .ok { lookup := lk, inodes := fs.inodes }

/-! ### path.Match for patterns of literals, `*` and `?` -/

def STAR : UInt8 := 42
def QM : UInt8 := 63

/-- `matchChunk(chunk, s)` for a chunk without `[` and `\\`: the rest of `s`
    after the chunk, if it matches at the start. -/
def matchChunk : Bytes → Bytes → Option Bytes
  | [], s => some s
  | _ :: _, [] => none
  | c :: cs, x :: xs =>
    if c = QM then
      if x = SL then none
      else
        let w := (utf8Width (x :: xs)).getD 1
        matchChunk cs ((x :: xs).drop w)
    else if c = x then matchChunk cs xs
    else none


/-- `scanChunk`: leading stars, the chunk up to the next star, the rest. -/
def scanChunk (pat : Bytes) : Bool × Bytes × Bytes :=
  let p1 := pat.dropWhile (· = STAR)
  (p1.length < pat.length, p1.takeWhile (· ≠ STAR), p1.dropWhile (· ≠ STAR))

/-- The search `for i := 0; i < len(name) && name[i] != '/'; i++` after a star. -/
def starSearch (chunk : Bytes) (lastChunk : Bool) : Bytes → Option Bytes
  | [] => none
  | x :: xs =>
    if x = SL then none
    else
      match matchChunk chunk xs with
      | some t => if lastChunk && !t.isEmpty then starSearch chunk lastChunk xs else some t
      | none => starSearch chunk lastChunk xs

/-- `path.Match(pat, name)` (no error: these patterns are always well formed). -/
def matchPat : Nat → Bytes → Bytes → Bool
  | 0, _, _ => false
  | fuel + 1, pat, name =>
    if pat = [] then name = []
    else
      let (star, chunk, rest) := scanChunk pat
      if star && chunk = [] then !name.contains SL
      else
        match matchChunk chunk name with
        | some t =>
          if t = [] ∨ rest ≠ [] then matchPat fuel rest t
          else if star then
            match starSearch chunk (rest = []) name with
            | some t' => matchPat fuel rest t'
            | none => false
          else false
        | none =>
          if star then
            match starSearch chunk (rest = []) name with
            | some t' => matchPat fuel rest t'
            | none => false
          else false

/-- `FS.Glob` for such a pattern: the matching keys of the lookup table, sorted. -/
def globFS (fs : FS) (pat : Bytes) : List Bytes :=
  ((fs.lookup.map (·.1)).filter fun n => matchPat (pat.length + 2) pat n).mergeSort bytesLe

/-! ### io/fs.WalkDir over the view -/

inductive WalkItem where
  | ent (path : Bytes) (t : MType)
  | readErr (path : Bytes)
deriving DecidableEq, Repr

/-- Depth-first walk as `fs.WalkDir(fsys, ".", fn)` with an `fn` that always
    returns nil performs it; `fuel` bounds the number of visits (a directory
    that contains itself would otherwise never end). The stack holds the
    entries still to visit. -/
def walkDirAux (fs : FS) : Nat → List (Bytes × MType) → List WalkItem
  | 0, _ => []
  | _, [] => []
  | fuel + 1, (p, t) :: stack =>
    if t = .dir then
      match readDirFS fs p with
      | .ok es =>
        .ent p t :: walkDirAux fs fuel ((es.map fun e => (pathJoin2 p e.name, e.mtype)) ++ stack)
      | .error _ => .ent p t :: .readErr p :: walkDirAux fs fuel stack
    else .ent p t :: walkDirAux fs fuel stack

def walkDir (fs : FS) (cap : Nat) : List WalkItem :=
  match statFS fs dotP with
  | .ok i => walkDirAux fs cap [(dotP, i.mtype)]
  | .error _ => [.readErr dotP]

end ClairModel.TarFS
