/-
  C04 — shared types of the join model and of the tables regenerated from the
  sources (Gen/Join*.lean import this file).  Core Lean only.

  Strings are byte lists (`List Nat`): the kernel evaluates list functions over
  numerals quickly, while `String` operations on long literals do not reduce
  in reasonable time.
-/
namespace ClairModel.Join

abbrev Bytes := List Nat

/-- A string-valued Go expression over the parameters of a constructor
    (`fmt.Sprintf`, `+`, `strconv.Itoa`, `strings.Title`, literals). -/
inductive SExpr where
  | lit (b : Bytes)
  | param (i : Nat)
  | itoa (i : Nat)
  | title (e : SExpr)
  | cat (a b : SExpr)
  deriving Repr, BEq, DecidableEq

/-- A parameter value. -/
inductive PVal where
  | str (b : Bytes)
  | int (n : Int)
  deriving Repr, BEq, DecidableEq

/-- The eight string-like fields of `claircore.Distribution` the vulnerability
    table stores (`CPE` as the text it was unbound from; `""` when unset). -/
structure Dist where
  did : Bytes := []
  name : Bytes := []
  version : Bytes := []
  versionCodeName : Bytes := []
  versionID : Bytes := []
  arch : Bytes := []
  cpe : Bytes := []
  prettyName : Bytes := []
  deriving Repr, BEq, DecidableEq

/-- A `&claircore.Distribution{…}` literal whose fields are expressions. -/
structure DistT where
  did : SExpr := .lit []
  name : SExpr := .lit []
  version : SExpr := .lit []
  versionCodeName : SExpr := .lit []
  versionID : SExpr := .lit []
  arch : SExpr := .lit []
  cpe : SExpr := .lit []
  prettyName : SExpr := .lit []
  deriving Repr, BEq, DecidableEq

structure Repo where
  name : Bytes := []
  key : Bytes := []
  uri : Bytes := []
  deriving Repr, BEq, DecidableEq

/-- The condition of a matcher's `Filter`, as translated from its body.
    Field references are Go selector paths below the record
    (`Distribution.DID`, `Repository.Key`, `Package.NormalizedVersion.Kind`). -/
inductive FExpr where
  | tt
  | ff
  | nonNil (path : Bytes)                 -- record.<path> != nil
  | eq (path : Bytes) (v : Bytes)          -- record.<path> == "v"
  | mem (path : Bytes) (vs : List Bytes)   -- contains(vs, record.<path>)
  | and (a b : FExpr)
  | or (a b : FExpr)
  | not (a : FExpr)
  deriving Repr, BEq, DecidableEq

/-- Regular expressions as `regexp/syntax` parses them (byte-level; inputs are
    ASCII).  `lit c fold`: one byte, case-folded when `fold`. -/
inductive Re where
  | fail
  | eps
  | lit (c : Nat) (fold : Bool)
  | cls (ranges : List (Nat × Nat))
  | anyNotNL
  | any
  | beginText
  | endText
  | cat (a b : Re)
  | alt (a b : Re)
  | star (a : Re)
  deriving Repr, BEq, DecidableEq

/-- One `case` of the constraint switch in `buildGetQuery`:
    constraint name, column, and the record field compared with it
    (`none` for `HasFixedInVersion`, which compares the column with `''`). -/
structure QCase where
  constraint : Bytes
  column : Bytes
  field : Option Bytes
  deriving Repr, BEq, DecidableEq

/-- What the extractor records of one matcher. -/
structure MatcherT where
  pkg : Bytes                 -- Go package directory
  name : Bytes                -- Name()
  query : List Bytes          -- Query(): constraint names in order
  queryOpt : List Bytes       -- appended under a configuration flag (rhel: ignoreUnpatched)
  filter : FExpr
  versionFilter : Bool        -- implements driver.VersionFilter
  authoritative : Bool
  deriving Repr, BEq, DecidableEq

end ClairModel.Join
