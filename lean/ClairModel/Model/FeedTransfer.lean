/-
  C15 (second part) — the way from the wire to the parser.

  What is modelled (file: function in /repo, or the library the code relies on):

  * `delivered`     net/http's HTTP/1.1 client: what the reader of a response
                    body sees for a response that declares its length
                    (Content-Length), is chunked, or is delimited by the close
                    of the connection, and that ends cleanly, by an early close
                    or by a reset.  (Contract of net/http; tied to the real
                    client over a loopback connection on every run.)
  * `spool`         `io.Copy(tmpfile, res.Body)` of alpine/fetcher.go Fetch,
                    debian/updater.go Fetch, ubuntu/updater.go Fetch,
                    pkg/ovalutil/fetcher.go Fetch (oracle, suse, photon),
                    aws/client.go Updates: any read error fails the fetch,
                    otherwise the spool holds exactly what was delivered.
  * `fetchParse`    Fetch, then Parse on the spool, as driveUpdater chains them.
  * `fetchAws`      aws/client.go Updates + aws/updater.go Parse: the
                    compressed bytes are spooled, the gzip header is read by
                    Fetch, the stream is decompressed and drained by Parse.
  * `csvLoop`       the `csv.Reader.Read` loops over a quote-free CSV text:
      - `epssHandler`   enricher/epss/epss.go FetchEnrichment: metadata line
                        (2 fields, `key:value`, both keys present), header
                        line, then 3-field records; records whose scores do not
                        parse are skipped; '#' lines are comments after the
                        metadata line.
      - `vexCsvHandler` rhel/vex/fetcher.go processDeletions / processChanges:
                        2-field records, a record that does not parse is an
                        error.
  * `histStep`      libvuln/updates/manager.go driveUpdater over successive
                    runs with the fingerprint of the last stored update handed
                    back to Fetch.

  Core Lean only.
-/
import ClairModel.Model.Framing

namespace ClairModel.FeedTransfer
open ClairModel.Framing

/-! ### HTTP/1.1 body framing -/

/-- How the length of the body is communicated. -/
inductive Frame where
  | length (declared : Nat)   -- Content-Length: declared
  | chunked                   -- Transfer-Encoding: chunked
  | close                     -- neither: the body ends when the connection closes
deriving DecidableEq, Repr

/-- How the server ends the response after writing `body`. -/
inductive Fin where
  | clean   -- completes the framing (terminal chunk)
  | close   -- closes the connection without completing it
  | reset   -- resets the connection
deriving DecidableEq, Repr

/-- One response as it goes on the wire. -/
structure Script where
  body : Bytes
  frame : Frame
  fin : Fin

/-- What the client hands to the reader of the body.
    * Content-Length: the client stops at the declared length whatever
      follows; fewer bytes than declared are io.ErrUnexpectedEOF (or the reset).
    * chunked: only the terminal chunk gives a clean EOF.
    * close-delimited: an orderly close is a clean EOF — a truncation is
      invisible to the transport; only a reset is an error. -/
def delivered (s : Script) : Stream :=
  match s.frame with
  | .length d =>
    if d ≤ s.body.length then ⟨[s.body.take d], .eof⟩ else ⟨[s.body], .err⟩
  | .chunked => ⟨[s.body], if s.fin = .clean then .eof else .err⟩
  | .close => ⟨[s.body], if s.fin = .reset then .err else .eof⟩

/-! ### Fetch stages -/

/-- `io.Copy(spool, body)`: any read error fails the fetch. -/
def spool (st : Stream) : Option Bytes :=
  if st.term = .eof then some st.bytes else none

/-- Fetch (spooling what `src` delivers), then Parse on the spool. -/
def fetchParse {α : Type} (parse : Stream → Res α) (src : Stream) : FetchOut × Res α :=
  match spool src with
  | none => (.failed, .err)
  | some b => (.fetched, parse ⟨[b], .eof⟩)

/-- aws: Fetch spools the compressed download and reads the gzip header
    (`hdrOk`); Parse reads through the decompressor `dec`. -/
def fetchAws {α : Type} (hdrOk : Bytes → Bool) (dec : Bytes → Stream) (parse : Stream → Res α)
    (src : Stream) : FetchOut × Res α :=
  match spool src with
  | none => (.failed, .err)
  | some z => if hdrOk z then (.fetched, parse (dec z)) else (.failed, .err)

/-- One run of driveUpdater over a transfer. -/
def runTransfer {α : Type} (parse : Stream → Res α) (src : Stream) : StoreCall α × Bool :=
  drive (fetchParse parse src).1 (fetchParse parse src).2

/-! ### CSV read loops (quote-free text) -/

def comma : Byte := 0x2c
def cr : Byte := 0x0d
def hash : Byte := 0x23
def dquote : Byte := 0x22
def colon : Byte := 0x3a

/-- Fields of a line body: split at every comma. -/
def splitFields : Bytes → List Bytes
  | [] => [[]]
  | b :: bs =>
    if b = comma then [] :: splitFields bs
    else
      match splitFields bs with
      | [] => [[b]]
      | f :: fs => (b :: f) :: fs

/-- Remove one trailing byte `c` if it is there. -/
def dropLast (c : Byte) (l : Bytes) : Bytes :=
  match l.reverse with
  | b :: rest => if b = c then rest.reverse else l
  | [] => l

/-- csv.Reader.readLine: the newline, and a carriage return before it (or before
    the end of the input), do not belong to the line. -/
def lineBody (l : Bytes) : Bytes := dropLast cr (dropLast nl l)

/-- How a `Read` loop treats the records of one file. -/
structure Handler (σ ρ : Type) where
  /-- csv.Reader.Comment is '#' in this state -/
  isComment : σ → Bool
  /-- one record: `none` = the loop returns an error; otherwise the next state
      and what is emitted -/
  onRecord : σ → List Bytes → Option (σ × List ρ)
  /-- may the input end in this state -/
  mayEnd : σ → Bool

/-- One line of the file. -/
def csvLine {σ ρ : Type} (h : Handler σ ρ) (s : σ) (l : Bytes) : Option (σ × List ρ) :=
  let body := lineBody l
  match body with
  | [] => some (s, [])                              -- empty lines are skipped
  | b :: _ =>
    if h.isComment s ∧ b = hash then some (s, [])     -- comment lines are skipped
    else if dquote ∈ body then none                 -- ErrBareQuote (quoted fields: outside the model)
    else h.onRecord s (splitFields body)

def csvFold {σ ρ : Type} (h : Handler σ ρ) (s : σ) : List Bytes → Option (σ × List ρ)
  | [] => some (s, [])
  | l :: ls =>
    match csvLine h s l with
    | none => none
    | some (s', out) =>
      match csvFold h s' ls with
      | none => none
      | some (s'', out') => some (s'', out ++ out')

/-- The lines `readLine` returns: the complete ones, then a non-empty
    unterminated rest. -/
def csvLines (bs : Bytes) : List Bytes :=
  (splitLines bs).1 ++ (if (splitLines bs).2 = [] then [] else [(splitLines bs).2])

/-- `for { rec, err := rd.Read(); if err == io.EOF { break }; if err != nil { return err } … }`:
    a read error other than EOF is returned whatever was read before it. -/
def csvLoop {σ ρ : Type} (h : Handler σ ρ) (init : σ) (st : Stream) : Res (List ρ) :=
  match csvFold h init (csvLines st.bytes) with
  | none => .err
  | some (s, out) => if st.term = .eof ∧ h.mayEnd s = true then .ok out else .err

/-! #### epss -/

inductive EpssPhase where
  | metaLine
  | headerLine
  | recordLines
deriving DecidableEq, Repr

def isSpace (b : Byte) : Bool := b == 0x20 || (0x09 ≤ b && b ≤ 0x0d)

def trimLeft : Bytes → Bytes
  | [] => []
  | b :: bs => if isSpace b then trimLeft bs else b :: bs

def trimSpace (l : Bytes) : Bytes := (trimLeft (trimLeft l).reverse).reverse

def trimHash : Bytes → Bytes
  | [] => []
  | b :: bs => if b = hash then bs else b :: bs

/-- strings.Cut(s, ":") -/
def cutColon : Bytes → Option (Bytes × Bytes)
  | [] => none
  | b :: bs =>
    if b = colon then some ([], bs)
    else
      match cutColon bs with
      | none => none
      | some (k, v) => some (b :: k, v)

def keyModel : Bytes := [0x6d, 0x6f, 0x64, 0x65, 0x6c, 0x5f, 0x76, 0x65, 0x72, 0x73, 0x69, 0x6f, 0x6e]  -- "model_version"
def keyDate : Bytes := [0x73, 0x63, 0x6f, 0x72, 0x65, 0x5f, 0x64, 0x61, 0x74, 0x65]  -- "score_date"
def hdrCve : Bytes := [0x63, 0x76, 0x65]  -- "cve"
def hdrEpss : Bytes := [0x65, 0x70, 0x73, 0x73]  -- "epss"
def hdrPct : Bytes := [0x70, 0x65, 0x72, 0x63, 0x65, 0x6e, 0x74, 0x69, 0x6c, 0x65]  -- "percentile"

/-- The metadata loop: every field must be `key:value`; returns
    (model_version, score_date) as last assigned. -/
def metaFields : List Bytes → Bytes × Bytes → Option (Bytes × Bytes)
  | [], acc => some acc
  | f :: fs, (m, d) =>
    match cutColon (trimHash (trimSpace f)) with
    | none => none
    | some (k, v) =>
      if k = keyModel then metaFields fs (v, d)
      else if k = keyDate then metaFields fs (m, v)
      else metaFields fs (m, d)

/-- enricher/epss/epss.go FetchEnrichment; `floatOk` is "strconv.ParseFloat
    succeeds".  A record is emitted as its three fields. -/
def epssHandler (floatOk : Bytes → Bool) : Handler EpssPhase (List Bytes) where
  isComment := fun p => p != .metaLine
  mayEnd := fun p => p == .recordLines
  onRecord := fun p fs =>
    match p with
    | .metaLine =>
      if fs.length ≠ 2 then none
      else
        match metaFields fs ([], []) with
        | none => none
        | some (m, d) => if m = [] ∨ d = [] then none else some (.headerLine, [])
    | .headerLine => if fs = [hdrCve, hdrEpss, hdrPct] then some (.recordLines, []) else none
    | .recordLines =>
      match fs with
      | [c, e, p] => if floatOk e && floatOk p then some (.recordLines, [[c, e, p]]) else some (.recordLines, [])
      | _ => none

/-- strconv.ParseFloat(s, 64) succeeds, for decimal text without range
    overflow: [+-] digits [. digits] [(e|E) [+-] digits], at least one mantissa
    digit.  (inf/nan, hexadecimal floats and digit separators are outside the
    model.) -/
def spanDigits : Bytes → Nat × Bytes
  | [] => (0, [])
  | b :: bs => if isDigit b then ((spanDigits bs).1 + 1, (spanDigits bs).2) else (0, b :: bs)

def dropSign : Bytes → Bytes
  | [] => []
  | b :: bs => if b == 0x2b || b == 0x2d then bs else b :: bs

def floatOk (bs : Bytes) : Bool :=
  let m := dropSign bs
  let a := spanDigits m
  let fr : Nat × Bytes :=
    match a.2 with
    | b :: t => if b == 0x2e then spanDigits t else (0, b :: t)
    | [] => (0, [])
  if a.1 + fr.1 = 0 then false
  else
    match fr.2 with
    | [] => true
    | e :: t =>
      if e == 0x65 || e == 0x45 then
        let x := spanDigits (dropSign t)
        decide (0 < x.1) && x.2.isEmpty
      else false

def epssCsv (fok : Bytes → Bool) (st : Stream) : Res (List (List Bytes)) :=
  csvLoop (epssHandler fok) .metaLine st

/-! #### vex changes.csv / deletions.csv -/

/-- rhel/vex/fetcher.go processDeletions (and the CSV part of processChanges):
    two fields per record; `keep` is the record's fate: `none` = it does not
    parse (path year, RFC 3339 time) and the fetch fails, `some false` = older
    than the fingerprint and skipped, `some true` = emitted. -/
def vexCsvHandler (keep : List Bytes → Option Bool) : Handler Unit (List Bytes) where
  isComment := fun _ => false
  mayEnd := fun _ => true
  onRecord := fun _ fs =>
    if fs.length ≠ 2 then none
    else
      match keep fs with
      | none => none
      | some true => some ((), [fs])
      | some false => some ((), [])

def vexCsv (keep : List Bytes → Option Bool) (st : Stream) : Res (List (List Bytes)) :=
  csvLoop (vexCsvHandler keep) () st

/-! ### successive runs of the update manager -/

/-- What a fresh Fetch + Parse of the served download would give. -/
inductive Outcome (α : Type) where
  | fetchFailed
  | parseFailed
  | parsed (v : α)
deriving DecidableEq, Repr

/-- One run: the server serves version `version` (its etag / checksum names the
    version); `outcome` is what the download in transit does to a fetch that
    actually reads the body. -/
structure RunIn (α : Type) where
  version : Nat
  outcome : Outcome α

/-- The store's latest update operation of the updater: fingerprint and snapshot. -/
abbrev HistState (α : Type) := Option (Nat × α)

/-- Does Fetch see the fingerprint it was handed on the served version? -/
def isUnchanged {α : Type} (s : HistState α) (ver : Nat) : Bool :=
  match s with
  | some (v, _) => v == ver
  | none => false

/-- driveUpdater with the previous fingerprint: an unchanged version is not
    read at all; otherwise the store is written only by a successful parse, and
    only then the fingerprint moves. -/
def histStep {α : Type} (s : HistState α) (r : RunIn α) : HistState α × (StoreCall α × Bool) :=
  if isUnchanged s r.version then (s, drive .unchanged (Res.err : Res α))
  else
    match r.outcome with
    | .fetchFailed => (s, drive .failed (Res.err : Res α))
    | .parseFailed => (s, drive .fetched (Res.err : Res α))
    | .parsed v => (some (r.version, v), drive .fetched (.ok v))

end ClairModel.FeedTransfer
