/-
  Model of the semantic-version front ends that feed `claircore.Version`:

  * Masterminds/semver v1.5.0 (module cache, pinned in go.mod): `NewVersion`
    (the anchored expression `^v?([0-9]+)(\.[0-9]+)?(\.[0-9]+)?(-(ID(\.ID)*))?(\+(ID(\.ID)*))?$`
    with `ID = [0-9A-Za-z-]+`, then `strconv.ParseInt(·, 10, 64)` of the three
    numbers), `Compare` with `comparePrerelease` / `comparePrePart` exactly as
    written (including its verdict -1 in both directions for two numeric parts
    of equal value and different spelling), `IncPatch`;
  * `claircore.FromSemver` applied to a parsed version (`project`);
  * `gobin.ParseVersion` (gobin/exe.go): the same expression, the three
    numbers through `fitInt32`, which keeps the first nine digits.

  The expression is anchored and after the numbers only `-`, `+` or the end
  can follow, so the leftmost-first match is a deterministic scan (`groups`).
  Bytes above 127 match no class of the expression.  Core Lean only.
-/
import ClairModel.Model.Version

namespace ClairModel.Semver
open ClairModel.Order ClairModel.Version

/-- Longest prefix of digits and the rest. -/
def spanD : List Char → List Char × List Char
  | [] => ([], [])
  | c :: cs => if isDigit c then (c :: (spanD cs).1, (spanD cs).2) else ([], c :: cs)

/-- `(\.[0-9]+)?`: the digits (without the dot) and the rest; nothing is
    consumed when no digit follows the dot. -/
def dotNum : List Char → List Char × List Char
  | '.' :: r => if (spanD r).1.isEmpty then ([], '.' :: r) else ((spanD r).1, (spanD r).2)
  | s => ([], s)

/-- `[0-9A-Za-z\-]`. -/
def isIdChar (c : Char) : Bool := isDigit c || isAlpha c || c = '-'

/-- `ID(\.ID)*` matches the whole text. -/
def validIds (s : List Char) : Bool := (splitOn '.' s).all fun p => !p.isEmpty && p.all isIdChar

/-- Text up to the first `+` and what follows it. -/
def cutPlus : List Char → List Char × Option (List Char)
  | [] => ([], none)
  | c :: cs => if c = '+' then ([], some cs) else (c :: (cutPlus cs).1, (cutPlus cs).2)

/-- The capture groups 1, 2, 3 (without their dots), 5 and 8. -/
structure Groups where
  m1 : List Char
  m2 : List Char
  m3 : List Char
  pre : List Char
  build : List Char
  deriving Repr, DecidableEq

def stripV : List Char → List Char
  | 'v' :: r => r
  | s => s

/-- The tail after the numbers: `(-pre)?(+meta)?$`. -/
def tailGroups : List Char → Option (List Char × List Char)
  | [] => some ([], [])
  | '-' :: r =>
    if !validIds (cutPlus r).1 then none else
    match (cutPlus r).2 with
    | none => some ((cutPlus r).1, [])
    | some m => if validIds m then some ((cutPlus r).1, m) else none
  | '+' :: m => if validIds m then some ([], m) else none
  | _ => none

/-- `versionRegex.FindStringSubmatch`; `none` = no match. -/
def groups (s : List Char) : Option Groups :=
  let d1 := spanD (stripV s)
  if d1.1.isEmpty then none else
  let d2 := dotNum d1.2
  let d3 := dotNum d2.2
  match tailGroups d3.2 with
  | none => none
  | some pm => some { m1 := d1.1, m2 := d2.1, m3 := d3.1, pre := pm.1, build := pm.2 }

/-- A parsed `semver.Version` (without `original`). -/
structure SV where
  major : Int
  minor : Int
  patch : Int
  pre : List Char
  build : List Char
  deriving Repr, DecidableEq

/-- `strconv.ParseInt(d, 10, 64)` on a text of digits; the empty group gives 0. -/
def segInt (d : List Char) : Option Int := if d.isEmpty then some 0 else atoi d

/-- `semver.NewVersion`; `none` = error. -/
def parse (s : List Char) : Option SV :=
  match groups s with
  | none => none
  | some g =>
    match atoi g.m1, segInt g.m2, segInt g.m3 with
    | some a, some b, some c => some { major := a, minor := b, patch := c, pre := g.pre, build := g.build }
    | _, _, _ => none

/-- `strconv.ParseUint(s, 10, 64)`: digits only, value below 2^64. -/
def parseUint (s : List Char) : Option Nat :=
  if s.isEmpty || !s.all isDigit then none
  else if natOfDigits s < 18446744073709551616 then some (natOfDigits s) else none

/-- `comparePrePart`, branch by branch. -/
def prePartCmp (s o : List Char) : Ordering :=
  if s = o then .eq
  else if s.isEmpty then .lt            -- o is not empty here
  else if o.isEmpty then .gt
  else
    match parseUint o, parseUint s with
    | none, none => if strCmp s o = .gt then .gt else .lt
    | none, some _ => .lt               -- o is a string and s is a number
    | some _, none => .gt
    | some oi, some si => if si > oi then .gt else .lt

/-- The rest of the loop of `comparePrerelease` when the receiver has no parts left. -/
def prePartsRest : List (List Char) → Ordering
  | [] => .eq
  | b :: bs => (prePartCmp [] b).then (prePartsRest bs)

/-- The loop of `comparePrerelease` over the longer of the two part lists
    (a missing part is the empty string). -/
def prePartsCmp : List (List Char) → List (List Char) → Ordering
  | [], bs => prePartsRest bs
  | a :: as, [] => (prePartCmp a []).then (prePartsCmp as [])
  | a :: as, b :: bs => (prePartCmp a b).then (prePartsCmp as bs)

def core (v : SV) : Int × Int × Int := (v.major, v.minor, v.patch)

/-- `(*Version).Compare`. -/
def cmp (a b : SV) : Ordering :=
  (semverCoreCmp (core a) (core b)).then
    (if a.pre.isEmpty && b.pre.isEmpty then .eq
     else if a.pre.isEmpty then .gt
     else if b.pre.isEmpty then .lt
     else prePartsCmp (splitOn '.' a.pre) (splitOn '.' b.pre))

/-- `int64 + 1`. -/
def inc64 (x : Int) : Int := (x + 1 + 9223372036854775808) % 18446744073709551616 - 9223372036854775808

/-- `Version.IncPatch`: a pre-release is only stripped. -/
def incPatch (v : SV) : SV :=
  if v.pre.isEmpty then { v with patch := inc64 v.patch, pre := [], build := [] }
  else { v with pre := [], build := [] }

/-- `claircore.FromSemver` of a parsed version. -/
def project (v : SV) : Version := fromSemver v.major v.minor v.patch

/-! ### gobin.ParseVersion -/

/-- `fitInt32`: the first nine bytes of the group (the empty group is 0);
    nine digits always fit. -/
def fitInt32 (d : List Char) : Int := (natOfDigits (d.take 9) : Int)

/-- `gobin.ParseVersion`; `none` = `ErrInvalidSemVer`. -/
def gobinParse (s : List Char) : Option Version :=
  match groups s with
  | none => none
  | some g => some { kind := ['s', 'e', 'm', 'v', 'e', 'r'],
                     v := [0, fitInt32 g.m1, fitInt32 g.m2, fitInt32 g.m3, 0, 0, 0, 0, 0, 0] }

end ClairModel.Semver
