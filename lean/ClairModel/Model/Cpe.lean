/-
  C19 — executable model of toolkit/types/cpe (wfn.go, bind.go, unbind.go,
  match.go, marshaling.go) and of the CPE gate of rhel/matcher.go.

  Strings are lists of byte values (`Nat`); the Go code iterates runes, but
  every byte ≥ 0x7F makes `validate` fail, the scanners only react to ASCII
  bytes (which are never part of a multi-byte sequence), and the outputs of a
  failing unbind are not compared, so the byte-level model has the same
  observable behaviour (the one exception, `strings.ToLower` mapping U+212A and
  U+0130 to ASCII letters in UnbindURI, is modelled in `lowerURI`).

  Table-like facts come from `Gen/Cpe.lean` (regenerated from the sources):
  the attribute comparison table of `Compare`, the two `strings.NewReplacer`
  argument lists, `disallow`, the prefixes and the attribute index lists.

  Core Lean only (the driver executable links this file).
-/
import ClairModel.Lib.CpeTypes
import ClairModel.Gen.Cpe

namespace ClairModel.Cpe
open ClairModel.CpeTypes

abbrev Str := List Nat

/-- `cpe.Value`: the kind and the string (meaningful for `set`; the Go struct
    carries a string for every kind and `WFN.Valid` validates it regardless). -/
structure Value where
  kind : Kind
  v : Str
  deriving DecidableEq, Repr

/-- `cpe.WFN`: the attribute array (eleven entries in the Go type). -/
abbrev WFN := List Value

/-! ### wfn.go -/

/-- `reserved(r)`: not an ASCII letter, digit or underscore. -/
def reserved (c : Nat) : Bool :=
  (c < 48 || c > 57) && (c < 65 || c > 90) && (c < 97 || c > 122) && c != 95

/-- ASCII part of `unicode.IsSpace`. -/
def isSpace (c : Nat) : Bool := c == 32 || (9 ≤ c && c ≤ 13)

/-- The three whole-string checks at the top of `validate`: valid UTF-8, no
    rune ≥ unicode.MaxASCII (0x7F), no space.  On bytes: every byte < 0x7F and
    not a space (an invalid or non-ASCII encoding contains a byte ≥ 0x80). -/
def preOk (s : Str) : Bool := s.all fun c => c < 127 && !isSpace c

/-- Scanner state of `validate`: `esc`, `qRun`, `atStart`. -/
structure VSt where
  esc : Bool
  qRun : Bool
  atStart : Bool
  deriving DecidableEq, Repr

/-- The statements after the `switch` in the loop body of `validate`. -/
def vtail (st : VSt) (c : Nat) : Option VSt :=
  if c ≠ 63 ∨ st.esc = true then
    if st.qRun && !st.atStart then none else some ⟨false, false, false⟩
  else some { st with esc := false }

/-- One iteration of the loop of `validate` at byte index `i` of a string of
    length `n`; `none` = an error is returned. -/
def vstep (n i : Nat) (st : VSt) (c : Nat) : Option VSt :=
  if c = 92 then
    if st.esc then vtail st c else some { st with esc := true }
  else if c = 42 then
    if st.esc then vtail st c
    else if i ≠ 0 ∧ i + 1 ≠ n then none else vtail st c
  else if c = 63 then
    if st.esc then vtail st c else vtail { st with qRun := true } c
  else
    if reserved c && !st.esc then none else vtail st c

/-- The loop of `validate` and the dangling-escape check after it. -/
def vscan (n : Nat) : Nat → VSt → Str → Bool
  | _, st, [] => !st.esc
  | i, st, c :: rest =>
    match vstep n i st c with
    | none => false
    | some st' => vscan n (i + 1) st' rest

def vInit : VSt := ⟨false, false, true⟩

/-- `validate(s) == nil`. -/
def validate (s : Str) : Bool :=
  preOk s && s != [42] && s != [92, 45] && vscan s.length 0 vInit s

inductive ValidRes where
  | ok | errUnset | err
  deriving DecidableEq, Repr

/-- One iteration of the loop of `WFN.Valid` returns no error: the string is
    validated whatever the kind, and a set value is not the empty string. -/
def attrOk (a : Value) : Bool := validate a.v && !(a.kind == .set && a.v.isEmpty)

/-- `WFN.Valid`. -/
def valid (w : WFN) : ValidRes :=
  if !(w.all attrOk) then .err
  else if w.all (fun a => a.kind == .unset) then .errUnset
  else match w.head? with
    | some p => if p.kind == .set && !(p.v == [97] || p.v == [111] || p.v == [104]) then .err else .ok
    | none => .ok

/-! ### bind.go -/

/-- Lookup in a replacer table by exact key. -/
def lookupKey (tbl : List (Str × Str)) (k : Str) : Option Str :=
  (tbl.find? fun p => p.1 == k).map (·.2)

/-- `valueString.WriteString`: the generic `strings.Replacer` over two-byte
    keys that all start with a backslash (expectation theorem
    `valueString_keys`): at each position the key `\d` is looked up. -/
def bindVal : Str → Str
  | [] => []
  | [c] => [c]
  | c :: d :: rest =>
    if c = 92 then
      match lookupKey Gen.Cpe.valueString [92, d] with
      | some r => r ++ bindVal rest
      | none => 92 :: bindVal (d :: rest)
    else c :: bindVal (d :: rest)

/-- `(*Value).bind`. -/
def bindValue (a : Value) : Str :=
  match a.kind with
  | .unset | .any => [42]
  | .na => [45]
  | .set => bindVal a.v

/-- "cpe:2.3" -/
def fsHead : Str := [99, 112, 101, 58, 50, 46, 51]

/-- `WFN.BindFS`. -/
def bindFS (w : WFN) : Str := fsHead ++ w.flatMap fun a => 58 :: bindValue a

/-- `WFN.String`. -/
def wfnString (w : WFN) : Str :=
  match valid w with
  | .errUnset => []
  | _ => bindFS w

/-- `(*WFN).MarshalText` / `Value`: `none` = error. -/
def marshalText (w : WFN) : Option Str :=
  match valid w with
  | .ok => some (bindFS w)
  | .errUnset => some []
  | .err => none

/-! ### unbind.go, formatted string -/

def consHead (c : Nat) : List Str → List Str
  | h :: t => (c :: h) :: t
  | [] => [[c]]

/-- `splitFS` started in escape state `esc`. -/
def splitFSAux (esc : Bool) : Str → List Str
  | [] => [[]]
  | c :: rest =>
    if c = 92 ∧ esc = false then consHead c (splitFSAux true rest)
    else if c = 58 ∧ esc = false then [] :: splitFSAux false rest
    else consHead c (splitFSAux false rest)

def splitFS (s : Str) : List Str := splitFSAux false s

/-- `unbindFSValue` started in escape state `esc`. -/
def unbindFSValAux (esc : Bool) : Str → Str
  | [] => []
  | c :: rest =>
    if c = 92 ∧ esc = false then 92 :: unbindFSValAux true rest
    else if c = 42 ∨ c = 63 then c :: unbindFSValAux false rest
    else if esc = true ∨ reserved c = false then c :: unbindFSValAux false rest
    else 92 :: c :: unbindFSValAux false rest

def unbindFSVal (s : Str) : Str := unbindFSValAux false s

/-- `(*Value).unbindFS`. -/
def unbindFSAttr (s : Str) : Value :=
  if s = [] then ⟨.unset, []⟩
  else if s = [45] then ⟨.na, []⟩
  else if s = [42] then ⟨.any, []⟩
  else ⟨.set, unbindFSVal s⟩

def unsetValue : Value := ⟨.unset, []⟩

/-- `UnbindFS`; `none` = an error is returned. -/
def unbindFS (s : Str) : Option WFN :=
  if !(Gen.Cpe.cpe23Prefix.isPrefixOf s) then none else
  let comps := (splitFS s).drop 2
  if comps.length > Gen.Cpe.numAttr then none else
  let w := comps.map unbindFSAttr ++ List.replicate (Gen.Cpe.numAttr - comps.length) unsetValue
  match valid w with
  | .ok => some w
  | _ => none

/-! ### unbind.go, URI -/

/-- `strings.Split(s, sep)` for a one-byte separator. -/
def splitOn (sep : Nat) : Str → List Str
  | [] => [[]]
  | c :: rest => if c = sep then [] :: splitOn sep rest else consHead c (splitOn sep rest)

/-- `strings.SplitN(s, sep, n)` for a one-byte separator. -/
def splitN (sep : Nat) : Str → Nat → List Str
  | [], n => if n = 0 then [] else [[]]
  | c :: rest, n =>
    if n = 0 then []
    else if n = 1 then [c :: rest]
    else if c = sep then [] :: splitN sep rest (n - 1)
    else consHead c (splitN sep rest n)

def lowerC (c : Nat) : Nat := if 65 ≤ c ∧ c ≤ 90 then c + 32 else c

/-- ASCII `strings.ToLower` (also the ASCII part of `strings.EqualFold`). -/
def lower (s : Str) : Str := s.map lowerC

/-- `strings.ToLower` on a byte string: besides A–Z, the Kelvin sign U+212A
    (E2 84 AA) lowers to `k` and U+0130 (C4 B0) to `i`.  Since /repo 33457076
    `unbindURI` lower-cases ASCII strings only, where this is `lower`; the two
    non-ASCII cases are kept so that the model says what `ToLower` would do. -/
def lowerURI : Str → Str
  | [] => []
  | [c] => [lowerC c]
  | [c, d] => if c = 196 ∧ d = 176 then [105] else lowerC c :: lowerURI [d]
  | c :: d :: e :: rest =>
    if c = 226 ∧ d = 132 ∧ e = 170 then 107 :: lowerURI rest
    else if c = 196 ∧ d = 176 then 105 :: lowerURI (e :: rest)
    else lowerC c :: lowerURI (d :: e :: rest)

/-- `valueURI.WriteString`: the generic replacer over keys of one byte or of
    the form `%xy` (expectation theorem `valueURI_keys`). -/
def uriDecode : Str → Str
  | [] => []
  | c :: a :: b :: rest =>
    match lookupKey Gen.Cpe.valueURI [c] with
    | some r => r ++ uriDecode (a :: b :: rest)
    | none =>
      match lookupKey Gen.Cpe.valueURI [c, a, b] with
      | some r => r ++ uriDecode rest
      | none => c :: uriDecode (a :: b :: rest)
  | c :: rest =>
    match lookupKey Gen.Cpe.valueURI [c] with
    | some r => r ++ uriDecode rest
    | none => c :: uriDecode rest

/-- `(*Value).unbindURI`; `none` = error. -/
def unbindURIAttr (s : Str) : Option Value :=
  if s = [] then some ⟨.any, []⟩
  else if s = [45] then some ⟨.na, []⟩
  else if s.any (fun c => decide (127 ≤ c)) then none  -- a rune ≥ unicode.MaxASCII, or invalid UTF-8
  else
    let l := lowerURI s
    if l.any (fun c => Gen.Cpe.uriDisallow.contains c) then none
    else some ⟨.set, uriDecode l⟩

/-- The inner loop over the packed edition component. -/
def uriPacked : List Str → List Nat → WFN → Option WFN
  | [], _, w => some w
  | _ :: _, [], _ => none
  | c :: cs, a :: as, w =>
    match unbindURIAttr c with
    | none => none
    | some v => uriPacked cs as (w.set a v)

/-- The loop over `comp[1:]` of `UnbindURI`. -/
def uriLoop : Nat → List Str → WFN → Option WFN
  | _, [], w => some w
  | i, c :: rest, w =>
    match Gen.Cpe.uriAttrs[i]? with
    | none => none
    | some a =>
      if i = 5 ∧ c.head? = some 126 then
        match uriPacked ((splitN 126 c 6).drop 1) Gen.Cpe.uriPackedAttrs w with
        | none => none
        | some w' => uriLoop (i + 1) rest w'
      else
        match unbindURIAttr c with
        | none => none
        | some v => uriLoop (i + 1) rest (w.set a v)

def uriInit : WFN :=
  (List.range Gen.Cpe.numAttr).map fun i =>
    if Gen.Cpe.uriAttrs.contains i then ⟨.any, []⟩ else unsetValue

/-- `strings.TrimPrefix(s, "/")`. -/
def trimSlash : Str → Str
  | 47 :: r => r
  | s => s

/-- `UnbindURI`; `none` = an error is returned. -/
def unbindURI (s : Str) : Option WFN :=
  if !(Gen.Cpe.cpe22Prefix.isPrefixOf s) then none else
  match (splitOn 58 s).drop 1 with
  | [] => none
  | c1 :: rest =>
    match uriLoop 0 (trimSlash c1 :: rest) uriInit with
    | none => none
    | some w =>
      match valid w with
      | .ok => some w
      | _ => none

/-- `Unbind`. -/
def unbind (s : Str) : Option WFN :=
  if Gen.Cpe.cpe22Prefix.isPrefixOf s then unbindURI s
  else if Gen.Cpe.cpe23Prefix.isPrefixOf s then unbindFS s
  else none

/-! ### marshaling.go, wfn.go NewValue -/

/-- `(*WFN).UnmarshalText(b)` on the receiver `w0`: the receiver afterwards,
    `none` = an error is returned.  Empty input gives the unset name whatever
    the receiver held (/repo 498444fa; it used to leave the receiver). -/
def unmarshalText (_w0 : WFN) (b : Str) : Option WFN :=
  if b = [] then some (List.replicate 11 unsetValue) else unbind b

/-- `(*WFN).Scan` of a string or of bytes on the receiver `w0`: empty input
    "does not error and leaves the WFN in its current state" (documented). -/
def scanText (w0 : WFN) (b : Str) : Option WFN := if b = [] then some w0 else unbind b

/-- The receiver after `UnmarshalText` / `Scan` and whether the call succeeded:
    a text that is rejected leaves the receiver untouched (/repo e515da9a). -/
def intoReceiver (w0 : WFN) (r : Option WFN) : WFN × Bool :=
  match r with
  | some w => (w, true)
  | none => (w0, false)

/-- `NewValue(v)` succeeds. -/
def newValueOk (v : Str) : Bool := validate v && !v.isEmpty

/-! ### match.go -/

/-- `hasWildcard` started in escape state `esc`. -/
def hasWildcardAux (esc : Bool) : Str → Bool
  | [] => false
  | c :: rest =>
    if esc then hasWildcardAux false rest
    else if c = 92 then hasWildcardAux true rest
    else if c = 42 ∨ c = 63 then true
    else hasWildcardAux false rest

def hasWildcard (s : Str) : Bool := hasWildcardAux false s

/-- Leading wildcard of a pattern: `none` = `*` (any number of characters),
    `some n` = a run of `n` question marks (n may be 0); and the remainder. -/
def stripLead : Str → Option Nat × Str
  | 42 :: r => (none, r)
  | s =>
    let r := s.dropWhile (· == 63)
    (some (s.length - r.length), r)

/-- Trailing wildcard, same encoding. -/
def stripTrail (s : Str) : Option Nat × Str :=
  let p := stripLead s.reverse
  (p.1, p.2.reverse)

def fits (w : Option Nat) (k : Nat) : Bool :=
  match w with
  | none => true
  | some n => k ≤ n

/-- The loop of `patCompare` over the start index `idx`; `t` is the target
    from `idx` on. -/
def patLoop (pref suf : Option Nat) (core : Str) : Nat → Str → Bool
  | idx, t =>
    if core.length ≤ t.length then
      (core.isPrefixOf t && fits pref idx && fits suf (t.length - core.length)) ||
        (match t with
         | [] => false
         | _ :: t' => patLoop pref suf core (idx + 1) t')
    else false

/-- `wildTail(s)` started in escape state `esc`, as the split `(s[:cut], s[cut:])`:
    the second part is the trailing run of unquoted special characters. -/
def splitTail (esc : Bool) : Str → Str × Str
  | [] => ([], [])
  | c :: rest =>
    let r := splitTail (!esc && c == 92) rest
    if !esc && (c == 42 || c == 63) && r.1.isEmpty then ([], c :: r.2) else (c :: r.1, r.2)

/-- The second `switch` of `patCompare`: the trailing wildcard is looked for in
    the unquoted tail only. -/
def stripTrailQ (s : Str) : Option Nat × Str :=
  let sp := splitTail false s
  let q := stripTrail sp.2
  (q.1, sp.1 ++ q.2)

/-- `unquote` started in escape state `esc`: the quoting backslashes removed. -/
def unquoteAux (esc : Bool) : Str → Str
  | [] => []
  | c :: rest =>
    if esc then c :: unquoteAux false rest
    else if c = 92 then unquoteAux true rest
    else c :: unquoteAux false rest

def unquote (s : Str) : Str := unquoteAux false s

/-- `patCompare(s, t)`. -/
def patCompare (s t : Str) : Bool :=
  let s := lower s
  let t := lower t
  let l := stripLead s
  let r := stripTrailQ l.2
  patLoop l.1 r.1 (unquote r.2) 0 (unquote t)

/-- `strings.EqualFold` on ASCII strings. -/
def equalFold (s t : Str) : Bool := lower s == lower t

def lookupRow (sk : Kind) (sw : Bool) (tk : Kind) (tw : Bool) : Option Out :=
  (Gen.Cpe.compareTable.find? fun r => r.srcKind == sk && r.srcWild == sw && r.tgtKind == tk && r.tgtWild == tw).map (·.out)

/-- One iteration of the loop of `Compare`, through the extracted table. -/
def cmpAttr (s t : Value) : Rel :=
  match lookupRow s.kind (hasWildcard s.v) t.kind (hasWildcard t.v) with
  | some (.rel r) => r
  | some (.pat a b) => if patCompare s.v t.v then a else b
  | some (.fold a b) => if equalFold s.v t.v then a else b
  | none => Gen.Cpe.zeroRelation

/-- `Compare`. -/
def compare (src tgt : WFN) : List Rel := List.zipWith cmpAttr src tgt

def isSuperset (rs : List Rel) : Bool := rs.all fun r => r == .equal || r == .superset
def isSubset (rs : List Rel) : Bool := rs.all fun r => r == .equal || r == .subset
def isEqual (rs : List Rel) : Bool := rs.all fun r => r == .equal
def isDisjoint (rs : List Rel) : Bool := rs.any fun r => r == .disjoint

/-! ### rhel/matcher.go -/

/-- `strings.TrimRight(s, ":*")`. -/
def trimRightColonStar (s : Str) : Str :=
  (s.reverse.dropWhile fun c => c == 58 || c == 42).reverse

/-- `isCPESubstringMatch(recordCPE, vulnCPE)`. -/
def substringMatch (record vuln : WFN) : Bool :=
  (trimRightColonStar (wfnString vuln)).isPrefixOf (wfnString record)

/-- The CPE condition of `Matcher.Vulnerable`: the advisory CPE is the source. -/
def gate (vuln record : WFN) : Bool :=
  isSuperset (compare vuln record) || substringMatch record vuln

/-- One call of `Matcher.Vulnerable`, as far as CPEs go, on a vulnerability
    whose repository has the name `name` and holds the CPE `held` (left by an
    earlier call or put there by the caller) against a record whose repository
    CPE is `record`: the verdict, and the CPE the vulnerability's repository
    holds afterwards (`Vulnerable` stores what `Repo.Name` unbinds to; `none`:
    the name did not unbind — what is stored then is not modelled).  `held` is
    not read. -/
def vulnCall (name : Str) (_held : WFN) (record : WFN) : Bool × Option WFN :=
  match unbind name with
  | none => (false, none)
  | some v => (gate v record, some v)

/-- A history on ONE `*Vulnerability` / `*Repository` / `*IndexRecord`: the
    caller changes fields between calls. -/
inductive VOp where
  | name (s : Str)
  | held (w : WFN)
  | record (w : WFN)
  | call

structure HSt where
  name : Str
  held : WFN
  record : WFN

def vInitSt : HSt := ⟨[], List.replicate 11 unsetValue, List.replicate 11 unsetValue⟩

def vOpStep (st : HSt) : VOp → HSt × Option Bool
  | .name s => ({ st with name := s }, none)
  | .held w => ({ st with held := w }, none)
  | .record w => ({ st with record := w }, none)
  | .call =>
    let r := vulnCall st.name st.held st.record
    ({ st with held := r.2.getD st.held }, some r.1)

/-- The verdicts of the calls of a history, in order. -/
def vRun : HSt → List VOp → List Bool
  | _, [] => []
  | st, op :: ops =>
    let r := vOpStep st op
    match r.2 with
    | some b => b :: vRun r.1 ops
    | none => vRun r.1 ops

end ClairModel.Cpe
