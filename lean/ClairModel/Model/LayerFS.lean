/-
  C01 — layered file systems: the OCI layer semantics (`flatten`), the scanners as
  parameters, the per-layer artifacts the indexer works from, and the composed
  model of `Index` on a layer stack.

  A layer is a list of (clean relative path, entry).  `present` is the lookup
  semantics of applying layers in order:  the newest layer that has a regular
  file at `q` decides; a layer hides what lower layers left at `q` when it
  carries a whiteout covering `q` (`.wh.x` removes `x` and everything below,
  `.wh..wh..opq` removes everything below its directory), a regular file at an
  ancestor of `q`, any entry below `q`, or a directory at `q`.
  The Go harness has the same definition as a list-building function
  (go/internal/c01/image.go `flatten`); the two are compared on every generated
  stack (`flat` lines).  Core Lean only.
-/
import ClairModel.Model.Coalesce

namespace ClairModel.LayerFS
open ClairModel.Coalesce

inductive Entry where
  | file (content : String)
  | dir
deriving DecidableEq, Repr, Inhabited

/-- one image layer: digest and entries -/
structure FSLayer where
  hash : String
  entries : List (String × Entry)
deriving Repr, Inhabited

/-- `q` lies strictly below directory `p` -/
def under (q p : String) : Bool := (p ++ "/").toList.isPrefixOf q.toList

def opqName : String := ".wh..wh..opq"

/-- the entry is a whiteout marker (a regular file whose base name starts with `.wh.`) -/
def isWhiteout (p : String) : Bool := whPrefix.isPrefixOf (base p).toList

/-- the whiteout entry `w` removes path `q` of the lower layers (OCI image spec, "Whiteouts") -/
def covers (w q : String) : Bool :=
  let d := dir w
  let b := base w
  if b = opqName then d = "." || under q d
  else
    let t := join2 d (String.ofList (b.toList.drop 4))
    q = t || under q t

/-- content of the regular, non-whiteout file at `q` in the layer -/
def fileOf (l : FSLayer) (q : String) : Option String :=
  match l.entries.find? (fun e => e.1 = q) with
  | some (_, .file c) => if isWhiteout q then none else some c
  | _ => none

/-- whiteout entries of a layer (what whiteout.Scanner reports) -/
def whiteoutsOf (l : FSLayer) : List String :=
  l.entries.filterMap fun e => match e.2 with
    | .file _ => if isWhiteout e.1 then some e.1 else none
    | .dir => if isWhiteout e.1 then some e.1 else none

/-- whiteouts that act in `flatten`: regular files only -/
def whiteoutFiles (l : FSLayer) : List String :=
  l.entries.filterMap fun e => match e.2 with
    | .file _ => if isWhiteout e.1 then some e.1 else none
    | .dir => none

/-- the layer removes what lower layers left at `q` -/
def hides (l : FSLayer) (q : String) : Bool :=
  (whiteoutFiles l).any (fun w => covers w q) ||
  l.entries.any (fun e =>
    (match e.2 with
      | .file _ => !isWhiteout e.1 && under q e.1      -- a file replaces a directory tree
      | .dir => e.1 = q) ||                             -- a directory replaces a file
    (!(isWhiteout e.1 && e.2 != .dir) && under e.1 q))  -- something below `q`: `q` is a directory now

/-- lookup in the stack, newest layer first -/
def presentRev : List FSLayer → String → Option String
  | [], _ => none
  | l :: older, q =>
    match fileOf l q with
    | some c => some c
    | none => if hides l q then none else presentRev older q

/-- content of `q` in the image obtained by applying `layers` in order -/
def present (layers : List FSLayer) (q : String) : Option String := presentRev layers.reverse q

def dedup : List String → List String
  | [] => []
  | x :: xs => if xs.contains x then dedup xs else x :: dedup xs

/-- every path that is a regular file in some layer -/
def filePaths (layers : List FSLayer) : List String :=
  dedup (layers.flatMap fun l => l.entries.filterMap fun e => match e.2 with
    | .file _ => some e.1
    | .dir => none)

/-- the flattened image as a list of regular files -/
def flatten (layers : List FSLayer) : List (String × String) :=
  (filePaths layers).filterMap fun q => (present layers q).map fun c => (q, c)

/-! ### the scanners (parameters) and the indexer on a layer stack -/

/-- The scanners, abstractly.  `osDbs`: paths of the OS package databases (one linux
    ecosystem each: dpkg's `var/lib/dpkg/status`, apk's `lib/apk/db/installed`, …);
    `rhelDbs`: the same for ecosystems coalesced by `rhel.Coalescer`;
    `scanDB d content`: the packages an OS database scanner reads out of the file;
    `scanFile path content`: what the language scanners make of one regular file
    (python METADATA, package.json, gemspec, jar). -/
structure Scanners where
  osDbs : List String
  /-- databases of an ecosystem that uses `rhel.Coalescer` (rpm on RHEL), one ecosystem each -/
  rhelDbs : List String := []
  scanDB : String → String → List Pkg
  scanFile : String → String → Option Pkg

/-- every OS package database path -/
def Scanners.allDbs (S : Scanners) : List String := S.osDbs ++ S.rhelDbs

/-- OS packages carry the database path and no file path. -/
def osPkgsOf (S : Scanners) (d c : String) : List Pkg := (S.scanDB d c).map fun p => { p with db := d, fp := "" }

/-- one language package: `Filepath` is the file it was read from -/
def langPkgAt (S : Scanners) (q c : String) : Option Pkg := (S.scanFile q c).map fun p => { p with fp := q }

/-- what the OS scanner of database `d` stores for one layer, scanned in isolation -/
def osArts (S : Scanners) (d : String) (l : FSLayer) : Layer :=
  { hash := l.hash, pkgs := match fileOf l d with | some c => osPkgsOf S d c | none => [] }

def langPkgs (S : Scanners) (l : FSLayer) : List Pkg :=
  l.entries.filterMap fun e => match e.2 with
    | .file c => if isWhiteout e.1 then none else langPkgAt S e.1 c
    | .dir => none

def defaultRepo : Repo := { id := "R", name := "default", key := "", uri := "" }

/-- language ecosystem: `LayerScanner` stores the scanner's default repository whenever it found a package -/
def langArts (S : Scanners) (l : FSLayer) : Layer :=
  { hash := l.hash, pkgs := langPkgs S l, repos := if (langPkgs S l).isEmpty then [] else [defaultRepo] }

def whArts (l : FSLayer) : Layer :=
  { hash := l.hash, files := (whiteoutsOf l).map fun w => { path := w, kind := whiteoutKind } }

/-- the per-ecosystem artifact lists, packed per manifest layer as `controller.coalesce` does -/
def ecosOf (S : Scanners) (layers : List FSLayer) : List (Kind × List Layer) :=
  ((S.osDbs.map fun d => (Kind.linux, layers.map (osArts S d))) ++
   (S.rhelDbs.map fun d => (Kind.rhel, layers.map (osArts S d)))) ++
    [(Kind.lang, layers.map (langArts S)), (Kind.wh, layers.map whArts)]

/-- `Index` on a layer stack: every layer scanned in isolation, then coalesce, MergeSR, resolve -/
def indexModel (S : Scanners) (layers : List FSLayer) : Option Report :=
  indexCoalesce (layers.map (·.hash)) (ecosOf S layers)

/-- the same scanners on the single flattened file system -/
def scanImage (S : Scanners) (layers : List FSLayer) : List Pkg :=
  (S.allDbs.flatMap fun d => match present layers d with | some c => osPkgsOf S d c | none => []) ++
    (flatten layers).filterMap fun qc => langPkgAt S qc.1 qc.2

/-! ### the (decidable) hypothesis of the composition theorem, executable

  `tameB` is the Boolean form of `Tame` (Proofs/LayerFS.lean, `tameB_iff`); the driver
  evaluates it on the abstraction of every generated history. -/

def tameB (S : Scanners) (layers : List FSLayer) : Bool :=
  decide (∀ l ∈ layers, (whiteoutsOf l ≠ [] ∨ langPkgs S l ≠ []) → (layers.map (·.hash)).count l.hash = 1) &&
  decide (∀ l ∈ layers, (l.entries.map (·.1)).Nodup) &&
  decide (∀ l ∈ layers, (whiteoutsOf l).length ≤ 1 ∧ whiteoutsOf l = whiteoutFiles l) &&
  decide (∀ l ∈ layers, ∀ w ∈ whiteoutsOf l, ¬ (base w = opqName ∧ dir w = ".")) &&
  decide (∀ l ∈ layers, ∀ l' ∈ layers, ∀ p ∈ langPkgs S l', hides l p.fp = (whiteoutFiles l).any fun w => covers w p.fp) &&
  decide (∀ d ∈ S.allDbs, ∀ l ∈ layers, hides l d = false ∧ ∀ c ∈ fileOf l d, S.scanDB d c ≠ []) &&
  decide (layers.Pairwise fun l l' => ∀ e ∈ l.entries, ∀ c ∈ fileOf l e.1, ∀ p ∈ S.scanFile e.1 c,
      ∀ c' ∈ fileOf l' e.1, (∃ p' ∈ S.scanFile e.1 c', p'.id = p.id) ∨ hides l' e.1 = true) &&
  decide (∀ l ∈ layers, ∀ l' ∈ layers, ∀ p ∈ langPkgs S l, ∀ p' ∈ langPkgs S l', p.id = p'.id → p.fp = p'.fp) &&
  decide (∀ d ∈ S.allDbs, ∀ l ∈ layers, ∀ c ∈ fileOf l d, ∀ p ∈ S.scanDB d c,
      ∀ l' ∈ layers, ∀ p' ∈ langPkgs S l', p.id ≠ p'.id)

/-! ### line protocol: `flat layer|layer|…`, layer = `-` or `path:d,path:cN,…` -/

def parseEntry (s : String) : Option (String × Entry) :=
  match s.splitOn ":" with
  | [p, "d"] => some (p, .dir)
  | [p, c] => some (p, .file c)
  | _ => none

def parseFSLayer (s : String) : Option FSLayer :=
  if s = "-" then some { hash := "", entries := [] }
  else (s.splitOn ",").mapM parseEntry |>.map fun es => { hash := "", entries := es }

def flatLine (s : String) : String :=
  match (s.splitOn "|").mapM parseFSLayer with
  | none => "bad-op"
  | some layers =>
    let out := (flatten layers).map fun (p, c) => p ++ ":" ++ c
    let sorted := out.mergeSort fun a b => !(b < a)
    if sorted.isEmpty then "-" else ",".intercalate sorted

/-! ### line protocol: `e2e <dbs> <table> <stack>` — the whole model against the real indexer

  table  = `-` | entry `,` entry …      `O~<content>~<id>+<id>…`   what the OS scanner reads out of a database content
                                         `F~<path>~<content>~<id>~<db>`   the language package found in a file
  stack  = layer `|` layer …,  layer = `<hash>;<entries>` (entries as in `flat`)
  answer = `tame=<bool> idx=<id@db,…> img=<id@db,…>`
-/

def mkPkg (id db : String) : Pkg :=
  { id := id, name := id, version := "", kind := "", arch := "", src := "", db := db, fp := "" }

structure ScanTable where
  os : List (String × List String) := []
  files : List ((String × String) × (String × String)) := []

def parseTableEntry (t : ScanTable) (s : String) : Option ScanTable :=
  match s.splitOn "~" with
  | ["O", c, ids] => some { t with os := t.os ++ [(c, if ids = "" then [] else ids.splitOn "+")] }
  | ["F", q, c, id, db] => some { t with files := t.files ++ [((q, c), (id, db))] }
  | _ => none

def parseTable (s : String) : Option ScanTable :=
  if s = "-" then some {} else (s.splitOn ",").foldlM parseTableEntry {}

def tableScanners (dbs : List String) (t : ScanTable) : Scanners where
  osDbs := dbs
  scanDB := fun d c => ((t.os.find? fun e => e.1 = c).map fun e => e.2.map fun id => mkPkg id d).getD []
  scanFile := fun q c => (t.files.find? fun e => e.1.1 = q ∧ e.1.2 = c).map fun e => mkPkg e.2.1 e.2.2

def parseHashedLayer (s : String) : Option FSLayer :=
  match s.splitOn ";" with
  | [h, es] => (parseFSLayer es).map fun l => { l with hash := h }
  | _ => none

def sortDedup (xs : List String) : List String :=
  let sorted := xs.mergeSort fun a b => !(b < a)
  sorted.foldr (fun x acc => match acc with | y :: _ => if x = y then acc else x :: acc | [] => [x]) []

def e2eLine (dbs table stack : String) : String :=
  match parseTable table, (stack.splitOn "|").mapM parseHashedLayer with
  | some t, some layers =>
    let S := tableScanners (if dbs = "-" then [] else dbs.splitOn ",") t
    let idx := match indexModel S layers with
      | none => "fail"
      | some r => ",".intercalate (sortDedup (r.envs.flatMap fun (ie : String × List Env) => ie.2.map fun (e : Env) => ie.1 ++ "@" ++ e.db))
    let img := ",".intercalate (sortDedup ((scanImage S layers).map fun (p : Pkg) => p.id ++ "@" ++ p.db))
    s!"tame={tameB S layers} idx={idx} img={img}"
  | _, _ => "bad-op"

end ClairModel.LayerFS
